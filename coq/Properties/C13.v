(* C13 OPEN / CLOSE / CLEAR present the ledger as a period report preserving balances.
   Statements only; proofs in Proofs/SummarizeProofs.v, model in Model/Summarize.v.

   Vocabulary: [prepare_c o op cl clr l] is BeanTable.prepare on the ledger [l] with the
   option accounts [o], OPEN ON [op] (None = absent), CLOSE [cl] (None = absent,
   Some CloseAll = CLOSE without a date, Some (CloseOn e) = CLOSE ON e) and CLEAR [clr].
   [units_total a k] = units of lot k = (currency, cost) on account a summed over the
   postings (what `sum(position)` shows per account); [cost_total sel c] = value at cost in
   currency c of the accounts selected by sel (what `sum(cost(position))` shows).
   [sorted_dates l]: the loader returns entries sorted by date.
   [check_dates op cl = FromOk]: the statement passed the compile-time date check. *)
From Coq Require Import ZArith List Bool.
Import ListNotations.
From Verif Require Import Base.StableSort Model.Summarize Proofs.SummarizeProofs.
(* bld-compiler3: the tie of Compiler._compile_from (end of this file); required here, imported there *)
From Verif Require Model.Compile Model.PrimsApi Model.PrimsCompiler Model.PrimsSelect Gen.SrcFrom Proofs.SrcFrom.
Open Scope Z_scope.

(* ---- beanquery: prepare, compile check, shell default ---- *)

(* the clauses apply in the fixed order OPEN, CLOSE, CLEAR, whatever the operations are *)
Theorem C13_fixed_order : forall (E : Type) (f_open : Z -> E -> E) (f_close : option Z -> E -> E)
    (f_clear : E -> E) (d e : Z) (x : E),
  prepare E f_open f_close f_clear (Some d) (Some (CloseOn e)) true x = f_clear (f_close (Some e) (f_open d x)) /\
  prepare E f_open f_close f_clear (Some d) (Some CloseAll) true x = f_clear (f_close None (f_open d x)) /\
  prepare E f_open f_close f_clear (Some d) (Some (CloseOn e)) false x = f_close (Some e) (f_open d x) /\
  prepare E f_open f_close f_clear (Some d) None true x = f_clear (f_open d x) /\
  prepare E f_open f_close f_clear None (Some (CloseOn e)) true x = f_clear (f_close (Some e) x).
Proof. intros. repeat split. Qed.
Print Assumptions C13_fixed_order.

(* each clause is applied only when requested *)
Theorem C13_absent_clauses_identity : forall (E : Type) f_open f_close f_clear (x : E),
  prepare E f_open f_close f_clear None None false x = x.
Proof. reflexivity. Qed.
Print Assumptions C13_absent_clauses_identity.

(* the prepared entries do not depend on the FROM filter expression: the rows of
   `FROM expr OPEN.. CLOSE.. CLEAR` are the rows of `FROM OPEN.. CLOSE.. CLEAR` that satisfy expr *)
Theorem C13_filter_independent : forall o (expr : txn -> bool) op cl clr l,
  from_rows o expr op cl clr l = filter expr (from_rows o (fun _ => true) op cl clr l).
Proof.
  intros. unfold from_rows. f_equal. symmetry. apply filter_all. apply Forall_forall. reflexivity.
Qed.
Print Assumptions C13_filter_independent.

(* a FROM clause nested in another query (right operand of IN) derives its table from the table
   already derived for the enclosing query: update() sets all three qualifiers, the absent ones
   to None, so nothing of the enclosing OPEN / CLOSE / CLEAR is inherited *)
Theorem C13_nested_from_independent : forall (E : Type) f_open f_close f_clear (t : table E) o1 c1 r1 o2 c2 r2,
  table_update E (table_update E t o1 c1 r1) o2 c2 r2 = table_update E t o2 c2 r2 /\
  table_prepare E f_open f_close f_clear (table_update E (table_update E t o1 c1 r1) o2 c2 r2)
  = prepare E f_open f_close f_clear o2 c2 r2 (tb_entries E t).
Proof. intros. split; reflexivity. Qed.
Print Assumptions C13_nested_from_independent.

Theorem C13_close_before_open_rejected : forall d e, e < d ->
  check_dates (Some d) (Some (CloseOn e)) = FromCompilationError.
Proof. intros d e H. unfold check_dates. destruct (Z.ltb_spec e d); [reflexivity | exfalso; apply (Z.lt_irrefl d); apply (Z.le_lt_trans _ e); assumption]. Qed.
Print Assumptions C13_close_before_open_rejected.

(* ... and nothing else is rejected (CLOSE ON the OPEN date, CLOSE without a date, a missing clause) *)
Theorem C13_date_check_exact : forall op cl,
  check_dates op cl = FromCompilationError <-> exists d e, op = Some d /\ cl = Some (CloseOn e) /\ e < d.
Proof.
  intros op cl. unfold check_dates. split.
  - destruct op as [d|]; [|discriminate]. destruct cl as [[e|]|]; try discriminate.
    destruct (Z.ltb_spec e d); [|discriminate]. intros _. exists d, e. auto.
  - intros (d & e & -> & -> & H). destruct (Z.ltb_spec e d); [reflexivity|].
    exfalso; apply (Z.lt_irrefl d); apply (Z.le_lt_trans _ e); assumption.
Qed.
Print Assumptions C13_date_check_exact.

(* `.run name`: the date of the query directive is the CLOSE date exactly when the
   statement is a SELECT with a FROM clause without CLOSE *)
Theorem C13_shell_default_close : forall d c dflt,
  shell_close true None (Some d) = Some (CloseOn d) /\
  shell_close true (Some c) dflt = Some c /\
  shell_close true None None = None /\
  (forall cl, shell_close false cl dflt = cl).
Proof. intros. repeat split. Qed.
Print Assumptions C13_shell_default_close.

(* ---- the concrete summarize model ---- *)

(* no posting of an original transaction dated outside [d, e) is returned: whatever is
   returned and was not generated (flags S, T, C) is an entry of the ledger inside the window *)
Theorem C13_no_original_outside : forall o op cl clr l t,
  sorted_dates l -> check_dates op cl = FromOk ->
  In t (prepare_c o op cl clr l) -> synthetic t = false ->
  In t l /\ in_window op (close_date cl) t = true.
Proof. exact final_no_original_outside. Qed.
Print Assumptions C13_no_original_outside.

(* those inside are returned unchanged and in order *)
Theorem C13_inside_unchanged_in_order : forall o op cl clr l,
  sorted_dates l -> check_dates op cl = FromOk -> Forall (fun t => synthetic t = false) l ->
  filter (fun t => negb (synthetic t)) (prepare_c o op cl clr l) = filter (in_window op (close_date cl)) l.
Proof. exact final_inside_unchanged. Qed.
Print Assumptions C13_inside_unchanged_in_order.

(* generated entries only before and after the window *)
Theorem C13_shape : forall o op cl clr l, sorted_dates l -> check_dates op cl = FromOk ->
  exists pre post, prepare_c o op cl clr l = pre ++ filter (in_window op (close_date cl)) l ++ post /\
                   Forall (fun t => synthetic t = true) pre /\ Forall (fun t => synthetic t = true) post.
Proof.
  intros o op cl clr l Hs Hc. destruct (prepared_shape o op cl clr l Hc) as (pre & post & E & H).
  exists pre, post. rewrite <- (window_filter op cl l Hs). auto.
Qed.
Print Assumptions C13_shape.

(* the returned ledger is again sorted by date (each stage hands a sorted ledger to the next,
   which is what makes the library's bisect_left and its linear scans agree) *)
Theorem C13_result_sorted : forall o op cl clr l,
  sorted_dates l -> check_dates op cl = FromOk -> sorted_dates (prepare_c o op cl clr l).
Proof. exact prepared_sorted. Qed.
Print Assumptions C13_result_sorted.

(* every Assets / Liabilities account, every lot: total over the returned rows = balance
   as of e (ledger end without a CLOSE date) in the full ledger -- for every subset of clauses *)
Theorem C13_assets_liabilities_preserved : forall o op cl clr l a k,
  opts_equity o -> sorted_dates l -> check_dates op cl = FromOk ->
  is_balance_sheet_AL a = true ->
  units_total a k (prepare_c o op cl clr l) = units_total a k (filter (in_window None (close_date cl)) l).
Proof. intros. apply final_AL_units; assumption. Qed.
Print Assumptions C13_assets_liabilities_preserved.

Theorem C13_assets_liabilities_cost_preserved : forall o op cl clr l c,
  opts_equity o -> sorted_dates l -> check_dates op cl = FromOk ->
  cost_total is_balance_sheet_AL c (prepare_c o op cl clr l)
  = cost_total is_balance_sheet_AL c (filter (in_window None (close_date cl)) l).
Proof. intros. apply final_AL_cost; assumption. Qed.
Print Assumptions C13_assets_liabilities_cost_preserved.

(* the same for every account that is not Income/Expenses and not one of the five
   accounts named by the options (e.g. other Equity accounts) *)
Theorem C13_other_accounts_preserved : forall o op cl clr l a k,
  opts_equity o -> sorted_dates l -> check_dates op cl = FromOk ->
  is_income_statement a = false -> is_option_account o a = false ->
  units_total a k (prepare_c o op cl clr l) = units_total a k (filter (in_window None (close_date cl)) l).
Proof. intros. apply final_other_units; assumption. Qed.
Print Assumptions C13_other_accounts_preserved.

(* Income / Expenses carry only the activity since d (and before e) *)
Theorem C13_income_expenses_since_open : forall o op cl l a k,
  opts_equity o -> sorted_dates l -> check_dates op cl = FromOk ->
  is_income_statement a = true ->
  units_total a k (prepare_c o op cl false l) = units_total a k (filter (in_window op (close_date cl)) l).
Proof. intros. apply (final_IS_units o H op cl false); assumption. Qed.
Print Assumptions C13_income_expenses_since_open.

(* ... and total to zero with CLEAR *)
Theorem C13_clear_zeroes_income : forall o op cl l a k,
  opts_equity o -> sorted_dates l -> check_dates op cl = FromOk ->
  is_income_statement a = true ->
  units_total a k (prepare_c o op cl true l) = 0.
Proof. intros. apply (final_IS_units o H op cl true); assumption. Qed.
Print Assumptions C13_clear_zeroes_income.

Theorem C13_clear_zeroes_income_cost : forall o op cl l c,
  opts_equity o -> sorted_dates l -> check_dates op cl = FromOk ->
  cost_total is_income_statement c (prepare_c o op cl true l) = 0.
Proof. intros. apply (final_IS_cost o H c op cl true); assumption. Qed.
Print Assumptions C13_clear_zeroes_income_cost.

(* the difference is carried by Equity accounts: with CLOSE the value at cost of the whole
   returned ledger is zero in every currency, i.e. Equity = -(Assets+Liabilities as of e
   + Income/Expenses of the window, nothing with CLEAR) *)
Theorem C13_total_cost_zero_with_close : forall o op cs clr l c,
  check_dates op (Some cs) = FromOk ->
  cost_total all_accounts c (prepare_c o op (Some cs) clr l) = 0.
Proof. intros. rewrite prepared_cost_all by assumption. reflexivity. Qed.
Print Assumptions C13_total_cost_zero_with_close.

Theorem C13_equity_carries_difference : forall o op cs clr l c,
  opts_equity o -> sorted_dates l -> check_dates op (Some cs) = FromOk ->
  cost_total is_equity c (prepare_c o op (Some cs) clr l)
  = - (cost_total is_balance_sheet_AL c (filter (in_window None (close_date (Some cs))) l)
       + (if clr then 0 else cost_total is_income_statement c (filter (in_window op (close_date (Some cs))) l))).
Proof. intros. apply final_equity_difference; assumption. Qed.
Print Assumptions C13_equity_carries_difference.

(* every returned transaction still balances *)
Theorem C13_transactions_balance : forall o op cl clr l,
  check_dates op cl = FromOk -> Forall balanced l -> Forall balanced (prepare_c o op cl clr l).
Proof. exact prepared_balanced. Qed.
Print Assumptions C13_transactions_balance.

(* why the compile-time check matters: with CLOSE before OPEN the opening balances are
   truncated away and Assets are NOT preserved (witness) *)
Definition ex_opts : opts := mkOpts (Equity, 1) (Equity, 2) (Equity, 3) (Equity, 4) (Equity, 5) 99.
Definition ex_ledger : list txn :=
  [ mkT 10 42 1 [mkP (Assets, 0) 1000 1 None None; mkP (Income, 0) (-1000) 1 None None];
    mkT 20 42 2 [mkP (Assets, 1) 2 7 (Some (mkCost 100 1 20 0)) None; mkP (Assets, 0) (-200) 1 None None];
    mkT 30 42 3 [mkP (Assets, 0) (-110) 1 None None; mkP (Assets, 0) 100 2 None (Some (11, 1))];
    mkT 40 42 4 [mkP (Expenses, 0) 10 2 None None; mkP (Assets, 0) (-10) 2 None None];
    mkT 50 42 5 [mkP (Expenses, 0) 20 1 None None; mkP (Assets, 0) (-20) 1 None None] ].

Theorem C13_unchecked_dates_refuted :
  units_total (Assets, 0) (1, None) (prepare_c ex_opts (Some 45) (Some (CloseOn 25)) false ex_ledger)
  <> units_total (Assets, 0) (1, None) (filter (in_window None (Some 25)) ex_ledger).
Proof. vm_compute. discriminate. Qed.
Print Assumptions C13_unchecked_dates_refuted.

(* hypotheses are satisfiable, and the model run on the ledger of the probe in
   harness/vf/c13.py (dates as ordinals 10..50) gives the library's shape *)
Example ex_opts_equity : opts_equity ex_opts. Proof. repeat split. Qed.
Example ex_sorted : sorted_dates ex_ledger.
Proof. repeat constructor. Qed.
Example ex_run :
  map (fun t => (t_date t, t_flag t)) (prepare_c ex_opts (Some 25) (Some (CloseOn 45)) true ex_ledger)
  = [(24, 83); (24, 83); (24, 83); (30, 42); (40, 42); (44, 67); (44, 84)].
Proof. vm_compute. reflexivity. Qed.
Example ex_assets :
  units_total (Assets, 0) (1, None) (prepare_c ex_opts (Some 25) (Some (CloseOn 45)) true ex_ledger) = 690.
Proof. vm_compute. reflexivity. Qed.

(* ---- tie by translation: the SOURCE of query_env.BeanTable.prepare, translated into PyMini on every run
   (Gen/SrcLedgerPrepare.v), computes [prepare] - for every clause combination and every entries value, whatever the
   three operations are.  [summarize_ok]: summarize.open_opt / close_opt / clear_opt called with
   (entries, date, options) return (operation applied to the entries, some index).  The table attributes are
   open = a date or None, close = a date, True or None, clear = True or None. ---- *)
From Coq Require Import String.
From Verif Require Import Base.PyValue Model.PyMini Model.PrimsLedger Gen.SrcLedgerPrepare Proofs.SrcLedgerPrepare.

Theorem C13_source_prepare : forall (call_ref : nat -> list pv -> pv) (ext : string -> list pv -> PyMini.res pv)
    (E : Type) (f_open : Z -> E -> E) (f_close : option Z -> E -> E) (f_clear : E -> E) (enc : E -> pv) (opts : pv),
  summarize_ok ext E f_open f_close f_clear enc opts ->
  forall (o : option Z) (c : option close_spec) (clr : bool) (e : E),
  call_method call_ref (prims_ledger SrcLedgerPrepare.refs ext) src_prepare (table_fields E enc opts e o c clr) [] =
  Ok (table_fields E enc opts e o c clr, enc (prepare E f_open f_close f_clear o c clr e)).
Proof. exact prepare_src. Qed.
Print Assumptions C13_source_prepare.

(* the hypothesis is satisfiable, and the translated method run on a table with all three clauses *)
Example C13_source_prepare_example :
  call_method (fun _ _ => PNone) (prims_ledger SrcLedgerPrepare.refs demo_ext) src_prepare
    [("entries", PInt 7); ("options", PInt 0); ("open", PV (VDate 10)); ("close", PBool true); ("clear", PBool true)]%string []
  = Ok ([("entries", PInt 7); ("options", PInt 0); ("open", PV (VDate 10)); ("close", PBool true); ("clear", PBool true)]%string,
        PTuple [PV (VStr (Dates.s2z "beancount.ops.summarize.clear_opt")); PNone;
          PTuple [PV (VStr (Dates.s2z "beancount.ops.summarize.close_opt")); PNone;
            PTuple [PV (VStr (Dates.s2z "beancount.ops.summarize.open_opt")); PV (VDate 10); PInt 7]]]).
Proof. vm_compute. reflexivity. Qed.

(* ---- bld-compiler3: the compile-time half of OPEN / CLOSE / CLEAR.  Compiler._compile_from, translated into PyMini on
   every run (Gen/SrcFrom.v), with `x = self._compile(..)` read as `self.table, x = self._compile(self.table, ..)`
   (translator rule K12, Model/PrimsSelect.v).  A table is any value; hasattr(table, 'update') = [updatable table] and
   table.update(open=o, close=c, clear=x) = [upd table o c x] are uninterpreted. ---- *)
Module SF := Verif.Proofs.SrcFrom.
Import Verif.Model.PrimsApi Verif.Model.PrimsCompiler Verif.Model.PrimsSelect.

(* FROM <expression> OPEN ON op CLOSE [ON cl] CLEAR.  After the expression is compiled (leaving table t1), IN THIS ORDER:
   an aggregate is rejected; CLOSE before OPEN is rejected - only when both are dates (`CLOSE` alone is True and passes);
   a table without .update is rejected; then self.table := t1.update(open, close, clear) with EXACTLY the three
   qualifiers of the node, and the compiled expression is returned.  (Before the date check nothing was assigned but
   what _compile left; a rejected statement never derives a table.) *)
Theorem C13_source_compile_from_expr :
  forall (call_ref : nat -> list pv -> pv) (tbl : nat -> Compile.cnode) (kids : nat -> list nat)
         (mro : string -> list string) (msg : string -> list pv -> pv) (updatable : pv -> bool)
         (upd : pv -> pv -> pv -> pv -> pv) (t0 t1 : pv) (kC : nat) (tabs : list (pv * pv)) (rest : env)
         (ex clr : pv) (op : option Z) (cl : option (option Z)) (rexpr : Compile.result (option nat) Compile.cerr),
  call_ref kC [t0; ex] = SF.enc_res (fun oe => PTuple [t1; popt nref oe]) rexpr ->
  (forall i, call_ref SF.ka [nref i] = PBool (Compile.has_agg (tbl i))) ->
  call_method call_ref (prim_select tbl kids mro msg updatable upd) Verif.Gen.SrcFrom.compile_from
    (SF.flds kC tabs rest t0) [SF.FROMNODE ex clr op cl] =
  match rexpr with
  | Compile.Err e => Exc (CompErr e)
  | Compile.Ok oe =>
      if match oe with Some i => Compile.has_agg (tbl i) | None => false end then Exc (CompErr Compile.EAggInFrom)
      else if match op, cl with Some o, Some (Some c) => c <? o | _, _ => false end
           then Exc (CompErr Compile.EOpenAfterClose)
      else if negb (updatable t1) then Exc (CompErr Compile.EFromNotSupported)
      else PyMini.Ok (SF.flds kC tabs rest (upd t1 (SF.enc_open op) (SF.enc_close cl) clr), popt nref oe)
  end.
Proof.
  intros. rewrite (SF.from_expr_src call_ref tbl kids mro msg updatable upd t0 t1 kC tabs rest ex clr op cl rexpr H H0).
  unfold SF.p_from_expr, SF.close_before_open. destruct rexpr as [oe|e]; [|reflexivity]. cbn [Compile.bind].
  destruct (match oe with Some i => Compile.has_agg (tbl i) | None => false end); [reflexivity|].
  destruct (match op, cl with Some o, Some (Some c) => c <? o | _, _ => false end); [reflexivity|].
  destruct (updatable t1); reflexivity.
Qed.
Print Assumptions C13_source_compile_from_expr.

(* ... and that decision is the model's (Compile.compile_from on FKExpr), which C13_date_check and the statement-level
   theorems of C05 are stated over *)
Theorem C13_source_compile_from :
  forall (call_ref : nat -> list pv -> pv) (tbl : nat -> Compile.cnode) (kids : nat -> list nat)
         (mro : string -> list string) (msg : string -> list pv -> pv) (updatable : pv -> bool)
         (upd : pv -> pv -> pv -> pv -> pv) (t0 t1 : pv) (kC : nat) (tabs : list (pv * pv)) (rest : env)
         (ex clr : pv) (op : option Z) (cl : option (option Z)) (rexpr : Compile.result (option nat) Compile.cerr)
         (sch : Compile.schema) (tb : Compile.table) (clrb : bool),
  call_ref kC [t0; ex] = SF.enc_res (fun oe => PTuple [t1; popt nref oe]) rexpr ->
  (forall i, call_ref SF.ka [nref i] = PBool (Compile.has_agg (tbl i))) ->
  Compile.t_updatable tb = updatable t1 ->
  match Compile.compile_from sch tb (Compile.FKExpr op cl clrb) (SF.fe_of tbl rexpr) with
  | Compile.Ok (tb', c) =>
      exists oe, call_method call_ref (prim_select tbl kids mro msg updatable upd) Verif.Gen.SrcFrom.compile_from
                   (SF.flds kC tabs rest t0) [SF.FROMNODE ex clr op cl] =
                 PyMini.Ok (SF.flds kC tabs rest (upd t1 (SF.enc_open op) (SF.enc_close cl) clr), popt nref oe)
                 /\ tb' = tb /\ c = option_map tbl oe
  | Compile.Err e =>
      call_method call_ref (prim_select tbl kids mro msg updatable upd) Verif.Gen.SrcFrom.compile_from
        (SF.flds kC tabs rest t0) [SF.FROMNODE ex clr op cl] = Exc (CompErr e)
  end.
Proof. exact SF.compile_from_source. Qed.
Print Assumptions C13_source_compile_from.

(* no FROM clause: nothing changes; FROM <name>: the table of that name in context.tables, or `table ".." does not exist` *)
Theorem C13_source_compile_from_none :
  forall (call_ref : nat -> list pv -> pv) (tbl : nat -> Compile.cnode) (kids : nat -> list nat)
         (mro : string -> list string) (msg : string -> list pv -> pv) (updatable : pv -> bool)
         (upd : pv -> pv -> pv -> pv -> pv) (t0 : pv) (kC : nat) (tabs : list (pv * pv)) (rest : env),
  call_method call_ref (prim_select tbl kids mro msg updatable upd) Verif.Gen.SrcFrom.compile_from
    (SF.flds kC tabs rest t0) [PNone] = PyMini.Ok (SF.flds kC tabs rest t0, PNone).
Proof. exact SF.from_none_src. Qed.
Print Assumptions C13_source_compile_from_none.

Theorem C13_source_compile_from_table :
  forall (call_ref : nat -> list pv -> pv) (tbl : nat -> Compile.cnode) (kids : nat -> list nat)
         (mro : string -> list string) (msg : string -> list pv -> pv) (updatable : pv -> bool)
         (upd : pv -> pv -> pv -> pv -> pv) (t0 : pv) (kC : nat) (tabs : list (pv * pv)) (rest : env) (name : string),
  call_method call_ref (prim_select tbl kids mro msg updatable upd) Verif.Gen.SrcFrom.compile_from
    (SF.flds kC tabs rest t0) [record (zs TABLE) [("name", PStr name)]] =
  if pv_is_none (SF.table_named tabs (PStr name)) then Exc (CompErr Compile.ETableNotFound)
  else PyMini.Ok (SF.flds kC tabs rest (SF.table_named tabs (PStr name)), PNone).
Proof. exact SF.from_table_src. Qed.
Print Assumptions C13_source_compile_from_table.

(* FROM (SELECT ..): the subquery is compiled first; a PIVOT BY result is rejected; the table becomes SubqueryTable(q) *)
Theorem C13_source_compile_from_select :
  forall (call_ref : nat -> list pv -> pv) (tbl : nat -> Compile.cnode) (kids : nat -> list nat)
         (mro : string -> list string) (msg : string -> list pv -> pv) (updatable : pv -> bool)
         (upd : pv -> pv -> pv -> pv -> pv) (t0 t1 : pv) (kC : nat) (tabs : list (pv * pv)) (rest : env)
         (sel_fields : list (string * pv)) (rsub : Compile.result pv Compile.cerr),
  call_ref kC [t0; SF.SELNODE sel_fields] = SF.enc_res (fun q => PTuple [t1; q]) rsub ->
  call_method call_ref (prim_select tbl kids mro msg updatable upd) Verif.Gen.SrcFrom.compile_from
    (SF.flds kC tabs rest t0) [SF.SELNODE sel_fields] =
  match rsub with
  | Compile.Ok q =>
      if SF.is_query q
      then match call_ref SF.ksub [q] with PV (VErr k) => Exc k | t => PyMini.Ok (SF.flds kC tabs rest t, PNone) end
      else Exc (CompErr Compile.ESubqueryPivot)
  | Compile.Err e => Exc (CompErr e)
  end.
Proof. exact SF.from_select_src. Qed.
Print Assumptions C13_source_compile_from_select.

(* the hypotheses are satisfiable and the conclusion is not vacuous: OPEN ON day 20 CLOSE ON day 10 is rejected,
   OPEN ON day 10 CLOSE (no date) CLEAR derives a table from exactly those qualifiers *)
Definition ex_from_call (k : nat) (args : list pv) : pv :=
  match k with 1%nat => PBool false | 5%nat => PTuple [PStr "t1"; PNone] | _ => PNone end.
Definition ex_from_upd (t o c x : pv) : pv := PTuple [t; o; c; x].
Example C13_source_compile_from_examples :
  call_method ex_from_call (prim_select (fun _ => Compile.NSub1D) (fun _ => []) (fun _ => []) (fun _ _ => PNone)
                                        (fun _ => true) ex_from_upd)
    Verif.Gen.SrcFrom.compile_from (SF.flds 5 [] [] (PStr "t0")) [SF.FROMNODE PNone PNone (Some 20) (Some (Some 10))]
  = Exc (CompErr Compile.EOpenAfterClose)
  /\ call_method ex_from_call (prim_select (fun _ => Compile.NSub1D) (fun _ => []) (fun _ => []) (fun _ _ => PNone)
                                           (fun _ => true) ex_from_upd)
       Verif.Gen.SrcFrom.compile_from (SF.flds 5 [] [] (PStr "t0")) [SF.FROMNODE PNone (PBool true) (Some 10) (Some None)]
     = PyMini.Ok (SF.flds 5 [] [] (PTuple [PStr "t1"; PV (VDate 10); PBool true; PBool true]), PNone).
Proof. split; vm_compute; reflexivity. Qed.
