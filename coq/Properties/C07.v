(* C07 Result shape and naming. Statements only; proofs in Proofs/NamingProofs.v and Proofs/SubqueryProofs.v. *)
From Coq Require Import ZArith List Bool.
Import ListNotations.
From Verif Require Import Base.PyValue Model.Eval Model.Order Model.Exec Model.Naming Proofs.NamingProofs Proofs.SubqueryProofs.
(* translator tie: required here, imported where the source theorems start (coqdep reads Requires reliably only
   in the header, see harness/PYMINI.md) *)
From Verif Require Model.PyMini Model.PrimsApi Gen.SrcNaming Proofs.SrcNaming.
Open Scope Z_scope.

Theorem C07_name_rule : forall t,
  target_name t = match p_alias t, p_column t with
                  | Some a, _ => a
                  | None, Some c => c
                  | None, None => strip (p_text t)
                  end.
Proof. exact name_rule. Qed.
Print Assumptions C07_name_rule.

Theorem C07_name_has_no_outer_whitespace : forall s,
  match strip s with [] => True | c :: _ => is_ws c = false end
  /\ match rev (strip s) with [] => True | c :: _ => is_ws c = false end.
Proof. exact strip_no_outer_ws. Qed.
Print Assumptions C07_name_has_no_outer_whitespace.

Theorem C07_strip_keeps_inner : forall s, (match s with [] => True | c :: _ => is_ws c = false end) ->
  (match rev s with [] => True | c :: _ => is_ws c = false end) -> strip s = s.
Proof. exact strip_keeps_inner. Qed.
Print Assumptions C07_strip_keeps_inner.

(* the description lists exactly the visible targets in order; helpers (name None) never appear *)
Theorem C07_description_visible_only : forall ts,
  description ts = map (fun t => (match c_name t with Some n => n | None => [] end, c_type t))
                       (filter (fun t => match c_name t with Some _ => true | None => false end) ts).
Proof. exact description_visible_only. Qed.
Print Assumptions C07_description_visible_only.

(* exactly one projected value per described column *)
Theorem C07_width_matches_description : forall ts, length (result_indexes ts) = length (description ts).
Proof. exact width_matches_description. Qed.
Print Assumptions C07_width_matches_description.
Theorem C07_row_width : forall q t, Forall (fun r => length r = length (q_vis q)) (exec q t).
Proof. exact exec_width. Qed.
Print Assumptions C07_row_width.
Theorem C07_result_indexes_visible : forall ts i, In i (result_indexes ts) <->
  exists t, nth_error ts i = Some t /\ c_name t <> None.
Proof. exact result_indexes_visible. Qed.
Print Assumptions C07_result_indexes_visible.

(* hidden targets after all visible ones => visible positions are 0..n-1 (positional references stay valid) *)
Theorem C07_hidden_after_visible : forall ts n,
  (forall i t, nth_error ts i = Some t -> (c_name t <> None <-> (i < n)%nat)) -> (n <= length ts)%nat ->
  result_indexes ts = seq 0 n.
Proof. exact hidden_after_visible. Qed.
Print Assumptions C07_hidden_after_visible.

Theorem C07_wildcard : forall wc, map target_name (expand_wildcard wc) = wc.
Proof. exact wildcard_names. Qed.
Print Assumptions C07_wildcard.

From Coq Require Import String.
Import Verif.Model.PyMini Verif.Model.PrimsApi Verif.Gen.SrcNaming Verif.Proofs.SrcNaming.
Open Scope list_scope.

(* ---- Tie by translation (re-checked on every run against the CURRENT source of beanquery/compiler.py).
   Gen/SrcNaming.v holds the PyMini translation of compiler.get_target_name made by harness/vf/py2mini.py +
   src_api.py from inspect.getsource of the imported function.  Interpreting it on ANY parsed target - the object
   with .name (alias or None) and .expression (a Column node with .name, or a node of any other class with .text) -
   returns exactly Model/Naming.target_name, the rule every naming theorem above is stated over.  isinstance, the
   attribute reads and str.strip are the primitives of Model/PrimsApi.v (strip := Model/Naming.strip). *)
Theorem C07_source_target_name : forall (call_ref : nat -> list pv -> pv) (msg : string -> list pv -> pv)
    (tag : list Z) (t : ptarget),
  zeqb tag column_tag = false ->
  call_function call_ref (prim_api naming_lib msg) get_target_name [enc_target tag t] =
  Ok (PV (VStr (target_name t))).
Proof. exact target_name_src. Qed.
Print Assumptions C07_source_target_name.

(* Non-vacuity: the translated function on `  (a + 1) ` without alias, expression of class BinaryOp ("B"). *)
Example C07_source_example :
  call_function (fun _ _ => PNone) (prim_api naming_lib (fun _ _ => PNone)) get_target_name
    [enc_target [66] {| p_alias := None; p_column := None; p_text := [32; 97; 43; 49; 32] |}]
  = Ok (PV (VStr [97; 43; 49])).
Proof. reflexivity. Qed.
