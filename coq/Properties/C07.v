(* C07 Result shape and naming. Statements only; proofs in Proofs/NamingProofs.v and Proofs/SubqueryProofs.v. *)
From Coq Require Import ZArith List Bool.
Import ListNotations.
From Verif Require Import Base.PyValue Model.Eval Model.Order Model.Exec Model.Naming Proofs.NamingProofs Proofs.SubqueryProofs.
(* translator tie: required here, imported where the source theorems start (coqdep reads Requires reliably only
   in the header, see harness/PYMINI.md) *)
From Verif Require Model.PyMini Model.PrimsApi Gen.SrcNaming Proofs.SrcNaming.
(* group `prelude` (bld-misc): the statements of execute_select in front of the row loops, see the end of this file *)
From Verif Require Model.PrimsPrelude Gen.SrcPrelude Proofs.SrcPrelude.
(* group `targets` (bld-compiler3): the wildcard expansion of Compiler._compile_targets, see the end of this file *)
From Verif Require Model.Compile Model.PrimsCompiler Model.PrimsSelect Gen.SrcTargets Proofs.SrcTargets.
(* the loop of Compiler._compile_targets (bld-compiler4), see the end of this file *)
From Verif Require Proofs.SrcTargetsLoop.
Open Scope Z_scope.

Theorem C07_name_rule : forall t,
  target_name t = match p_alias t, p_column t with
                  | Some a, _ => a
                  | None, Some c => c
                  | None, None => strip (p_text t)
                  end.
Proof. exact name_rule. Qed.
Print Assumptions C07_name_rule.

Theorem C07_name_has_no_outer_whitespace : forall s,
  match strip s with [] => True | c :: _ => is_ws c = false end
  /\ match rev (strip s) with [] => True | c :: _ => is_ws c = false end.
Proof. exact strip_no_outer_ws. Qed.
Print Assumptions C07_name_has_no_outer_whitespace.

Theorem C07_strip_keeps_inner : forall s, (match s with [] => True | c :: _ => is_ws c = false end) ->
  (match rev s with [] => True | c :: _ => is_ws c = false end) -> strip s = s.
Proof. exact strip_keeps_inner. Qed.
Print Assumptions C07_strip_keeps_inner.

(* the description lists exactly the visible targets in order; helpers (name None) never appear *)
Theorem C07_description_visible_only : forall ts,
  description ts = map (fun t => (match c_name t with Some n => n | None => [] end, c_type t))
                       (filter (fun t => match c_name t with Some _ => true | None => false end) ts).
Proof. exact description_visible_only. Qed.
Print Assumptions C07_description_visible_only.

(* exactly one projected value per described column *)
Theorem C07_width_matches_description : forall ts, length (result_indexes ts) = length (description ts).
Proof. exact width_matches_description. Qed.
Print Assumptions C07_width_matches_description.
Theorem C07_row_width : forall q t, Forall (fun r => length r = length (q_vis q)) (exec q t).
Proof. exact exec_width. Qed.
Print Assumptions C07_row_width.
Theorem C07_result_indexes_visible : forall ts i, In i (result_indexes ts) <->
  exists t, nth_error ts i = Some t /\ c_name t <> None.
Proof. exact result_indexes_visible. Qed.
Print Assumptions C07_result_indexes_visible.

(* hidden targets after all visible ones => visible positions are 0..n-1 (positional references stay valid) *)
Theorem C07_hidden_after_visible : forall ts n,
  (forall i t, nth_error ts i = Some t -> (c_name t <> None <-> (i < n)%nat)) -> (n <= length ts)%nat ->
  result_indexes ts = seq 0 n.
Proof. exact hidden_after_visible. Qed.
Print Assumptions C07_hidden_after_visible.

Theorem C07_wildcard : forall wc, map target_name (expand_wildcard wc) = wc.
Proof. exact wildcard_names. Qed.
Print Assumptions C07_wildcard.

From Coq Require Import String.
Import Verif.Model.PyMini Verif.Model.PrimsApi Verif.Gen.SrcNaming Verif.Proofs.SrcNaming.
Open Scope list_scope.

(* ---- Tie by translation (re-checked on every run against the CURRENT source of beanquery/compiler.py).
   Gen/SrcNaming.v holds the PyMini translation of compiler.get_target_name made by harness/vf/py2mini.py +
   src_api.py from inspect.getsource of the imported function.  Interpreting it on ANY parsed target - the object
   with .name (alias or None) and .expression (a Column node with .name, or a node of any other class with .text) -
   returns exactly Model/Naming.target_name, the rule every naming theorem above is stated over.  isinstance, the
   attribute reads and str.strip are the primitives of Model/PrimsApi.v (strip := Model/Naming.strip). *)
Theorem C07_source_target_name : forall (call_ref : nat -> list pv -> pv) (msg : string -> list pv -> pv)
    (tag : list Z) (t : ptarget),
  zeqb tag column_tag = false ->
  call_function call_ref (prim_api naming_lib msg) get_target_name [enc_target tag t] =
  Ok (PV (VStr (target_name t))).
Proof. exact target_name_src. Qed.
Print Assumptions C07_source_target_name.

(* Non-vacuity: the translated function on `  (a + 1) ` without alias, expression of class BinaryOp ("B"). *)
Example C07_source_example :
  call_function (fun _ _ => PNone) (prim_api naming_lib (fun _ _ => PNone)) get_target_name
    [enc_target [66] {| p_alias := None; p_column := None; p_text := [32; 97; 43; 49; 32] |}]
  = Ok (PV (VStr [97; 43; 49])).
Proof. reflexivity. Qed.

(* ---- Group `prelude` (Gen/SrcPrelude.v, regenerated on every run by this check): the statements of
   query_execute.execute_select in front of `if query.group_indexes is None:`, selected by structure; the translator
   also checks that result_types and result_indexes are assigned exactly once in the whole function and that the
   function returns `result_types, <rows>`.  For EVERY list of compiled targets (names None or a string, evaluators
   opaque callables [PRef k] whose dtype attribute is the target's datatype) the translated statements leave
     result_types   = the tuple of Column(name, datatype) of exactly the NAMED targets in order (Naming.description),
     result_indexes = the positions of the same targets (Naming.result_indexes) - what the tail projects every row with
                      (group exec, exec_order_tail takes it as a parameter),
   and group_indexes / order_spec / c_where / rows / c_target_exprs as stated - PROVIDED no name is the empty string:
   the description tests `name is not None`, the projection the truth value of the name.  C07_source_empty_name_refuted
   is the witness that the hypothesis is needed: for a target named '' (reachable once an alias may be a quoted
   string, seeded C07-m11; the unchanged grammar admits identifiers only) the translated statements describe one column
   and project none.  A projection keyed by target name (seeded C07-m5) is another term: this no longer checks. *)
Import Verif.Model.PrimsPrelude Verif.Gen.SrcPrelude.

Theorem C07_source_result_types : forall (call_ref : nat -> list pv -> pv) (dtype_of : nat -> pv) (dt : Z -> pv)
    (col : list Z -> Z -> pv) (kC : nat) (kts : list (nat * ctarget)) (g : option (list Z)) (o w : pv),
  ref_of Gen.SrcPrelude.refs "beanquery.Column" = Some kC ->
  (forall n ty, do_call call_ref (PRef kC) [PV (VStr n); dt ty] = Ok (col n ty)) ->
  (forall k t, In (k, t) kts -> dtype_of k = dt (c_type t)) ->
  forallb name_nonempty (map snd kts) = true ->
  exec_block call_ref (prim_prelude dtype_of) {| locals := [("query", enc_evalquery kts g o w)]; fields := [] |}
    (f_body exec_prelude) =
  Ok (Next {| locals := [("query", enc_evalquery kts g o w);
                         ("result_types", PTuple (map (fun nt => col (fst nt) (snd nt)) (description (map snd kts))));
                         ("group_indexes", Proofs.SrcPrelude.group_set g);
                         ("result_indexes", enc_indexes (result_indexes (map snd kts)));
                         ("order_spec", o); ("c_where", w); ("rows", PList []);
                         ("c_target_exprs", PList (map (fun kt => PRef (fst kt)) kts))]%string;
              fields := [] |}).
Proof. exact Proofs.SrcPrelude.prelude_source. Qed.
Print Assumptions C07_source_result_types.

Theorem C07_source_empty_name_refuted :
  let cr := fun (k : nat) (args : list pv) => PTuple args in
  exists s', exec_block cr (prim_prelude (fun _ => PInt 1))
               {| locals := [("query", enc_evalquery Proofs.SrcPrelude.empty_named None PNone PNone)]%string; fields := [] |}
               (f_body exec_prelude) = Ok (Next s') /\
    PyMini.lookup "result_types" (locals s') = Some (PTuple [PTuple [PV (VStr []); PInt 1]]) /\
    PyMini.lookup "result_indexes" (locals s') = Some (PList []) /\
    List.length (description (map snd Proofs.SrcPrelude.empty_named)) = 1%nat /\
    result_indexes (map snd Proofs.SrcPrelude.empty_named) = [0%nat].
Proof. exact Proofs.SrcPrelude.prelude_empty_name. Qed.
Print Assumptions C07_source_empty_name_refuted.

(* Non-vacuity: SELECT a AS x, <hidden helper>, b GROUP BY 1, 3, 3 - two named targets around a hidden one *)
Example C07_source_prelude_example :
  let kts := [(5%nat, {| c_name := Some [120]; c_type := 1 |}); (6%nat, {| c_name := None; c_type := 2 |});
              (7%nat, {| c_name := Some [98]; c_type := 3 |})] in
  let cr := fun (k : nat) (args : list pv) => PTuple args in
  let dtype_of := fun k : nat => PInt (Z.of_nat k - 4) in
  ref_of Gen.SrcPrelude.refs "beanquery.Column" = Some 0%nat /\
  forallb name_nonempty (map snd kts) = true /\
  exists s', exec_block cr (prim_prelude dtype_of)
      {| locals := [("query", enc_evalquery kts (Some [0; 2; 2]) PNone PNone)]%string; fields := [] |} (f_body exec_prelude)
      = Ok (Next s') /\
    PyMini.lookup "result_types" (locals s') = Some (PTuple [PTuple [PV (VStr [120]); PInt 1]; PTuple [PV (VStr [98]); PInt 3]]) /\
    PyMini.lookup "result_indexes" (locals s') = Some (PList [PInt 0; PInt 2]) /\
    PyMini.lookup "group_indexes" (locals s') = Some (PList [PInt 0; PInt 2]) /\
    PyMini.lookup "c_target_exprs" (locals s') = Some (PList [PRef 5; PRef 6; PRef 7]).
Proof. split; [reflexivity|]. split; [reflexivity|]. eexists. split; [vm_compute; reflexivity|]. repeat split. Qed.

(* ---- bld-compiler3: where `*` is expanded.  Compiler._compile_targets, translated into PyMini on every run
   (Gen/SrcTargets.v); the statement in front of the loop over the targets is selected by structure (the first
   statement of the body, `if isinstance(targets, ast.Asterisk): targets = [..]`).  `*` becomes one
   Target(Column(name), None) per name of self.table.wildcard_columns - the table of the enclosing FROM clause at that
   moment -, in that order and without an AS name (so get_target_name, C07_source_target_name, names it by its column);
   the result is bound to the LOCAL variable `targets`: neither the receiver nor the parsed statement is written, a
   statement can be compiled again against another table.  A list of targets is left alone. ---- *)
Module ST := Verif.Proofs.SrcTargets.
Theorem C07_source_wildcard_expansion :
  forall (call_ref : nat -> list pv -> pv) (tbl : nat -> Verif.Model.Compile.cnode) (kids : nat -> list nat)
         (mro : string -> list string) (msg : string -> list pv -> pv) (updatable : pv -> bool)
         (upd : pv -> pv -> pv -> pv -> pv) (s : st) (tbv : pv) (wild : list string),
  PyMini.lookup "self" (locals s) = Some PSelf ->
  PyMini.lookup "targets" (locals s) = Some ST.asterisk ->
  PyMini.lookup "table" (fields s) = Some tbv -> tbv <> PSelf ->
  Verif.Model.PrimsSelect.prim_select tbl kids mro msg updatable upd "attr:wildcard_columns" [tbv]
    = Ok (PList (map PStr wild)) ->
  PyMini.exec call_ref (Verif.Model.PrimsSelect.prim_select tbl kids mro msg updatable upd) s
    (nth 0 (f_body Verif.Gen.SrcTargets.compile_targets) SPass)
  = Ok (Next (write s (TName "targets") (PList (map ST.enc_wtarget wild)))).
Proof. exact ST.wildcard_expand_src. Qed.
Print Assumptions C07_source_wildcard_expansion.

Theorem C07_source_wildcard_keeps_lists :
  forall (call_ref : nat -> list pv -> pv) (tbl : nat -> Verif.Model.Compile.cnode) (kids : nat -> list nat)
         (mro : string -> list string) (msg : string -> list pv -> pv) (updatable : pv -> bool)
         (upd : pv -> pv -> pv -> pv -> pv) (s : st) (l : list pv),
  PyMini.lookup "targets" (locals s) = Some (PList l) ->
  PyMini.exec call_ref (Verif.Model.PrimsSelect.prim_select tbl kids mro msg updatable upd) s
    (nth 0 (f_body Verif.Gen.SrcTargets.compile_targets) SPass) = Ok (Next s).
Proof. exact ST.wildcard_keep_src. Qed.
Print Assumptions C07_source_wildcard_keeps_lists.

(* the model's expansion (Compile.wildcard_targets, what C07_wildcard and the statement-level theorems of C05 use)
   yields the same columns in the same order, each named by its column and not an aggregate *)
Theorem C07_source_wildcard_model : forall tb names ts,
  Verif.Model.Compile.wildcard_targets_of tb names = Verif.Model.Compile.Ok ts ->
  map Verif.Model.Compile.ct_name ts = map (@Some string) names
  /\ map Verif.Model.Compile.ct_agg ts = map (fun _ => false) names.
Proof. exact ST.wildcard_names. Qed.
Print Assumptions C07_source_wildcard_model.

(* the hypotheses are satisfiable: a table record with two wildcard columns *)
Example C07_source_wildcard_example :
  let tb := record [116] [("wildcard_columns", PList [PStr "date"; PStr "account"])]%string in
  PyMini.exec (fun _ _ => PNone)
    (Verif.Model.PrimsSelect.prim_select (fun _ => Verif.Model.Compile.NSub1D) (fun _ => []) (fun _ => [])
       (fun _ _ => PNone) (fun _ => false) (fun _ _ _ _ => PNone))
    {| locals := [("self", PSelf); ("targets", ST.asterisk)]%string; fields := [("table", tb)]%string |}
    (nth 0 (f_body Verif.Gen.SrcTargets.compile_targets) SPass)
  = Ok (Next {| locals := [("self", PSelf); ("targets", PList [ST.enc_wtarget "date"; ST.enc_wtarget "account"])]%string;
                fields := [("table", tb)]%string |}).
Proof. vm_compute. reflexivity. Qed.

(* ---- bld-compiler4: the LOOP of Compiler._compile_targets (the rest of the translated body, Gen/SrcTargets.v).  For
   EVERY list of parsed targets: each expression is compiled in order - the table self._compile leaves behind is the
   one the next target is compiled against -, the target is named by get_target_name (C07_source_target_name), flagged
   by is_aggregate and appended; then the two aggregate checks of Compile.check_aggregates; the first failing target
   decides the error; the compiled targets are returned in the order of the parsed ones, ONE per parsed target
   (STL.p_targets).  get_target_name / is_aggregate / get_columns_and_aggregates are opaque callables assumed to return
   the model's values (tied separately); [kids a] are the references of the children of node a. ---- *)
Module STL := Verif.Proofs.SrcTargetsLoop.
Module CC := Verif.Model.Compile.
Theorem C07_source_compile_targets :
  forall (call_ref : nat -> list pv -> pv) (tbl : nat -> CC.cnode) (kids : nat -> list nat)
         (mro : string -> list string) (msg : string -> list pv -> pv) (updatable : pv -> bool)
         (upd : pv -> pv -> pv -> pv -> pv) (kC : nat) (rest : env)
         (rc : pv -> pv -> CC.result (pv * nat) CC.cerr),
  (forall t x, call_ref kC [t; x] =
               STL.enc_res (fun p => PTuple [fst p; Verif.Model.PrimsCompiler.nref (snd p)]) (rc t x)) ->
  forall nm : pv -> string,
  (forall tg, call_ref STL.kTN [tg] = PStr (nm tg)) ->
  (forall c, call_ref STL.kAG [Verif.Model.PrimsCompiler.nref c] = PBool (CC.has_agg (tbl c))) ->
  forall colsf aggsf : nat -> list nat,
  (forall i, call_ref STL.kCA [Verif.Model.PrimsCompiler.nref i] =
             PTuple [PList (map Verif.Model.PrimsCompiler.nref (colsf i));
                     PList (map Verif.Model.PrimsCompiler.nref (aggsf i))]) ->
  (forall i, map tbl (colsf i) = fst (CC.cols_aggs (tbl i))) ->
  (forall i, map tbl (aggsf i) = snd (CC.cols_aggs (tbl i))) ->
  (forall a, map tbl (kids a) = CC.children (tbl a)) ->
  forall (l : list (pv * pv)) (t0 : pv),
  call_method call_ref (Verif.Model.PrimsSelect.prim_select tbl kids mro msg updatable upd)
    Verif.Gen.SrcTargets.compile_targets (STL.flds kC rest t0) [PList (map STL.TGT l)] =
  match STL.p_targets tbl rc nm t0 l with
  | CC.Ok (t', pts) => Ok (STL.flds kC rest t', Verif.Model.PrimsSelect.enc_targets pts)
  | CC.Err e => Exc (Verif.Model.PrimsCompiler.CompErr e)
  end.
Proof. exact STL.compile_targets_src. Qed.
Print Assumptions C07_source_compile_targets.

(* ... and that is the model's target compilation (Compile.compile_target per target, the `go` of the SELECT clause in
   Compile.comp), when get_target_name returns Compile.target_name and self._compile the model's node: the names the
   result description shows (C07_description_names) are the names fixed here, in target order *)
Theorem C07_source_compile_targets_model :
  forall (tbl : nat -> CC.cnode) (rc : pv -> pv -> CC.result (pv * nat) CC.cerr) (nm : pv -> string)
         (node_of : pv -> CC.rnode),
  (forall t x, match rc t x with
               | CC.Ok (_, i) => node_of x = CC.Ok (tbl i)
               | CC.Err e => node_of x = CC.Err e
               end) ->
  forall (l : list (pv * pv)) (ml : list (CC.expr * option string * string)),
  Forall2 (fun x m => match m with (ex, al, tx) => STL.tname nm x = CC.target_name ex al tx end) l ml ->
  forall t, match STL.p_targets tbl rc nm t l with
            | CC.Ok (_, pts) => STL.m_targets node_of l ml = CC.Ok (map (STL.T tbl) pts)
            | CC.Err e => STL.m_targets node_of l ml = CC.Err e
            end.
Proof. exact STL.p_targets_model. Qed.
Print Assumptions C07_source_compile_targets_model.

(* the hypotheses are satisfiable and the loop really runs: SELECT a, b over two columns *)
Example C07_source_compile_targets_example :
  let tbl := fun i : nat => if Nat.eqb i 0 then CC.NCol "a" "int" else CC.NCol "b" "str" in
  let call_ref := fun (k : nat) (args : list pv) =>
    match k, args with
    | 9%nat, [t; PV (VInt z)] => PTuple [t; Verif.Model.PrimsCompiler.nref (Z.to_nat z)]
    | 0%nat, _ => PStr "n"
    | 1%nat, _ => PBool false
    | 2%nat, [x] => PTuple [PList [x]; PList []]
    | _, _ => PNone
    end in
  call_method call_ref
    (Verif.Model.PrimsSelect.prim_select tbl (fun _ => []) (fun _ => []) (fun _ _ => PNone) (fun _ => false)
       (fun _ _ _ _ => PNone))
    Verif.Gen.SrcTargets.compile_targets (STL.flds 9 [] PNone) [PList (map STL.TGT [(PInt 0, PNone); (PInt 1, PNone)])]
  = Ok (STL.flds 9 [] PNone,
        Verif.Model.PrimsSelect.enc_targets [(0%nat, Some "n", false); (1%nat, Some "n", false)])%string.
Proof. vm_compute. reflexivity. Qed.
