(* C15 PIVOT BY is a lossless reshaping of a two-key aggregate result.
   Statements only; proofs in Proofs/PivotProofs.v. *)
From Coq Require Import ZArith List Bool Sorted.
Import ListNotations.
From Verif Require Import Base.StableSort Base.PyValue Model.Order Model.Pivot Proofs.PivotProofs.
(* imported before the C15_source_* theorems; required here so that coqdep sees the dependency on the generated file *)
From Verif Require Model.PyMini Model.PrimsExec Gen.SrcExec Proofs.SrcExec Proofs.SrcExecPivot.
Open Scope nat_scope.

(* keys of the second pivot column: ascending, and every row's value is (==) one of them *)
Theorem C15_keys_sorted : forall col2 rows, sorted val_le (pivot_keys col2 rows).
Proof. exact pivot_keys_sorted. Qed.
Print Assumptions C15_keys_sorted.
Theorem C15_keys_complete : forall col2 rows r, In r rows ->
  existsb (fun k => val_eq k (cell col2 r)) (pivot_keys col2 rows) = true.
Proof. exact pivot_keys_complete. Qed.
Print Assumptions C15_keys_complete.

(* header: leading first/second column, then for the j-th key the i-th remaining column at 1 + j*n + i *)
Theorem C15_header_length : forall keys oc, oc <> [] -> length (pivot_header keys oc) = 1 + length keys * length oc.
Proof. exact pivot_header_length. Qed.
Print Assumptions C15_header_length.
Theorem C15_header_entry : forall keys oc j i k c, oc <> [] ->
  nth_error keys j = Some k -> nth_error oc i = Some c ->
  nth_error (pivot_header keys oc) (1 + j * length oc + i) = Some (Some (k, c)).
Proof. exact pivot_header_entry. Qed.
Print Assumptions C15_header_entry.

(* rows: the groups of the rows sorted by the first pivot column partition them, every
   group is non-empty with all first values equal to the group's, and the group values
   are STRICTLY ascending: one pivoted row per distinct first value, ascending *)
Theorem C15_rows : forall col1 rows,
  let groups := groupby col1 None (isort (on (cell col1) val_le) rows) in
  concat (map snd groups) = isort (on (cell col1) val_le) rows
  /\ Forall (fun kg => snd kg <> [] /\ Forall (fun r => val_eq (cell col1 r) (fst kg) = true) (snd kg)) groups
  /\ StronglySorted (fun a b => slt a b = true) (map fst groups).
Proof. exact pivot_groups. Qed.
Print Assumptions C15_rows.

(* a pivoted row = first value followed by one block per key ... *)
Theorem C15_row_is_blocks : forall keys oc col2 field1 group,
  Forall (in_keys keys col2) group ->
  build_row keys oc col2 (1 + length keys * length oc) field1 group = field1 :: concat (blocks keys oc col2 group).
Proof. exact build_row_blocks. Qed.
Print Assumptions C15_row_is_blocks.

(* ... and block j holds the remaining columns of the (last, hence under uniqueness of
   (first, second) the unique) row of the group whose second value is key j, else NULLs *)
Theorem C15_block : forall keys oc col2 group j,
  Forall (in_keys keys col2) group -> j < length keys ->
  nth j (blocks keys oc col2 group) [] =
  match find (fun r => Nat.eqb (index_of (cell col2 r) keys) j) (rev group) with
  | Some r => other oc r
  | None => repeat VNull (length oc)
  end.
Proof. exact block_content. Qed.
Print Assumptions C15_block.

(* losslessness (the un-pivot direction): when (first, second) identifies the remaining columns - the query is grouped
   by exactly these two columns - every un-pivoted row is found again in the pivoted row of its first value, in the block of
   its second value *)
Theorem C15_lossless : forall ncols col1 col2 rows r,
  let oc := other_cols ncols col1 col2 in
  let keys := pivot_keys col2 rows in
  let groups := groupby col1 None (isort (on (cell col1) val_le) rows) in
  (forall r1 r2, In r1 rows -> In r2 rows ->
     val_eq (cell col1 r1) (cell col1 r2) = true -> val_eq (cell col2 r1) (cell col2 r2) = true ->
     other oc r1 = other oc r2) ->
  In r rows ->
  exists kg, In kg groups /\ val_eq (cell col1 r) (fst kg) = true
             /\ nth (index_of (cell col2 r) keys) (blocks keys oc col2 (snd kg)) [] = other oc r.
Proof. exact pivot_lossless. Qed.
Print Assumptions C15_lossless.

Example C15_example :
  pivot 3 0 1 [[VInt 2; VStr [98%Z]; VInt 20]; [VInt 1; VStr [97%Z]; VInt 10]; [VInt 1; VStr [98%Z]; VInt 11]; [VNull; VStr [97%Z]; VInt 5]]
  = ([None; Some (VStr [97%Z], 2); Some (VStr [98%Z], 2)],
     [[VNull; VInt 5; VNull]; [VInt 1; VInt 10; VInt 11]; [VInt 2; VNull; VInt 20]]).
Proof. reflexivity. Qed.

(* ---------------------------------------------------------------------------------------------------------------
   Tie by translation (PYMINI.md): Gen/SrcExec.v's exec_execute_query is regenerated on every run from the SOURCE of
   the WHOLE function query_execute.execute_query (dispatch on the class of the compiled statement; the PIVOT BY
   branch: othercols, the sorted key set, names / datatypes / Column objects of the header, then the rows), translated
   with the rules W1-W7 of harness/vf/src_exec.py (set comprehension, sorted(key=lambda), tuple patterns in
   comprehensions, f-strings as uninterpreted records of their parts, isinstance, raise, a lambda inlined at its
   calls).  Interpreted with the primitives of Model/PrimsExec.v it returns, for ALL inputs, [pivot]: the header
   entries as Column objects (hdr_pv) and the rows.  exec_pivot_fill is the second half alone (statement range). *)
From Coq Require Import String.
Import Verif.Model.PyMini Verif.Model.PrimsExec Verif.Gen.SrcExec Verif.Proofs.SrcExec Verif.Proofs.SrcExecPivot.

(* opaque callables: 1 nullitemgetter (closure value), 3 execute_select on the inner query (returns the un-pivoted
   columns and rows, every row as wide as the column list), 4 the class Column *)
Theorem C15_source_pivot : forall (call_ref : nat -> list pv -> pv),
  (forall args, call_ref 1%nat args = partial_clo 1 args) ->
  (forall n d, call_ref 4%nat [n; d] = column_obj n d) ->
  forall (incols : list (pv * pv)) (c1 c2 : nat) (rows : list row) (subq : pv),
  (c1 < List.length incols)%nat -> (c2 < List.length incols)%nat ->
  Forall (fun r : row => List.length r = List.length incols) rows ->
  call_ref 3%nat [subq] =
    PTuple [PTuple (map (fun nd : pv * pv => column_obj (fst nd) (snd nd)) incols); PList (map row_pv rows)] ->
  call_fun call_ref (prims_exec call_ref exec_nig_single exec_nig_multi 1) exec_execute_query [qobj c1 c2 subq] =
  Ok (PTuple [PTuple (map (hdr_pv incols c1 c2) (fst (pivot (List.length incols) c1 c2 rows)));
              PList (map row_pv (snd (pivot (List.length incols) c1 c2 rows)))]).
Proof. exact execute_query_pivot_src. Qed.
Print Assumptions C15_source_pivot.

(* the dispatch: a compiled SELECT goes to execute_select, anything that is neither class raises RuntimeError *)
Theorem C15_source_dispatch_select : forall (call_ref : nat -> list pv -> pv) tbl d l,
  call_fun call_ref (prims_exec call_ref exec_nig_single exec_nig_multi 1) exec_execute_query [query_obj tbl d l] =
  do_call call_ref (PRef 3) [query_obj tbl d l].
Proof. exact execute_query_select_src. Qed.
Print Assumptions C15_source_dispatch_select.

Theorem C15_source_dispatch_error : forall (call_ref : nat -> list pv -> pv) (v : value),
  call_fun call_ref (prims_exec call_ref exec_nig_single exec_nig_multi 1) exec_execute_query [PV v] = Exc RuntimeError.
Proof. exact execute_query_other_src. Qed.
Print Assumptions C15_source_dispatch_error.

(* the second half alone (exec_pivot_fill: `pivoted = []` .. `return columns, pivoted`), keys and `other` as parameters *)
Theorem C15_source_pivot_rows : forall (call_ref : nat -> list pv -> pv) (ncols c1 c2 ko : nat) (rows : list row)
    (cols : list pv),
  (forall args, call_ref 1%nat args = partial_clo 1 args) ->
  (forall r : row, call_ref ko [row_pv r] = PTuple (map PV (other (other_cols ncols c1 c2) r))) ->
  Forall (fun r => (c1 < List.length r)%nat /\ (c2 < List.length r)%nat) rows ->
  List.length cols = List.length (pivot_header (pivot_keys c2 rows) (other_cols ncols c1 c2)) ->
  call_fun call_ref (prims_exec call_ref exec_nig_single exec_nig_multi 1) exec_pivot_fill
    [PList (map row_pv rows); idx_pv c1; PTuple cols; PList (map PV (pivot_keys c2 rows)); idx_pv c2;
     PInt (Z.of_nat (List.length (other_cols ncols c1 c2))); PRef ko] =
  Ok (PTuple [PTuple cols; PList (map row_pv (snd (pivot ncols c1 c2 rows)))]).
Proof. exact pivot_src. Qed.
Print Assumptions C15_source_pivot_rows.

Theorem C15_source_pivot_fill : forall (call_ref : nat -> list pv -> pv),
  (forall args, call_ref 1%nat args = partial_clo 1 args) ->
  forall (ks : list value) (oc : list nat) (c2 ko : nat),
  (forall r : row, call_ref ko [row_pv r] = PTuple (map PV (other oc r))) ->
  forall (cols : list pv) (c1 : nat) (rows : list row),
  Forall (fun r => (c1 < List.length r)%nat) rows -> Forall (row_ok0 ks c2) rows ->
  call_fun call_ref (prims_exec call_ref exec_nig_single exec_nig_multi 1) exec_pivot_fill
    [PList (map row_pv rows); idx_pv c1; PTuple cols; PList (map PV ks); idx_pv c2; PInt (Z.of_nat (List.length oc));
     PRef ko] =
  Ok (PTuple [PTuple cols;
              PList (map row_pv (map (made ks oc c2 cols) (groupby c1 None (isort (on (cell c1) val_le) rows))))]).
Proof. exact pivot_fill_src. Qed.
Print Assumptions C15_source_pivot_fill.

(* Non-vacuity: the translated execute_query run by the interpreter on the un-pivoted result of C15_example
   (columns x, y, z with datatypes 1, 2, 3; PIVOT BY 1, 2) *)
Example C15_source_example :
  let cr : nat -> list pv -> pv := fun k args =>
    match k, args with
    | 1%nat, _ => partial_clo 1 args
    | 3%nat, _ => PTuple [PTuple [column_obj (PInt 120) (PInt 1); column_obj (PInt 121) (PInt 2); column_obj (PInt 122) (PInt 3)];
                          PList (map row_pv [[VInt 2; VStr [98%Z]; VInt 20]; [VInt 1; VStr [97%Z]; VInt 10];
                                             [VInt 1; VStr [98%Z]; VInt 11]; [VNull; VStr [97%Z]; VInt 5]])]
    | 4%nat, [n; d] => column_obj n d
    | _, _ => PNone
    end in
  call_fun cr (prims_exec cr exec_nig_single exec_nig_multi 1) exec_execute_query [qobj 0 1 PNone]
  = Ok (PTuple [PTuple [column_obj (fstring_obj [PInt 120; PV (VStr [47%Z]); PInt 121]) (PInt 1);
                        column_obj (fstring_obj [PV (VStr [97%Z])]) (PInt 3);
                        column_obj (fstring_obj [PV (VStr [98%Z])]) (PInt 3)];
                PList (map row_pv [[VNull; VInt 5; VNull]; [VInt 1; VInt 10; VInt 11]; [VInt 2; VNull; VInt 20]])]).
Proof. vm_compute. reflexivity. Qed.
