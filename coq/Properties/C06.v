(* C06 Parsing inverts printing (precedence, associativity, literals); parser = grammar.
   Statements only; every proof is [exact <lemma>] from Proofs/ParserProofs.v.

   Model: Model/Ast.v (ast.py; [EParen]/[EUPlus] are redundant concrete syntax, [erase] drops them),
   Model/Lexer.v, Model/Parser.v (one function per rule of bql.ebnf), Model/Printer.v
   ([body]: AST -> tokens, [wf]: the trees expressible in BQL). *)
From Coq Require Import ZArith NArith List Bool String.
Import ListNotations.
From Verif Require Import Model.Ast Model.Lexer Model.Parser Model.Printer Proofs.ParserProofs.
From Verif Require Model.Grammar Gen.Grammar.

(* The grammar introspected from /repo on this run (tatsu.compile(bql.ebnf): rules, choices,
   sequences, closures, gathers, cuts, tokens, patterns, keywords, directives) is the grammar
   Model/Parser.v was written against. *)
Theorem C06_grammar_pinned : Verif.Gen.Grammar.grammar = Verif.Model.Grammar.grammar.
Proof. exact grammar_pinned. Qed.
Print Assumptions C06_grammar_pinned.

(* Expressions.  For every concrete-syntax tree c of any depth -- every parent x child x position
   combination, parentheses where the shape needs them ([pp]), redundant `( e )` and `+ atom` anywhere
   the grammar allows them, sub-SELECTs included -- parsing the printed tokens gives [erase c], the tree
   without the redundant syntax.  [pp 1 c] is [body c], parenthesised when c is a bare SELECT. *)
Theorem C06_expr_roundtrip : forall c : expr, wf c = true -> parse_expr (pp 1 c) = Some (erase c).
Proof. exact expr_roundtrip. Qed.
Print Assumptions C06_expr_roundtrip.

(* On trees of ast.py (no redundant syntax) the parser returns the tree itself. *)
Theorem C06_expr_roundtrip_pure : forall e : expr,
  wf e = true -> pure e = true -> parse_expr (pp 1 e) = Some e.
Proof. exact expr_roundtrip_pure. Qed.
Print Assumptions C06_expr_roundtrip_pure.

(* No two distinct ASTs print to the same tokens. *)
Theorem C06_print_injective : forall c1 c2 : expr,
  wf c1 = true -> wf c2 = true -> pp 1 c1 = pp 1 c2 -> erase c1 = erase c2.
Proof. exact print_injective. Qed.
Print Assumptions C06_print_injective.

(* Statements: SELECT with every clause combination (DISTINCT, targets or *, AS names, FROM table /
   subselect / expression with OPEN ON, CLOSE [ON], CLEAR, WHERE, GROUP BY with positions and HAVING,
   ORDER BY with positions and DESC, PIVOT BY, LIMIT), BALANCES, JOURNAL and PRINT with their optional
   parts, over arbitrary well-formed expressions. *)
Theorem C06_stmt_roundtrip : forall s : stmt,
  wf_stmt s = true -> parse_tokens (print_stmt s) = Some (stmt_erase s).
Proof. exact stmt_roundtrip. Qed.
Print Assumptions C06_stmt_roundtrip.

Theorem C06_stmt_print_injective : forall s1 s2 : stmt,
  wf_stmt s1 = true -> wf_stmt s2 = true -> print_stmt s1 = print_stmt s2 -> stmt_erase s1 = stmt_erase s2.
Proof. exact stmt_print_injective. Qed.
Print Assumptions C06_stmt_print_injective.

(* LEFT PARTIAL: the lexer round trip  lex (render tokens gaps) = Some tokens  (canonical and noisy
   spellings) is not proved; it is exercised on every run by the correspondence (texts rendered from the
   printer's tokens with random case, literal spellings, whitespace and comments must lex+parse back).
   FULL STATEMENT:  forall ts gaps, lex_ok ts = true -> gaps_ok ts gaps -> lex (render_with gaps ts) = Some ts. *)

(* ---------------------------------------------------------------------- *)
(* Examples: the hypotheses are satisfiable and the precedence chain
   OR < AND < NOT < comparison < + - < * / % < unary minus < attribute/subscript/call is what the parser does. *)
Open Scope string_scope.
Definition S := str_of_string.
Definition col (s : string) := EColumn (S s).
Definition ptext (s : string) : option stmt := parse_text (S s).
Definition sel1 (e : expr) : option stmt :=
  Some (SSelect (ESelect false (Some [(e, None)]) None None None [] None None)).

Example C06_wf_example :
  let e := EOr [EAnd [ENot (ECmp Lt (col "a") (EArith Add (col "b") (EArith Mul (col "c") (ENeg (EAttr (col "d") (S "x"))))));
                      EBetween (col "e") (EConst (LInt 1)) (EConst (LDec 25 1))];
                EIsNull (EFunc (S "f") [col "g"; EList [LNull; LStr (S "s")]])] in
  wf e = true /\ pure e = true /\ parse_expr (pp 1 e) = Some e.
Proof. vm_compute. repeat split. Qed.

Example C06_precedence_chain :
  ptext "SELECT a OR b AND NOT c < d + e * - f.g"
  = sel1 (EOr [col "a"; EAnd [col "b"; ENot (ECmp Lt (col "c")
            (EArith Add (col "d") (EArith Mul (col "e") (ENeg (EAttr (col "f") (S "g"))))))]]).
Proof. vm_compute. reflexivity. Qed.

Example C06_left_assoc :
  ptext "SELECT a - b - c, a / b % c"
  = Some (SSelect (ESelect false (Some [(EArith Sub (EArith Sub (col "a") (col "b")) (col "c"), None);
                                        (EArith Mod (EArith Div (col "a") (col "b")) (col "c"), None)])
                           None None None [] None None)).
Proof. vm_compute. reflexivity. Qed.

Example C06_nonassoc_comparison : ptext "SELECT a < b < c" = None /\ ptext "SELECT a = b = c" = None.
Proof. vm_compute. split; reflexivity. Qed.

Example C06_between_bounds_are_sums :
  ptext "SELECT a BETWEEN b AND c AND d"
  = sel1 (EAnd [EBetween (col "a") (col "b") (col "c"); col "d"]).
Proof. vm_compute. reflexivity. Qed.

Example C06_literals :
  ptext "SELECT NULL, TRUE, false, 007, 1.50, .5, 1., 2020-02-29, 'it""s', ""it's"", (1,), (1, NULL, 'x')"
  = Some (SSelect (ESelect false
       (Some [(EConst LNull, None); (EConst (LBool true), None); (EConst (LBool false), None);
              (EConst (LInt 7), None); (EConst (LDec 150 2), None); (EConst (LDec 5 1), None);
              (EConst (LDec 1 0), None); (EConst (LDate 2020 2 29), None);
              (EConst (LStr (S "it""s")), None); (EConst (LStr (S "it's")), None);
              (EList [LInt 1], None); (EList [LInt 1; LNull; LStr (S "x")], None)])
       None None None [] None None)).
Proof. vm_compute. reflexivity. Qed.

Example C06_identifiers_with_keyword_prefix :
  ptext "SELECT not_cleared, null_x, true_v FROM open_x"
  = Some (SSelect (ESelect false (Some [(col "not_cleared", None); (col "null_x", None); (col "true_v", None)])
                           (Some (FFrom (Some (col "open_x")) None None false)) None None [] None None)).
Proof. vm_compute. reflexivity. Qed.

Example C06_stmt_example :
  let st := SSelect (ESelect true (Some [(EArith Add (col "a") (EConst (LInt 1)), Some (S "n"))])
                       (Some (FSub (ESelect false None (Some (FTable (S "t"))) None None [] None None)))
                       (Some (ECmp In (col "x") (ESelect false (Some [(col "y", None)]) None None None [] None None)))
                       (Some ([inl 1%N; inr (EParen (EConst (LInt 2)))], Some (col "h")))
                       [(inr (col "q"), true)] (Some (inl 1%N, inr (S "w"))) (Some 10%N)) in
  wf_stmt st = true /\ parse_tokens (print_stmt st) = Some (stmt_erase st).
Proof. vm_compute. split; reflexivity. Qed.
