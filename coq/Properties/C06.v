(* C06 Parsing inverts printing (precedence, associativity, literals); parser = grammar.
   Statements only; every proof is [exact <lemma>] from Proofs/ParserProofs.v.

   Model: Model/Ast.v (ast.py; [EParen]/[EUPlus] are redundant concrete syntax, [erase] drops them),
   Model/Lexer.v, Model/Parser.v (one function per rule of bql.ebnf), Model/Printer.v
   ([body]: AST -> tokens, [wf]: the trees expressible in BQL). *)
From Coq Require Import ZArith NArith List Bool String.
Import ListNotations.
From Verif Require Import Model.Ast Model.Lexer Model.Parser Model.Printer Model.Spelling Model.Front
  Proofs.ParserProofs Proofs.LexerProofs Proofs.FrontProofs.
From Verif Require Model.Compile Model.Link.
From Verif Require Base.PyValue Model.Dates.        (* bld-link: s2z for the text of C06_run_text_library *)
From Verif Require Model.Grammar Gen.Grammar.
(* bld-sem: the translator tie of the semantic actions (Required here, Imported before the last section) *)
From Verif Require Model.PyMini Model.PrimsApi Model.PrimsSemantics Gen.SrcSemantics Proofs.SrcSemantics.

(* The grammar introspected from /repo on this run (tatsu.compile(bql.ebnf): rules, choices,
   sequences, closures, gathers, cuts, tokens, patterns, keywords, directives) is the grammar
   Model/Parser.v was written against. *)
Theorem C06_grammar_pinned : Verif.Gen.Grammar.grammar = Verif.Model.Grammar.grammar.
Proof. exact grammar_pinned. Qed.
Print Assumptions C06_grammar_pinned.

(* Expressions.  For every concrete-syntax tree c of any depth -- every parent x child x position
   combination, parentheses where the shape needs them ([pp]), redundant `( e )` and `+ atom` anywhere
   the grammar allows them, sub-SELECTs included -- parsing the printed tokens gives [erase c], the tree
   without the redundant syntax.  [pp 1 c] is [body c], parenthesised when c is a bare SELECT. *)
Theorem C06_expr_roundtrip : forall c : expr, wf c = true -> parse_expr (pp 1 c) = Some (erase c).
Proof. exact expr_roundtrip. Qed.
Print Assumptions C06_expr_roundtrip.

(* On trees of ast.py (no redundant syntax) the parser returns the tree itself. *)
Theorem C06_expr_roundtrip_pure : forall e : expr,
  wf e = true -> pure e = true -> parse_expr (pp 1 e) = Some e.
Proof. exact expr_roundtrip_pure. Qed.
Print Assumptions C06_expr_roundtrip_pure.

(* No two distinct ASTs print to the same tokens. *)
Theorem C06_print_injective : forall c1 c2 : expr,
  wf c1 = true -> wf c2 = true -> pp 1 c1 = pp 1 c2 -> erase c1 = erase c2.
Proof. exact print_injective. Qed.
Print Assumptions C06_print_injective.

(* Statements: SELECT with every clause combination (DISTINCT, targets or *, AS names, FROM table /
   subselect / expression with OPEN ON, CLOSE [ON], CLEAR, WHERE, GROUP BY with positions and HAVING,
   ORDER BY with positions and DESC, PIVOT BY, LIMIT), BALANCES, JOURNAL and PRINT with their optional
   parts, over arbitrary well-formed expressions. *)
Theorem C06_stmt_roundtrip : forall s : stmt,
  wf_stmt s = true -> parse_tokens (print_stmt s) = Some (stmt_erase s).
Proof. exact stmt_roundtrip. Qed.
Print Assumptions C06_stmt_roundtrip.

Theorem C06_stmt_print_injective : forall s1 s2 : stmt,
  wf_stmt s1 = true -> wf_stmt s2 = true -> print_stmt s1 = print_stmt s2 -> stmt_erase s1 = stmt_erase s2.
Proof. exact stmt_print_injective. Qed.
Print Assumptions C06_stmt_print_injective.

(* Characters.  A text of a token list is  g0 ++ s1 ++ g1 ++ ... ++ sn ++ gn  ([render_text]) where si is any
   SPELLING of token i ([spell]: any letter case of keywords, identifiers and the s of a placeholder; leading
   zeros in integers and decimals; either quote character around a string that does not contain it; blanks /
   comments inside `%( name )s`) and gi any SEPARATOR ([sep]: whitespace
   incl. newlines and the Unicode spaces, `/* ... */` comments, `; ...` comments ended by a newline; the last one
   may end in an open `; ...`), gi non-empty at least where the computable test [needs_space ti ti+1] holds
   (word characters incl. '_' after a word / number / `#name` / placeholder; digits then '.' or '-' (1. and
   2020-10-10); '.' then a digit; '<' '>' then '='; '/' then '*'; '%' then s, S or '('; '#' then a word).
   Lexing the text gives back exactly the tokens. *)
Theorem C06_lex_roundtrip : forall (ts : list token) (ss gs : list str) (g0 : str),
  forallb tok_ok ts = true -> Forall2 spell ts ss ->
  match ts with [] => sep_end g0 | _ => sep g0 end -> seps_ok ts gs ->
  lex (render_text g0 ss gs) = Some ts.
Proof. exact lex_roundtrip. Qed.
Print Assumptions C06_lex_roundtrip.

(* Text level: print a statement, spell and space the tokens in any allowed way, parse the text. *)
Theorem C06_text_roundtrip : forall (s : stmt) (ss gs : list str) (g0 : str),
  wf_stmt s = true -> lex_ok (print_stmt s) = true ->
  Forall2 spell (print_stmt s) ss -> sep g0 -> seps_ok (print_stmt s) gs ->
  parse_text (render_text g0 ss gs) = Some (stmt_erase s).
Proof. exact text_roundtrip. Qed.
Print Assumptions C06_text_roundtrip.

(* The hypotheses are satisfiable for every token the lexer can produce: the canonical spelling
   ([render_tok]: upper-case keywords, shortest decimal digits, zero-padded dates) is a spelling, and the
   canonical text (every token followed by one blank) lexes and parses back. *)
Theorem C06_spell_canonical : forall t : token, tok_ok t = true -> spell t (render_tok t).
Proof. exact spell_canonical. Qed.
Print Assumptions C06_spell_canonical.

Theorem C06_lex_canonical : forall ts : list token, forallb tok_ok ts = true -> lex (render ts) = Some ts.
Proof. exact lex_render_canonical. Qed.
Print Assumptions C06_lex_canonical.

Theorem C06_text_roundtrip_canonical : forall s : stmt,
  wf_stmt s = true -> lex_ok (print_stmt s) = true -> parse_text (render (print_stmt s)) = Some (stmt_erase s).
Proof. exact text_roundtrip_canonical. Qed.
Print Assumptions C06_text_roundtrip_canonical.

(* Not covered by the spelling relation (tested by the correspondence only): writing a decimal without its
   zero integer part (`.5` for `0.5`) -- the lexer then returns a different token (the printer always writes
   the integer part; the two differ only as a GROUP BY / ORDER BY column, where `0.5` is not accepted). *)

(* From TEXT to result rows inside Coq (Model/Front.v): run_text = lex >>= parse >>= to_cstmt >>= Link.run_stmt
   (compile >>= lower >>= exec of builder-C05's Model/Link.v).  [to_cstmt] maps the parser model's AST to the
   compiler model's AST as harness/vf/c05.py serialises real ASTs; placeholder positions are the number of
   placeholders to the left and the source text of a target is reconstructed from the printer (see Front.v).
   Running the text of a printed statement, however spelled and spaced, is running the statement. *)
Theorem C06_run_text_print : forall (sch : Compile.schema) (p : Compile.params) (dat : Link.data)
                                    (s : stmt) (ss gs : list str) (g0 : str),
  wf_stmt s = true -> lex_ok (print_stmt s) = true ->
  Forall2 spell (print_stmt s) ss -> sep g0 -> seps_ok (print_stmt s) gs ->
  run_text sch p dat (render_text g0 ss gs)
  = match to_cstmt (stmt_erase s) with Some c => Link.run_stmt sch p dat c | None => None end.
Proof. exact run_text_print. Qed.
Print Assumptions C06_run_text_print.

(* a text using the scalar library modelled for C18 (linked into the executor model: Eval.apply_func), run from its
   characters to its rows inside Coq; the dates are 2020-01-01, 2020-07-03 and NULL *)
Example C06_run_text_library :
  let v := Compile.mk_table "v"%string [("d", "date"); ("b", "str")]%string ["d"; "b"]%string false in
  let rows := [[PyValue.VDate 737425; PyValue.VStr (Dates.s2z "Assets:Cash")]; [PyValue.VDate 737609; PyValue.VStr (Dates.s2z "Income")];
               [PyValue.VNull; PyValue.VStr (Dates.s2z "Assets:Bank")]] in
  run_text [v] Compile.PNone [("v"%string, rows)]
    (Dates.s2z "select weekday(d), root(b, 1), date_part('week', d) + length(str(d)) from #v where year(d) = 2020 order by 2 desc")
  = Some (inl [[PyValue.VStr (Dates.s2z "Fri"); PyValue.VStr (Dates.s2z "Income"); PyValue.VInt 37];
               [PyValue.VStr (Dates.s2z "Wed"); PyValue.VStr (Dates.s2z "Assets"); PyValue.VInt 11]]).
Proof. vm_compute. reflexivity. Qed.

(* The front end loses nothing: statements with the same translation are the same statement (this covers names,
   every literal form incl. date -> ordinal, clause structure and placeholder numbering). *)
Theorem C06_to_cstmt_injective : forall (s1 s2 : stmt) (c : Compile.stmt),
  to_cstmt s1 = Some c -> to_cstmt s2 = Some c -> s1 = s2.
Proof. exact to_cstmt_inj. Qed.
Print Assumptions C06_to_cstmt_injective.

(* ---------------------------------------------------------------------- *)
(* Examples: the hypotheses are satisfiable and the precedence chain
   OR < AND < NOT < comparison < + - < * / % < unary minus < attribute/subscript/call is what the parser does. *)
Open Scope string_scope.
Definition S := str_of_string.
Definition col (s : string) := EColumn (S s).
Definition ptext (s : string) : option stmt := parse_text (S s).
Definition sel1 (e : expr) : option stmt :=
  Some (SSelect (ESelect false (Some [(e, None)]) None None None [] None None)).

Example C06_wf_example :
  let e := EOr [EAnd [ENot (ECmp Lt (col "a") (EArith Add (col "b") (EArith Mul (col "c") (ENeg (EAttr (col "d") (S "x"))))));
                      EBetween (col "e") (EConst (LInt 1)) (EConst (LDec 25 1))];
                EIsNull (EFunc (S "f") [col "g"; EList [LNull; LStr (S "s")]])] in
  wf e = true /\ pure e = true /\ parse_expr (pp 1 e) = Some e.
Proof. vm_compute. repeat split. Qed.

Example C06_precedence_chain :
  ptext "SELECT a OR b AND NOT c < d + e * - f.g"
  = sel1 (EOr [col "a"; EAnd [col "b"; ENot (ECmp Lt (col "c")
            (EArith Add (col "d") (EArith Mul (col "e") (ENeg (EAttr (col "f") (S "g"))))))]]).
Proof. vm_compute. reflexivity. Qed.

Example C06_left_assoc :
  ptext "SELECT a - b - c, a / b % c"
  = Some (SSelect (ESelect false (Some [(EArith Sub (EArith Sub (col "a") (col "b")) (col "c"), None);
                                        (EArith Mod (EArith Div (col "a") (col "b")) (col "c"), None)])
                           None None None [] None None)).
Proof. vm_compute. reflexivity. Qed.

Example C06_nonassoc_comparison : ptext "SELECT a < b < c" = None /\ ptext "SELECT a = b = c" = None.
Proof. vm_compute. split; reflexivity. Qed.

Example C06_between_bounds_are_sums :
  ptext "SELECT a BETWEEN b AND c AND d"
  = sel1 (EAnd [EBetween (col "a") (col "b") (col "c"); col "d"]).
Proof. vm_compute. reflexivity. Qed.

Example C06_literals :
  ptext "SELECT NULL, TRUE, false, 007, 1.50, .5, 1., 2020-02-29, 'it""s', ""it's"", (1,), (1, NULL, 'x')"
  = Some (SSelect (ESelect false
       (Some [(EConst LNull, None); (EConst (LBool true), None); (EConst (LBool false), None);
              (EConst (LInt 7), None); (EConst (LDec 150 2), None); (EConst (LDec 5 1), None);
              (EConst (LDec 1 0), None); (EConst (LDate 2020 2 29), None);
              (EConst (LStr (S "it""s")), None); (EConst (LStr (S "it's")), None);
              (EList [LInt 1], None); (EList [LInt 1; LNull; LStr (S "x")], None)])
       None None None [] None None)).
Proof. vm_compute. reflexivity. Qed.

Example C06_identifiers_with_keyword_prefix :
  ptext "SELECT not_cleared, null_x, true_v FROM open_x"
  = Some (SSelect (ESelect false (Some [(col "not_cleared", None); (col "null_x", None); (col "true_v", None)])
                           (Some (FFrom (Some (col "open_x")) None None false)) None None [] None None)).
Proof. vm_compute. reflexivity. Qed.

Example C06_stmt_example :
  let st := SSelect (ESelect true (Some [(EArith Add (col "a") (EConst (LInt 1)), Some (S "n"))])
                       (Some (FSub (ESelect false None (Some (FTable (S "t"))) None None [] None None)))
                       (Some (ECmp In (col "x") (ESelect false (Some [(col "y", None)]) None None None [] None None)))
                       (Some ([inl 1%N; inr (EParen (EConst (LInt 2)))], Some (col "h")))
                       [(inr (col "q"), true)] (Some (inl 1%N, inr (S "w"))) (Some 10%N)) in
  wf_stmt st = true /\ parse_tokens (print_stmt st) = Some (stmt_erase st).
Proof. vm_compute. split; reflexivity. Qed.

(* a text with mixed case, leading zeros, comments, tight and loose spacing satisfies the hypotheses of
   C06_text_roundtrip for the statement it was rendered from *)
Example C06_text_example :
  let st := SSelect (ESelect false (Some [(EArith Sub (col "a") (EConst (LInt 7)), None)]) None
                       (Some (ECmp Le (col "b") (EConst (LStr (S "x"))))) None [] None None) in
  let ss := [S "sElEcT"; S "A"; S "-"; S "007"; S "Where"; S "b"; S "<="; S "'x'"] in
  let gs := [S " "; S ""; S "/* c */"; S (String (Ascii.ascii_of_nat 10) ""); S "  "; S ""; S ""; S " ; bye"] in
  print_stmt st = [TKw KSELECT; TId (S "a"); TMinus; TInt 7; TKw KWHERE; TId (S "b"); TLe; TStr (S "x")]
  /\ wf_stmt st = true /\ lex_ok (print_stmt st) = true
  /\ parse_text (render_text (S " ") ss gs) = Some st.
Proof. vm_compute. repeat split. Qed.

Example C06_needs_space_examples :
  needs_space (TInt 2020) TMinus = true /\ needs_space (TInt 1) TDot = true /\ needs_space TLt TEq = true
  /\ needs_space TSlash TStar = true /\ needs_space TPercent (TId (S "sum")) = true
  /\ needs_space TPercent (TId (S "a")) = false /\ needs_space TPercent TLP = true
  /\ needs_space (TKw KNOT) (TId (S "_x")) = true /\ needs_space (TTable []) (TId (S "t")) = true
  /\ needs_space (TId (S "f")) TLP = false /\ needs_space TMinus TMinus = false
  /\ needs_space (TStr []) (TStr []) = false.
Proof. vm_compute. repeat split. Qed.

(* ... and that choice of spellings and separators meets the hypotheses of C06_text_roundtrip *)
Example C06_text_example_hypotheses :
  let ts := [TKw KSELECT; TId (S "a"); TMinus; TInt 7; TKw KWHERE; TId (S "b"); TLe; TStr (S "x")] in
  let ss := [S "sElEcT"; S "A"; S "-"; S "007"; S "Where"; S "b"; S "<="; S "'x'"] in
  let gs := [S " "; S ""; S "/* c */"; S (String (Ascii.ascii_of_nat 10) ""); S "  "; S ""; S ""; S " ; bye"] in
  Forall2 spell ts ss /\ sep (S " ") /\ seps_ok ts gs.
Proof.
  assert (Sp : forall c, is_space c = true -> sep [c]) by (intros c H; apply sep_space; [exact H|apply sep_nil]).
  split; [|split].
  - apply Forall2_cons; [vm_compute; reflexivity|].
    apply Forall2_cons; [vm_compute; repeat split|].
    apply Forall2_cons; [reflexivity|].
    apply Forall2_cons; [vm_compute; repeat split; discriminate|].
    apply Forall2_cons; [vm_compute; reflexivity|].
    apply Forall2_cons; [vm_compute; repeat split|].
    apply Forall2_cons; [reflexivity|].
    apply Forall2_cons; [exists 39%Z; split; [right; reflexivity|split; reflexivity]|].
    apply Forall2_nil.
  - apply Sp. reflexivity.
  - cbn [seps_ok]. repeat split; try (intros H; vm_compute in H; discriminate H); try (intros _; reflexivity).
    + apply Sp. reflexivity.
    + apply sep_nil.
    + apply (sep_comment (S " c ") []); [reflexivity|apply sep_nil].
    + apply Sp. reflexivity.
    + apply sep_space; [reflexivity|apply Sp; reflexivity].
    + apply sep_nil.
    + apply sep_nil.
    + apply (sep_end_eol (S " ") (S " bye")); [apply Sp; reflexivity|reflexivity].
Qed.

(* ====================================================================================================
   The regenerated grammar, EXECUTED.  Model/Peg.v is a generic PEG interpreter over the grammar data
   type of Model/Grammar.v; Model/PegActions.v supplies the semantic actions of BQLSemantics and
   [peg_parse : text -> option stmt] = that interpreter run on Gen.Grammar.grammar, the value
   regenerated from bql.ebnf on every run.  Proofs/PegProofs.v: a declarative big-step PEG semantics
   [sem] (no fuel, no memo table; ordered choice commits to the first succeeding alternative, cut,
   greedy closures, seed-growing left recursion) and the theorems below, for EVERY grammar value. *)
From Verif Require Import Model.Grammar Model.Peg Model.PegActions Proofs.PegProofs.

(* (a) soundness: whatever the interpreter answers -- for any grammar, lexical configuration, action
   function, work item, input, frame, seeds, memo table satisfying the table invariant, and fuel -- is
   what the declarative semantics assigns, and the table invariant is preserved *)
Theorem C06_peg_sound : forall g lc act fuel sd it s f tb o tb',
  tbl_ok g lc act tb -> interp g lc act fuel sd it s f tb = Some (o, tb') ->
  sem g lc act sd it s f o /\ tbl_ok g lc act tb'.
Proof. exact interp_sound. Qed.
Print Assumptions C06_peg_sound.

(* the semantics assigns at most one outcome: "the parser implements the grammar" leaves no choice *)
Theorem C06_peg_sem_deterministic : forall g lc act sd it s f o1,
  sem g lc act sd it s f o1 -> forall o2, sem g lc act sd it s f o2 -> o1 = o2.
Proof. exact sem_det. Qed.
Print Assumptions C06_peg_sem_deterministic.

(* (b) fuel monotonicity, and its corollary: any two sufficient fuels give the same answer *)
Theorem C06_peg_fuel_monotone : forall g lc act f1 f2, f1 <= f2 ->
  forall sd it s f tb x, interp g lc act f1 sd it s f tb = Some x -> interp g lc act f2 sd it s f tb = Some x.
Proof. exact interp_mono. Qed.
Print Assumptions C06_peg_fuel_monotone.

Theorem C06_peg_fuel_irrelevant : forall g lc act f1 f2 sd it s f tb x1 x2,
  interp g lc act f1 sd it s f tb = Some x1 -> interp g lc act f2 sd it s f tb = Some x2 -> x1 = x2.
Proof. exact interp_agree. Qed.
Print Assumptions C06_peg_fuel_irrelevant.

(* a text accepted by [peg_run] has a derivation of the start rule yielding that node; a rejected text
   has no successful derivation of the start rule at all *)
Theorem C06_peg_accept_sound : forall g act cs n,
  peg_run g act cs = Some (Some n) ->
  exists r0 rules rest f c,
    snd g = r0 :: rules /\ f_last f = n /\
    sem g (cfg_of g) act [] (IExp (GRef (rule_name r0))) cs fr0 (Ok rest f c).
Proof. exact peg_run_accept_sound. Qed.
Print Assumptions C06_peg_accept_sound.

Theorem C06_peg_reject_sound : forall g act cs r0 rules,
  snd g = r0 :: rules -> peg_run g act cs = Some None ->
  forall rest f c, ~ sem g (cfg_of g) act [] (IExp (GRef (rule_name r0))) cs fr0 (Ok rest f c).
Proof. exact peg_run_reject_sound. Qed.
Print Assumptions C06_peg_reject_sound.

(* specialised to the grammar regenerated on this run and the actions of BQLSemantics *)
Theorem C06_peg_parse_sound : forall cs st,
  peg_parse cs = Some st ->
  exists rest f c,
    sem Verif.Gen.Grammar.grammar (cfg_of Verif.Gen.Grammar.grammar) bql_act [] (IExp (GRef "bql")) cs fr0 (Ok rest f c)
    /\ to_stmt (conv_fuel cs) (f_last f) = Some st.
Proof. exact peg_parse_sound. Qed.
Print Assumptions C06_peg_parse_sound.

(* (c) agreement with the hand-written parser.  FULL STATEMENT (not proved):
     forall s, wf_stmt s = true -> peg_parse (render (print_stmt s)) = parse_text (render (print_stmt s))
   (and for every admissible spelling).  Missing: the induction over all well-formed trees through the
   generic interpreter specialised to the 64 rules.  Proved: the statement on the finite domain
   [peg_domain] (981 statements SELECT e WHERE e: every leaf kind, every operator over leaves, every
   parent-operator x child-per-precedence-class x operand-position combination of depth 2), where both
   parsers also return the erased tree.  The four-way correspondence stream measures the rest. *)
Theorem C06_peg_agrees_partial : forall s, List.In s peg_domain ->
  peg_parse (render (print_stmt s)) = parse_text (render (print_stmt s))
  /\ peg_parse (render (print_stmt s)) = Some (stmt_erase s).
Proof. exact peg_agrees_partial. Qed.
Print Assumptions C06_peg_agrees_partial.

Example C06_peg_domain_size : List.length peg_domain = 981%nat.
Proof. exact peg_domain_size. Qed.

(* the hypotheses are satisfiable: the interpreter accepts a text under the regenerated grammar, with the
   AST the hand-written parser gives; the empty memo table satisfies the invariant *)
Example C06_peg_example :
  peg_parse (S "select a + 1 * 2 /* c */ , f(x).y['k'] AS z from #t where not a = 1 and b in (1, NULL)")
  = ptext "select a + 1 * 2 /* c */ , f(x).y['k'] AS z from #t where not a = 1 and b in (1, NULL)"
  /\ peg_parse (S "SELECT 1 +") = None /\ peg_parse (S "SELECT a FROM OPEN ON 2020-01-01 CLOSE CLEAR") <> None.
Proof. vm_compute. repeat split. discriminate. Qed.

Example C06_peg_table_invariant_satisfiable : forall g lc act, tbl_ok g lc act tbl_empty.
Proof. exact tbl_empty_ok. Qed.

(* ====================================================================================================
   The semantic actions FROM THE CURRENT SOURCE (bld-sem).  Gen/SrcSemantics.v is regenerated on every run from
   the live objects of beanquery.parser: every function of the class BQLSemantics, parse and ParseError.__init__ as
   PyMini terms (harness/vf/src_semantics.py), plus the method names of the class, its __mro__, the members of
   ast.Ordering and the module-level objects of the module.  The theorems below say, for ALL token texts of the
   rule's lexical class (the patterns of bql.ebnf as boolean predicates over Model/Lexer.v's scanners, in
   Model/PrimsSemantics.v), that interpreting the translated action gives the value Model/PegActions.v's [bql_act]
   assigns - the function the PEG interpreter above runs with.  Library conversions (int, Decimal, strptime, lower,
   rstrip, constructors) are primitives whose meaning is the model function the lexer uses (Model/PrimsSemantics.v,
   trusted); what is verified is how each action composes them. *)
Import Verif.Base.PyValue Verif.Model.PyMini Verif.Model.PrimsApi Verif.Model.PrimsSemantics Verif.Gen.SrcSemantics.
Import Verif.Proofs.SrcSemantics.

(* string literal: the value is the text between the first and the last character - whatever the text; no other
   character is cut (a quote character at the edge of the body stays) *)
Theorem C06_source_string_literal :
  forall (call_ref : nat -> list pv -> pv) (msg : String.string -> list pv -> pv) (tatsu : list Z -> tres)
    flds ps s,
  call_method call_ref (prim_sem kN kA msg tatsu) sem_string flds [PV (VStr s)] = PyMini.Ok (flds, PV (VStr (removelast (tl s)))) /\
  bql_act "string" ps (Peg.NStr s) = Some (Peg.NStr (removelast (tl s))).
Proof. exact Proofs.SrcSemantics.string_src. Qed.
Print Assumptions C06_source_string_literal.

Theorem C06_source_string_body :
  forall (call_ref : nat -> list pv -> pv) (msg : String.string -> list pv -> pv) (tatsu : list Z -> tres)
    flds q q' body,
  call_method call_ref (prim_sem kN kA msg tatsu) sem_string flds [PV (VStr (q :: body ++ [q']))] = PyMini.Ok (flds, PV (VStr body)).
Proof.
  exact (fun call_ref msg tatsu flds q q' body =>
    eq_trans (proj1 (Proofs.SrcSemantics.string_src call_ref msg tatsu flds [] (q :: body ++ [q'])))
             (f_equal (fun b => PyMini.Ok (flds, PV (VStr b))) (Proofs.SrcSemantics.string_body q q' body))).
Qed.
Print Assumptions C06_source_string_body.

(* decimal literal: exact and context-free - coefficient = all the digits, exponent = - number of fraction digits *)
Theorem C06_source_decimal_literal :
  forall (call_ref : nat -> list pv -> pv) (msg : String.string -> list pv -> pv) (tatsu : list Z -> tres)
    flds ps s, decimal_class s = true ->
  call_method call_ref (prim_sem kN kA msg tatsu) sem_decimal flds [PV (VStr s)] = PyMini.Ok (flds, (PrimsSemantics.enc kN) (PegActions.dec_of s)) /\
  bql_act "decimal" ps (Peg.NStr s) = Some (PegActions.dec_of s).
Proof. exact Proofs.SrcSemantics.decimal_src. Qed.
Print Assumptions C06_source_decimal_literal.

Theorem C06_source_decimal_spelled : forall ip fp,
  forallb Lexer.is_digit ip = true -> forallb Lexer.is_digit fp = true ->
  PegActions.dec_of (ip ++ 46%Z :: fp) = Peg.NDec (Lexer.digits_val (ip ++ fp)) (List.length fp).
Proof. exact Proofs.SrcSemantics.dec_of_spelled. Qed.
Print Assumptions C06_source_decimal_spelled.

Theorem C06_source_integer_literal :
  forall (call_ref : nat -> list pv -> pv) (msg : String.string -> list pv -> pv) (tatsu : list Z -> tres)
    flds ps s, integer_class s = true ->
  call_method call_ref (prim_sem kN kA msg tatsu) sem_integer flds [PV (VStr s)] = PyMini.Ok (flds, PInt (Z.of_N (Lexer.digits_val s))) /\
  bql_act "integer" ps (Peg.NStr s) = Some (Peg.NInt (Lexer.digits_val s)).
Proof. exact Proofs.SrcSemantics.integer_src. Qed.
Print Assumptions C06_source_integer_literal.

(* date literal: a calendar date gives the date; any other text of the class makes the action raise
   FailedSemantics, i.e. the rule fails and the grammar's next alternative is tried *)
Theorem C06_source_date_literal :
  forall (call_ref : nat -> list pv -> pv) (msg : String.string -> list pv -> pv) (tatsu : list Z -> tres)
    flds ps s y m d, Lexer.lex_date s = Some (y, m, d, []) ->
  call_method call_ref (prim_sem kN kA msg tatsu) sem_date flds [PV (VStr s)] =
    PyMini.Ok (flds, if Lexer.valid_date y m d then (PrimsSemantics.enc kN) (Peg.NDate y m d)
                     else Proofs.SrcSemantics.date_failure msg s) /\
  bql_act "date" ps (Peg.NStr s) = if Lexer.valid_date y m d then Some (Peg.NDate y m d) else None.
Proof. exact Proofs.SrcSemantics.date_src. Qed.
Print Assumptions C06_source_date_literal.

Theorem C06_source_date_class : forall s,
  date_class s = true <-> exists y m d, Lexer.lex_date s = Some (y, m, d, []).
Proof. exact Proofs.SrcSemantics.date_class_iff. Qed.
Print Assumptions C06_source_date_class.

Theorem C06_source_valid_date : forall y m d,
  Lexer.valid_date y m d = Dates.valid_ymd (Z.of_N y) (Z.of_N m) (Z.of_N d).
Proof. exact Proofs.SrcSemantics.valid_date_ymd. Qed.
Print Assumptions C06_source_valid_date.

Theorem C06_source_boolean_null :
  forall (call_ref : nat -> list pv -> pv) (msg : String.string -> list pv -> pv) (tatsu : list Z -> tres)
    flds ps s v n,
  (call_method call_ref (prim_sem kN kA msg tatsu) sem_boolean flds [PV (VStr s)] = PyMini.Ok (flds, PBool (Ast.str_eqb s (Lexer.str_of_string "TRUE"))) /\
   bql_act "boolean" ps (Peg.NStr s) = Some (Peg.NBool (Ast.str_eqb s (Lexer.str_of_string "TRUE")))) /\
  (call_method call_ref (prim_sem kN kA msg tatsu) sem_null flds [v] = PyMini.Ok (flds, (PrimsSemantics.enc kN) Peg.NNullMark) /\ bql_act "null" ps n = Some Peg.NNullMark).
Proof.
  exact (fun call_ref msg tatsu flds ps s v n => conj (Proofs.SrcSemantics.boolean_src call_ref msg tatsu flds ps s)
                                   (Proofs.SrcSemantics.null_src call_ref msg tatsu flds ps v n)).
Qed.
Print Assumptions C06_source_boolean_null.

Theorem C06_source_identifier :
  forall (call_ref : nat -> list pv -> pv) (msg : String.string -> list pv -> pv) (tatsu : list Z -> tres)
    flds ps s, identifier_class s = true ->
  call_method call_ref (prim_sem kN kA msg tatsu) sem_identifier flds [PV (VStr s)] = PyMini.Ok (flds, PV (VStr (map Lexer.lower s))) /\
  bql_act "identifier" ps (Peg.NStr s) = Some (Peg.NStr (map Lexer.lower s)).
Proof. exact Proofs.SrcSemantics.identifier_src. Qed.
Print Assumptions C06_source_identifier.

(* list constants: the _NULL markers of the closure become None, every other item is kept, in order *)
Theorem C06_source_list :
  forall (call_ref : nat -> list pv -> pv) (msg : String.string -> list pv -> pv) (tatsu : list Z -> tres)
    flds l,
  call_method call_ref (prim_sem kN kA msg tatsu) sem_list flds [PList (map (PrimsSemantics.enc kN) l)] = PyMini.Ok (flds, PList (map (PrimsSemantics.enc kN) (map PegActions.unmark l))).
Proof. exact Proofs.SrcSemantics.list_src. Qed.
Print Assumptions C06_source_list.

Theorem C06_source_asterisk_ordering :
  forall (call_ref : nat -> list pv -> pv) (msg : String.string -> list pv -> pv) (tatsu : list Z -> tres)
    flds ps v n0 n,
  (call_method call_ref (prim_sem kN kA msg tatsu) sem_asterisk flds [v] = PyMini.Ok (flds, (PrimsSemantics.enc kN) Peg.NAsterisk) /\ bql_act "asterisk" ps n0 = Some Peg.NAsterisk) /\
  ((n = Peg.NNone \/ exists c t, n = Peg.NStr (c :: t)) ->
   call_method call_ref (prim_sem kN kA msg tatsu) sem_ordering flds [(PrimsSemantics.enc kN) n] =
   match bql_act "ordering" ps n with Some n' => PyMini.Ok (flds, (PrimsSemantics.enc kN) n') | None => Exc KeyError end).
Proof.
  exact (fun call_ref msg tatsu flds ps v n0 n => conj (Proofs.SrcSemantics.asterisk_src call_ref msg tatsu flds ps v n0)
                                    (Proofs.SrcSemantics.ordering_src call_ref msg tatsu flds ps n)).
Qed.
Print Assumptions C06_source_asterisk_ordering.

(* _default: without a type name the node itself; with one, the object of that class built from the fields *)
Theorem C06_source_default :
  forall (call_ref : nat -> list pv -> pv) (msg : String.string -> list pv -> pv) (tatsu : list Z -> tres)
    flds v ty fs,
  call_method call_ref (prim_sem kN kA msg tatsu) sem_default flds [v; PNone] = PyMini.Ok (flds, v) /\
  (NoDup (map (fun kv => PegActions.rstrip_us (fst kv)) fs) ->
   call_method call_ref (prim_sem kN kA msg tatsu) sem_default flds [(PrimsSemantics.enc kN) (Peg.NDict fs); PStr ty] =
   PyMini.Ok (flds, (PrimsSemantics.enc kN) (Peg.NObj ty (Proofs.SrcSemantics.default_fields fs)))).
Proof.
  exact (fun call_ref msg tatsu flds v ty fs => conj (Proofs.SrcSemantics.default_plain_src call_ref msg tatsu flds v)
                                  (Proofs.SrcSemantics.default_typed_src call_ref msg tatsu flds ty fs)).
Qed.
Print Assumptions C06_source_default.

(* parse(text): a NEW parser object and a NEW semantics object per call, run on the argument itself (no
   normalisation, no cache key); a rejection is re-raised as ParseError whose location ends at
   min(pos + 1, len(text)) *)
Theorem C06_source_parse :
  forall (call_ref : nat -> list pv -> pv) (msg : String.string -> list pv -> pv) (tatsu : list Z -> tres)
    text,
  call_function call_ref (prim_sem kN kA msg tatsu) parser_parse [PV (VStr text)] =
  match tatsu text with
  | TAccept n => PyMini.Ok n
  | TReject item pos => PyMini.Ok (raised (Proofs.SrcSemantics.parse_error msg text item pos))
  end.
Proof. exact Proofs.SrcSemantics.parse_src. Qed.
Print Assumptions C06_source_parse.

Theorem C06_source_parse_location :
  forall (call_ref : nat -> list pv -> pv) (msg : String.string -> list pv -> pv) (tatsu : list Z -> tres)
    text item pos, tatsu text = TReject item pos ->
  exists e,
    call_function call_ref (prim_sem kN kA msg tatsu) parser_parse [PV (VStr text)] =
      PyMini.Ok (raised (new_obj parse_error_cls
                    [new_obj parseinfo_cls [tokenizer_of text; item; PInt pos; PInt e;
                                            Proofs.SrcSemantics.line_of msg text pos; PList []]])) /\
    (e <= Z.of_nat (List.length text) /\ e <= pos + 1 /\ (pos < Z.of_nat (List.length text) -> e = pos + 1))%Z.
Proof. exact Proofs.SrcSemantics.parse_location_src. Qed.
Print Assumptions C06_source_parse_location.

Theorem C06_source_parse_error_init :
  forall (call_ref : nat -> list pv -> pv) (msg : String.string -> list pv -> pv) (tatsu : list Z -> tres)
    flds pinfo,
  call_method call_ref (prim_sem kN kA msg tatsu) parse_error_init flds [pinfo] = PyMini.Ok (update "parseinfo" pinfo flds, PNone).
Proof. exact Proofs.SrcSemantics.parse_error_init_src. Qed.
Print Assumptions C06_source_parse_error_init.


(* what the live objects say: the methods of BQLSemantics are set_context, the ten rules bql_act treats specially
   (in that order) and _default; every other rule is dispatched to _default; the module holds no object besides the
   _NULL sentinel (no parse cache, no shared parser instance) *)
Theorem C06_source_dispatch :
  semantics_methods = ("set_context" :: Proofs.SrcSemantics.specific_rules ++ ["_default"])%string /\
  semantics_bases = ["beanquery.parser.BQLSemantics"; "builtins.object"]%string /\
  ordering_members = [("ASC", 0%Z); ("DESC", 1%Z)]%string /\
  (forall r ps n, ~ List.In r Proofs.SrcSemantics.specific_rules ->
     bql_act r ps n =
     match ps with
     | [] => Some n
     | ty :: _ => match n with
                  | Peg.NDict fs => Some (Peg.NObj (PegActions.before_colons ty) (Proofs.SrcSemantics.default_fields fs))
                  | _ => None
                  end
     end).
Proof.
  exact (conj Proofs.SrcSemantics.semantics_methods_ok (conj Proofs.SrcSemantics.semantics_bases_ok
          (conj Proofs.SrcSemantics.ordering_members_ok Proofs.SrcSemantics.act_dispatch))).
Qed.
Print Assumptions C06_source_dispatch.

Theorem C06_source_module_stateless :
  module_state = [("_NULL", "builtins.object")]%string /\
  ref_of refs "beanquery.parser._NULL" = Some kN /\ ref_of refs "beanquery.parser.ast" = Some kA /\ kN <> kA.
Proof. exact (conj Proofs.SrcSemantics.module_state_ok Proofs.SrcSemantics.refs_ok). Qed.
Print Assumptions C06_source_module_stateless.

(* the translated actions RUN (vm_compute): "it's" keeps its inner quote, 1.50 keeps its trailing zero, 2021-02-29 makes
   the date rule fail, a rejected parse at position 7 of a 7-character text is located at [7, 7] *)
Example C06_source_actions_run :
  let cr := fun (_ : nat) (_ : list pv) => PNone in
  let ms := fun (_ : String.string) (_ : list pv) => PStr "?" in
  let tt := fun (t : list Z) => TReject PNone (Z.of_nat (List.length t)) in
  let run := call_method cr (prim_sem kN kA ms tt) in
  run sem_string [] [PStr "'it's'"] = PyMini.Ok ([], PStr "it's") /\
  run sem_decimal [] [PStr "1.50"] = PyMini.Ok ([], PV (VDec (mkdec false 150 (-2)))) /\
  run sem_integer [] [PStr "007"] = PyMini.Ok ([], PInt 7) /\
  run sem_date [] [PStr "2020-02-29"] = PyMini.Ok ([], PV (VDate 737484)) /\
  run sem_date [] [PStr "2021-02-29"] = PyMini.Ok ([], Proofs.SrcSemantics.date_failure ms (zs "2021-02-29")) /\
  run sem_identifier [] [PStr "Account_1"] = PyMini.Ok ([], PStr "account_1") /\
  run sem_list [] [PList [PInt 1; PRef kN; PStr "x"]] = PyMini.Ok ([], PList [PInt 1; PNone; PStr "x"]) /\
  call_function cr (prim_sem kN kA ms tt) parser_parse [PStr "SELECT "] =
    PyMini.Ok (raised (new_obj parse_error_cls
                 [new_obj parseinfo_cls [tokenizer_of (zs "SELECT "); PNone; PInt 7; PInt 7; PStr "?"; PList []]])).
Proof. vm_compute. repeat split. Qed.
