(* C09 Parameters, constant folding and history independence of execution.
   Statements only; proofs in Proofs/ParamsProofs.v. *)
From Coq Require Import ZArith List Bool.
Import ListNotations.
From Verif Require Import Base.PyValue Model.Eval Model.Params Proofs.ParamsProofs.
Open Scope Z_scope.

(* For every history of parse / execute(parsed) / execute(text) / executemany on one
   connection, every execution returns what a fresh connection returns for that
   statement and those parameters (model of the code after the repair: compilation
   does not write to the shared AST). *)
Theorem C09_history_independent : forall (h : list hop) (store : list (list ph)),
  run_history false store h = expected_history store h.
Proof. exact history_independent. Qed.
Print Assumptions C09_history_independent.

(* The earlier design (placeholders renumbered ON the parsed statement) is not:
   parse once, execute twice with two %s -> the second execution fails. This witness
   was replayed on the implementation (finding D1, repaired by a fix: commit). *)
Theorem C09_reexecute_refuted_old_design :
  run_history true [] [HParse two_positional; HExecAst 0 (PSeq [VInt 1; VInt 2]); HExecAst 0 (PSeq [VInt 1; VInt 2])]
  = [[]; [inl [VInt 1; VInt 2]]; [inr EMixed]].
Proof. exact reexecute_refuted. Qed.
Print Assumptions C09_reexecute_refuted_old_design.

(* positional parameters bind in left-to-right textual order *)
Theorem C09_positional_left_to_right : forall phs q, In q phs -> number_of phs q = before (ph_pos q) phs.
Proof. exact positional_left_to_right. Qed.
Print Assumptions C09_positional_left_to_right.

Theorem C09_positional_binding : forall phs l, phs <> [] ->
  forallb (fun q => negb (name_truthy (ph_name q))) phs = true -> length phs = length l ->
  snd (bind false phs (PSeq l)) = inl (map (fun q => nth (before (ph_pos q) phs) l VNull) phs).
Proof. exact positional_binding. Qed.
Print Assumptions C09_positional_binding.

Theorem C09_named_binding : forall phs m, phs <> [] ->
  Forall (fun q => exists s v, ph_name q = PNamed s /\ s <> [] /\ lookup s m = Some v) phs ->
  snd (bind false phs (PMap m)) =
  inl (map (fun q => match ph_name q with PNamed s => match lookup s m with Some v => v | None => VNull end | _ => VNull end) phs).
Proof. exact named_binding. Qed.
Print Assumptions C09_named_binding.

(* a placeholder compiles to the constant node of its value (compiler._placeholder), so a
   statement with parameters IS the statement with the values written as literals; and
   constant folding never changes a value, whatever the row *)
Theorem C09_fold_sound : forall r st e, eval r st (fold e) = eval r st e.
Proof. exact fold_sound. Qed.
Print Assumptions C09_fold_sound.

Theorem C09_fold_const_row_independent : forall e v, fold e = EConst v -> forall r st, eval r st e = v.
Proof. exact fold_const_row_independent. Qed.
Print Assumptions C09_fold_const_row_independent.

Example C09_fold_example :
  fold (EBinary BAdd (EBinary BMul (EConst (VInt 2)) (EConst (VInt 3))) (ECol 0))
  = EBinary BAdd (EConst (VInt 6)) (ECol 0).
Proof. reflexivity. Qed.
