(* C09 Parameters, constant folding and history independence of execution.
   Statements only; proofs in Proofs/ParamsProofs.v. *)
From Coq Require Import ZArith List Bool.
Import ListNotations.
From Verif Require Import Base.PyValue Model.Eval Model.Params Proofs.ParamsProofs.
(* translator tie: required here, imported where the source theorems start (coqdep reads Requires reliably only
   in the header, see harness/PYMINI.md) *)
From Verif Require Model.PyMini Model.PrimsApi Gen.SrcParams Proofs.SrcParams.
(* group `attach` (bld-shell3): Connection.__init__ (whole) and Connection.attach, see the end of this file *)
From Verif Require Model.PrimsAttach Gen.SrcAttach Proofs.SrcAttach.
From Verif Require Model.PrimsAttach2 Gen.SrcAttach2 Proofs.SrcAttach2.   (* bld-inv2: sources.beancount.attach *)
Open Scope Z_scope.

(* For every history of parse / execute(parsed) / execute(text) / executemany on one
   connection, every execution returns what a fresh connection returns for that
   statement and those parameters (model of the code after the repair: compilation
   does not write to the shared AST). *)
Theorem C09_history_independent : forall (h : list hop) (store : list (list ph)),
  run_history false store h = expected_history store h.
Proof. exact history_independent. Qed.
Print Assumptions C09_history_independent.

(* The earlier design (placeholders renumbered ON the parsed statement) is not:
   parse once, execute twice with two %s -> the second execution fails. This witness
   was replayed on the implementation (finding D1, repaired by a fix: commit). *)
Theorem C09_reexecute_refuted_old_design :
  run_history true [] [HParse two_positional; HExecAst 0 (PSeq [VInt 1; VInt 2]); HExecAst 0 (PSeq [VInt 1; VInt 2])]
  = [[]; [inl [VInt 1; VInt 2]]; [inr EMixed]].
Proof. exact reexecute_refuted. Qed.
Print Assumptions C09_reexecute_refuted_old_design.

(* positional parameters bind in left-to-right textual order *)
Theorem C09_positional_left_to_right : forall phs q, In q phs -> number_of phs q = before (ph_pos q) phs.
Proof. exact positional_left_to_right. Qed.
Print Assumptions C09_positional_left_to_right.

Theorem C09_positional_binding : forall phs l, phs <> [] ->
  forallb (fun q => negb (name_truthy (ph_name q))) phs = true -> length phs = length l ->
  snd (bind false phs (PSeq l)) = inl (map (fun q => nth (before (ph_pos q) phs) l VNull) phs).
Proof. exact positional_binding. Qed.
Print Assumptions C09_positional_binding.

Theorem C09_named_binding : forall phs m, phs <> [] ->
  Forall (fun q => exists s v, ph_name q = PNamed s /\ s <> [] /\ lookup s m = Some v) phs ->
  snd (bind false phs (PMap m)) =
  inl (map (fun q => match ph_name q with PNamed s => match lookup s m with Some v => v | None => VNull end | _ => VNull end) phs).
Proof. exact named_binding. Qed.
Print Assumptions C09_named_binding.

(* a placeholder compiles to the constant node of its value (compiler._placeholder), so a
   statement with parameters IS the statement with the values written as literals; and
   constant folding never changes a value, whatever the row *)
Theorem C09_fold_sound : forall r st e, eval r st (fold e) = eval r st e.
Proof. exact fold_sound. Qed.
Print Assumptions C09_fold_sound.

Theorem C09_fold_const_row_independent : forall e v, fold e = EConst v -> forall r st, eval r st e = v.
Proof. exact fold_const_row_independent. Qed.
Print Assumptions C09_fold_const_row_independent.

Example C09_fold_example :
  fold (EBinary BAdd (EBinary BMul (EConst (VInt 2)) (EConst (VInt 3))) (ECol 0))
  = EBinary BAdd (EConst (VInt 6)) (ECol 0).
Proof. reflexivity. Qed.

From Coq Require Import String.
Import Verif.Model.PyMini Verif.Model.PrimsApi Verif.Gen.SrcParams Verif.Proofs.SrcParams.
Open Scope list_scope.

(* ---- Tie by translation (re-checked on every run against the CURRENT source of beanquery/compiler.py and
   beanquery/__init__.py).  Gen/SrcParams.v holds the PyMini translations (harness/vf/py2mini.py + src_api.py, from
   inspect.getsource of the imported objects) of Compiler.compile, Compiler._placeholder, compiler.compile and
   Connection.execute / cursor / parse / compile.  The primitives the bodies use (isinstance, set and dict
   comprehensions, all / any, sorted(key=pos), enumerate, id, subscripts, raise) have the semantics of
   Model/PrimsApi.v; a statement is the list of nodes query.walk() yields (placeholders and nodes of other classes),
   parameters are None / a list / a mapping.

   C09_source_placeholders: for EVERY statement and parameter set the translated Compiler.compile raises exactly the
   error Model/Params.bind (the function the theorems above are stated over) gives - TypeError for the wrong
   container, "query parameter missing", the count mismatch, "cannot be mixed" - and otherwise stores the parameters
   and (positional case) the numbering of the placeholders ON THE COMPILER OBJECT, calls check_subqueries and
   returns what self._compile(query) returns. *)
Theorem C09_source_placeholders : forall (call_ref : nat -> list pv -> pv) (msg : string -> list pv -> pv)
    (kcs kc : nat) (w : list node) (p : Params.params) (P0 D0 : pv),
  ref_of refs "beanquery.compiler.check_subqueries" = Some kcs ->
  Forall other_ok w -> plain (phs_of w) ->
  let phs := phs_of w in
  call_method call_ref (prim_api params_lib msg) compiler_compile (cflds P0 D0 kc) [enc_query w; enc_params p] =
  match snd (Params.bind false phs p) with
  | inr e => Exc (err_code e)
  | inl _ =>
      PyMini.bind (do_call call_ref (PRef kcs) [enc_query w]) (fun _ =>
      PyMini.bind (do_call call_ref (PRef kc) [enc_query w]) (fun r =>
      Ok (cflds (enc_params p) (if positional_case phs then positional_dict phs else D0) kc, r)))
  end.
Proof. exact compile_params_src. Qed.
Print Assumptions C09_source_placeholders.

(* Compiler._placeholder on the object compile leaves behind: a positional placeholder becomes the constant of the
   parameter whose index is the model's [number_of] (C09_positional_left_to_right: its rank in textual order) *)
Theorem C09_source_placeholder_positional : forall (call_ref : nat -> list pv -> pv) (msg : string -> list pv -> pv)
    (kE kc : nat) (phs : list Params.ph) (l : list value) (q : Params.ph),
  ref_of refs "beanquery.query_compile.EvalConstant" = Some kE ->
  NoDup (map Params.ph_pos phs) ->
  In q phs -> plain_name (Params.ph_name q) = true -> Params.name_truthy (Params.ph_name q) = false ->
  List.length phs = List.length l ->
  let flds := cflds (enc_params (Params.PSeq l)) (positional_dict phs) kc in
  call_method call_ref (prim_api params_lib msg) compiler_placeholder flds [enc_ph q] =
  PyMini.bind (do_call call_ref (PRef kE) [PV (nth (Params.number_of phs q) l VNull)]) (fun r => Ok (flds, r)).
Proof. exact placeholder_positional_src. Qed.
Print Assumptions C09_source_placeholder_positional.

(* a named placeholder becomes the constant of the mapping's value for its name (KeyError cannot happen after a
   successful compile: C09_source_placeholders raises "query parameter missing" first) *)
Theorem C09_source_placeholder_named : forall (call_ref : nat -> list pv -> pv) (msg : string -> list pv -> pv)
    (kE kc : nat) (m : list (list Z * value)) (D : pv) (q : Params.ph) (s : list Z),
  ref_of refs "beanquery.query_compile.EvalConstant" = Some kE ->
  Params.ph_name q = Params.PNamed s -> s <> [] ->
  let flds := cflds (enc_params (Params.PMap m)) D kc in
  call_method call_ref (prim_api params_lib msg) compiler_placeholder flds [enc_ph q] =
  match Params.lookup s m with
  | Some v => PyMini.bind (do_call call_ref (PRef kE) [PV v]) (fun r => Ok (flds, r))
  | None => Exc KeyError
  end.
Proof. exact placeholder_named_src. Qed.
Print Assumptions C09_source_placeholder_named.

(* The premise of the history model (run_history false = expected_history, C09_history_independent): nothing is
   kept between two executions.  Connection.execute leaves EVERY attribute of the connection as it was and returns
   what execute of a new cursor returns; Connection.cursor makes a new Cursor(self); compiler.compile makes a new
   Compiler (the only object whose attributes Compiler.compile writes, by C09_source_placeholders) for every
   compilation.  (That the translator accepts Compiler.compile at all means it assigns to locals and to attributes
   of self only: an assignment to an attribute of an AST node is outside the fragment and fails the run.) *)
Theorem C09_source_connection_execute : forall (call_ref : nat -> list pv -> pv) (msg : string -> list pv -> pv)
    (kcur : nat) (flds : env) (q p : pv),
  PyMini.lookup "cursor" flds = Some (PRef kcur) ->
  call_method call_ref (prim_api params_lib msg) connection_execute flds [q; p] =
  PyMini.bind (do_call call_ref (PRef kcur) []) (fun cur =>
  PyMini.bind (opaque_method msg "call:execute" [cur; q; p]) (fun r => Ok (flds, r))).
Proof. exact connection_execute_src. Qed.
Print Assumptions C09_source_connection_execute.

Theorem C09_source_connection_cursor : forall (call_ref : nat -> list pv -> pv) (msg : string -> list pv -> pv)
    (kC : nat) (flds : env),
  ref_of refs "beanquery.cursor.Cursor" = Some kC ->
  call_method call_ref (prim_api params_lib msg) connection_cursor flds [] =
  PyMini.bind (do_call call_ref (PRef kC) [PSelf]) (fun c => Ok (flds, c)).
Proof. exact connection_cursor_src. Qed.
Print Assumptions C09_source_connection_cursor.

Theorem C09_source_fresh_compiler : forall (call_ref : nat -> list pv -> pv) (msg : string -> list pv -> pv)
    (kK : nat) (ctx st p : pv),
  ref_of refs "beanquery.compiler.Compiler" = Some kK ->
  call_function call_ref (prim_api params_lib msg) compiler_compile_fn [ctx; st; p] =
  PyMini.bind (do_call call_ref (PRef kK) [ctx]) (fun c => opaque_method msg "call:compile" [c; st; p]).
Proof. exact compile_fn_src. Qed.
Print Assumptions C09_source_fresh_compiler.

Theorem C09_source_connection_parse_compile : forall (call_ref : nat -> list pv -> pv) (msg : string -> list pv -> pv)
    (kP kF : nat) (flds : env) (q : pv),
  ref_of refs "beanquery.parser.parse" = Some kP -> ref_of refs "beanquery.compiler.compile" = Some kF ->
  call_method call_ref (prim_api params_lib msg) connection_parse flds [q] =
    PyMini.bind (do_call call_ref (PRef kP) [q]) (fun r => Ok (flds, r)) /\
  call_method call_ref (prim_api params_lib msg) connection_compile flds [q] =
    PyMini.bind (do_call call_ref (PRef kF) [PSelf; q]) (fun r => Ok (flds, r)).
Proof. exact (fun cr ms kP kF flds q HP HF => conj (connection_parse_src cr ms kP flds q HP) (connection_compile_src cr ms kF flds q HF)). Qed.
Print Assumptions C09_source_connection_parse_compile.

(* Connection.__init__ (its leading `self.<attr> = ...` statements): a new connection's tables / options / errors are
   containers built inside __init__ from displays and a NullTable() call of its own, on an object that had no
   attributes: nothing class-level or module-level is stored, so two connections share no mutable object through
   them (a change that stores a shared container changes the generated term and this no longer checks). *)
Theorem C09_source_connection_init : forall (call_ref : nat -> list pv -> pv) (msg : string -> list pv -> pv)
    (kN : nat) (dsn : pv),
  ref_of refs "beanquery.tables.NullTable" = Some kN ->
  call_method call_ref (prim_api params_lib msg) connection_init_state [] [dsn] =
  PyMini.bind (do_call call_ref (PRef kN) []) (fun nt =>
  Ok ([("tables", pdict [(PV (VStr []), nt)]); ("options", pdict []); ("errors", PList [])]%string, PNone)).
Proof. exact connection_init_src. Qed.
Print Assumptions C09_source_connection_init.

(* Non-vacuity: `SELECT %s + x WHERE y = %s` (placeholders at positions 20 and 7 in walk order 20, 7) with two
   parameters: the translated compile numbers them by position and the translated _placeholder binds the one at
   position 20 to the SECOND parameter. *)
Example C09_source_example :
  let q1 := {| Params.ph_pos := 20; Params.ph_name := Params.PEmpty |} in
  let q2 := {| Params.ph_pos := 7; Params.ph_name := Params.PEmpty |} in
  let w := [NOther [83]; NPh q1; NOther [67]; NPh q2] in
  let cr := fun (k : nat) (args : list pv) => match k, args with 1%nat, [v] => v | _, _ => PNone end in
  let pr := prim_api params_lib (fun _ _ => PNone) in
  call_method cr pr compiler_compile (cflds PNone PNone 9) [enc_query w; enc_params (Params.PSeq [VInt 100; VInt 200])]
    = Ok (cflds (enc_params (Params.PSeq [VInt 100; VInt 200])) (positional_dict [q1; q2]) 9, PNone) /\
  call_method cr pr compiler_placeholder
    (cflds (enc_params (Params.PSeq [VInt 100; VInt 200])) (positional_dict [q1; q2]) 9) [enc_ph q1]
    = Ok (cflds (enc_params (Params.PSeq [VInt 100; VInt 200])) (positional_dict [q1; q2]) 9, PV (VInt 200)) /\
  call_method cr pr compiler_compile (cflds PNone PNone 9) [enc_query w; enc_params (Params.PSeq [VInt 100])]
    = Exc ParameterCount.
Proof. repeat split; vm_compute; reflexivity. Qed.

(* ---- group `attach` (bld-shell3): Gen/SrcAttach.v, regenerated on every run from beanquery.Connection.__init__ and
   Connection.attach.  A connection has EXACTLY the attributes tables, options and errors (C09_source_connection_init_whole:
   the object that only held its bound method attach holds afterwards these three and nothing else - a per-connection
   cache added in __init__ changes the term and breaks this), attach is called exactly when a dsn is given, and
   Connection.attach (C09_source_connection_attach) assigns no attribute itself: it hands the connection ITSELF, the dsn and
   the keywords to attach of importlib.import_module("beanquery.sources." + urlparse(dsn).scheme).  What that module's
   attach does to the three containers (sources/beancount.py: item assignment on context.tables, options.update,
   errors.extend) is OUTSIDE the translated fragment (subscript assignment on another object's attribute). ---- *)
Theorem C09_source_connection_init_whole : forall (call_ref : nat -> list pv -> pv) (msg : string -> list pv -> pv)
    (kA : nat) (dsn kw : pv),
  call_method call_ref (Model.PrimsAttach.prim_attach msg) Gen.SrcAttach.connection_init
    [("attach"%string, PRef kA)] [dsn; kw] =
  PyMini.bind (do_call call_ref (PRef Proofs.SrcAttach.kNull) []) (fun nt =>
  let flds := Model.PrimsAttach.new_connection (PRef kA) nt in
  if Proofs.SrcAttach.is_none dsn then Ok (flds, PNone)
  else PyMini.bind (do_call call_ref (PRef kA) [dsn; kw]) (fun _ => Ok (flds, PNone))).
Proof. exact Proofs.SrcAttach.connection_init_src. Qed.
Print Assumptions C09_source_connection_init_whole.

Theorem C09_source_connection_attach : forall (call_ref : nat -> list pv -> pv) (msg : string -> list pv -> pv)
    (flds : env) (dsn kw : pv),
  Proofs.SrcAttach.objects_ok call_ref ->
  call_method call_ref (Model.PrimsAttach.prim_attach msg) Gen.SrcAttach.connection_attach flds [dsn; kw] =
  PyMini.bind (Proofs.SrcAttach.attach_steps call_ref msg dsn kw) (fun _ => Ok (flds, PNone)).
Proof. exact Proofs.SrcAttach.connection_attach_src. Qed.
Print Assumptions C09_source_connection_attach.

Theorem C09_source_attach_refs :
  ref_of Gen.SrcAttach.refs "beanquery.tables.NullTable" = Some Proofs.SrcAttach.kNull /\
  ref_of Gen.SrcAttach.refs "urllib.parse.urlparse" = Some Proofs.SrcAttach.kUrlparse /\
  ref_of Gen.SrcAttach.refs "importlib.import_module" = Some Proofs.SrcAttach.kImport.
Proof. exact Proofs.SrcAttach.refs_ok. Qed.
Print Assumptions C09_source_attach_refs.

(* the hypothesis is satisfiable: every opaque callable returns an opaque object *)
Example C09_source_attach_objects_ok : Proofs.SrcAttach.objects_ok (fun k _ => PRef k).
Proof. intros a. split; exact I. Qed.

(* ---- group `attach2` (bld-inv2): Gen/SrcAttach2.v, regenerated on every run from the WHOLE of
   beanquery.sources.beancount.attach (the callee Connection.attach hands the connection to; rules B1-B3 of
   harness/vf/src_attach2.py: item store / update / extend on a container of the connection as assignments of the
   attribute, the module-level list TABLES as the constant list of its classes) together with `attach2_tables` (the live
   TABLES: callable, class, its `name`) and `attach2_written`.  Model: Model/PrimsAttach2.v (register_tables: one item
   store per class under its own name; raw_set: an existing key is replaced in place, a new one appended) on the
   encoding of a connection C09_source_connection_init_whole uses.  Hypotheses: urlparse returns an object whose `path`
   is some value fn; if fn is true loader.load_file(fn) returns the triple, else the keyword arguments are used; options
   is a dict, errors a list; no table constructor raises. ---- *)
Module A2 := Verif.Proofs.SrcAttach2.
Module G2 := Verif.Gen.SrcAttach2.
Module M2 := Verif.Model.PrimsAttach2.

(* the whole function: tables registered, options updated, errors extended, `attach` untouched, returns None *)
Theorem C09_source_attach_registers_tables : forall (call_ref : nat -> list pv -> pv) (msg : string -> list pv -> pv)
    (a tagT : pv) (T : list pv) (tagO : pv) (O E : list pv) (dsn entries errors options : pv) (ku : nat) (b : bool)
    (en tagP : pv) (P R : list pv),
  call_ref A2.kUrlparse [dsn] = PRef ku ->
  A2.not_err (msg "attr:path"%string [PRef ku]) -> pv_truthy (msg "attr:path"%string [PRef ku]) = Ok b ->
  (if b then call_ref A2.kLoadFile [msg "attr:path"%string [PRef ku]] = PTuple [en; PList R; PTuple [tagP; PList P]]
   else entries = en /\ errors = PList R /\ options = PTuple [tagP; PList P]) ->
  A2.constructors_ok call_ref en (PTuple [tagP; PList P]) ->
  call_method call_ref (M2.prim_attach2 msg (M2.tname_of G2.attach2_tables)) G2.source_attach
    (A2.conn a tagT T tagO O E) [dsn; entries; errors; options] =
  Ok (A2.conn a tagT (M2.register_tables G2.attach2_tables (A2.mk_table call_ref en (PTuple [tagP; PList P])) T)
              tagO (M2.raw_update O P) (E ++ R),
      PNone).
Proof. exact A2.source_attach_src. Qed.
Print Assumptions C09_source_attach_registers_tables.

(* the names: the live TABLES list, in order; pairwise distinct names and classes; entries / postings first, from
   query_env; the connection attributes written are tables, options, errors *)
Theorem C09_source_attach_registers_names :
  map snd G2.attach2_tables =
  ["entries"; "postings"; "transactions"; "prices"; "balances"; "notes"; "events"; "documents"; "accounts";
   "commodities"]%string
  /\ NoDup (map snd G2.attach2_tables)
  /\ NoDup (map (fun t => fst (fst t)) G2.attach2_tables)
  /\ map (fun t => snd (fst t)) (firstn 2 G2.attach2_tables) =
     ["beanquery.query_env.EntriesTable"; "beanquery.query_env.PostingsTable"]%string
  /\ G2.attach2_written = ["tables"; "options"; "errors"]%string
  /\ ref_of G2.refs "urllib.parse.urlparse" = Some A2.kUrlparse
  /\ ref_of G2.refs "beancount.loader.load_file" = Some A2.kLoadFile.
Proof.
  exact (conj A2.table_names_eq (conj A2.table_names_nodup (conj A2.table_callables_nodup
          (conj A2.table_classes_head (conj A2.written_eq A2.refs_ok))))).
Qed.
Print Assumptions C09_source_attach_registers_names.

(* on a connection fresh from __init__ (tables = {'': NullTable()}): afterwards EXACTLY the null table and one item per
   element of TABLES, in list order, each under its own name, each the class called on (entries, options) *)
Theorem C09_source_attach_registers_once : forall (mk : nat -> pv) (nt : pv),
  M2.register_tables G2.attach2_tables mk [PTuple [PStr ""; nt]] =
  PTuple [PStr ""; nt] :: map (fun t => PTuple [PStr (snd t); mk (fst (fst t))]) G2.attach2_tables.
Proof. exact A2.registers_fresh. Qed.
Print Assumptions C09_source_attach_registers_once.

(* a second attach replaces the values in place: same keys, same order, still one item per name *)
Theorem C09_source_attach_registers_again : forall (mk mk' : nat -> pv) (nt : pv),
  M2.register_tables G2.attach2_tables mk' (M2.register_tables G2.attach2_tables mk [PTuple [PStr ""; nt]]) =
  M2.register_tables G2.attach2_tables mk' [PTuple [PStr ""; nt]].
Proof. exact A2.registers_again. Qed.
Print Assumptions C09_source_attach_registers_again.

(* whatever the tables held before: no key appears that was not there or is not the name of a class of TABLES *)
Theorem C09_source_attach_registers_nothing_else : forall tabs (mk : nat -> pv) (l : list pv) (x : pv),
  In x (M2.raw_keys (M2.register_tables tabs mk l)) ->
  In x (M2.raw_keys l) \/ In x (map (fun t => PStr (snd t)) tabs).
Proof. exact A2.registers_nothing_else. Qed.
Print Assumptions C09_source_attach_registers_nothing_else.

(* the hypotheses are satisfiable, and the composition with __init__: a dsn without a path, keyword ledger *)
Example C09_source_attach_registers_example :
  let call_ref := fun (k : nat) (args : list pv) => match k with O => PRef 100 | _ => PTuple (PInt (Z.of_nat k) :: args) end in
  let msg := fun (_ : string) (_ : list pv) => PStr "" in
  let opts := pdict [(PStr "title", PStr "x")] in
  call_method call_ref (M2.prim_attach2 msg (M2.tname_of G2.attach2_tables)) G2.source_attach
    (Model.PrimsAttach.new_connection (PRef 7) (PRef 50)) [PStr "beancount:"; PList [PInt 1]; PList [PInt 9]; opts] =
  Ok ([("attach"%string, PRef 7);
       ("tables"%string, pdict ((PStr "", PRef 50) ::
          map (fun t => (PStr (snd t), PTuple [PInt (Z.of_nat (fst (fst t))); PList [PInt 1]; opts])) G2.attach2_tables));
       ("options"%string, opts); ("errors"%string, PList [PInt 9])], PNone).
Proof. vm_compute. reflexivity. Qed.
