(* C19 Shell prints what the API returns; settings behave as a typed key-value store; CLI options.
   Statements only; every proof is [exact <lemma>] from Proofs/ShellProofs.v (or a kernel computation
   for the generated-data obligations).  [W] ranges over every World: parser, executor, numberify,
   render_text, render_csv, PRINT, the ledger's query directives and error report. *)
From Coq Require Import ZArith List Bool String.
Import ListNotations.
From Verif Require Import Base.Out Model.Shell Proofs.ShellProofs.
(* translator tie: required here, imported where the source theorems start (coqdep reads Requires reliably only
   in the header, see harness/PYMINI.md) *)
From Verif Require Base.PyValue Model.PyMini Model.PrimsApi Model.PrimsShell Gen.SrcShell Proofs.SrcShell Proofs.SrcShellSet.
From Verif Require Gen.Settings.
(* group `shell2` (bld-misc): BQLShell.on_Select and the render adapters behind FORMATS, see the end of this file *)
From Verif Require Model.PrimsShell2 Gen.SrcShell2 Proofs.SrcShell2.
(* group `shell3` (bld-shell3): the whole of BQLShell.do_run, see the end of this file *)
From Verif Require Model.PrimsShell3 Gen.SrcShell3 Proofs.SrcShell3.
Open Scope list_scope.
Open Scope Z_scope.

(* ---- the model's tables are the live module's (Gen/Settings.v is regenerated on every run) ---- *)
Theorem C19_gen_settings : Gen.Settings.settings = Model.Shell.settings.
Proof. vm_compute. reflexivity. Qed.
Print Assumptions C19_gen_settings.

Theorem C19_gen_tables :
  Gen.Settings.formats = Model.Shell.formats /\ Gen.Settings.parsers = Model.Shell.parsers /\
  Gen.Settings.commands = Model.Shell.commands /\ Gen.Settings.legacy = Model.Shell.legacy.
Proof. vm_compute. repeat split. Qed.
Print Assumptions C19_gen_tables.

(* ---- .set NAME VALUE: exactly that setting changes, nothing is printed ---- *)
Theorem C19_set_changes_exactly_one : forall (W : World) st arg name s cur v,
  arg <> [] -> shlex_split arg = ShOk [name; s] ->
  lookup st name = Some cur -> parse_value name (type_of cur) s = inr v ->
  do_set W st arg = (update st name v, []) /\
  lookup (update st name v) name = Some v /\
  (forall n', n' <> name -> lookup (update st name v) n' = lookup st n') /\
  map fst (update st name v) = map fst st.
Proof.
  intros W st arg name s cur v H1 H2 H3 H4. repeat split.
  - exact (set_assign W st arg name s cur v H1 H2 H3 H4).
  - exact (lookup_update_same st name v cur H3).
  - intros n' Hn. exact (lookup_update_other st name v n' Hn).
  - exact (update_keys st name v).
Qed.
Print Assumptions C19_set_changes_exactly_one.

(* the same at the level of whole input lines, for names and values made of plain characters
   (no blanks, quotes or backslashes): `.set NAME VALUE` then `.set NAME` *)
Theorem C19_set_line : forall (W : World) quiet st n v cur val,
  n <> [] -> v <> [] -> forallb plain n = true -> forallb plain v = true ->
  lookup st n = Some cur -> parse_value n (type_of cur) v = inr val ->
  step W quiet st (s2z ".set " ++ n ++ [32] ++ v) = (update st n val, [], false) /\
  step W quiet (update st n val) (s2z ".set " ++ n) =
    (update st n val, [EText Outfile (lit W (n ++ s2z ": " ++ getstr val ++ [10]))], false).
Proof.
  intros W quiet st n v cur val H1 H2 H3 H4 H5 H6.
  destruct (set_line W quiet st n v cur val H1 H2 H3 H4 H5 H6) as [A B]. split; [exact A|].
  rewrite B. unfold echo, println, say. rewrite <- !app_assoc. reflexivity.
Qed.
Print Assumptions C19_set_line.

(* ... and .set NAME echoes it back; .set lists every setting in field order *)
Theorem C19_set_echo : forall (W : World) st arg name v,
  arg <> [] -> shlex_split arg = ShOk [name] -> lookup st name = Some v ->
  do_set W st arg = (st, [EText Outfile (lit W (name ++ s2z ": " ++ getstr v ++ [10]))]).
Proof. intros W st arg name v H1 H2 H3. rewrite (set_echo W st arg name v H1 H2 H3). unfold echo, println, say. rewrite <- !app_assoc. reflexivity. Qed.
Print Assumptions C19_set_echo.

Theorem C19_set_lists_all : forall (W : World) st,
  do_set W st [] = (st, map (fun nv => echo W (fst nv) (snd nv)) st).
Proof. exact set_list_all. Qed.
Print Assumptions C19_set_lists_all.

Theorem C19_echo_roundtrip :
  (forall b, parse_bool (getstr (SBool b)) = inr b) /\
  (forall f, mem f formats = true -> parse_format f = inr f).
Proof. split; [exact bool_echo_roundtrip | exact format_echo_roundtrip]. Qed.
Print Assumptions C19_echo_roundtrip.

(* the store stays typed as declared through every session *)
Theorem C19_store_stays_typed : forall (W : World) quiet lines st,
  wf st -> wf (fst (run_lines W quiet st lines)).
Proof. intros W quiet lines st. exact (run_lines_wf W quiet lines st). Qed.
Print Assumptions C19_store_stays_typed.

(* ---- nothing but a valid two-argument .set ever changes the state ---- *)
Theorem C19_invalid_changes_nothing : forall (W : World) quiet st line,
  let '(st', evs, stop) := step W quiet st line in
  st' = st \/ (is_set_assignment st line st' /\ stop = false /\ forall e, In e evs -> exists m, e = EWarn m).
Proof. exact step_state. Qed.
Print Assumptions C19_invalid_changes_nothing.

Theorem C19_unknown_setting : forall (W : World) st arg name rest,
  arg <> [] -> shlex_split arg = ShOk (name :: rest) -> (List.length rest <= 1)%nat -> lookup st name = None ->
  do_set W st arg = (st, [error W (s2z "variable """ ++ name ++ s2z """ does not exist")]).
Proof. exact set_unknown_variable. Qed.
Print Assumptions C19_unknown_setting.

Theorem C19_invalid_value : forall (W : World) st arg name s cur msg,
  arg <> [] -> shlex_split arg = ShOk [name; s] ->
  lookup st name = Some cur -> parse_value name (type_of cur) s = inl msg ->
  do_set W st arg = (st, [error W msg]).
Proof. exact set_invalid_value. Qed.
Print Assumptions C19_invalid_value.

Theorem C19_unknown_command : forall (W : World) quiet st line w name arg,
  classify line = Command w name arg -> mem name commands = false ->
  step W quiet st line =
  (st, (if w then [deprecation W name] else []) ++ [error W (s2z "unknown command """ ++ name ++ [34])], false).
Proof. exact step_unknown_command. Qed.
Print Assumptions C19_unknown_command.

(* ---- dispatch is disjoint ---- *)
Theorem C19_dispatch_disjoint_dot : forall line,
  starts_with [46] (strip line) = true ->
  (forall q, classify line <> Query q) /\
  (classify line = Empty \/ exists name arg, classify line = Command false name arg).
Proof. intros line H. split; [exact (dot_line_never_query line H) | exact (dot_line_is_command line H)]. Qed.
Print Assumptions C19_dispatch_disjoint_dot.

Theorem C19_dispatch_disjoint_keyword : forall (W : World) quiet st line kw,
  In kw statement_keywords -> starts_with kw (lower (strip line)) = true ->
  classify line = Query (strip line) /\
  step W quiet st line = (st, execute W st (strip line) None, false).
Proof.
  intros W quiet st line kw H1 H2. pose proof (keyword_line_is_query line kw H1 H2) as H.
  split; [exact H | exact (step_query W quiet st line (strip line) H)].
Qed.
Print Assumptions C19_dispatch_disjoint_keyword.

(* ---- what a statement prints ---- *)
Theorem C19_query_output : forall (W : World) st q s r,
  parse W q = inr s -> skind W s <> KPrint -> run_query W s = inr r ->
  let r' := if get_bool st "numberify" then numberify W r else r in
  (get_str st "format" = s2z "text" ->
   execute W st q None =
   [EText Outfile (if is_empty W r' then lit W (s2z "(empty)" ++ [10])
                   else render_text W (get_bool st "expand") (get_bool st "boxed") (get_bool st "spaced")
                          (get_str st "nullvalue") (get_bool st "narrow") (get_bool st "unicode") r')]) /\
  (get_str st "format" = s2z "csv" ->
   execute W st q None = [EText Outfile (render_csv W (get_bool st "expand") (get_str st "nullvalue") r')]).
Proof.
  intros W st q s r Hp Hk Hr r'. split; intro Hf; rewrite (execute_select W st q s r Hp Hk Hr); fold r'; cbv zeta.
  - rewrite (render_text_format W st r' Hf). reflexivity.
  - rewrite (render_csv_format W st r' Hf). reflexivity.
Qed.
Print Assumptions C19_query_output.

Theorem C19_output_depends_on_eight_settings : forall (W : World) a b q close,
  same_output_settings a b -> execute W a q close = execute W b q close.
Proof. exact output_depends_on_eight_settings. Qed.
Print Assumptions C19_output_depends_on_eight_settings.

(* ---- .run NAME ---- *)
Theorem C19_run_named : forall (W : World) st arg name q,
  rstrip_by run_strip arg = arg -> arg <> [] -> arg <> [42] ->
  shlex_split arg = ShOk [name] -> find_query W name = Some q ->
  do_run W st arg = execute W st (q_text q) (Some (q_date q)).
Proof. exact run_named. Qed.
Print Assumptions C19_run_named.

(* running = typing, except that SELECT ... FROM <no CLOSE> gets CLOSE ON <directive date> *)
Theorem C19_run_default_close : forall (W : World) st t s d,
  parse W t = inr s ->
  execute W st t (Some d) =
  if close_applies W s then on_statement W st (set_close W s d) else execute W st t None.
Proof.
  intros W st t s d Hp. destruct (close_applies W s) eqn:E.
  - exact (run_with_close W st t s d Hp E).
  - exact (run_like_typing W st t s d Hp E).
Qed.
Print Assumptions C19_run_default_close.

Theorem C19_run_not_found : forall (W : World) st arg name,
  rstrip_by run_strip arg = arg -> arg <> [] -> arg <> [42] ->
  shlex_split arg = ShOk [name] -> find_query W name = None ->
  do_run W st arg = [error W (s2z "query """ ++ name ++ s2z """ not found")].
Proof. exact run_not_found. Qed.
Print Assumptions C19_run_not_found.

(* fix-G: quoting. `.run "NAME"` / `.run 'NAME'` looks up NAME as a whole, blanks included (shlex.split, not
   str.split): every query directive name without the quote character (and, inside double quotes, without a
   backslash) can be run by quoting it, and a quoted unknown name is reported as not found, under that name. *)
Theorem C19_run_quoted_name : forall (W : World) st q name,
  sh_quote q = true -> (forall c, In c name -> c <> q /\ (q = 34 -> c <> 92)) ->
  do_run W st (q :: name ++ [q]) =
  match find_query W name with
  | Some d => execute W st (q_text d) (Some (q_date d))
  | None => [error W (s2z "query """ ++ name ++ s2z """ not found")]
  end.
Proof. exact run_quoted_name. Qed.
Print Assumptions C19_run_quoted_name.

(* of several directives with one name the first is the named query *)
Theorem C19_first_directive_wins : forall (W : World) name,
  find_query W name = find (fun q => str_eqb (q_name q) name) (directives W).
Proof. exact find_query_first. Qed.
Print Assumptions C19_first_directive_wins.

(* `.run *`: every named query in turn, each as `.run NAME` would run it, framed by its name and two empty lines *)
Theorem C19_run_all : forall (W : World) st l,
  (forall q, In q l -> raised W (execute W st (q_text q) (Some (q_date q))) = false) ->
  run_all W st l =
  flat_map (fun q => println W Stdout (q_name q ++ [58]) :: execute W st (q_text q) (Some (q_date q))
                     ++ [println W Stdout []; println W Stdout []]) l.
Proof. exact run_all_spec. Qed.
Print Assumptions C19_run_all.

(* ---- command line ---- *)
Theorem C19_cli_options : forall (W : World) c,
  (lookup (cli_state c) (s2z "format") = Some (SStr (c_format c)) /\
   lookup (cli_state c) (s2z "numberify") = Some (SBool (c_numberify c)) /\
   (forall n, n <> s2z "format" -> n <> s2z "numberify" -> lookup (cli_state c) n = lookup init_state n) /\
   wf (cli_state c)) /\
  (snd (fst (cli_run W c)) = c_output c /\
   snd (cli_run W c) = snd (fst (step W (c_quiet c) (cli_state c) (cli_line c)))) /\
  (forall r, ledger_errors W = Some r ->
     (In (EText Stderr r) (fst (fst (cli_run W c))) <-> c_quiet c = false) /\
     (c_quiet c = true -> forall e, In e (fst (fst (cli_run W c))) -> exists m, e = EWarn m)).
Proof.
  intros W c. split; [exact (cli_state_spec c)|]. split; [exact (cli_target_and_command W c)|].
  intros r Hr. exact (cli_error_report W c r Hr).
Qed.
Print Assumptions C19_cli_options.

(* fix-G: the name of the -o file plays no part: settings, startup report and the command's events are those of
   the same options with any other output target (the format is the -f option, never the file's extension) *)
Theorem C19_cli_output_name_irrelevant : forall (W : World) c o,
  let c' := {| c_format := c_format c; c_numberify := c_numberify c; c_output := o; c_quiet := c_quiet c;
               c_query := c_query c; c_stdin := c_stdin c |} in
  cli_state c' = cli_state c /\ snd (cli_run W c') = snd (cli_run W c) /\ fst (fst (cli_run W c')) = fst (fst (cli_run W c)).
Proof. exact cli_output_name_irrelevant. Qed.
Print Assumptions C19_cli_output_name_irrelevant.

(* ---- non-vacuity: a concrete session in a small world ---- *)
Definition demo_world : World :=
  sym_world [{| f_text := s2z "SELECT 1"; f_parse_ok := true; f_kind := KSelect; f_from := FFrom; f_close := CNone;
                f_ok := true; f_ok_closed := true; f_empty := false; f_empty_closed := true |}]
            [{| q_name := s2z "one"; q_text := s2z "SELECT 1"; q_date := 738000 |}] false.

Example C19_example_session :
  map (fun x => snd (fst x))
    [step demo_world false init_state (s2z ".set boxed maybe");
     step demo_world false init_state (s2z ".set nope 1");
     step demo_world false init_state (s2z ".nope");
     step demo_world false (update init_state (s2z "boxed") (SBool true)) (s2z ".set boxed");
     step demo_world false init_state (s2z ".run one")]
  = [[error demo_world (s2z """maybe"" is not a valid boolean")];
     [error demo_world (s2z "variable ""nope"" does not exist")];
     [error demo_world (s2z "unknown command ""nope""")];
     [println demo_world Outfile (s2z "boxed: true")];
     [println demo_world Outfile (s2z "(empty)")]].
Proof. vm_compute. reflexivity. Qed.

Example C19_example_set :
  fst (fst (step demo_world false init_state (s2z "  .set   nullvalue  ""a b""  "))) =
  update init_state (s2z "nullvalue") (SStr (s2z "a b")).
Proof. vm_compute. reflexivity. Qed.

Example C19_example_hypotheses :
  shlex_split (s2z "boxed yes") = ShOk [s2z "boxed"; s2z "yes"] /\
  lookup init_state (s2z "boxed") = Some (SBool false) /\
  parse_value (s2z "boxed") TBool (s2z "yes") = inr (SBool true) /\
  classify (s2z "SeLect 1;") = Query (s2z "SeLect 1;") /\
  classify (s2z "set boxed 1") = Command true (s2z "set") (s2z "boxed 1") /\
  find_query demo_world (s2z "one") <> None.
Proof. vm_compute. repeat split; discriminate. Qed.

(* fix-G: a named query whose name contains a blank, run quoted / unquoted; an unknown quoted name *)
Definition demo_world2 : World :=
  sym_world [{| f_text := s2z "SELECT 1"; f_parse_ok := true; f_kind := KSelect; f_from := FFrom; f_close := CNone;
                f_ok := true; f_ok_closed := true; f_empty := false; f_empty_closed := true |}]
            [{| q_name := s2z "two words"; q_text := s2z "SELECT 1"; q_date := 738000 |}] false.
Example C19_example_run_quoted :
  map (fun x => snd (fst x))
    [step demo_world2 false init_state (s2z ".run ""two words""");
     step demo_world2 false init_state (s2z ".run 'two words';");
     step demo_world2 false init_state (s2z ".run two\ words");
     step demo_world2 false init_state (s2z ".run two words");
     step demo_world2 false init_state (s2z ".run ""no such query""")]
  = [[println demo_world2 Outfile (s2z "(empty)")];
     [println demo_world2 Outfile (s2z "(empty)")];
     [println demo_world2 Outfile (s2z "(empty)")];
     [error demo_world2 (s2z "too many arguments for ""run"" command")];
     [error demo_world2 (s2z "query ""no such query"" not found")]].
Proof. vm_compute. reflexivity. Qed.

Import Verif.Base.PyValue Verif.Model.PyMini Verif.Model.PrimsApi Verif.Model.PrimsShell Verif.Gen.SrcShell Verif.Proofs.SrcShell Verif.Proofs.SrcShellSet.

(* ---- Tie by translation (re-checked on every run against the CURRENT source of beanquery/shell.py).
   Gen/SrcShell.v holds the PyMini translations (harness/vf/py2mini.py + src_api.py, from inspect.getsource of the
   imported classes) of DispatchingShell.parseline, DispatchingShell.onecmd and Settings._parse_bool.  The string
   methods are those of this model (strip, lower; startswith, ==, membership in a literal set are computed on code
   points), cmd.Cmd.parseline is [cmd_parseline], getattr(self, 'do_' + cmd, None) is a parameter [ga].

   C19_source_onecmd: for EVERY input line the translated onecmd reaches exactly the handler [classify] names -
   nothing, self.execute(text), or do_<name>(arg) (self.error and None if there is no such method) - with exactly
   those arguments.  (The deprecation warning is a call whose result is discarded: that it is issued is covered by
   the correspondence, not by this theorem.) *)
Theorem C19_source_parseline : forall (call_ref : nat -> list pv -> pv) (msg : string -> list pv -> pv)
    (ga : list Z -> option nat) (flds : env) (line : list Z),
  call_method call_ref (prim_api (shell_lib ga) msg) shell_parseline flds [PS line] = Ok (flds, sh_parseline line).
Proof. exact parseline_src. Qed.
Print Assumptions C19_source_parseline.

Theorem C19_source_onecmd : forall (call_ref : nat -> list pv -> pv) (msg : string -> list pv -> pv)
    (ga : list Z -> option nat) (kpl kexec kwarn : nat) (flds : env) (evs : list pv) (line : list Z),
  ref_of refs "_warnings.warn:stacklevel" = Some kwarn ->
  PyMini.lookup "parseline" flds = Some (PRef kpl) -> PyMini.lookup "execute" flds = Some (PRef kexec) ->
  PyMini.lookup "$events" flds = Some (PList evs) ->
  (forall l, call_ref kpl [PS l] = sh_parseline l) ->
  (forall args, exists v, do_call call_ref (PRef kwarn) args = Ok v) ->
  call_method call_ref (prim_api (shell_lib ga) msg) shell_onecmd flds [PS line] =
  dispatch call_ref ga kexec flds evs (classify line).
Proof. exact onecmd_src. Qed.
Print Assumptions C19_source_onecmd.

(* Settings._parse_bool is the model's parse_bool (the function `.set` is stated over for bool settings) *)
Theorem C19_source_parse_bool : forall (call_ref : nat -> list pv -> pv) (msg : string -> list pv -> pv)
    (ga : list Z -> option nat) (flds : env) (v : list Z),
  call_method call_ref (prim_api (shell_lib ga) msg) settings_parse_bool flds [PS v] =
  match parse_bool v with
  | inr b => Ok (flds, PBool b)
  | inl _ => Exc ValueError
  end.
Proof. exact parse_bool_src. Qed.
Print Assumptions C19_source_parse_bool.

(* ---- Settings as a typed store, from the source.  The Settings object is a VALUE (record of its fields);
   getattr / setattr / todict / type / repr are primitives (Model/PrimsApi.v, Model/PrimsShell.v); the _parse_ methods
   and the classes str / int are opaque callables that return what their own ties say (callables_ok). *)
Theorem C19_source_parse_format : forall (call_ref : nat -> list pv -> pv) (msg : string -> list pv -> pv)
    (ga : list Z -> option nat) (flds : env) (v : list Z),
  call_method call_ref (prim_api (shell_lib ga) msg) settings_parse_format flds [PS v] =
  match parse_format v with inr s => Ok (flds, PS s) | inl _ => Exc ValueError end.
Proof. exact parse_format_src. Qed.
Print Assumptions C19_source_parse_format.

Theorem C19_source_getstr : forall (call_ref : nat -> list pv -> pv) (msg : string -> list pv -> pv)
    (st : state) (n : list Z),
  call_function call_ref (prim_api settings_lib msg) settings_getstr [enc_state st; PS n] =
  match Shell.lookup st n with Some v => Ok (PS (getstr v)) | None => Exc AttributeError end.
Proof. exact getstr_src. Qed.
Print Assumptions C19_source_getstr.

(* setstr: AttributeError for an unknown name, ValueError for an invalid value (store unchanged: the call raises
   before setattr), otherwise exactly the named field holds parse_value's result *)
Theorem C19_source_setstr : forall (call_ref : nat -> list pv -> pv) (msg : string -> list pv -> pv)
    (st : state) (n v : list Z),
  callables_ok call_ref -> no_parse_field st ->
  call_on_value call_ref (prim_api settings_lib msg) settings_setstr [enc_state st; PS n; PS v] =
  match Shell.lookup st n with
  | None => Exc AttributeError
  | Some cur =>
      match parse_value n (type_of cur) v with
      | inl _ => Exc ValueError
      | inr new => Ok (enc_state (Shell.update st n new), PNone)
      end
  end.
Proof. exact setstr_src. Qed.
Print Assumptions C19_source_setstr.

(* `.set`: the translated DispatchingShell.do_set on a shell whose settings are st and which has written evs so far
   (rule R10: print(.., file=self.outfile) and self.error(..) append to $events), for EVERY argument string: the
   store afterwards and the events appended are those of this model's do_set (do_set_abs is do_set with symbolic
   events: C19_source_do_set_model), so every `.set` law above (C19_set_changes_exactly_one, C19_invalid_value,
   C19_unknown_setting, C19_set_echo, C19_set_lists_all ..) speaks about what the code does.  settings.getstr /
   setstr are called on another object: their primitive semantics (Model/PrimsShell.v) is what C19_source_getstr /
   C19_source_setstr prove of their translated bodies. *)
Theorem C19_source_do_set : forall (call_ref : nat -> list pv -> pv) (msg : string -> list pv -> pv)
    (ga : list Z -> option nat) (st : state) (evs : list pv) (arg : list Z),
  NoDup (map fst st) ->
  call_method call_ref (prim_api (shell_lib ga) msg) shell_do_set (sflds st evs) [PS arg] =
  let r := do_set_abs st arg in
  match raise_of (snd r) with
  | Some k => Exc k
  | None => Ok (sflds (fst r) (evs ++ map (enc_aev msg) (snd r)), PNone)
  end.
Proof. exact do_set_src. Qed.
Print Assumptions C19_source_do_set.

Theorem C19_source_do_set_model : forall (W : World) (st : state) (arg : list Z),
  do_set W st arg = (fst (do_set_abs st arg), map (conc W) (snd (do_set_abs st arg))).
Proof. exact do_set_abs_ok. Qed.
Print Assumptions C19_source_do_set_model.

(* BQLShell.parse, the default CLOSE date of `.run`: the date is written into the parsed statement exactly when
   with_default_close (the function C19_run_default_close is stated over) does: a SELECT whose from_clause is a
   From node without CLOSE; every other statement is returned as parsed *)
Theorem C19_source_run_default_close : forall (call_ref : nat -> list pv -> pv) (msg : string -> list pv -> pv)
    (ga : list Z -> option nat) (flds : env) (ctx line : pv) (k : kind) (f : fromkind) (c : closekind)
    (date : Z) (d : option Z),
  date <> 0 ->
  PyMini.lookup "context" flds = Some ctx ->
  opaque_method msg "call:parse" [ctx; line] = Ok (enc_stmt k f (enc_close c date)) ->
  call_method call_ref (prim_api (shell_lib ga) msg) shell_parse flds [line; enc_date d] =
  Ok (flds, match k, f, c with
            | KSelect, FFrom, CNone => enc_stmt k f (enc_date d)
            | _, _, _ => enc_stmt k f (enc_close c date)
            end).
Proof. exact parse_default_close_src. Qed.
Print Assumptions C19_source_run_default_close.

(* Non-vacuity: a shell whose parseline is the tied one, on the line "set boxed 1" (no dot: legacy command). *)
Example C19_source_example :
  let ga := fun n : list Z => if zeqb n (zs "do_set") then Some 7%nat else None in
  let cr := fun (k : nat) (args : list pv) =>
    match k, args with
    | 1%nat, [PV (VStr l)] => sh_parseline l
    | 7%nat, [a] => PTuple [PStr "do_set"; a]
    | _, _ => PNone
    end in
  call_method cr (prim_api (shell_lib ga) (fun _ _ => PNone)) shell_onecmd
    [("parseline", PRef 1); ("execute", PRef 2); ("$events", PList [])]%string [PS (s2z "set boxed 1")]
  = Ok ([("parseline", PRef 1); ("execute", PRef 2); ("$events", PList [])]%string,
        PTuple [PStr "do_set"; PS (s2z "boxed 1")]).
Proof. vm_compute. reflexivity. Qed.

(* Non-vacuity of the `.set` tie: `.set boxed yes` then `.set nosuch` on the initial store. *)
Example C19_source_do_set_example :
  let pr := prim_api (shell_lib (fun _ => None)) (fun _ _ => PNone) in
  call_method (fun _ _ => PNone) pr shell_do_set (sflds init_state []) [PS (s2z "boxed yes")]
    = Ok (sflds (Shell.update init_state (s2z "boxed") (SBool true)) [], PNone) /\
  call_method (fun _ _ => PNone) pr shell_do_set (sflds init_state []) [PS (s2z "nosuch")]
    = Ok (sflds init_state [PTuple [PS (s2z "error"); PS (s2z "variable ""nosuch"" does not exist")]], PNone).
Proof. split; vm_compute; reflexivity. Qed.

(* ---- Group `shell2` (Gen/SrcShell2.v, regenerated on every run): what a SELECT / JOURNAL / BALANCES statement prints.
   BQLShell.on_Select and the two `render` functions the LIVE dict FORMATS holds for 'text' and 'csv' are PyMini terms
   (rules S1-S4 of harness/vf/src_shell2.py: `with self.output as out`, the keyword call render(.., dcontext=.., **todict()),
   FORMATS.get, keyword-only / ** parameters).  For EVERY settings store with a bool `numberify` and a str `format`, every
   statement and display context, the translated on_Select is [sel_exec] (execute, description, fetchall: an exception
   propagates), then - exactly when numberify is on, ALSO for an empty result - numberify_results(desc, rows,
   dcontext.build()) [sel_numberify], then [sel_render]: the line-by-line image of this model's render_format (the
   function on_statement prints with): format text -> "(empty)" for an empty result, else render_text(desc, rows, dcontext,
   out, **ALL settings); format csv -> render_csv(desc, rows, dcontext, out, **ALL settings); another format ->
   NotImplementedError; the shell object is unchanged.  What render_text / render_csv do with the settings is C16's tie.
   numberify without the display context (seeded C19-m10), numberify skipped for an empty result (C19-m5) are other
   terms; a csv adapter that forwards only some settings (C19-m2) is outside rule S4 or another term: the obligation
   no longer checks.
   NOT proved (left for a later pass): the statement of this theorem through a World instance built from the oracles,
   i.e. `outcome = on_statement (world_of call_ref msg) st s`; and BQLShell.do_run (src_shell2.spec_do_run_named). *)
Import Verif.Model.PrimsShell2 Verif.Gen.SrcShell2 Verif.Proofs.SrcShell2.

Theorem C19_source_on_select : forall (call_ref : nat -> list pv -> pv) (msg : string -> list pv -> pv)
    (dctx outp s : pv) (st : state),
  sel_wf st -> oracles_ok call_ref msg ->
  call_method call_ref (prim_shell2 call_ref msg render_text_adapter render_csv_adapter) shell_on_select
    (sel_flds (enc_ctx dctx) st outp) [s] =
  PyMini.bind (sel_exec msg (enc_ctx dctx) s) (fun dr =>
  PyMini.bind (if get_bool st "numberify" then sel_numberify call_ref msg dctx dr else Ok dr) (fun dr' =>
  PyMini.bind (sel_render call_ref st (fst dr') (snd dr') dctx (msg "with:enter"%string [outp])) (fun v =>
  Ok (sel_flds (enc_ctx dctx) st outp, v)))).
Proof. exact on_select_src. Qed.
Print Assumptions C19_source_on_select.

(* the numbers sel_numberify / sel_render call are those the generated refs table gives to numberify_results,
   print(.., file=..), render_text(.., **kw) and render_csv(.., **kw) *)
Theorem C19_source_on_select_refs :
  ref_of Gen.SrcShell2.refs "beanquery.numberify.numberify_results" = Some Proofs.SrcShell2.kNum /\
  ref_of Gen.SrcShell2.refs "builtins.print:file" = Some kPrint /\
  ref_of Gen.SrcShell2.refs "beanquery.query_render.render_text:**" = Some kRT /\
  ref_of Gen.SrcShell2.refs "beanquery.query_render.render_csv:**" = Some kRC.
Proof. exact refs_ok. Qed.
Print Assumptions C19_source_on_select_refs.

(* OBLIGATION on generated data: the keys of the live FORMATS dict are the model's formats *)
Theorem C19_source_formats_keys : map s2z formats_keys = formats.
Proof. exact formats_keys_ok. Qed.
Print Assumptions C19_source_formats_keys.

(* Non-vacuity: format csv, numberify on; an executor whose cursor is object 5, two rows; numberify_results answers
   with a new description and new rows; render_csv echoes its arguments: it receives the numberified result, the
   display context, the entered output and every setting. *)
Example C19_source_on_select_example :
  let st := Shell.update (Shell.update init_state (s2z "format") (SStr (s2z "csv"))) (s2z "numberify") (SBool true) in
  let msg := fun (name : string) (args : list pv) =>
    if String.eqb name "call:execute" then PRef 5
    else if String.eqb name "attr:description" then PStr "desc"
    else if String.eqb name "call:fetchall" then PList [PInt 1; PInt 2]
    else if String.eqb name "call:build" then PStr "dformat"
    else if String.eqb name "with:enter" then PStr "out" else PNone in
  let call_ref := fun (k : nat) (args : list pv) =>
    match k, args with
    | 0%nat, [d; r; f] => PTuple [PTuple [d; f]; PList [PInt 10; PInt 20]]
    | 3%nat, _ => PTuple args
    | _, _ => PNone
    end in
  sel_wf st /\
  call_method call_ref (prim_shell2 call_ref msg render_text_adapter render_csv_adapter) shell_on_select
    (sel_flds (enc_ctx (PStr "dcontext")) st (PStr "output")) [PStr "SELECT"]
  = Ok (sel_flds (enc_ctx (PStr "dcontext")) st (PStr "output"),
        PTuple [PTuple [PStr "desc"; PStr "dformat"]; PList [PInt 10; PInt 20]; PStr "dcontext"; PStr "out"; todict st]).
Proof. split; [split; eexists; reflexivity|]. vm_compute. reflexivity. Qed.

(* ---- group `shell3` (bld-shell3): the WHOLE of BQLShell.do_run, translated on every run (Gen/SrcShell3.v).
   (a) C19_source_do_run: for every dict of named queries, everything logged so far and every argument string, the
   translated method leaves self.queries alone and appends exactly the events of the plan [run_plan] (listing: the
   sorted names, nothing for an empty dict; `*`: per directive in sorted order "name:", execute(text,
   default_close_date = ITS date), two empty lines; otherwise shlex.split, "too many arguments", "not found" - nothing
   run -, or execute of the directive found with ITS date), or raises ValueError where the plan does;
   (b) C19_run_plan_is_do_run: that plan, with execute = Model/Shell.execute (parse with the default CLOSE date, stop
   at the first exception), IS Model/Shell.v's do_run.
   Trusted: the translator (py2mini + src_api + src_shell2 rules S5/S6 + src_shell3 rule S7), PyMini, and the
   primitives of Model/PrimsShell3.v (shlex.split := Shell.shlex_split, rstrip, sorted := Shell.sort_q, join, dict as
   its item list); that DispatchingShell.execute runs parse + dispatch is C19_source_parse_default_close / on_select. ---- *)
Theorem C19_source_do_run : forall call_ref msg (qs : list Model.Shell.query_directive) (evs : list Model.PyMini.pv)
    (arg : list Z),
  Model.PyMini.call_method call_ref (Model.PrimsShell3.prim_shell3 call_ref msg) Gen.SrcShell3.shell_do_run
    (Model.PrimsShell3.run3_flds qs evs) [Model.PrimsShell.PS arg] =
  Model.PyMini.bind (Proofs.SrcShell3.run_plan qs arg) (fun p =>
    Model.PyMini.Ok (Model.PrimsShell3.run3_flds qs (evs ++ map Proofs.SrcShell3.enc_action p), Model.PyMini.PNone)).
Proof. exact Proofs.SrcShell3.do_run_src. Qed.
Print Assumptions C19_source_do_run.

Theorem C19_run_plan_is_do_run : forall (W : Model.Shell.World) st arg,
  Model.Shell.do_run W st arg =
  match Proofs.SrcShell3.run_plan (Model.Shell.named_queries W) arg with
  | Model.PyMini.Ok p => Proofs.SrcShell3.interp W st p
  | Model.PyMini.Exc _ =>
      match Model.Shell.shlex_split (Model.Shell.rstrip_by Model.Shell.run_strip arg) with
      | Model.Shell.ShNoQuote => [Model.Shell.ERaise (Model.Shell.XValue (Model.Shell.s2z "No closing quotation"))]
      | Model.Shell.ShNoEscaped => [Model.Shell.ERaise (Model.Shell.XValue (Model.Shell.s2z "No escaped character"))]
      | Model.Shell.ShOk _ =>
          [Model.Shell.ERaise (Model.Shell.XValue (Model.Shell.s2z "not enough values to unpack (expected at least 1, got 0)"))]
      end
  | Model.PyMini.Stuck => []
  end.
Proof. exact Proofs.SrcShell3.run_plan_model. Qed.
Print Assumptions C19_run_plan_is_do_run.

(* a run: `.run  "b c" ;` on the queries a, "b c" (dates 5 and 7) executes "b c"'s text with close date 7 *)
Example C19_source_do_run_example :
  Proofs.SrcShell3.run_plan
    [ {| q_name := [97]; q_text := [120]; q_date := 5 |}; {| q_name := [98; 32; 99]; q_text := [121]; q_date := 7 |} ]
    [34; 98; 32; 99; 34; 32; 59] =
  Model.PyMini.Ok [Proofs.SrcShell3.AExec {| q_name := [98; 32; 99]; q_text := [121]; q_date := 7 |}].
Proof. vm_compute. reflexivity. Qed.

(* BQLShell.do_reload, translated on every run (Gen/SrcShell3.shell_do_reload): nothing without a file name; otherwise
   the log gets, in this order, context.errors.clear(), context.options.clear(), context.attach("beancount:" + filename)
   and _extract_queries(<entries of the entries table>) (rule S8/S6 events: the connection is emptied BEFORE it is
   re-attached and the named queries are re-read from the NEW entries), print_errors(errors, file=sys.stderr) is
   called exactly when the connection has errors and the shell was not started with --no-errors (Model/Shell.do_reload's
   `if quiet then [] else [EText Stderr r]`), print_statistics exactly in interactive mode.  self.context is read as
   the connection AFTER the three logged effects (their mutation of the connection is outside PyMini's values). *)
Theorem C19_source_do_reload : forall call_ref msg (f : option (list Z)) (ents opts outf arg : Model.PyMini.pv)
    (errs evs : list Model.PyMini.pv) (quiet inter : bool),
  Model.PyMini.call_method call_ref (Model.PrimsShell3.prim_shell3 call_ref msg) Gen.SrcShell3.shell_do_reload
    (Proofs.SrcShell3.reload_flds f (Proofs.SrcShell3.enc_conn ents opts errs) quiet inter outf evs) [arg] =
  match f with
  | None | Some [] =>
      Model.PyMini.Ok (Proofs.SrcShell3.reload_flds f (Proofs.SrcShell3.enc_conn ents opts errs) quiet inter outf evs,
                       Model.PyMini.PNone)
  | Some fn =>
      Model.PyMini.bind
        (match errs with
         | [] => Model.PyMini.Ok Model.PyMini.PNone
         | _ => if quiet then Model.PyMini.Ok Model.PyMini.PNone
                else Model.PyMini.do_call call_ref (Model.PyMini.PRef Proofs.SrcShell3.kPrintErrors)
                       [Model.PyMini.PList errs; Model.PyMini.PRef Proofs.SrcShell3.kStderr]
         end) (fun _ =>
      Model.PyMini.bind
        (if inter then Model.PyMini.do_call call_ref (Model.PyMini.PRef Proofs.SrcShell3.kStatistics) [ents; opts; outf]
         else Model.PyMini.Ok Model.PyMini.PNone) (fun _ =>
      Model.PyMini.Ok (Proofs.SrcShell3.reload_flds f (Proofs.SrcShell3.enc_conn ents opts errs) quiet inter outf
                         (evs ++ Proofs.SrcShell3.reload_events fn ents), Model.PyMini.PNone)))
  end.
Proof. exact Proofs.SrcShell3.do_reload_src. Qed.
Print Assumptions C19_source_do_reload.
