(* C10 Cursor fetch protocol and description conform to the DB-API.
   Statements only; every proof is [exact <lemma>] from Proofs/CursorProofs.v. *)
From Coq Require Import ZArith List Bool.
Import ListNotations.
From Verif Require Import Model.Cursor Proofs.CursorProofs.
Open Scope Z_scope.

(* For every row type, every earlier history (state c), every result R and every
   sequence of fetchone / fetchmany(n|default) / fetchall / iterator / attribute
   operations after execute(R): the rows handed out, concatenated in call order,
   are exactly the first |got| rows of R (in order, none twice, none skipped),
   the buffer holds the rest, rownumber = |got| and rowcount = |R|. *)
Theorem C10_delivery : forall (A : Type) (c : cur A) (R : list A) (ops : list (op A)),
  forallb (fun o => negb (is_execute A o)) ops = true ->
  let '(c', rs) := run A c (Execute R :: ops) in
  let got := concat (map (delivered_by A) rs) in
  got = firstn (length got) R /\ rows A c' = Some (skipn (length got) R)
  /\ pos A c' = Z.of_nat (length got) /\ count A c' = Z.of_nat (length R)
  /\ (length got <= length R)%nat.
Proof. exact delivery. Qed.
Print Assumptions C10_delivery.

(* fetchone returns None exactly when all rows have been delivered, otherwise the next row. *)
Theorem C10_fetchone_none_iff : forall (A : Type) (R : list A) (k : nat) (c : cur A),
  Rep A R k c -> (snd (fetchone A c) = RNone <-> k = length R).
Proof. exact fetchone_none_iff. Qed.
Print Assumptions C10_fetchone_none_iff.

Theorem C10_fetchone_row : forall (A : Type) (R : list A) (k : nat) (c : cur A) (x : A),
  Rep A R k c -> snd (fetchone A c) = RRow x -> nth_error R k = Some x.
Proof. exact fetchone_row. Qed.
Print Assumptions C10_fetchone_row.

Theorem C10_fetchmany_empty_iff : forall (A : Type) (R : list A) (k : nat) (c : cur A) (n : Z),
  Rep A R k c -> 1 <= n -> (snd (fetchmany A c (Some n)) = RRows [] <-> k = length R).
Proof. exact fetchmany_empty_iff. Qed.
Print Assumptions C10_fetchmany_empty_iff.

Theorem C10_fetchall_empty_iff : forall (A : Type) (R : list A) (k : nat) (c : cur A),
  Rep A R k c -> (snd (fetchall A c) = RRows [] <-> k = length R).
Proof. exact fetchall_empty_iff. Qed.
Print Assumptions C10_fetchall_empty_iff.

Theorem C10_before_execute : forall A : Type,
  snd (step A init FetchOne) = RNone /\ snd (step A init (FetchMany None)) = RRows []
  /\ snd (step A init FetchAll) = RRows [] /\ snd (step A init RowCount) = RInt (-1)
  /\ snd (step A init HasDescription) = RBool false.
Proof. exact before_execute. Qed.
Print Assumptions C10_before_execute.

Theorem C10_execute_resets : forall (A : Type) (c1 c2 : cur A) (R : list A) (ops : list (op A)),
  arraysize A c1 = arraysize A c2 -> iters A c1 = iters A c2 ->
  snd (run A c1 (Execute R :: ops)) = snd (run A c2 (Execute R :: ops)).
Proof. exact execute_resets. Qed.
Print Assumptions C10_execute_resets.

Theorem C10_column_len : length col_items = 7%nat.
Proof. exact column_len. Qed.
Print Assumptions C10_column_len.

Theorem C10_column_index : forall i : Z,
  py_index col_items i =
  if (i <? -7) || (7 <=? i) then None
  else Some (if (i =? 0) || (i =? -7) then IName else if (i =? 1) || (i =? -6) then ICode else INull).
Proof. exact column_index_spec. Qed.
Print Assumptions C10_column_index.

Theorem C10_slice_full : forall (A : Type) (l : list A), py_slice l None None None = Some l.
Proof. exact @slice_full. Qed.
Print Assumptions C10_slice_full.

From Coq Require Import String.
From Verif Require Import Base.PyValue Model.PyMini Gen.SrcCursor Proofs.SrcCursor.
Open Scope list_scope.

(* ---- Tie by translation (re-checked on every run against the CURRENT source of beanquery/cursor.py).
   Gen/SrcCursor.v holds the PyMini translation of Cursor.fetchone/fetchmany/fetchall/rowcount/rownumber made by
   harness/vf/py2mini.py from inspect.getsource of the imported class.  Interpreting the translated method on the
   attributes of ANY cursor state, with any argument, yields exactly the attributes and the result that Model/Cursor.v
   (over which every theorem above is stated) computes.  [flds c] is the object's attribute dictionary:
   _rows (None before execute), _pos, _rowcount, arraysize. *)
Theorem C10_source_fetchone : forall (call_ref : nat -> list pv -> pv) (prim : string -> list pv -> PyMini.res pv) (c : cur pv),
  call_method call_ref prim cursor_fetchone (flds c) [] =
  Ok (flds (fst (fetchone pv c)), res_pv (snd (fetchone pv c))).
Proof. exact fetchone_src. Qed.
Print Assumptions C10_source_fetchone.

Theorem C10_source_fetchmany : forall (call_ref : nat -> list pv -> pv) (prim : string -> list pv -> PyMini.res pv) (c : cur pv) (size : option Z),
  call_method call_ref prim cursor_fetchmany (flds c) [match size with None => PNone | Some n => PInt n end] =
  Ok (flds (fst (fetchmany pv c size)), res_pv (snd (fetchmany pv c size))).
Proof. exact fetchmany_src. Qed.
Print Assumptions C10_source_fetchmany.

Theorem C10_source_fetchall : forall (call_ref : nat -> list pv -> pv) (prim : string -> list pv -> PyMini.res pv) (c : cur pv),
  call_method call_ref prim cursor_fetchall (flds c) [] =
  Ok (flds (fst (fetchall pv c)), res_pv (snd (fetchall pv c))).
Proof. exact fetchall_src. Qed.
Print Assumptions C10_source_fetchall.

Theorem C10_source_rowcount : forall (call_ref : nat -> list pv -> pv) (prim : string -> list pv -> PyMini.res pv) (c : cur pv),
  call_method call_ref prim cursor_rowcount (flds c) [] = Ok (flds c, PInt (count pv c)).
Proof. exact rowcount_src. Qed.
Print Assumptions C10_source_rowcount.

Theorem C10_source_rownumber : forall (call_ref : nat -> list pv -> pv) (prim : string -> list pv -> PyMini.res pv) (c : cur pv),
  call_method call_ref prim cursor_rownumber (flds c) [] = Ok (flds c, PInt (pos pv c)).
Proof. exact rownumber_src. Qed.
Print Assumptions C10_source_rownumber.

(* Non-vacuity of the tie: the translated fetchmany run on a concrete cursor object. *)
Example C10_source_example :
  call_method (fun _ _ => PNone) (fun _ _ => Stuck) cursor_fetchmany
    [("_rows", PList [PInt 10; PInt 20; PInt 30]); ("_pos", PInt 1); ("_rowcount", PInt 4); ("arraysize", PInt 1)]%string
    [PInt 2]
  = Ok ([("_rows", PList [PInt 30]); ("_pos", PInt 3); ("_rowcount", PInt 4); ("arraysize", PInt 1)]%string,
        PList [PInt 10; PInt 20]).
Proof. reflexivity. Qed.

(* Non-vacuity: a concrete history meeting the hypotheses, with its outputs. *)
Example C10_example :
  snd (run Z init [Execute [10; 20; 30]; FetchOne; NewIter; Cursor.Next 0; FetchMany (Some 5); FetchOne; RowNumber; RowCount])
  = [RNone; RRow 10; RInt 0; RRow 20; RRows [30]; RNone; RInt 3; RInt 3].
Proof. reflexivity. Qed.
