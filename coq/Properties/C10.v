(* C10 Cursor fetch protocol and description conform to the DB-API.
   Statements only; every proof is [exact <lemma>] from Proofs/CursorProofs.v. *)
From Coq Require Import ZArith List Bool.
Import ListNotations.
From Verif Require Import Model.Cursor Proofs.CursorProofs.
(* translator tie: required here, imported where the source theorems start (coqdep reads Requires reliably only
   in the header, see harness/PYMINI.md) *)
From Verif Require Base.PyValue Model.PyMini Model.PrimsApi Gen.SrcCursor Proofs.SrcCursor.
(* group `column` (bld-misc): Column.__getitem__ with the subscript primitive, see the end of this file *)
From Verif Require Model.PrimsColumn Gen.SrcColumn Proofs.SrcColumn.
Open Scope Z_scope.

(* For every row type, every earlier history (state c), every result R and every
   sequence of fetchone / fetchmany(n|default) / fetchall / iterator / attribute
   operations after execute(R): the rows handed out, concatenated in call order,
   are exactly the first |got| rows of R (in order, none twice, none skipped),
   the buffer holds the rest, rownumber = |got| and rowcount = |R|. *)
Theorem C10_delivery : forall (A : Type) (c : cur A) (R : list A) (ops : list (op A)),
  forallb (fun o => negb (is_execute A o)) ops = true ->
  let '(c', rs) := run A c (Execute R :: ops) in
  let got := concat (map (delivered_by A) rs) in
  got = firstn (length got) R /\ rows A c' = Some (skipn (length got) R)
  /\ pos A c' = Z.of_nat (length got) /\ count A c' = Z.of_nat (length R)
  /\ (length got <= length R)%nat.
Proof. exact delivery. Qed.
Print Assumptions C10_delivery.

(* fetchone returns None exactly when all rows have been delivered, otherwise the next row. *)
Theorem C10_fetchone_none_iff : forall (A : Type) (R : list A) (k : nat) (c : cur A),
  Rep A R k c -> (snd (fetchone A c) = RNone <-> k = length R).
Proof. exact fetchone_none_iff. Qed.
Print Assumptions C10_fetchone_none_iff.

Theorem C10_fetchone_row : forall (A : Type) (R : list A) (k : nat) (c : cur A) (x : A),
  Rep A R k c -> snd (fetchone A c) = RRow x -> nth_error R k = Some x.
Proof. exact fetchone_row. Qed.
Print Assumptions C10_fetchone_row.

Theorem C10_fetchmany_empty_iff : forall (A : Type) (R : list A) (k : nat) (c : cur A) (n : Z),
  Rep A R k c -> 1 <= n -> (snd (fetchmany A c (Some n)) = RRows [] <-> k = length R).
Proof. exact fetchmany_empty_iff. Qed.
Print Assumptions C10_fetchmany_empty_iff.

Theorem C10_fetchall_empty_iff : forall (A : Type) (R : list A) (k : nat) (c : cur A),
  Rep A R k c -> (snd (fetchall A c) = RRows [] <-> k = length R).
Proof. exact fetchall_empty_iff. Qed.
Print Assumptions C10_fetchall_empty_iff.

Theorem C10_before_execute : forall A : Type,
  snd (step A init FetchOne) = RNone /\ snd (step A init (FetchMany None)) = RRows []
  /\ snd (step A init FetchAll) = RRows [] /\ snd (step A init RowCount) = RInt (-1)
  /\ snd (step A init HasDescription) = RBool false.
Proof. exact before_execute. Qed.
Print Assumptions C10_before_execute.

Theorem C10_execute_resets : forall (A : Type) (c1 c2 : cur A) (R : list A) (ops : list (op A)),
  arraysize A c1 = arraysize A c2 -> iters A c1 = iters A c2 ->
  snd (run A c1 (Execute R :: ops)) = snd (run A c2 (Execute R :: ops)).
Proof. exact execute_resets. Qed.
Print Assumptions C10_execute_resets.

Theorem C10_column_len : length col_items = 7%nat.
Proof. exact column_len. Qed.
Print Assumptions C10_column_len.

Theorem C10_column_index : forall i : Z,
  py_index col_items i =
  if (i <? -7) || (7 <=? i) then None
  else Some (if (i =? 0) || (i =? -7) then IName else if (i =? 1) || (i =? -6) then ICode else INull).
Proof. exact column_index_spec. Qed.
Print Assumptions C10_column_index.

Theorem C10_slice_full : forall (A : Type) (l : list A), py_slice l None None None = Some l.
Proof. exact @slice_full. Qed.
Print Assumptions C10_slice_full.

From Coq Require Import String.
Import Verif.Base.PyValue Verif.Model.PyMini Verif.Model.PrimsApi Verif.Gen.SrcCursor Verif.Proofs.SrcCursor.
Open Scope list_scope.

(* ---- Tie by translation (re-checked on every run against the CURRENT source of beanquery/cursor.py).
   Gen/SrcCursor.v holds the PyMini translation of Cursor.fetchone/fetchmany/fetchall/rowcount/rownumber made by
   harness/vf/py2mini.py from inspect.getsource of the imported class.  Interpreting the translated method on the
   attributes of ANY cursor state, with any argument, yields exactly the attributes and the result that Model/Cursor.v
   (over which every theorem above is stated) computes.  [flds c] is the object's attribute dictionary:
   _rows (None before execute), _pos, _rowcount, arraysize. *)
Theorem C10_source_fetchone : forall (call_ref : nat -> list pv -> pv) (prim : string -> list pv -> PyMini.res pv) (c : cur pv),
  call_method call_ref prim cursor_fetchone (flds c) [] =
  Ok (flds (fst (fetchone pv c)), res_pv (snd (fetchone pv c))).
Proof. exact fetchone_src. Qed.
Print Assumptions C10_source_fetchone.

Theorem C10_source_fetchmany : forall (call_ref : nat -> list pv -> pv) (prim : string -> list pv -> PyMini.res pv) (c : cur pv) (size : option Z),
  call_method call_ref prim cursor_fetchmany (flds c) [match size with None => PNone | Some n => PInt n end] =
  Ok (flds (fst (fetchmany pv c size)), res_pv (snd (fetchmany pv c size))).
Proof. exact fetchmany_src. Qed.
Print Assumptions C10_source_fetchmany.

Theorem C10_source_fetchall : forall (call_ref : nat -> list pv -> pv) (prim : string -> list pv -> PyMini.res pv) (c : cur pv),
  call_method call_ref prim cursor_fetchall (flds c) [] =
  Ok (flds (fst (fetchall pv c)), res_pv (snd (fetchall pv c))).
Proof. exact fetchall_src. Qed.
Print Assumptions C10_source_fetchall.

Theorem C10_source_rowcount : forall (call_ref : nat -> list pv -> pv) (prim : string -> list pv -> PyMini.res pv) (c : cur pv),
  call_method call_ref prim cursor_rowcount (flds c) [] = Ok (flds c, PInt (count pv c)).
Proof. exact rowcount_src. Qed.
Print Assumptions C10_source_rowcount.

Theorem C10_source_rownumber : forall (call_ref : nat -> list pv -> pv) (prim : string -> list pv -> PyMini.res pv) (c : cur pv),
  call_method call_ref prim cursor_rownumber (flds c) [] = Ok (flds c, PInt (pos pv c)).
Proof. exact rownumber_src. Qed.
Print Assumptions C10_source_rownumber.

(* Non-vacuity of the tie: the translated fetchmany run on a concrete cursor object. *)
Example C10_source_example :
  call_method (fun _ _ => PNone) (fun _ _ => Stuck) cursor_fetchmany
    [("_rows", PList [PInt 10; PInt 20; PInt 30]); ("_pos", PInt 1); ("_rowcount", PInt 4); ("arraysize", PInt 1)]%string
    [PInt 2]
  = Ok ([("_rows", PList [PInt 30]); ("_pos", PInt 3); ("_rowcount", PInt 4); ("arraysize", PInt 1)]%string,
        PList [PInt 10; PInt 20]).
Proof. reflexivity. Qed.

(* ---- The state-changing half of the API, from the CURRENT source (Gen/SrcCursor.v: cursor_init, cursor_execute,
   cursor_connection, column_len, column_getitem).  [obj ctx d c] is the attribute dictionary of a Cursor object (connection,
   description, then the model state c); [pipeline] is the composition of the three opaque stages the source calls
   (parser.parse unless the query is an ast.Node, compiler.compile(self._context, query, params),
   query_execute.execute_query), found in the generated [refs] table by their qualified names. *)
Theorem C10_source_init : forall (call_ref : nat -> list pv -> pv) (prim : string -> list pv -> PyMini.res pv) (conn : pv),
  call_method call_ref prim cursor_init [] [conn] = Ok (obj conn PNone (@init pv), PNone).
Proof. exact init_src. Qed.
Print Assumptions C10_source_init.

(* for EVERY prior state: the attributes after execute are those of the model's step (Execute R) - rows R,
   rowcount = len R, position 0, arraysize and connection untouched - and the new description *)
Theorem C10_source_execute : forall (call_ref : nat -> list pv -> pv) (prim : string -> list pv -> PyMini.res pv)
    (K : exec_refs) (ctx d0 : pv) (c : cur pv) (q p d : pv) (R : list pv),
  exec_refs_ok K ->
  pipeline call_ref K ctx q p = Ok (PTuple [d; PList R]) ->
  call_method call_ref prim cursor_execute (obj ctx d0 c) [q; p] =
  Ok (obj ctx d (fst (step pv c (Execute R))), PSelf).
Proof. exact execute_src. Qed.
Print Assumptions C10_source_execute.

Theorem C10_source_execute_raises : forall (call_ref : nat -> list pv -> pv) (prim : string -> list pv -> PyMini.res pv)
    (K : exec_refs) (ctx d0 : pv) (c : cur pv) (q p : pv) (k : Z),
  exec_refs_ok K ->
  pipeline call_ref K ctx q p = Exc k ->
  call_method call_ref prim cursor_execute (obj ctx d0 c) [q; p] = Exc k.
Proof. exact execute_raises_src. Qed.
Print Assumptions C10_source_execute_raises.

(* the fetch methods on the full object: connection and description are not touched *)
Theorem C10_source_fetch_full_object : forall (call_ref : nat -> list pv -> pv) (prim : string -> list pv -> PyMini.res pv)
    (ctx d : pv) (c : cur pv),
  call_method call_ref prim cursor_fetchone (obj ctx d c) [] =
    Ok (obj ctx d (fst (fetchone pv c)), res_pv (snd (fetchone pv c))) /\
  (forall size, call_method call_ref prim cursor_fetchmany (obj ctx d c) [match size with None => PNone | Some n => PInt n end] =
    Ok (obj ctx d (fst (fetchmany pv c size)), res_pv (snd (fetchmany pv c size)))) /\
  call_method call_ref prim cursor_fetchall (obj ctx d c) [] =
    Ok (obj ctx d (fst (fetchall pv c)), res_pv (snd (fetchall pv c))) /\
  call_method call_ref prim cursor_description (obj ctx d c) [] = Ok (obj ctx d c, d) /\
  call_method call_ref prim cursor_connection (obj ctx d c) [] = Ok (obj ctx d c, ctx).
Proof.
  exact (fun cr pr ctx d c => conj (fetchone_obj cr pr ctx d c) (conj (fetchmany_obj cr pr ctx d c)
           (conj (fetchall_obj cr pr ctx d c) (conj (description_src cr pr ctx d c) (connection_src cr pr ctx d c))))).
Qed.
Print Assumptions C10_source_fetch_full_object.

Theorem C10_source_column_len : forall (call_ref : nat -> list pv -> pv) (prim : string -> list pv -> PyMini.res pv) (flds : env),
  call_method call_ref prim column_len flds [] = Ok (flds, PInt (Z.of_nat (List.length col_items))).
Proof. exact column_len_src. Qed.
Print Assumptions C10_source_column_len.

(* column[i], integer i: the model's py_index over col_items; the getters in Column._vars are what
   operator.attrgetter means (getters_ok: calling the j-th getter is calling the j-th translated property) *)
Theorem C10_source_column_getitem : forall (call_ref : nat -> list pv -> pv) (prim : string -> list pv -> PyMini.res pv)
    (kI kS kH : nat) (n t : pv) (ks : list nat) (i : Z),
  ref_of refs "builtins.isinstance" = Some kI -> ref_of refs "builtins.slice" = Some kS ->
  ref_of refs "builtins.hash" = Some kH ->
  call_ref kI [PInt i; PRef kS] = PBool false ->
  getters_ok call_ref prim (cflds n t ks) ks ->
  call_method call_ref prim column_getitem (cflds n t ks) [PInt i] =
  match py_index col_items i with
  | None => Exc IndexError
  | Some IName => Ok (cflds n t ks, n)
  | Some ICode => bind (do_call call_ref (PRef kH) [t]) (fun h => Ok (cflds n t ks, h))
  | Some INull => Ok (cflds n t ks, PNone)
  end.
Proof. exact column_getitem_src. Qed.
Print Assumptions C10_source_column_getitem.

(* iter(cursor): a NEW callable-iterator over self.fetchone with sentinel None; the cursor is not touched (the
   model's NewIter; each Next is the fetchone tied above).  A cursor that is its own one-shot iterator has another
   __init__ and another __iter__: both obligations break. *)
Theorem C10_source_iter : forall (call_ref : nat -> list pv -> pv) (prim : string -> list pv -> PyMini.res pv)
    (kIter kf : nat) (ctx d : pv) (c : cur pv),
  ref_of refs "builtins.iter" = Some kIter ->
  call_method call_ref prim cursor_iter (("fetchone", PRef kf) :: obj ctx d c) [] =
  bind (do_call call_ref (PRef kIter) [PRef kf; PNone]) (fun it => Ok (("fetchone", PRef kf) :: obj ctx d c, it)).
Proof. exact iter_src. Qed.
Print Assumptions C10_source_iter.

(* executemany: the source is the loop "parse once, then self.execute(query, p) for every p in order" (syntactic:
   a call of a method on the receiver that changes it is outside the fragment), and running the translated execute
   as that loop prescribes is the model's fold of Execute steps: the state after executemany is the one after the
   LAST parameter set's Execute, arraysize and connection untouched throughout *)
Theorem C10_source_executemany : forall (call_ref : nat -> list pv -> pv) (prim : string -> list pv -> PyMini.res pv)
    (K : exec_refs) (ctx q : pv) (ps : list pv) (rs : list (pv * list pv)) (d0 : pv) (c : cur pv),
  exec_refs_ok K ->
  cursor_executemany =
    {| f_params := ["self"; "query"; "params"]%string;
       f_body := [SAssign (TName "query") (XCall (XConst (PRef (kParse K))) [XName "query"] None);
                  SFor "p" (XName "params")
                    [SExpr (XCall (XAttr (XName "self") "execute") [XName "query"; XName "p"] None)]];
       f_gen := false |} /\
  (Forall2 (fun p r => pipeline call_ref K ctx q p = Ok (PTuple [fst r; PList (snd r)])) ps rs ->
   run_many call_ref prim (obj ctx d0 c) q ps =
   Ok (obj ctx (fst (fold_left many_step rs (d0, c))) (snd (fold_left many_step rs (d0, c))))).
Proof.
  exact (fun cr pr K ctx q ps rs d0 c HK =>
    conj (executemany_shape (kParse K) (proj1 (proj2 (proj2 HK))))
         (executemany_run cr pr K ctx q ps rs d0 c HK)).
Qed.
Print Assumptions C10_source_executemany.

(* Non-vacuity of the execute tie: the numbers of the generated refs table, and a pipeline that answers. *)
Example C10_source_execute_example :
  let K := {| kNode := 0; kIsinstance := 1; kParse := 2; kCompile := 3; kExec := 4 |} in
  let call_ref := fun (k : nat) (args : list pv) =>
    match k with
    | 1%nat => PBool false | 2%nat => PInt 100 | 3%nat => PInt 200
    | 4%nat => PTuple [PInt 7; PList [PInt 10; PInt 20]] | _ => PNone
    end in
  exec_refs_ok K /\
  pipeline call_ref K PNone PNone PNone = Ok (PTuple [PInt 7; PList [PInt 10; PInt 20]]) /\
  call_method call_ref (fun _ _ => Stuck) cursor_execute
    [("_context", PNone); ("_description", PNone); ("_rows", PList [PInt 1]); ("_rowcount", PInt 5); ("_pos", PInt 4);
     ("arraysize", PInt 3)]%string [PNone; PNone]
  = Ok ([("_context", PNone); ("_description", PInt 7); ("_rows", PList [PInt 10; PInt 20]); ("_rowcount", PInt 2);
         ("_pos", PInt 0); ("arraysize", PInt 3)]%string, PSelf).
Proof. repeat split; reflexivity. Qed.

(* Non-vacuity: a concrete history meeting the hypotheses, with its outputs. *)
Example C10_example :
  snd (run Z init [Execute [10; 20; 30]; FetchOne; NewIter; Cursor.Next 0; FetchMany (Some 5); FetchOne; RowNumber; RowCount])
  = [RNone; RRow 10; RInt 0; RRow 20; RRows [30]; RNone; RInt 3; RInt 3].
Proof. reflexivity. Qed.

(* ------------------------------------------------------------------ *)
(* Group `column` (Gen/SrcColumn.v, regenerated on every run): Column.__getitem__ translated ALONE with the subscript
   primitive, so that the SLICE branch `tuple(getter(self) for getter in self._vars[key])` has a meaning
   (Model/PrimsColumn.v: a tuple subscripted with slice(a, b, c) is the model's py_slice; trusted).  For EVERY slice -
   negative bounds, steps, reversed, out of range - the translated method returns ValueError for step 0 and otherwise the
   tuple of exactly the items the model's [py_slice col_items] selects, in that order, leaving the object as it was.
   [getters_give n h ks]: calling the j-th getter of Column._vars on the object gives the j-th item (name, type code,
   None x 5); C10_source_getters derives it from the properties tied in group `cursor` (what operator.attrgetter means,
   getters_ok) with h = hash(_type).  A slice branch that walks range(start, stop) instead (seeded C10-m4) is another
   term and the obligation no longer checks. *)
Import Verif.Model.PrimsColumn.

Theorem C10_source_column_slice : forall (call_ref : nat -> list pv -> pv) (msg : string -> list pv -> pv)
    (n h : pv) (ks : list nat) (flds : env) (a b c : option Z),
  PyMini.lookup "_vars" flds = Some (PTuple (map PRef ks)) ->
  Proofs.SrcColumn.getters_give call_ref n h ks ->
  call_method call_ref (prim_column msg) Gen.SrcColumn.column_getitem flds [enc_slice a b c] =
  match py_slice col_items a b c with
  | None => Exc ValueError
  | Some l => Ok (flds, PTuple (map (item_val n h) l))
  end.
Proof. exact Proofs.SrcColumn.column_slice_src. Qed.
Print Assumptions C10_source_column_slice.

(* the integer branch on the same term (the subscript primitive on a tuple and an int is PyMini's index_at) *)
Theorem C10_source_column_index : forall (call_ref : nat -> list pv -> pv) (msg : string -> list pv -> pv)
    (n h : pv) (ks : list nat) (flds : env) (i : Z),
  PyMini.lookup "_vars" flds = Some (PTuple (map PRef ks)) ->
  Proofs.SrcColumn.getters_give call_ref n h ks ->
  call_method call_ref (prim_column msg) Gen.SrcColumn.column_getitem flds [PInt i] =
  match py_index col_items i with
  | None => Exc IndexError
  | Some it => Ok (flds, item_val n h it)
  end.
Proof. exact Proofs.SrcColumn.column_index_src. Qed.
Print Assumptions C10_source_column_index.

Theorem C10_source_getters : forall (call_ref : nat -> list pv -> pv) (prim0 : string -> list pv -> PyMini.res pv)
    (n t h : pv) (ks : list nat) (kH : nat),
  ref_of Gen.SrcCursor.refs "builtins.hash" = Some kH ->
  do_call call_ref (PRef kH) [t] = Ok h ->
  getters_ok call_ref prim0 (cflds n t ks) ks ->
  Proofs.SrcColumn.getters_give call_ref n h ks.
Proof. exact Proofs.SrcColumn.getters_ok_give. Qed.
Print Assumptions C10_source_getters.

(* OBLIGATION on generated data: the live class resolves len / getitem to Column's own functions and iteration,
   containment, reversed, index, count to the collections.abc.Sequence mix-ins (defined through __getitem__ and
   __len__: trusted standard library), so iterating a description entry goes through the tied __getitem__.  A
   hand-written Column.__iter__ (seeded C10-m8) changes the table. *)
Theorem C10_source_column_protocol :
  Gen.SrcColumn.column_protocol =
  [("__len__", "beanquery.cursor.Column.__len__"); ("__getitem__", "beanquery.cursor.Column.__getitem__");
   ("__iter__", "collections.abc.Sequence.__iter__"); ("__contains__", "collections.abc.Sequence.__contains__");
   ("__reversed__", "collections.abc.Sequence.__reversed__"); ("index", "collections.abc.Sequence.index");
   ("count", "collections.abc.Sequence.count")]%string.
Proof. exact Proofs.SrcColumn.column_protocol_ok. Qed.
Print Assumptions C10_source_column_protocol.

(* Non-vacuity: getters 10..16 that answer 'x', 42 and None; col[-5:] , col[::2], col[::-3], col[::0], col[1] *)
Example C10_source_column_slice_example :
  let call_ref := fun (k : nat) (args : list pv) =>
    match k with 10%nat => PStr "x" | 11%nat => PInt 42 | _ => PNone end in
  let ks := [10; 11; 12; 13; 14; 15; 16]%nat in
  let flds := [("_vars", PTuple (map PRef ks)); ("_name", PStr "x"); ("_type", PNone)]%string in
  let pr := prim_column (fun _ _ => PNone) in
  Proofs.SrcColumn.getters_give call_ref (PStr "x") (PInt 42) ks /\
  call_method call_ref pr Gen.SrcColumn.column_getitem flds [enc_slice (Some (-5)) None None]
    = Ok (flds, PTuple [PNone; PNone; PNone; PNone; PNone]) /\
  call_method call_ref pr Gen.SrcColumn.column_getitem flds [enc_slice None None (Some 2)]
    = Ok (flds, PTuple [PStr "x"; PNone; PNone; PNone]) /\
  call_method call_ref pr Gen.SrcColumn.column_getitem flds [enc_slice None None (Some (-3))]
    = Ok (flds, PTuple [PNone; PNone; PStr "x"]) /\
  call_method call_ref pr Gen.SrcColumn.column_getitem flds [enc_slice None None (Some 0)] = Exc PyMini.ValueError /\
  call_method call_ref pr Gen.SrcColumn.column_getitem flds [PInt 1] = Ok (flds, PInt 42).
Proof. split; [repeat constructor|]. repeat split; vm_compute; reflexivity. Qed.
