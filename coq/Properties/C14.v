(* C14 BALANCES / JOURNAL / PRINT equal their SELECT expansions; PRINT is lossless.
   Statements only; every proof is [exact <lemma>] from Proofs/StatementsProofs.v.

   The model (Model/Statements.v) rewrites the statements the way compiler.py does: the
   summary function is spliced into the template TEXT, which is then lexed and parsed; the
   JOURNAL account pattern enters the WHERE clause as an AST constant (since /repo 7579a2f). *)
From Coq Require Import String ZArith List Bool.
Import ListNotations.
From Verif Require Import Base.PyValue Model.Statements Proofs.StatementsProofs.
From Verif Require Gen.Templates.
Open Scope list_scope.
Open Scope Z_scope.

(* For every summary function (none, or ANY identifier of the grammar: units, cost, ...),
   every FROM clause and every WHERE condition, BALANCES is rewritten into exactly
     SELECT account, SUM(f(position)) FROM fr WHERE wh
     GROUP BY account, ACCOUNT_SORTKEY(account) ORDER BY ACCOUNT_SORTKEY(account)
   (f absent: SUM(position); the parentheses of the template leave no node). *)
Theorem C14_balances_expansion : forall (f : option str) (fr : option from_) (wh : option expr),
  summary_ok f = true ->
  transform_balances (mkBalances f fr wh) = TOk (expected_balances f fr wh).
Proof. exact balances_expansion. Qed.
Print Assumptions C14_balances_expansion.

(* For every account pattern a (ANY string: quotes, regular-expression metacharacters, ...),
   summary function and FROM clause, JOURNAL is rewritten into exactly
     SELECT date, flag, MAXWIDTH(payee, 48), MAXWIDTH(narration, 80), account, f(position), f(balance)
     FROM fr WHERE account ~ <a as a string CONSTANT>
   (no WHERE clause without a pattern or with the empty pattern, which matches everything). *)
Theorem C14_journal_expansion : forall (a : option str) (f : option str) (fr : option from_),
  summary_ok f = true ->
  transform_journal (mkJournal a f fr) = TOk (expected_journal a f fr).
Proof. exact journal_expansion. Qed.
Print Assumptions C14_journal_expansion.

Theorem C14_journal_pattern_is_constant : forall (p : str) (f : option str) (fr : option from_),
  summary_ok f = true -> p <> [] ->
  exists s, transform_journal (mkJournal (Some p) f fr) = TOk s
            /\ s_where s = Some (BinaryOp Match (Column (s2z "account")) (Constant (VStr p)))
            /\ s_from s = fr.
Proof. exact journal_pattern_is_constant. Qed.
Print Assumptions C14_journal_pattern_is_constant.

(* Defect D24 (the code before 7579a2f spliced the pattern into the text inside double
   quotes).  The expansion theorem is FALSE of that code ... *)
Theorem C14_journal_expansion_text_splice_refuted :
  ~ (forall a f fr, summary_ok f = true ->
       transform_journal_text_splice (mkJournal a f fr) = TOk (expected_journal a f fr)).
Proof. exact journal_text_splice_refuted. Qed.
Print Assumptions C14_journal_expansion_text_splice_refuted.

(* ... witness 1, injection: the pattern  x DQ OR account ~ DQ  (DQ: a double quote) yields
   WHERE account ~ "x" OR account ~ "" (every posting), not the constant pattern; *)
Theorem C14_journal_text_splice_injection :
  exists s, transform_journal_text_splice (mkJournal (Some injection_pattern) None None) = TOk s
    /\ s_where s = Some (BoolOp Or [account_match (s2z "x"); account_match []])
    /\ s_where s <> s_where (expected_journal (Some injection_pattern) None None).
Proof. exact journal_text_splice_injection. Qed.
Print Assumptions C14_journal_text_splice_injection.

(* witness 2: the pattern  a DQ b  is a ParseError; *)
Theorem C14_journal_text_splice_parse_error :
  transform_journal_text_splice (mkJournal (Some unparsable_pattern) None None) = TParseError.
Proof. exact journal_text_splice_parse_error. Qed.
Print Assumptions C14_journal_text_splice_parse_error.

(* and it was right exactly for the patterns a double-quoted literal can hold. *)
Theorem C14_journal_text_splice_without_dquote : forall a f fr,
  summary_ok f = true -> no_dquote (or_empty a) = true ->
  transform_journal_text_splice (mkJournal a f fr) = TOk (expected_journal a f fr).
Proof. exact journal_text_splice_without_dquote. Qed.
Print Assumptions C14_journal_text_splice_without_dquote.

(* The summary function cannot do the same: the grammar only lets an identifier through, and
   an identifier is lexed back as one token whatever text follows the opening parenthesis. *)
Theorem C14_summary_is_one_token : forall (s : str) (rest : str),
  is_identifier s = true ->
  lex_run LNone (s ++ 40 :: rest) =
  match lex_run LNone rest with
  | None => None
  | Some (ts, st) => Some (TId (lower s) :: TLP :: ts, st)
  end.
Proof. exact summary_is_one_token. Qed.
Print Assumptions C14_summary_is_one_token.

(* PRINT: the entries handed to the printer are, in table order, exactly those on which
   the FROM expression is truthy; nothing else, nothing twice.  (w = None: no expression.) *)
Theorem C14_print_selection : forall (E : Type) (w : option (E -> value)) (t : list E),
  (forall e, In e t -> raises w e = None) ->
  execute_print w t = POk (filter (selected w) t).
Proof. exact (@print_selection). Qed.
Print Assumptions C14_print_selection.

Theorem C14_print_output_characterised : forall (E : Type) (w : option (E -> value)) (t es : list E),
  execute_print w t = POk es ->
  es = filter (selected w) t /\ subseq es t
  /\ (forall e, In e es <-> In e t /\ selected w e = true)
  /\ (NoDup t -> NoDup es).
Proof. exact (@print_output_characterised). Qed.
Print Assumptions C14_print_output_characterised.

(* an expression that raises on some entry: the statement raises what the first such entry
   raises (nothing is printed); and that is the only way not to get a list *)
Theorem C14_print_raises_first : forall (E : Type) (w : option (E -> value)) (t1 t2 : list E) e k,
  (forall x, In x t1 -> raises w x = None) -> raises w e = Some k ->
  execute_print w (t1 ++ e :: t2) = PRaise k.
Proof. exact (@print_raises_first). Qed.
Print Assumptions C14_print_raises_first.

Theorem C14_print_ok_iff : forall (E : Type) (w : option (E -> value)) (t : list E),
  (exists es, execute_print w t = POk es) <-> (forall e, In e t -> raises w e = None).
Proof. exact (@print_ok_iff). Qed.
Print Assumptions C14_print_ok_iff.

(* statement level: PRINT without FROM prints every entry; with FROM, the filter runs over
   the table after OPEN / CLOSE / CLEAR; CLOSE before OPEN is a CompilationError. *)
Theorem C14_print_no_from : forall (E : Type) compile_expr update (entries : list E),
  run_print compile_expr update entries (mkPrint None) = PrOk entries.
Proof. exact (@run_print_no_from). Qed.
Print Assumptions C14_print_no_from.

Theorem C14_print_from : forall (E : Type) compile_expr update (entries : list E) f w,
  match f_expression f with
  | None => w = None
  | Some e => exists g, compile_expr e = Some g /\ w = Some g
  end ->
  close_before_open f = false ->
  let table := update (f_open f) (f_close f) (f_clear f) entries in
  (forall e, In e table -> raises w e = None) ->
  run_print compile_expr update entries (mkPrint (Some f)) = PrOk (filter (selected w) table).
Proof. exact (@run_print_selection). Qed.
Print Assumptions C14_print_from.

Theorem C14_print_close_before_open : forall (E : Type) compile_expr update (entries : list E) f,
  (forall e, f_expression f = Some e -> compile_expr e <> None) ->
  close_before_open f = true ->
  run_print compile_expr update entries (mkPrint (Some f)) = PrCompilationError.
Proof. exact (@run_print_close_before_open). Qed.
Print Assumptions C14_print_close_before_open.

(* CLOSE without a date (FROM OPEN ON d CLOSE) never trips the order check (/repo 9c21b78) *)
Theorem C14_close_without_date_accepted : forall e o cl,
  close_before_open (mkFrom e o (Some CloseTrue) cl) = false.
Proof. exact close_true_no_check. Qed.
Print Assumptions C14_close_without_date_accepted.

(* Tie to the code, re-checked by the kernel on every run (Gen/Templates.v is regenerated from
   the imported beanquery): the real transform functions on 24 + 84 sentinel statements (every
   combination of summary none/units/cost, FROM shapes, WHERE, account patterns incl. quotes)
   return what the model returns, which is the expansion of the property text; the template
   texts have the model's tokens and fields; the grammar's keywords are the model's; the
   FROM / WHERE nodes of the result ARE the caller's nodes (identity: positional %s parameters
   are numbered by node identity, a copied clause would lose them). *)
Theorem C14_templates_tie :
  Gen.Templates.balances_cases = map transform_balances Gen.Templates.balances_inputs
  /\ Gen.Templates.journal_cases = map transform_journal Gen.Templates.journal_inputs
  /\ Gen.Templates.balances_cases =
     map (fun b => TOk (expected_balances (b_summary_func b) (b_from b) (b_where b)))
         Gen.Templates.balances_inputs
  /\ Gen.Templates.journal_cases =
     map (fun j => TOk (expected_journal (j_account j) (j_summary_func j) (j_from j)))
         Gen.Templates.journal_inputs
  /\ probe Gen.Templates.balances_template = probe balances_template
  /\ probe Gen.Templates.journal_template = probe journal_template
  /\ subset Gen.Templates.keywords keywords && subset keywords Gen.Templates.keywords = true
  /\ Gen.Templates.clauses_shared = true.
Proof.
  exact (conj balances_cases_tie (conj journal_cases_tie (conj balances_cases_expected
        (conj journal_cases_expected (conj (proj1 balances_template_tie)
        (conj (proj1 journal_template_tie) (conj keywords_tie clauses_shared_tie))))))).
Qed.
Print Assumptions C14_templates_tie.

(* the sentinel set would catch a return to the text splice *)
Theorem C14_tie_rejects_text_splice :
  Gen.Templates.journal_cases <> map transform_journal_text_splice Gen.Templates.journal_inputs.
Proof. exact text_splice_breaks_tie. Qed.
Print Assumptions C14_tie_rejects_text_splice.

(* hypotheses are satisfiable / concrete instances *)
Example C14_ex_summary_ok : summary_ok None = true /\ summary_ok (Some (s2z "units")) = true
  /\ summary_ok (Some (s2z "COST")) = true /\ summary_ok (Some (s2z "select")) = false
  /\ summary_ok (Some (s2z "1x")) = false.
Proof. vm_compute. repeat split. Qed.

Example C14_ex_balances :
  transform_balances (mkBalances (Some (s2z "UNITS")) None None) =
  TOk (mkSelect [mkTarget (col "account") None;
                 mkTarget (fn "sum" [fn "units" [col "position"]]) None]
                None None
                (Some (mkGroupBy [col "account"; fn "account_sortkey" [col "account"]] None))
                (Some [mkOrderBy (fn "account_sortkey" [col "account"]) ASC]) None None false).
Proof. vm_compute. reflexivity. Qed.

Example C14_ex_print :
  execute_print (Some (fun n : nat => nth n [VBool true; VNull; VInt 0; VInt 3; VStr []; VStr [97]] VNull))
                (seq 0 6) = POk [0; 3; 5]%nat.
Proof. vm_compute. reflexivity. Qed.

Example C14_ex_print_raises :
  execute_print (Some (fun n : nat => nth n [VBool true; VErr 7; VErr 8] VNull)) (seq 0 3) = PRaise 7.
Proof. vm_compute. reflexivity. Qed.

(* ---- tie by translation: the SOURCE of the selection loop of query_execute.execute_print and of the
   `return ast.Select(...)` tails of compiler.transform_balances / transform_journal, translated into PyMini on every
   run (Gen/SrcLedgerPrint.v), computes the model's [execute_print] and the Select the model's transformations build
   from the parsed template.  c_print / balances / journal are the receivers (their attributes are the fields);
   [where_ok]: c_print.where is None, or an opaque callable returning the model's value of the FROM expression on a
   row (an error value is raised); a row is an object whose `entry` attribute is the entry. ---- *)
From Verif Require Import Model.PyMini Model.PrimsLedger Gen.SrcLedgerPrint Proofs.SrcLedgerPrint.

Theorem C14_source_print_selection : forall (call_ref : nat -> list pv -> pv) (ext : string -> list pv -> PyMini.res pv)
    (E : Type) (enc : E -> pv) (w : option (E -> value)) (wv : pv) (es : list E),
  where_ok call_ref E enc w wv ->
  let flds := [("where", wv); ("table", PList (map (prow E enc) es))]%string in
  call_method call_ref (prims_ledger SrcLedgerPrint.refs ext) src_print_selection flds [] =
  match Statements.execute_print w es with
  | Statements.POk l => Ok (flds, PList (map enc l))
  | Statements.PRaise k => Exc k
  end.
Proof. exact print_selection_src. Qed.
Print Assumptions C14_source_print_selection.

Theorem C14_source_transform_balances : forall (call_ref : nat -> list pv -> pv)
    (ext : string -> list pv -> PyMini.res pv) (b : Statements.balances) (cooked : Statements.select),
  call_method call_ref (prims_ledger SrcLedgerPrint.refs ext) src_transform_balances (Stm.balances_fields b)
              [Stm.enc_select cooked] =
  Ok (Stm.balances_fields b,
      Stm.enc_select (Statements.mkSelect (Statements.s_targets cooked) (Statements.b_from b) (Statements.b_where b)
                        (Statements.s_group_by cooked) (Statements.s_order_by cooked) None None false)).
Proof. exact transform_balances_src. Qed.
Print Assumptions C14_source_transform_balances.

Theorem C14_source_transform_journal : forall (call_ref : nat -> list pv -> pv)
    (ext : string -> list pv -> PyMini.res pv) (j : Statements.journal) (cooked : Statements.select),
  call_method call_ref (prims_ledger SrcLedgerPrint.refs ext) src_transform_journal (Stm.journal_fields j)
              [Stm.enc_select cooked] =
  Ok (Stm.journal_fields j,
      Stm.enc_select (Statements.mkSelect (Statements.s_targets cooked) (Statements.j_from j)
                        (if Statements.nonempty (Statements.j_account j)
                         then Some (Statements.account_match (Statements.or_empty (Statements.j_account j))) else None)
                        None None None None false)).
Proof. exact transform_journal_src. Qed.
Print Assumptions C14_source_transform_journal.

(* the dataclass fields of the imported parser AST classes (generated) are those the constructor primitives use *)
Theorem C14_source_ast_fields : SrcLedgerPrint.ast_decls = PrimsLedger.ast_decls.
Proof. exact ast_decls_tie. Qed.
Print Assumptions C14_source_ast_fields.

(* the hypothesis is satisfiable: entries are numbers, the expression keeps the even ones and raises on 7 *)
Example C14_source_print_example :
  let enc := fun n : Z => PInt n in
  let f := fun n : Z => if n =? 7 then VErr 5 else VBool (Z.even n) in
  let call_ref := fun (k : nat) (args : list pv) =>
    match args with
    | [PTuple [_; PList [PTuple [_; PV (VInt n)]]]] => PV (f n)
    | _ => PNone
    end in
  where_ok call_ref Z enc (Some f) (PRef 0) /\
  call_method call_ref (prims_ledger SrcLedgerPrint.refs (fun _ _ => Stuck)) src_print_selection
    [("where", PRef 0); ("table", PList (map (prow Z enc) [1; 2; 3; 4]))]%string []
  = Ok ([("where", PRef 0); ("table", PList (map (prow Z enc) [1; 2; 3; 4]))]%string, PList [PInt 2; PInt 4]) /\
  call_method call_ref (prims_ledger SrcLedgerPrint.refs (fun _ _ => Stuck)) src_print_selection
    [("where", PRef 0); ("table", PList (map (prow Z enc) [2; 7; 4]))]%string [] = Exc 5.
Proof. split; [exists 0%nat; split; [reflexivity|intros e; reflexivity]|split; vm_compute; reflexivity]. Qed.

(* ---- tie by translation of has_account(context, pattern) (beanquery/query_env.py), the function a filter
   `FROM has_account('p')` of PRINT / SELECT calls (bld-env2).  Gen/SrcHasAccount.v holds the PyMini term of the whole function,
   regenerated on every run (harness/vf/src_hasaccount.py); model and primitives: Model/PrimsHasAccount.v; proof:
   Proofs/SrcHasAccount.v.  The regular-expression engine (re_valid: the pattern compiles; re_search p a: the pattern compiled
   with re.IGNORECASE is found somewhere in a) and the ledger (accounts_of e: the items of getters.get_entry_accounts(e)) are
   universally quantified.  The model's value is: re.error for an invalid pattern, otherwise the bool "some account of the
   entry is matched by a SEARCH of the pattern ignoring case". ---- *)
From Verif Require Import Model.PrimsHasAccount Gen.SrcHasAccount Proofs.SrcHasAccount.

Theorem C14_source_has_account : forall (call_ref : nat -> list pv -> pv) (re_valid : list Z -> bool)
    (re_search : list Z -> list Z -> bool) (accounts_of : pv -> list (list Z)) (e : pv) (pattern : list Z),
  call_function call_ref (prim_has_account re_valid re_search accounts_of) envh_has_account
                [p_context e; PV (VStr pattern)]
  = ha_result (has_account re_valid re_search accounts_of e pattern).
Proof. exact has_account_src. Qed.
Print Assumptions C14_source_has_account.

(* what the filter selects: PRINT FROM has_account('p') with a valid pattern prints, in table order, exactly the entries one
   of whose accounts the pattern is found in (the generic selection theorem at the filter has_account denotes) *)
Theorem C14_print_has_account : forall (re_valid : list Z -> bool) (re_search : list Z -> list Z -> bool)
    (accounts_of : pv -> list (list Z)) (pattern : list Z) (t : list pv),
  re_valid pattern = true ->
  execute_print (Some (has_account_filter re_valid re_search accounts_of pattern)) t
  = POk (filter (fun e => existsb (re_search pattern) (accounts_of e)) t).
Proof.
  intros rv rs ao p t Hv. rewrite (@print_selection pv).
  - f_equal. apply filter_ext. intros e. unfold selected, has_account_filter, has_account. rewrite Hv.
    destruct (existsb (rs p) (ao e)); reflexivity.
  - intros e _. unfold raises, has_account_filter, has_account. rewrite Hv. reflexivity.
Qed.
Print Assumptions C14_print_has_account.

(* Non-vacuity: a toy engine (the pattern occurs as the first character, ignoring nothing), an entry with two accounts *)
Example C14_source_has_account_example :
  let rs := fun (p a : list Z) => match p, a with x :: _, y :: _ => x =? y | _, _ => false end in
  let ao := fun (_ : pv) => [[65; 58; 66]; [69; 58; 70]] in
  call_function (fun _ _ => PNone) (prim_has_account (fun p => negb (Nat.eqb (List.length p) 0)) rs ao) envh_has_account
    [p_context PNone; PV (VStr [69])] = Ok (PBool true) /\
  call_function (fun _ _ => PNone) (prim_has_account (fun p => negb (Nat.eqb (List.length p) 0)) rs ao) envh_has_account
    [p_context PNone; PV (VStr [70])] = Ok (PBool false) /\
  call_function (fun _ _ => PNone) (prim_has_account (fun p => negb (Nat.eqb (List.length p) 0)) rs ao) envh_has_account
    [p_context PNone; PV (VStr [])] = Exc ReError.
Proof. vm_compute. repeat split; reflexivity. Qed.
