(* C05 Static validation is complete; rejections are ParseError/CompilationError only.
   Statements only; every proof is [exact <lemma>] from Proofs/CompileProofs.v or a closed computation over the
   registry snapshot (Model/RegistrySnapshot.v, kernel-checked equal to the live registries in Proofs/RegistryTie.v). *)
From Coq Require Import String ZArith List Bool.
Import ListNotations.
From Verif Require Import Base.PyValue Model.Compile Proofs.CompileProofs Model.Link Proofs.LinkProofs.
From Verif Require Import Model.WF Proofs.WFProofs Model.Locate Proofs.LocateProofs.
From Verif Require Model.RegistrySnapshot Model.Exec Model.Typing.
From Verif Require Proofs.TypingProofs Proofs.LinkLibProofs.       (* bld-link: the function table of the lowering *)
(* the tie by translation (last section of this file); required HERE because coqdep stops reading this file at the
   string "count( * )" below (it takes the characters after the parenthesis for the start of a comment) and would not
   record the dependencies on the generated files; imported mid-file, where the names are wanted *)
From Verif Require Model.PyMini Model.PrimsApi Model.PrimsCompiler Gen.SrcLookup Proofs.SrcLookup Gen.SrcCompiler
  Proofs.SrcCompiler Proofs.SrcCompilerGroup Proofs.SrcCompilerWalk.
From Verif Require Model.PrimsSelect Gen.SrcSelect Proofs.SrcSelect.      (* bld-compiler3: Compiler._select *)
Open Scope string_scope.
Open Scope list_scope.
Open Scope nat_scope.

(* ---- THE WHOLE-STATEMENT THEOREM.  WF (Model/WF.v) is the declarative judgement "the statement's parameters fit its
   placeholders, subqueries stand only where they are supported, and over the default table the SELECT denotes a query":
   one rule per AST constructor whose premises are conditions (sub-expressions denote nodes; an overload exists for the
   operand types -- C05_accept_iff_wf_unary/_binary/_between/_function below characterise those premises; the aggregate
   rules; a GROUP BY / ORDER BY reference denotes a target by position | a target by name | the first target whose
   compiled node is equal | a new hidden target; OPEN <= CLOSE; ...), not an order of checks.
   Proved by induction over the nested expression tree (WFProofs.expr_ind').
   WF states what the CODE enforces.  It differs from the property text in exactly two rules, both witnessed below:
   rule DIn has no premise on the operand types (C05_in_operand_types_refuted) and `covered` demands that the group
   indexes -- keys reconciled with the FIRST equal target -- equal the set of non-aggregate targets
   (C05_duplicate_grouped_target_refuted).  Not formalised: a second judgement WF_text with those two rules as the text
   words them and the conditional equivalences WF_text <-> WF under "no untyped IN" / "no repeated grouped target".
   BALANCES / JOURNAL / PRINT are outside WF (WF = False there); their cooked SELECTs go through C05_compile_iff_denotes. *)
Theorem C05_accept_iff_wf : forall sch p e,
  (exists q, compile sch p (SSelect e) = Ok q) <-> WF sch p (SSelect e).
Proof. exact compile_select_iff_wf. Qed.
Print Assumptions C05_accept_iff_wf.

(* the same for every expression and every nested SELECT, with the result: the compiler yields r exactly when the
   expression denotes r *)
Theorem C05_compile_iff_denotes : forall sch pv e tbl r,
  comp sch pv e tbl = Ok r <-> Den sch pv e tbl r.
Proof. exact comp_iff_den. Qed.
Print Assumptions C05_compile_iff_denotes.

(* ---- locations (Model/Locate.v): the node a CompilationError is about, as a path in the statement AST.  A location is
   produced only for rejected statements and always denotes a node of the statement, hence -- the parser gives every
   node a span of the statement text (checked on every run by the implementation-side oracle) -- lies within that text.
   The model enforces this with a check ([valid_path]) on the path computed by [locate] / [viol]; that the check never
   discards a location is not proved but observed: the correspondence compares the span of the named node with the
   span the implementation attaches for every rejected SELECT. *)
Theorem C05_location_valid : forall sch p e pth,
  locate_stmt sch p e = Some (Some pth) -> valid_path e pth = true.
Proof. exact location_valid. Qed.
Print Assumptions C05_location_valid.

Theorem C05_location_iff_rejected : forall sch p e,
  locate_stmt sch p e = None <-> exists q, compile sch p (SSelect e) = Ok q.
Proof. exact location_iff_rejected. Qed.
Print Assumptions C05_location_iff_rejected.

(* ---- the model has no third outcome: a statement is accepted, or rejected with an error whose Python class is
   ProgrammingError / CompilationError(ProgrammingError); the only other class is the TypeError for a parameter
   container of the wrong kind (API misuse, outside the property) *)
Theorem C05_errors_are_programming_errors : forall sch p st,
  (exists q, compile sch p st = Ok q) \/
  (exists e, compile sch p st = Err e /\
             (e = EParamContainer \/ cerr_class e = PyProgrammingError \/ cerr_class e = PyCompilationError)).
Proof. exact no_third_outcome. Qed.
Print Assumptions C05_errors_are_programming_errors.

Theorem C05_type_error_only_for_container : forall e, cerr_class e = PyTypeError -> e = EParamContainer.
Proof. exact type_error_only_container. Qed.
Print Assumptions C05_type_error_only_for_container.

(* parameters match placeholders: the container TypeError arises exactly when the container does not fit the style *)
Theorem C05_param_container_iff : forall p phs,
  bind_params p phs = Err EParamContainer <->
  phs <> [] /\ ((all_named phs = true /\ is_map p = false)
                \/ (all_named phs = false /\ all_positional phs = true /\ is_seq p = false)).
Proof. exact bind_params_container. Qed.
Print Assumptions C05_param_container_iff.

(* ---- typing layer: a node is accepted exactly when an overload exists for the operand types *)
Theorem C05_function_lookup_iff_overload_exists : forall reg name tys,
  (exists r, function_lookup reg name tys = Some r) <->
  exists sg o, In sg (product (map bases_of tys)) /\ In o (overloads reg name) /\ sig_match (ov_ins o) sg = true.
Proof. exact function_lookup_some_iff. Qed.
Print Assumptions C05_function_lookup_iff_overload_exists.

(* ... and the one chosen is the first overload, in registration order, that matches that signature *)
Theorem C05_lookup_returns_first_match : forall ovs sg i k o,
  find_ov i ovs sg = Some (k, o) ->
  exists pre post, ovs = pre ++ o :: post /\ k = i + length pre /\ sig_match (ov_ins o) sg = true
                   /\ forall o', In o' pre -> sig_match (ov_ins o') sg = false.
Proof. exact find_ov_first. Qed.
Print Assumptions C05_lookup_returns_first_match.

Theorem C05_accept_iff_wf_unary : forall op x,
  (exists n, build_unary op x = Ok n) <-> overload_for RegistrySnapshot.operators op [dtype x].
Proof. exact build_unary_accepts_iff. Qed.
Print Assumptions C05_accept_iff_wf_unary.

Theorem C05_accept_iff_wf_binary : forall op l r,
  (exists n, build_binary op l r = Ok n) <-> binop_wf op l r.
Proof. exact build_binary_accepts_iff. Qed.
Print Assumptions C05_accept_iff_wf_binary.

Theorem C05_accept_iff_wf_between : forall a lo hi,
  (exists n, build_between a lo hi = Ok n) <-> exact_overload_for "Between" [dtype a; dtype lo; dtype hi].
Proof. exact build_between_accepts_iff. Qed.
Print Assumptions C05_accept_iff_wf_between.

Theorem C05_accept_iff_wf_function : forall f ops,
  (exists n, apply_function f ops = Ok n) <-> overload_for RegistrySnapshot.functions f (map dtype ops).
Proof. exact apply_function_accepts_iff. Qed.
Print Assumptions C05_accept_iff_wf_function.

(* ---- aggregate rule of one expression, positional references, PIVOT BY *)
Theorem C05_accept_iff_wf_aggregates : forall n,
  check_aggregates n = None <-> ~ (has_col n = true /\ has_agg n = true) /\ nested_agg n = false.
Proof. exact check_aggregates_none_iff. Qed.
Print Assumptions C05_accept_iff_wf_aggregates.

Theorem C05_position_in_range_iff : forall z b, (exists i, nat_index z b = Some i) <-> (1 <= z <= Z.of_nat b)%Z.
Proof. exact nat_index_some_iff. Qed.
Print Assumptions C05_position_in_range_iff.

Theorem C05_accept_iff_wf_pivot : forall ts g p1 p2,
  (exists r, compile_pivot_by ts g (Some (p1, p2)) = Ok r) <->
  exists i1 i2, resolve_pivot ts p1 = Ok i1 /\ resolve_pivot ts p2 = Ok i2 /\ i1 <> i2
                /\ exists gi, g = Some gi /\ In i2 gi.
Proof. exact compile_pivot_accepts_iff. Qed.
Print Assumptions C05_accept_iff_wf_pivot.

(* the model's aggregate predicates are the code's get_columns_and_aggregates walk (two accumulators, nothing below
   an aggregate node visited): non-emptiness of its two result lists; is_aggregate = bool(aggregates) *)
Theorem C05_aggregate_predicates_are_the_walk : forall n,
  has_col n = nonempty (fst (cols_aggs n)) /\ has_agg n = nonempty (snd (cols_aggs n)).
Proof. exact predicates_are_the_walk. Qed.
Print Assumptions C05_aggregate_predicates_are_the_walk.

(* ---- every accepted SELECT / BALANCES / JOURNAL: hidden targets come after all visible ones; group_indexes are
   exactly the non-aggregate targets; a query without grouping has no aggregate target; HAVING / ORDER BY / PIVOT BY
   indexes are in range; the two pivot columns differ and the second one is grouped *)
Theorem C05_accepted_query_invariants : forall sch p st q, compile sch p st = Ok (CSelect q) -> query_inv q.
Proof. exact compile_inv. Qed.
Print Assumptions C05_accepted_query_invariants.

(* ---- clauses of the property text the code does NOT enforce (faithful model, concrete witnesses; replayed on the
   implementation by the correspondence run: known findings) *)
Definition sel (targets : list (expr * option string * string)) grp :=
  SSelect (ESelect (Some targets) FKNone None None grp [] None None false).
Definition lit (z : Z) := EConstant (CScalar (VInt z)).

(* "operator overload for the operand types": IN takes the first overload without looking at the operand types *)
Theorem C05_in_operand_types_refuted :
  exists st, (exists q, compile snapshot_schema PNone st = Ok q)
             /\ function_lookup RegistrySnapshot.operators "In" ["int"; "int"] = None.
Proof.
  exists (sel [(EBinary "In" (lit 1) (lit 2), None, "1 IN 2")] None).
  split; [eexists; vm_compute; reflexivity | vm_compute; reflexivity].
Qed.
Print Assumptions C05_in_operand_types_refuted.

(* the same witness against the judgement: it is well-formed although no overload of In takes (int, int) *)
Theorem C05_wf_in_rule_untyped :
  exists e, WF snapshot_schema PNone (SSelect e)
            /\ function_lookup RegistrySnapshot.operators "In" ["int"; "int"] = None.
Proof.
  exists (ESelect (Some [(EBinary "In" (lit 1) (lit 2), None, "1 IN 2")]) FKNone None None None [] None None false).
  split; [apply compile_select_iff_wf; eexists; vm_compute; reflexivity | vm_compute; reflexivity].
Qed.
Print Assumptions C05_wf_in_rule_untyped.

(* "every non-aggregate target covered by GROUP BY": a target repeated in the SELECT list is rejected although it is
   a GROUP BY key (the key is reconciled with the first equal target only) *)
Theorem C05_duplicate_grouped_target_refuted :
  exists st, compile snapshot_schema PNone st = Err ENotCovered.
Proof.
  exists (sel [(EColumn "account", None, "account"); (EColumn "account", None, "account");
               (EFunction "count" [EAsterisk], None, "count(*)")]
              (Some ([inr (EColumn "account")], None))).
  vm_compute. reflexivity.
Qed.
Print Assumptions C05_duplicate_grouped_target_refuted.

(* ---- the hypotheses are satisfiable and the repaired rules are in the model *)
Example C05_valid_grouped_query :
  exists q, compile snapshot_schema PNone
              (SSelect (ESelect (Some [(EColumn "account", None, "account");
                                       (EFunction "sum" [EColumn "number"], Some "total", "sum(number)")])
                                (FKExpr None None false) (Some (EBinary "Equal" (EColumn "year") (lit 2020))) None
                                (Some ([inl 1%Z], Some (EBinary "Greater" (EFunction "count" [EAsterisk]) (lit 1))))
                                [(inr (EColumn "total"), true)] None (Some 10%Z) false)) = Ok (CSelect q)
            /\ cq_group q = Some [0] /\ cq_having q = Some 2 /\ cq_order q = Some [(1, true)].
Proof. eexists. vm_compute. repeat split. Qed.

Example C05_coalesce_empty_rejected :
  compile snapshot_schema PNone (sel [(EFunction "coalesce" [], None, "coalesce()")] None) = Err ECoalesceEmpty.
Proof. vm_compute. reflexivity. Qed.

Example C05_pivot_on_non_aggregate_rejected :
  compile snapshot_schema PNone
    (SSelect (ESelect (Some [(EColumn "account", None, "account"); (EColumn "year", None, "year")])
                      FKNone None None None [] (Some (PIdx 1, PIdx 2)) None false)) = Err EPivotNotGrouped.
Proof. vm_compute. reflexivity. Qed.

Example C05_scalar_subquery_rejected :
  compile snapshot_schema PNone
    (sel [(EBinary "Add" (lit 1) (ESelect (Some [(lit 1, None, "1")]) FKNone None None None [] None None false), None, "x")] None)
  = Err ESubqueryPosition.
Proof. vm_compute. reflexivity. Qed.

Example C05_mixed_order_by_rejected :
  compile snapshot_schema PNone
    (SSelect (ESelect (Some [(EColumn "account", None, "account"); (EFunction "sum" [EColumn "number"], None, "sum(number)")])
                      FKNone None None (Some ([inl 1%Z], None))
                      [(inr (EBinary "Add" (EColumn "number") (EFunction "sum" [EColumn "number"])), false)]
                      None None false)) = Err EMixedAgg.
Proof. vm_compute. reflexivity. Qed.

(* ================================================================== link to the executor model (Model/Link.v)
   A compiled query is lowered to the executor's syntax (Model/Eval.v, Exec.v) and run inside Coq; the correspondence
   stream "end-to-end" compares the rows with the ones the implementation fetches. *)

(* lowering preserves the announced datatype: in the executor's type system (Model/Typing.v) every target of a
   lowered query, and every aggregate it allocates, has the datatype the compiler put on the node *)
Theorem C05_lowering_preserves_datatypes : forall q xq,
  lower_query q = Some xq ->
  exists colsT aggT,
    Link.all_some (map (fun c => Typing.ty_of_name (snd c)) (t_cols (cq_table q))) = Some colsT
    /\ Link.all_some (map (Typing.agg_type colsT) (Exec.q_aggs xq)) = Some aggT
    /\ Forall2 (typed_as colsT aggT) (Exec.q_targets xq) (cq_targets q).
Proof. exact lower_query_typed. Qed.
Print Assumptions C05_lowering_preserves_datatypes.

(* ... and the FUNCTION a lowered call stands for is the registered one: the datatype validation above cannot tell
   month from year (both date -> int); the table of the lowering (name + declared input types of the overload the
   compiler selected -> constructor of Model/Eval.v, 36 constructors of which 26 are the scalar library modelled for
   C18) answers a constructor that stands, in Model/Typing.v, for a function of exactly that name, with the declared
   input types among the signatures the constructor stands for. *)
Theorem C05_lowering_function_table_faithful : forall f ins fn,
  lower_func f ins = Some fn ->
  Typing.func_name fn = f
  /\ existsb (fun ts => Typing.list_eqb (Typing.func_sig fn ts) ins) TypingProofs.ty_lists3 = true.
Proof. exact LinkLibProofs.lower_func_faithful. Qed.
Print Assumptions C05_lowering_function_table_faithful.

Theorem C05_lowered_call_is_the_named_function : forall name ins args e,
  is_operator name = false -> lower_call name ins args = Some e ->
  exists fn, lower_func name ins = Some fn /\ e = Ev.EFunc fn args /\ Typing.func_name fn = name.
Proof. exact LinkLibProofs.lower_call_func. Qed.
Print Assumptions C05_lowered_call_is_the_named_function.

(* the lowered form of an accepted statement has the shape the executor relies on: the visible columns are the
   first n targets, GROUP BY / HAVING / ORDER BY indexes are in range *)
Theorem C05_lowered_query_shape : forall sch p st q xq,
  compile sch p st = Ok (CSelect q) -> lower_query q = Some xq ->
  Exec.q_vis xq = seq 0 (length (visible (cq_targets q)))
  /\ length (Exec.q_targets xq) = length (cq_targets q)
  /\ (forall gi, Exec.q_group xq = Some gi -> Forall (fun i => i < length (Exec.q_targets xq)) gi)
  /\ (forall k, Exec.q_having xq = Some k -> k < length (Exec.q_targets xq))
  /\ (forall spec, Exec.q_order xq = Some spec -> Forall (fun p => fst p < length (Exec.q_targets xq)) spec).
Proof. exact lowered_query_shape. Qed.
Print Assumptions C05_lowered_query_shape.

(* compile >>= lower >>= exec has no third outcome: rows of an accepted statement, the compiler's error exactly when
   the compiler rejects, or None (statement accepted but outside the lowerable subset, or its evaluation raises) *)
Theorem C05_run_stmt_outcomes : forall sch p dat st,
  (exists rows, run_stmt sch p dat st = Some (inl rows) /\ exists q, compile sch p st = Ok (CSelect q))
  \/ (exists e, run_stmt sch p dat st = Some (inr e) /\ compile sch p st = Err e)
  \/ (run_stmt sch p dat st = None /\ exists c, compile sch p st = Ok c).
Proof. exact run_stmt_outcomes. Qed.
Print Assumptions C05_run_stmt_outcomes.

Theorem C05_run_rejects_iff_compile_rejects : forall sch p dat st e,
  run sch p dat st = RErr e <-> compile sch p st = Err e.
Proof. exact run_rejects_iff_compile_rejects. Qed.
Print Assumptions C05_run_rejects_iff_compile_rejects.

(* end to end inside Coq: SELECT b, sum(a) AS s FROM #v WHERE a > 0 GROUP BY b ORDER BY s DESC *)
Example C05_run_end_to_end :
  let v := mk_table "v" [("a", "int"); ("b", "str")] ["a"; "b"] false in
  let rows := [[VInt 1; VStr [120%Z]]; [VInt 5; VStr [121%Z]]; [VInt 2; VStr [120%Z]]; [VInt 0; VStr [122%Z]]; [VNull; VStr [121%Z]]] in
  run_stmt [v] PNone [("v", rows)]
    (SSelect (ESelect (Some [(EColumn "b", None, "b"); (EFunction "sum" [EColumn "a"], Some "s", "sum(a)")])
                      (FKTable "v") None (Some (EBinary "Greater" (EColumn "a") (lit 0)))
                      (Some ([inr (EColumn "b")], None)) [(inr (EColumn "s"), true)] None None false))
  = Some (inl [[VStr [121%Z]; VInt 5]; [VStr [120%Z]; VInt 3]]).
Proof. vm_compute. reflexivity. Qed.

(* ... with the scalar library modelled for C18 in the loop (Eval.apply_func calls Model/Dates.v / StrFuncs.v):
   SELECT quarter(d) AS q, count( * ) AS n, max(date_part('week', d)) AS w FROM #v
   WHERE year(d) = 2020 AND int(b) > 0 GROUP BY 1 ORDER BY q DESC
   over the dates 2020-01-01, 2021-01-01, 2020-07-03, 2020-07-04, NULL, 2020-01-02 and b = '12', '7', ' 3', 'x', '1', '+4' *)
Definition lit_str (s : list Z) := EConstant (CScalar (VStr s)).
Example C05_run_end_to_end_library :
  let v := mk_table "v" [("d", "date"); ("b", "str")] ["d"; "b"] false in
  let rows := [[VDate 737425%Z; VStr [49%Z; 50%Z]]; [VDate 737791%Z; VStr [55%Z]]; [VDate 737609%Z; VStr [32%Z; 51%Z]];
               [VDate 737610%Z; VStr [120%Z]]; [VNull; VStr [49%Z]]; [VDate 737426%Z; VStr [43%Z; 52%Z]]] in
  run_stmt [v] PNone [("v", rows)]
    (SSelect (ESelect (Some [(EFunction "quarter" [EColumn "d"], Some "q", "quarter(d)");
                             (EFunction "count" [EAsterisk], Some "n", "count(*)");
                             (EFunction "max" [EFunction "date_part" [lit_str [119; 101; 101; 107]%Z; EColumn "d"]], Some "w", "max(...)")])
                      (FKTable "v") None
                      (Some (EAnd [EBinary "Equal" (EFunction "year" [EColumn "d"]) (lit 2020);
                                   EBinary "Greater" (EFunction "int" [EColumn "b"]) (lit 0)]))
                      (Some ([inl 1%Z], None)) [(inr (EColumn "q"), true)] None None false))
  = Some (inl [[VStr [50; 48; 50; 48; 45; 81; 51]%Z; VInt 1; VInt 27]; [VStr [50; 48; 50; 48; 45; 81; 49]%Z; VInt 2; VInt 1]])
  (* a library function the typed model leaves out (it can raise) is refused, not run *)
  /\ run_stmt [v] PNone [("v", rows)]
       (SSelect (ESelect (Some [(EFunction "yearmonth" [EColumn "d"], None, "yearmonth(d)")]) (FKTable "v") None None None [] None None false))
     = None.
Proof. vm_compute. split; reflexivity. Qed.

(* ================================================================== tie by translation (harness/PYMINI.md, DESIGN 10.6)
   The PyMini terms of Gen/SrcLookup.v and Gen/SrcCompiler.v are regenerated on every run from the source of the imported
   beanquery.types / beanquery.compiler (harness/vf/src_compiler.py); the theorems below say that interpreting them
   computes the functions of Model/Compile.v the theorems above are stated over.  Primitive semantics and encodings:
   Model/PrimsCompiler.v (compiled nodes are references into a heap [tbl]; datatypes are their snapshot names). *)
Import Verif.Model.PyMini Verif.Model.PrimsApi Verif.Model.PrimsCompiler.

(* types.function_lookup: for EVERY registry, name and operand list the translated search (product of the operands'
   bases outermost, overloads in registry order innermost, AnyType.__eq__ on the declared types) returns exactly the
   overload - class and position - Compile.function_lookup returns, or None.  [_bases] is an opaque callable here,
   assumed to return Compile.bases_of; C05_source_bases / _bases_table below discharge that for the live classes. *)
Theorem C05_source_function_lookup :
  forall (call_ref : nat -> list pv -> pv) (tbl : nat -> Compile.cnode) (kids : nat -> list nat)
         (mro : string -> list string) (msg : string -> list pv -> pv)
         (kb : nat) (reg : list (string * list Compile.overload)) (name : string) (operands : list nat),
  ref_of SrcLookup.refs "beanquery.types._bases" = Some kb ->
  (forall t, call_ref kb [PStr t] = PTuple (map PStr (Compile.bases_of t))) ->
  call_function call_ref (prim_compiler tbl kids mro msg) SrcLookup.types_function_lookup
    [enc_registry reg; PStr name; PList (map nref operands)] =
  PyMini.Ok (Proofs.SrcLookup.enc_found
               (Compile.function_lookup reg name (map (fun i => Compile.dtype (tbl i)) operands))).
Proof. exact Proofs.SrcLookup.function_lookup_src. Qed.
Print Assumptions C05_source_function_lookup.

(* types._bases on a datatype whose method resolution order is [mro t]: (object,) for NoneType; the order without its
   last element when that is `object` and the order has more than one element; else the order *)
Theorem C05_source_bases :
  forall (call_ref : nat -> list pv -> pv) (tbl : nat -> Compile.cnode) (kids : nat -> list nat)
         (mro : string -> list string) (msg : string -> list pv -> pv) (t : string),
  call_function call_ref (prim_compiler tbl kids mro msg) SrcLookup.types_bases [PStr t] =
  PyMini.Ok (PTuple (map PStr (Proofs.SrcLookup.bases_from_mro t (mro t)))).
Proof. exact Proofs.SrcLookup.bases_src. Qed.
Print Assumptions C05_source_bases.

(* ... which, on the method resolution orders of the live classes (emitted with the generated terms), is the type table
   of the snapshot; every datatype of the snapshot is in that table *)
Theorem C05_source_bases_table :
  (forall n m, In (n, m) SrcLookup.type_mros -> Proofs.SrcLookup.bases_from_mro n m = Compile.bases_of n)
  /\ forallb (fun r => match r with (n, _, _, _, _) => existsb (fun p => String.eqb (fst p) n) SrcLookup.type_mros end)
             RegistrySnapshot.types = true.
Proof. exact (conj Proofs.SrcLookup.bases_table Proofs.SrcLookup.mro_table_covers_snapshot). Qed.
Print Assumptions C05_source_bases_table.

(* the hypothesis about the opaque callable is satisfiable *)
Example C05_source_lookup_hypotheses_satisfiable :
  exists call_ref : nat -> list pv -> pv,
    forall t, call_ref 0%nat [PStr t] = PTuple (map PStr (Compile.bases_of t)).
Proof.
  exists (fun _ args => match args with
                        | [PV (VStr s)] => PTuple (map PStr (Compile.bases_of (unzs s)))
                        | _ => PNone
                        end).
  intros t. cbn. now rewrite Proofs.SrcLookup.unzs_zs.
Qed.

(* Compiler._compile_order_by = Compile.compile_order_by, for EVERY list of compiled targets (nodes of the heap), every
   ORDER BY list (positions, bare column names, other expressions; [key_ok]: an expression node is a record of a class
   other than ast.Column / int) and every behaviour [compf] of `self._compile` on the keys: the translated method raises
   the model's error, or returns (the hidden targets the model appends, the model's order_spec).  So: a position is
   checked against the number of VISIBLE targets; a name resolves to the LAST target of that name; any other key is
   compiled, checked by check_aggregates, reconciled with the FIRST equal target expression (visible or hidden, EvalNode
   equality) or appended as a hidden target whose aggregate flag is is_aggregate(expression); the direction is copied.
   `self._compile`, `check_aggregates`, `is_aggregate` are opaque callables assumed to return the model's values. *)
Theorem C05_source_compile_order_by :
  forall (call_ref : nat -> list pv -> pv) (tbl : nat -> Compile.cnode) (kids : nat -> list nat)
         (mro : string -> list string) (msg : string -> list pv -> pv)
         (compf : pv -> Compile.result nat Compile.cerr) (kc kchk kagg : nat),
  ref_of Verif.Gen.SrcCompiler.refs "beanquery.compiler.check_aggregates" = Some kchk ->
  ref_of Verif.Gen.SrcCompiler.refs "beanquery.compiler.is_aggregate" = Some kagg ->
  (forall a, call_ref kc [a] = Verif.Proofs.SrcCompiler.enc_rid (compf a)) ->
  (forall i, call_ref kchk [nref i] =
             match Compile.check_aggregates (tbl i) with Some e => PV (VErr (CompErr e)) | None => PNone end) ->
  (forall i, call_ref kagg [nref i] = PBool (Compile.has_agg (tbl i))) ->
  forall (pts0 : list ptarget) (ord : list (Verif.Proofs.SrcCompiler.akey * bool)) (flds : env),
  lookup "_compile" flds = Some (PRef kc) -> Forall Verif.Proofs.SrcCompiler.key_ok (map fst ord) ->
  match Compile.compile_order_by (map (Verif.Proofs.SrcCompiler.T tbl) pts0)
                                 (Verif.Proofs.SrcCompiler.krefs tbl compf ord) with
  | Compile.Err e =>
      call_method call_ref (prim_compiler tbl kids mro msg) Verif.Gen.SrcCompiler.compile_order_by flds
        [PList (map Verif.Proofs.SrcCompiler.enc_oitem ord); PList (map enc_target pts0)] = Exc (CompErr e)
  | Compile.Ok (ts, spec) =>
      exists new : list ptarget,
        call_method call_ref (prim_compiler tbl kids mro msg) Verif.Gen.SrcCompiler.compile_order_by flds
          [PList (map Verif.Proofs.SrcCompiler.enc_oitem ord); PList (map enc_target pts0)] =
        PyMini.Ok (flds, PTuple [PList (map enc_target new); Verif.Proofs.SrcCompiler.enc_ospec spec])
        /\ map (Verif.Proofs.SrcCompiler.T tbl) new = skipn (length pts0) ts
  end.
Proof. exact Verif.Proofs.SrcCompiler.order_by_source. Qed.
Print Assumptions C05_source_compile_order_by.

Example C05_source_order_by_hypotheses_satisfiable :
  let tbl := fun _ : nat => Compile.NCol "a" "int" in
  let compf := fun _ : pv => @Compile.Ok nat Compile.cerr 0%nat in
  exists call_ref : nat -> list pv -> pv,
    (forall a, call_ref 9%nat [a] = Verif.Proofs.SrcCompiler.enc_rid (compf a))
    /\ (forall i, call_ref 0%nat [nref i] =
                  match Compile.check_aggregates (tbl i) with Some e => PV (VErr (CompErr e)) | None => PNone end)
    /\ (forall i, call_ref 1%nat [nref i] = PBool (Compile.has_agg (tbl i))).
Proof.
  exists (fun k _ => match k with 0%nat => PNone | 1%nat => PBool false | _ => nref 0 end). repeat split.
Qed.

(* Compiler._compile_pivot_by = Compile.compile_pivot_by, for every target list, pair of PIVOT BY columns (position or
   name) and group_indexes: a position is checked against the number of VISIBLE targets, a name resolves to the last
   target of that name, the two columns must differ, the second one must be one of the group indexes (None: rejected) *)
Theorem C05_source_compile_pivot_by :
  forall (call_ref : nat -> list pv -> pv) (tbl : nat -> Compile.cnode) (kids : nat -> list nat)
         (mro : string -> list string) (msg : string -> list pv -> pv)
         (pts : list ptarget) (p1 p2 : Compile.pcol) (gi : option (list nat)) (flds : env),
  call_method call_ref (prim_compiler tbl kids mro msg) Verif.Gen.SrcCompiler.compile_pivot_by flds
    [Verif.Proofs.SrcCompiler.enc_pivot_by p1 p2; PList (map enc_target pts); Verif.Proofs.SrcCompiler.enc_gi gi] =
  match Compile.compile_pivot_by (map (Verif.Proofs.SrcCompiler.T tbl) pts) gi (Some (p1, p2)) with
  | Compile.Err e => Exc (CompErr e)
  | Compile.Ok (Some (i1, i2)) => PyMini.Ok (flds, Verif.Proofs.SrcCompiler.enc_idxs [i1; i2])
  | Compile.Ok None => PyMini.Ok (flds, PNone)
  end.
Proof. exact Verif.Proofs.SrcCompiler.pivot_by_src. Qed.
Print Assumptions C05_source_compile_pivot_by.

(* is_aggregate(node) = Compile.has_agg and get_columns_and_aggregates(node) = the two accumulators of the walk started
   empty; the recursive walk itself (_get_columns_and_aggregates) is an opaque callable here, assumed to return the
   model's lists (Compile.cols_aggs) as heap references *)
Theorem C05_source_is_aggregate :
  forall (call_ref : nat -> list pv -> pv) (tbl : nat -> Compile.cnode) (kids : nat -> list nat)
         (mro : string -> list string) (msg : string -> list pv -> pv) (kg i : nat) (cs ags : list nat),
  ref_of Verif.Gen.SrcCompiler.refs "beanquery.compiler.get_columns_and_aggregates" = Some kg ->
  call_ref kg [nref i] = PTuple [PList (map nref cs); PList (map nref ags)] ->
  map tbl ags = snd (Compile.cols_aggs (tbl i)) ->
  call_function call_ref (prim_compiler tbl kids mro msg) Verif.Gen.SrcCompiler.is_aggregate [nref i] =
  PyMini.Ok (PBool (Compile.has_agg (tbl i))).
Proof. exact Verif.Proofs.SrcCompiler.is_aggregate_src. Qed.
Print Assumptions C05_source_is_aggregate.

Theorem C05_source_get_columns_and_aggregates :
  forall (call_ref : nat -> list pv -> pv) (tbl : nat -> Compile.cnode) (kids : nat -> list nat)
         (mro : string -> list string) (msg : string -> list pv -> pv) (kr i : nat) (c a : pv),
  ref_of Verif.Gen.SrcCompiler.refs "beanquery.compiler._get_columns_and_aggregates" = Some kr ->
  call_ref kr [nref i; PList []; PList []] = PTuple [c; a] ->
  call_function call_ref (prim_compiler tbl kids mro msg) Verif.Gen.SrcCompiler.get_columns_and_aggregates [nref i] =
  PyMini.Ok (PTuple [c; a]).
Proof. exact Verif.Proofs.SrcCompiler.get_columns_and_aggregates_src. Qed.
Print Assumptions C05_source_get_columns_and_aggregates.

(* Compiler._compile_group_by = Compile.compile_group_by, for EVERY target list, GROUP BY clause (or none) and behaviour
   [compf] of `self._compile`: a position is checked against the number of targets of the SELECT list; a name resolves
   to the last target of that name; any other key is compiled, rejected when it is an aggregate, reconciled with the
   first equal target expression or appended as a hidden non-aggregate target; the target a key refers to must not be an
   aggregate and must have a hashable datatype (in this order, per key); HAVING is compiled, checked by check_aggregates,
   must be an aggregate and becomes the last hidden target (having_index); without a clause group_indexes is None (no
   aggregate target), [] (only aggregates) or the positions of the non-aggregate targets (implicit GROUP BY:
   SUPPORT_IMPLICIT_GROUPBY is inlined as a constant).  [grp_ok]: the clause has at least one key (the parser's
   guarantee, asserted by the code) and expression nodes are records of a class other than ast.Column / int. *)
Theorem C05_source_compile_group_by :
  forall (call_ref : nat -> list pv -> pv) (tbl : nat -> Compile.cnode) (kids : nat -> list nat)
         (mro : string -> list string) (msg : string -> list pv -> pv)
         (compf : pv -> Compile.result nat Compile.cerr) (kc kchk kagg : nat),
  ref_of Verif.Gen.SrcCompiler.refs "beanquery.compiler.check_aggregates" = Some kchk ->
  ref_of Verif.Gen.SrcCompiler.refs "beanquery.compiler.is_aggregate" = Some kagg ->
  (forall a, call_ref kc [a] = Verif.Proofs.SrcCompiler.enc_rid (compf a)) ->
  (forall i, call_ref kchk [nref i] =
             match Compile.check_aggregates (tbl i) with Some e => PV (VErr (CompErr e)) | None => PNone end) ->
  (forall i, call_ref kagg [nref i] = PBool (Compile.has_agg (tbl i))) ->
  forall (pts0 : list ptarget) (g : Verif.Proofs.SrcCompilerGroup.grp) (flds : env),
  lookup "_compile" flds = Some (PRef kc) -> Verif.Proofs.SrcCompilerGroup.grp_ok g ->
  match Compile.compile_group_by (map (Verif.Proofs.SrcCompiler.T tbl) pts0)
                                 (Verif.Proofs.SrcCompilerGroup.grp_of tbl compf g) with
  | Compile.Err e =>
      call_method call_ref (prim_compiler tbl kids mro msg) Verif.Gen.SrcCompiler.compile_group_by flds
        [Verif.Proofs.SrcCompilerGroup.enc_grp g; PList (map enc_target pts0)] = Exc (CompErr e)
  | Compile.Ok (ts, gi, hi) =>
      exists new : list ptarget,
        call_method call_ref (prim_compiler tbl kids mro msg) Verif.Gen.SrcCompiler.compile_group_by flds
          [Verif.Proofs.SrcCompilerGroup.enc_grp g; PList (map enc_target pts0)] =
        PyMini.Ok (flds, PTuple [PList (map enc_target new); Verif.Proofs.SrcCompiler.enc_gi gi;
                                 Verif.Proofs.SrcCompiler.enc_oidx hi])
        /\ map (Verif.Proofs.SrcCompiler.T tbl) new = skipn (length pts0) ts
  end.
Proof. exact Verif.Proofs.SrcCompilerGroup.group_by_source. Qed.
Print Assumptions C05_source_compile_group_by.

(* one level of the aggregate walk.  _get_columns_and_aggregates on node i with accumulators cs / ags: appends [i] to the
   aggregates when i is an aggregate, to the columns when it is a column, and otherwise what the recursive calls append
   for the children, in order; the recursive call is an opaque callable assumed to append the model's lists for a child
   ([colsf], [aggsf] with  map tbl (colsf c) = fst (Compile.cols_aggs (tbl c))).  The result is Compile.cols_aggs of
   node i; the induction over the tree is CompileProofs.cnode_ind'. *)
Theorem C05_source_get_columns_and_aggregates_rec :
  forall (call_ref : nat -> list pv -> pv) (tbl : nat -> Compile.cnode) (kids : nat -> list nat)
         (mro : string -> list string) (msg : string -> list pv -> pv)
         (colsf aggsf : nat -> list nat) (kr i : nat) (cs ags : list nat),
  ref_of Verif.Gen.SrcCompiler.refs "beanquery.compiler._get_columns_and_aggregates" = Some kr ->
  map tbl (kids i) = Compile.children (tbl i) ->
  (forall c cs ags, In c (kids i) ->
     call_ref kr [nref c; PList (map nref cs); PList (map nref ags)] =
     PTuple [PList (map nref (cs ++ colsf c)); PList (map nref (ags ++ aggsf c))]) ->
  (forall c, In c (kids i) -> map tbl (colsf c) = fst (Compile.cols_aggs (tbl c))
                              /\ map tbl (aggsf c) = snd (Compile.cols_aggs (tbl c))) ->
  exists C A : list nat,
    call_function call_ref (prim_compiler tbl kids mro msg) Verif.Gen.SrcCompiler.get_columns_and_aggregates_rec
      [nref i; PList (map nref cs); PList (map nref ags)] =
    PyMini.Ok (PTuple [PList (map nref (cs ++ C)); PList (map nref (ags ++ A))])
    /\ map tbl C = fst (Compile.cols_aggs (tbl i)) /\ map tbl A = snd (Compile.cols_aggs (tbl i)).
Proof. exact Verif.Proofs.SrcCompilerWalk.get_columns_and_aggregates_rec_src. Qed.
Print Assumptions C05_source_get_columns_and_aggregates_rec.

(* check_aggregates(c_expr) = Compile.check_aggregates: `mixed aggregates and non-aggregates` when both lists of the walk
   are non-empty, else `aggregates of aggregates` when is_aggregate holds of a child of one of the aggregates, else
   nothing; get_columns_and_aggregates and is_aggregate are opaque callables assumed to return the model's values *)
Theorem C05_source_check_aggregates :
  forall (call_ref : nat -> list pv -> pv) (tbl : nat -> Compile.cnode) (kids : nat -> list nat)
         (mro : string -> list string) (msg : string -> list pv -> pv) (kg kagg i : nat) (cs ags : list nat),
  ref_of Verif.Gen.SrcCompiler.refs "beanquery.compiler.get_columns_and_aggregates" = Some kg ->
  ref_of Verif.Gen.SrcCompiler.refs "beanquery.compiler.is_aggregate" = Some kagg ->
  (forall c, call_ref kagg [nref c] = PBool (Compile.has_agg (tbl c))) ->
  call_ref kg [nref i] = PTuple [PList (map nref cs); PList (map nref ags)] ->
  map tbl cs = fst (Compile.cols_aggs (tbl i)) -> map tbl ags = snd (Compile.cols_aggs (tbl i)) ->
  (forall a, In a ags -> map tbl (kids a) = Compile.children (tbl a)) ->
  call_function call_ref (prim_compiler tbl kids mro msg) Verif.Gen.SrcCompiler.check_aggregates [nref i] =
  match Compile.check_aggregates (tbl i) with
  | Some e => Exc (CompErr e)
  | None => PyMini.Ok PNone
  end.
Proof. exact Verif.Proofs.SrcCompilerWalk.check_aggregates_source. Qed.
Print Assumptions C05_source_check_aggregates.

(* NOT TIED BY PROOF (the correspondence streams remain their only check; say so rather than hide it):
   Compiler._unaryop / _between are translated and regenerated on every run (a change is visible in Gen/SrcCompiler.v) but
   not proved: they CALL the selected overload class and the constructed node (`function(operand)`, `function(None)`,
   `candidate(operand, lower, upper)`), index the global OPERATORS dict and build their message with type(node).__name__ -
   in the present encoding a class is a record and a node a heap reference, neither is callable in PyMini (only PRef is);
   tying them needs classes and nodes as opaque callables with an attribute table, i.e. a second encoding of the registry.
   The overload SELECTION they perform is types.function_lookup (C05_source_function_lookup) resp. the exact-signature
   scan, whose comparison is the same "sig_eq" primitive.  Compiler._binaryop is outside the fragment: its `while True`
   is bounded (an operand is cast away from `object` at most once, so at most three passes) but the bound rests on what
   the cast functions return (a non-object dtype), not on the shape of the loop - a structural check in the translator
   cannot establish it, so it is not unrolled. *)

(* ---- bld-compiler3: the statement level.  Compiler._select (Gen/SrcSelect.v, regenerated from the live source on every
   run) under the state-threading reading of `self.m(..)` (translator rule K12, Model/PrimsSelect.v): every call of a
   method that may assign self.table receives the table and returns the table it leaves behind next to its value. *)
Module SS := Verif.Proofs.SrcSelect.
Import Verif.Model.PrimsSelect.

(* THE FLOW, literally: for ANY tables t1..t5 the five sub-compilations leave behind and any results they return
   (an error value = a raised CompilationError), interpreting the body of _select gives SS.p_select: FROM, then targets,
   then WHERE; an aggregate in WHERE is rejected; the condition is c_from, c_where or EvalAnd([c_from, c_where]) in THAT
   order; GROUP BY on the targets, ORDER BY on targets ++ new; aggregates in ORDER BY of a non-aggregate query and
   non-aggregates outside the group indexes are rejected; the query is built over the table the last sub-compilation
   left (t5); PIVOT BY last; the FIRST failing step decides the error; and the receiver's attributes are unchanged,
   self.table being put back to t0. *)
Theorem C05_source_select_run :
  forall (call_ref : nat -> list pv -> pv) (tbl : nat -> Compile.cnode) (kids : nat -> list nat)
         (mro : string -> list string) (msg : string -> list pv -> pv) (updatable : pv -> bool)
         (upd : pv -> pv -> pv -> pv -> pv) (t0 t1 t2 t3 t4 t5 tg fc wc gb ob pb lim dist : pv) (kF kT kC kG kO kP : nat)
         (rest : env) (rfrom : Compile.result (option nat) Compile.cerr) (rtargets : Compile.result (list ptarget) Compile.cerr)
         (rwhere : Compile.result (option nat) Compile.cerr) (fgroup : list ptarget -> Compile.result SS.gres Compile.cerr)
         (forder : list ptarget -> Compile.result SS.ores Compile.cerr)
         (fpivot : list ptarget -> option (list nat) -> Compile.result (option (nat * nat)) Compile.cerr)
         (and_id : nat -> nat -> nat),
  call_ref kF [t0; fc] = SS.enc_res (fun cf => PTuple [t1; popt nref cf]) rfrom ->
  call_ref kT [t1; tg] = SS.enc_res (fun pts => PTuple [t2; enc_targets pts]) rtargets ->
  call_ref kC [t2; wc] = SS.enc_res (fun ow => PTuple [t3; popt nref ow]) rwhere ->
  (forall i, call_ref SS.ka [nref i] = PBool (Compile.has_agg (tbl i))) ->
  (forall f w, call_ref SS.kand [PList [nref f; nref w]] = nref (and_id f w)) ->
  (forall pts, call_ref kG [t3; gb; enc_targets pts] =
     SS.enc_res (fun r : SS.gres => match r with (new, gi, hi) =>
                   PTuple [t4; PTuple [enc_targets new; popt enc_nats gi; popt enc_nat hi]] end) (fgroup pts)) ->
  (forall pts, call_ref kO [t4; ob; enc_targets pts] =
     SS.enc_res (fun r : SS.ores => match r with (new, os) => PTuple [t5; PTuple [enc_targets new; popt enc_ospec os]] end)
                (forder pts)) ->
  (forall pts gi, call_ref kP [pb; enc_targets pts; popt enc_nats gi] =
     SS.enc_res (popt (fun p : nat * nat => enc_nats [fst p; snd p])) (fpivot pts gi)) ->
  call_method call_ref (prim_select tbl kids mro msg updatable upd) Verif.Gen.SrcSelect.compile_select
    (SS.flds kF kT kC kG kO kP rest t0) [SS.SEL tg fc wc gb ob pb lim dist] =
  match SS.p_select tbl rfrom rtargets rwhere fgroup forder fpivot and_id with
  | Compile.Ok q => PyMini.Ok (SS.flds kF kT kC kG kO kP rest t0, SS.enc_pquery lim dist t5 q)
  | Compile.Err e => Exc (CompErr e)
  end.
Proof. exact SS.select_run. Qed.
Print Assumptions C05_source_select_run.

(* the refs table of the generated file gives is_aggregate and EvalAnd the numbers the statement uses, and the
   threaded state is exactly self.table *)
Theorem C05_source_select_refs :
  ref_of Verif.Gen.SrcSelect.refs "beanquery.compiler.is_aggregate" = Some SS.ka
  /\ ref_of Verif.Gen.SrcSelect.refs "beanquery.query_compile.EvalAnd" = Some SS.kand
  /\ Verif.Gen.SrcSelect.threaded_state = ["table"].
Proof. exact (conj (proj1 SS.refs_checked) (conj (proj2 SS.refs_checked) SS.threaded_state_is_table)). Qed.
Print Assumptions C05_source_select_refs.

(* AGAINST THE MODEL: when the opaque callables return what Compile.compile_group_by / compile_order_by /
   compile_pivot_by return on the same targets (C05_source_compile_group_by / _order_by / _pivot_by are the ties of
   those methods), EvalAnd builds the conjunction node, and the sub-compilations leave the table of the FROM clause in
   place (C08_source_table_restored, by induction over the nesting), _select returns the encoding of the query
   Compile.finish_select builds - same targets, WHERE condition, group indexes, HAVING index, order spec, pivots - or
   raises the CompilationError the model reports. *)
Theorem C05_source_select_flow :
  forall (call_ref : nat -> list pv -> pv) (tbl : nat -> Compile.cnode) (kids : nat -> list nat)
         (mro : string -> list string) (msg : string -> list pv -> pv) (updatable : pv -> bool)
         (upd : pv -> pv -> pv -> pv -> pv) (t0 t1 tg fc wc gb ob pb lim dist : pv) (kF kT kC kG kO kP : nat)
         (rest : env) (cf : option nat) (pts : list ptarget) (rwhere : Compile.result (option nat) Compile.cerr)
         (fgroup : list ptarget -> Compile.result SS.gres Compile.cerr)
         (forder : list ptarget -> Compile.result SS.ores Compile.cerr)
         (fpivot : list ptarget -> option (list nat) -> Compile.result (option (nat * nat)) Compile.cerr)
         (and_id : nat -> nat -> nat)
         (tb : Compile.table) (grp : option (list Compile.kref * option Compile.rnode)) (ord : list (Compile.kref * bool))
         (piv : option (Compile.pcol * Compile.pcol)) (mlim : option Z) (mdist : bool),
  call_ref kF [t0; fc] = PTuple [t1; popt nref cf] ->
  call_ref kT [t1; tg] = PTuple [t1; enc_targets pts] ->
  call_ref kC [t1; wc] = SS.enc_res (fun ow => PTuple [t1; popt nref ow]) rwhere ->
  (forall i, call_ref SS.ka [nref i] = PBool (Compile.has_agg (tbl i))) ->
  (forall f w, call_ref SS.kand [PList [nref f; nref w]] = nref (and_id f w)) ->
  (forall f w, cf = Some f -> rwhere = Compile.Ok (Some w) -> tbl (and_id f w) = Compile.NAnd [tbl f; tbl w]) ->
  (forall pts, call_ref kG [t1; gb; enc_targets pts] =
     SS.enc_res (fun r : SS.gres => match r with (new, gi, hi) =>
                   PTuple [t1; PTuple [enc_targets new; popt enc_nats gi; popt enc_nat hi]] end) (fgroup pts)) ->
  (forall pts, Compile.compile_group_by (map (SS.T tbl) pts) grp =
     match fgroup pts with
     | Compile.Ok (new, gi, hi) => Compile.Ok (map (SS.T tbl) (pts ++ new), gi, hi)
     | Compile.Err e => Compile.Err e
     end) ->
  (forall pts, call_ref kO [t1; ob; enc_targets pts] =
     SS.enc_res (fun r : SS.ores => match r with (new, os) => PTuple [t1; PTuple [enc_targets new; popt enc_ospec os]] end)
                (forder pts)) ->
  (forall pts, Compile.compile_order_by (map (SS.T tbl) pts) ord =
     match forder pts with
     | Compile.Ok (new, os) => Compile.Ok (map (SS.T tbl) (pts ++ new), os)
     | Compile.Err e => Compile.Err e
     end) ->
  (forall pts gi, call_ref kP [pb; enc_targets pts; popt enc_nats gi] =
     SS.enc_res (popt (fun p : nat * nat => enc_nats [fst p; snd p])) (fpivot pts gi)) ->
  (forall pts gi, Compile.compile_pivot_by (map (SS.T tbl) pts) gi piv = fpivot pts gi) ->
  match Compile.finish_select tb (option_map tbl cf) (map (SS.T tbl) pts) (SS.wh_of tbl rwhere) grp ord piv mlim mdist with
  | Compile.Ok q =>
      exists pq, call_method call_ref (prim_select tbl kids mro msg updatable upd) Verif.Gen.SrcSelect.compile_select
                   (SS.flds kF kT kC kG kO kP rest t0) [SS.SEL tg fc wc gb ob pb lim dist] =
                 PyMini.Ok (SS.flds kF kT kC kG kO kP rest t0, SS.enc_pquery lim dist t1 pq)
                 /\ SS.T_query tbl tb mlim mdist pq = q
  | Compile.Err e =>
      call_method call_ref (prim_select tbl kids mro msg updatable upd) Verif.Gen.SrcSelect.compile_select
        (SS.flds kF kT kC kG kO kP rest t0) [SS.SEL tg fc wc gb ob pb lim dist] = Exc (CompErr e)
  end.
Proof. exact SS.select_flow_source. Qed.
Print Assumptions C05_source_select_flow.

(* the hypotheses of C05_source_select_flow are satisfiable: SELECT a FROM <a> WHERE <b>, for every list of targets *)
Example C05_source_select_flow_hypotheses_satisfiable :
  SS.ex_call 10%nat [PNone; PNone] = PTuple [PNone; popt nref (Some 1%nat)]
  /\ (forall i, SS.ex_call SS.ka [nref i] = PBool (Compile.has_agg (SS.ex_tbl i)))
  /\ SS.ex_tbl 3 = Compile.NAnd [SS.ex_tbl 1; SS.ex_tbl 2]
  /\ (forall pts, Compile.compile_group_by (map (SS.T SS.ex_tbl) pts) None =
        match SS.ex_group (map SS.tagg pts) with
        | Compile.Ok (new, gi, hi) => Compile.Ok (map (SS.T SS.ex_tbl) (pts ++ new), gi, hi)
        | Compile.Err e => Compile.Err e
        end).
Proof.
  pose proof SS.select_flow_hyps_sat as H. cbv zeta in H.
  destruct H as (H1 & _ & _ & H4 & _ & H6 & _ & H8 & _).
  exact (conj H1 (conj H4 (conj (H6 1%nat 2%nat eq_refl eq_refl) H8))).
Qed.
