(* C16 Text and CSV rendering are aligned, complete and faithful to the values.
   Statements only; proofs in Proofs/RenderProofs.v.  Model: Model/Render.v (renderers,
   render_rows, render_text, render_csv), relational checker: Model/RenderCheck.v.

   All theorems quantify over the ledger quantiser [quant] and the column number formatter
   [numfmt] (Beancount's DisplayContext, abstract).  [wf_table]: every row has one cell per
   column, of the column's datatype, dates with 0 <= y <= 9999, finite decimals.
   [hyp_table]: for Amount / Position / Inventory(expand) columns the formatter returns strings
   of one length for all numbers of the column and for zero ([uniform]); it is [True] for every
   other datatype.  The harness validates it against the real DisplayContext on every run. *)
From Coq Require Import ZArith List Bool Arith Lia.
From Coq Require String.
From Verif Require Model.PyMini Model.PrimsRender Gen.SrcRender Proofs.SrcRender Proofs.SrcRenderTop Proofs.SrcRenderCsv Proofs.SrcRenderText Proofs.SrcRenderText2 Model.PrimsRenderPos Proofs.SrcRenderAmount Model.PrimsRenderCost Proofs.SrcRenderCost Gen.SrcRenderSet Model.PrimsRenderSet Proofs.SrcRenderSet Gen.SrcRenderInv Model.PrimsRenderInv Proofs.SrcRenderInv Proofs.SrcRenderInvPrep.
Import ListNotations.
From Verif Require Import Base.Out Base.StableSort Base.PyValue Model.Render Model.RenderCheck Proofs.RenderProofs Proofs.RenderCheckProofs.

Section C16.
Variable quant : dec -> str -> dec.
Variable numfmt : list (dec * str) -> dec -> str -> str.

(* every emitted line has the same width *)
Theorem C16_rectangular : forall o desc rows,
  (1 <= length desc)%nat -> wf_table desc rows -> hyp_table quant numfmt o desc rows ->
  Forall (fun l => length l = linew o (table_widths quant numfmt o desc rows)) (text_lines quant numfmt o desc rows).
Proof. intros. apply text_lines_rect; [assumption|apply model_table_fits; assumption]. Qed.

(* columns start at fixed offsets: cutting ANY data line at the column widths (and the separators
   between them) yields exactly one slot per column, each as wide as its column;
   no truncation: every slot is its cell's text between padding spaces *)
Theorem C16_fixed_offsets_no_truncation : forall o desc rows cells,
  wf_table desc rows -> hyp_table quant numfmt o desc rows ->
  In cells (render_rows numfmt o (col_states quant o desc rows) rows) ->
  let ws := table_widths quant numfmt o desc rows in
  let aligns := map (fun d => align_of (snd d)) desc in
  line_slots o ws (row_line o aligns ws cells) = Some (slots_of aligns ws cells)
  /\ map (@length Z) (slots_of aligns ws cells) = ws
  /\ Forall2 (fun slot (c : str) => exists l r, slot = spaces l ++ c ++ spaces r) (slots_of aligns ws cells) cells.
Proof. intros. apply rows_slots; assumption. Qed.

Theorem C16_header_offsets : forall o desc rows,
  let ws := table_widths quant numfmt o desc rows in
  line_slots o ws (header_line o (map fst desc) ws) = Some (header_slots (map fst desc) ws).
Proof. intros. apply header_slots_ok. Qed.

(* headers are centred (CPython's rule: the two margins differ by at most one) ... *)
Theorem C16_header_centred : forall w (h : str), (length h <= w)%nat ->
  exists l r, center w h = spaces l ++ h ++ spaces r /\ (l + length h + r = w)%nat /\ (l <= r + 1)%nat /\ (r <= l + 1)%nat.
Proof. exact center_split. Qed.
(* ... and cut to the column width only in narrow mode *)
Theorem C16_header_cut_only_narrow : forall o h st,
  o_narrow o = false -> firstn (col_width numfmt o h st) h = h.
Proof. exact (header_not_cut numfmt). Qed.

(* NULL shows the configured placeholder (and by C16_fixed_offsets_no_truncation, all of it) *)
Theorem C16_null_placeholder : forall o ts, render_cell numfmt o ts CNull = One (o_null o).
Proof. reflexivity. Qed.

(* rows expand to extra lines only when requested; a row never disappears *)
Theorem C16_expand_only_when_requested : forall o desc rows row, o_expand o = false ->
  length (render_row numfmt o (col_states quant o desc rows) row) = (1 + if o_spaced o then 1 else 0)%nat.
Proof. exact (no_expand_one_line quant numfmt). Qed.
Theorem C16_row_never_vanishes : forall o sts row, (1 <= length (render_row numfmt o sts row))%nat.
Proof. exact (row_never_vanishes numfmt). Qed.

(* CSV: header + records, exactly one field per column ... *)
Theorem C16_csv_shape : forall o desc rows,
  wf_table desc rows -> hyp_table quant numfmt (csv_opts o) desc rows ->
  length (csv_records quant numfmt o desc rows)
    = S (length (render_rows numfmt (csv_opts o) (col_states quant (csv_opts o) desc rows) rows))
  /\ hd [] (csv_records quant numfmt o desc rows) = map fst desc
  /\ forall rec, In rec (csv_records quant numfmt o desc rows) -> length rec = length desc.
Proof. intros. split; [reflexivity|split; [reflexivity|]]. intros. eapply csv_shape; eassumption. Qed.

(* ... each field is the cell the text renderer pads into its slot (same expand/nullvalue, list separator ",") *)
Theorem C16_csv_equals_text_cell : forall o o' desc rows,
  o_expand o' = o_expand o -> o_null o' = o_null o -> o_listsep o' = [44] -> o_spaced o' = false ->
  csv_records quant numfmt o desc rows = map fst desc :: render_rows numfmt o' (col_states quant o' desc rows) rows.
Proof. exact (csv_is_text_cells quant numfmt). Qed.
End C16.

Print Assumptions C16_rectangular.
Print Assumptions C16_fixed_offsets_no_truncation.
Print Assumptions C16_header_offsets.
Print Assumptions C16_header_centred.
Print Assumptions C16_header_cut_only_narrow.
Print Assumptions C16_null_placeholder.
Print Assumptions C16_expand_only_when_requested.
Print Assumptions C16_row_never_vanishes.
Print Assumptions C16_csv_shape.
Print Assumptions C16_csv_equals_text_cell.

(* the hypothesis is trivial for tables without amount-like columns *)
Theorem C16_exact_tables_need_no_hypothesis : forall quant numfmt o desc rows,
  exact_desc desc -> hyp_table quant numfmt o desc rows.
Proof.
  intros quant numfmt o desc rows He j Hj. specialize (He j Hj).
  destruct (snd (nth j desc d0)); try discriminate; exact I.
Qed.
Print Assumptions C16_exact_tables_need_no_hypothesis.

(* Amount columns: under the formatter hypothesis every amount cell has the same length *)
Theorem C16_amount_cells_one_length : forall quant numfmt vals k a, uniform quant numfmt vals k -> In a vals ->
  length (a_format numfmt (a_state quant vals) a) = (k + 1 + a_curw (a_state quant vals))%nat.
Proof. exact a_format_length. Qed.
Print Assumptions C16_amount_cells_one_length.

(* decimals of a column are aligned on the decimal point (positional notation): after the padding the
   sign+integer part of every number ends at the same offset, followed by nothing or by '.' *)
Theorem C16_decimal_aligned : forall ds d, In d ds -> dec_positional d = true ->
  let st := dec_state ds in
  exists ip fp rest, dec_format st d = spaces (Z.to_nat (fst st) - length ip) ++ ip ++ fp ++ rest
    /\ (length ip <= Z.to_nat (fst st))%nat /\ (fp = [] \/ exists f, fp = 46 :: f).
Proof. exact decimal_aligned. Qed.
Print Assumptions C16_decimal_aligned.

(* every Decimal cell, positional or scientific, has exactly the column width (no truncation, no overflow) *)
Theorem C16_decimal_width : forall ds d, In d ds -> (0 <= dcoef d)%Z ->
  length (dec_format (dec_state ds) d) = dec_width (dec_state ds).
Proof. intros. apply dec_format_length; [assumption|apply dec_state_dom; assumption]. Qed.
Print Assumptions C16_decimal_width.

(* D11: for decimals whose str() is scientific the statement is false -- the '.' of 1.5E+3 and of 12.5
   in one column are at different offsets *)
Fixpoint index_of (c : Z) (s : str) : nat := match s with [] => 0%nat | x :: t => if (x =? c)%Z then 0%nat else S (index_of c t) end.
Theorem C16_decimal_aligned_scientific_refuted :
  exists ds d1 d2, In d1 ds /\ In d2 ds /\
    In 46%Z (dec_format (dec_state ds) d1) /\ In 46%Z (dec_format (dec_state ds) d2) /\
    index_of 46 (dec_format (dec_state ds) d1) <> index_of 46 (dec_format (dec_state ds) d2).
Proof.
  exists [mkdec false 15 2; mkdec false 125 (-1)], (mkdec false 15 2), (mkdec false 125 (-1)).
  vm_compute. repeat split; auto; try discriminate; repeat (first [left; reflexivity | right]).
Qed.
Print Assumptions C16_decimal_aligned_scientific_refuted.

(* read-back: integers, booleans and strings (dates and decimals: C16_readback_date / _decimal below) *)
Theorem C16_readback_int : forall z, parse_int (show_int z) = Some z.
Proof. exact parse_int_show. Qed.
Print Assumptions C16_readback_int.
Theorem C16_readback_bool : forall b : bool, parse_bool (if b then s_true else s_false) = Some b.
Proof. exact readback_bool. Qed.
Print Assumptions C16_readback_bool.
Theorem C16_readback_str : forall w (s : str), firstn (length s) (ljust w s) = s.
Proof. exact readback_str. Qed.
Print Assumptions C16_readback_str.

(* check_table accepts the model's own output, as a whole: for every table of exact datatypes
   (everything but Amount/Position/Inventory) whose strings, headers, nullvalue and list separator contain
   no line feed ([nl_free]) and whose decimals are positional ([all_positional]; scientific ones are the
   finding D11, code 11), the relational checker applied to the text the model renders returns 0:
   the text splits into the expected number of lines of one width, the rule lines give back the widths,
   every header/data line has its separators at the fixed offsets, every cell reads back, spacing lines
   are blank and the decimal points of every Decimal column agree.  (Component lemmas: Proofs/RenderProofs.v
   widths_of_h_line, header_ok_center, width_ok_col_width, cell_check_plain; Proofs/RenderCheckProofs.v.) *)
Theorem C16_check_table_sound : forall quant numfmt o prec desc rows,
  (1 <= length desc)%nat -> wf_table desc rows -> exact_desc desc -> all_positional rows -> nl_free o desc rows ->
  check_table_code o prec desc rows (unlines (text_lines quant numfmt o desc rows)) = 0%Z.
Proof. exact check_table_model. Qed.
Print Assumptions C16_check_table_sound.

Corollary C16_check_table_sound_render_text : forall quant numfmt o prec desc rows text,
  (1 <= length desc)%nat -> wf_table desc rows -> exact_desc desc -> all_positional rows -> nl_free o desc rows ->
  render_text quant numfmt o desc rows = Some text -> check_table o prec desc rows text = true.
Proof.
  intros quant numfmt o prec desc rows text H1 H2 H3 H4 H5 Hr. unfold render_text in Hr.
  destruct (well_typed desc rows && supported o desc); [|discriminate]. injection Hr as <-.
  unfold check_table. rewrite (check_table_model quant numfmt o prec desc rows H1 H2 H3 H4 H5). reflexivity.
Qed.
Print Assumptions C16_check_table_sound_render_text.

(* check_csv accepts the model's own CSV against the model's own text (rendered unboxed, unspaced, list
   separator ","): reading the CSV text back with the csv reader model gives header + one record per rendered
   row with one field per column, and every field equals its text slot once padding is stripped *)
Theorem C16_check_csv_sound : forall quant numfmt o desc rows,
  (1 <= length desc)%nat -> wf_table desc rows -> exact_desc desc -> nl_free (csv_text_opts o) desc rows ->
  check_csv_code o desc rows (unlines (text_lines quant numfmt (csv_text_opts o) desc rows))
                 (flat_map csv_record (csv_records quant numfmt o desc rows)) = 0%Z.
Proof. exact check_csv_model. Qed.
Print Assumptions C16_check_csv_sound.

(* csv.writer's quoting loses nothing: reading back any list of non-empty records (fields may contain
   commas, quotes, CR, LF) returns exactly those records *)
Theorem C16_csv_roundtrip : forall recs : list (list str), Forall (fun r => r <> []) recs ->
  csv_read (flat_map csv_record recs) = recs.
Proof. exact csv_read_records. Qed.
Print Assumptions C16_csv_roundtrip.

(* stripping a text slot gives the stripped cell text, whatever the cell contains *)
Theorem C16_strip_slot : forall l r (f : str), strip (spaces l ++ f ++ spaces r) = strip f.
Proof. exact strip_pad_any. Qed.
Print Assumptions C16_strip_slot.

(* read-back of date and decimal cells: parsing the stripped cell text gives back the value
   (plain Decimal columns are not quantised: the value itself, with its exponent) *)
Theorem C16_readback_date : forall y m d l r, (0 <= y)%Z -> (0 <= m)%Z -> (0 <= d)%Z ->
  parse_date (strip (spaces l ++ date_str y m d ++ spaces r)) = Some (y, m, d).
Proof. exact readback_date. Qed.
Print Assumptions C16_readback_date.

Theorem C16_readback_decimal : forall ds d, In d ds -> (0 <= dcoef d)%Z -> dec_positional d = true ->
  parse_num (strip (dec_format (dec_state ds) d)) = Some (d, Z.to_nat (dec_intw d)).
Proof. exact readback_decimal. Qed.
Print Assumptions C16_readback_decimal.

(* hypotheses are satisfiable *)
Example C16_wf_example : wf_table [([110%Z], TInt); ([120%Z], TDecimal)] [[CInt (-5); CDec (mkdec false 125 (-1))]; [CNull; CNull]].
Proof.
  intros row [<-|[<-|[]]]; (split; [reflexivity|]); intros [|[|j]] Hj; simpl in *; try lia; split; reflexivity.
Qed.
Example C16_model_output :
  render_text no_quant no_numfmt (mkopts false false false false true [] [32; 32]) [([110%Z], TInt)] [[CInt (-5)]; [CNull]]
  = Some [110; 32; 10; 45; 45; 10; 45; 53; 10; 32; 32; 10]%Z.
Proof. vm_compute. reflexivity. Qed.

(* ---------------------------------------------------------------------------------------------------------------
   Tie by translation: Gen/SrcRender.v is regenerated on every run from the SOURCE of the two-phase column renderers
   of beanquery/query_render.py (harness/vf/src_render.py).  Interpreting the translated update / prepare / format
   methods (Model/PyMini.v) on the encoded values of Model/PrimsRender.v (which fixes what str, max, rjust, ljust,
   strftime, as_tuple and the f-string alignment specs are assumed to do) yields the renderer functions of
   Model/Render.v the theorems above are stated over. *)
Import Coq.Strings.String Verif.Model.PyMini Verif.Model.PrimsRender Verif.Gen.SrcRender Verif.Proofs.SrcRender
  Verif.Proofs.SrcRenderTop Verif.Proofs.SrcRenderCsv Verif.Proofs.SrcRenderText Verif.Proofs.SrcRenderText2
  Verif.Model.PrimsRenderPos Verif.Proofs.SrcRenderAmount.

Theorem C16_source_base_prepare : forall (call_ref : nat -> list pv -> pv) (w p : pv) (rest : env),
  call_method call_ref prims_render render_base_prepare (("maxwidth", w) :: ("prepared", p) :: rest)%string [] =
  Ok ((("maxwidth", w) :: ("prepared", PBool true) :: rest)%string, w).
Proof. exact base_prepare_src. Qed.
Print Assumptions C16_source_base_prepare.

(* ObjectRenderer (also StringRenderer, IntRenderer, DictRenderer, which inherit it: checked by the generator) *)
Theorem C16_source_object_update : forall (call_ref : nat -> list pv -> pv) (w : Z) (k : nat) (v : pv) (s : str) (rest : env),
  call_ref k [v] = PV (VStr s) ->
  call_method call_ref prims_render render_object_update (("maxwidth", PInt w) :: ("format", PRef k) :: rest)%string [v] =
  Ok ((("maxwidth", PInt (Z.max w (Z.of_nat (List.length s)))) :: ("format", PRef k) :: rest)%string, PNone).
Proof. exact object_update_src. Qed.
Print Assumptions C16_source_object_update.

Theorem C16_source_object_format : forall (call_ref : nat -> list pv -> pv) (flds : env) (c : cellv), scalar c = true ->
  call_method call_ref prims_render render_object_format flds [enc_rcell c] = Ok (flds, PV (VStr (py_str c))).
Proof. exact object_format_src. Qed.
Print Assumptions C16_source_object_format.

(* the width an ObjectRenderer column ends with is col_prepare's: max over len(str(value)) *)
Theorem C16_source_object_width : forall (ss : list str) (w : Z), (0 <= w)%Z ->
  fold_left (fun w s => Z.max w (Z.of_nat (List.length s))) ss w = Z.max w (Z.of_nat (nmax (map (@List.length Z) ss))).
Proof. exact plain_fold. Qed.
Print Assumptions C16_source_object_width.

Theorem C16_source_bool_update : forall (call_ref : nat -> list pv -> pv) (w : Z) (b : bool) (rest : env),
  call_method call_ref prims_render render_bool_update (("maxwidth", PInt w) :: rest)%string [PBool b] =
  Ok ((("maxwidth", PInt (Z.max w (if b then 4 else 5))) :: rest)%string, PNone).
Proof. exact bool_update_src. Qed.
Print Assumptions C16_source_bool_update.

Theorem C16_source_bool_format : forall (call_ref : nat -> list pv -> pv) (flds : env) (b : bool),
  call_method call_ref prims_render render_bool_format flds [PBool b] = Ok (flds, PV (VStr (if b then s_true else s_false))).
Proof. exact bool_format_src. Qed.
Print Assumptions C16_source_bool_format.

Theorem C16_source_date_update : forall (call_ref : nat -> list pv -> pv) (w v : pv) (rest : env),
  call_method call_ref prims_render render_date_update (("maxwidth", w) :: rest)%string [v] =
  Ok ((("maxwidth", PInt 10) :: rest)%string, PNone).
Proof. exact date_update_src. Qed.
Print Assumptions C16_source_date_update.

Theorem C16_source_date_format : forall (call_ref : nat -> list pv -> pv) (flds : env) (y m d : Z),
  call_method call_ref prims_render render_date_format flds [enc_rcell (CDate y m d)] = Ok (flds, PV (VStr (date_str y m d))).
Proof. exact date_format_src. Qed.
Print Assumptions C16_source_date_format.

(* DecimalRenderer: update = Render.dec_update on (nintegral, nfractional); over a column = Render.dec_state *)
Theorem C16_source_decimal_update : forall (call_ref : nat -> list pv -> pv) (mw : pv) (st : Z * Z) (d : dec) (rest : env),
  call_method call_ref prims_render render_decimal_update (dec_fields mw st rest) [PV (VDec d)] =
  Ok (dec_fields mw (dec_update st d) rest, PNone).
Proof. exact decimal_update_src. Qed.
Print Assumptions C16_source_decimal_update.

Theorem C16_source_decimal_column : forall (call_ref : nat -> list pv -> pv) (ds : list dec) (mw : pv) (rest : env),
  run_updates call_ref render_decimal_update (dec_fields mw (0, 0)%Z rest) (map (fun d => PV (VDec d)) ds) =
  Ok (dec_fields mw (dec_state ds) rest).
Proof. exact (fun cr ds mw rest => decimal_column_src cr ds mw (0, 0)%Z rest). Qed.
Print Assumptions C16_source_decimal_column.

(* prepare: DecimalRenderer's own statement, then the inherited ColumnRenderer.prepare: maxwidth = Render.dec_width *)
Theorem C16_source_decimal_prepare : forall (call_ref : nat -> list pv -> pv) (mw : pv) (st : Z * Z) (rest : env),
  (0 <= fst st)%Z -> (0 <= snd st)%Z ->
  PyMini.bind (call_method call_ref prims_render render_decimal_prepare_head (dec_fields mw st rest) [])
       (fun r => call_method call_ref prims_render render_base_prepare (fst r) []) =
  Ok (dec_ready st rest, PInt (Z.of_nat (dec_width st))).
Proof. exact decimal_prepare_src. Qed.
Print Assumptions C16_source_decimal_prepare.

(* format of a value the renderer has seen = Render.dec_format (alignment on the decimal point, rjust / ljust) *)
Theorem C16_source_decimal_format : forall (call_ref : nat -> list pv -> pv) (st : Z * Z) (d : dec) (rest : env),
  (0 <= snd st)%Z -> ((dexp d <= 0)%Z -> (dec_intw d <= fst st)%Z) ->
  call_method call_ref prims_render render_decimal_format (dec_ready st rest) [PV (VDec d)] =
  Ok (dec_ready st rest, PV (VStr (dec_format st d))).
Proof. exact decimal_format_src. Qed.
Print Assumptions C16_source_decimal_format.

(* Non-vacuity: the translated DecimalRenderer run by the interpreter over the column [12.5; -3; 1E+2], then format 12.5 *)
Example C16_source_decimal_example :
  let ds := [mkdec false 125 (-1); mkdec true 3 0; mkdec false 1 2] in
  let cr : nat -> list pv -> pv := fun _ _ => PNone in
  dec_state ds = (4, 1)%Z /\
  run_updates cr render_decimal_update (dec_fields (PInt 0) (0, 0)%Z []) (map (fun d => PV (VDec d)) ds) =
    Ok (dec_fields (PInt 0) (4, 1)%Z []) /\
  call_method cr prims_render render_decimal_format (dec_ready (4, 1)%Z []) [PV (VDec (mkdec false 125 (-1)))] =
    Ok (dec_ready (4, 1)%Z [], PV (VStr [32; 32; 49; 50; 46; 53]%Z)).
Proof. repeat split; vm_compute; reflexivity. Qed.

(* ---- top level: render_rows.  The translated generator function, run on encoded rows, a list of column renderers
   (each the renderer of its datatype after update() over the values [snd tv]) and the RenderContext of options o, yields
   lines (lists / tuples of str) that read back as exactly Render.render_rows: NULL placeholder, list cells expanded into
   max(1, longest) lines padded with '', the spacing row. *)
Theorem C16_source_render_rows : forall (call_ref : nat -> list pv -> pv) (quant : dec -> str -> dec)
    (numfmt : list (dec * str) -> dec -> str -> str) (dc : pv) (o : opts) (tvs : list (dtype * list cellv))
    (rows : list (list cellv)),
  exists vs,
    call_function call_ref (prims_top quant numfmt) render_rows_fn
      [PList (map enc_rrow rows); PList (map (rend dc o) tvs); enc_ctx dc o] = Ok (PList vs) /\
    n_map_opt line_of vs = Some (render_rows numfmt o (map (rstate_of quant o) tvs) rows).
Proof. exact render_rows_src. Qed.
Print Assumptions C16_source_render_rows.

Example C16_source_render_rows_example :
  let o := mkopts false false true true true [45] [44] in
  let tvs := [(TInt, [CInt 7]); (TStr, [CStr [97]])] in
  call_function (fun _ _ => PNone) (prims_top no_quant no_numfmt) render_rows_fn
    [PList (map enc_rrow [[CInt 7; CNull]]); PList (map (rend PNone o) tvs); enc_ctx PNone o] =
  Ok (PList [PList [enc_s [55]; enc_s [45]]; PList [enc_s []; enc_s []]]).
Proof. vm_compute. reflexivity. Qed.

(* ---- render_csv.  First the body of its priming loop `for row in rows:` on its own (for every list of renderers
   with their histories and every row: exactly the renderers zipped with a non-NULL cell have that cell appended to what
   update() has seen, order and length of the list unchanged), then the whole function. *)
Theorem C16_source_render_csv_prime_row : forall (call_ref : nat -> list pv -> pv) (quant : dec -> str -> dec)
    (numfmt : list (dec * str) -> dec -> str -> str) (dc : pv) (o : opts)
    (tvs : list (dtype * list cellv)) (r : list cellv) (loc : env),
  lookup "renderers"%string loc = Some (PList (map (rend dc o) tvs)) ->
  exists loc',
    PyMini.exec_block call_ref (prims_top quant numfmt)
      (write {| locals := loc; fields := [] |} (TName "row"%string) (enc_rrow r)) csv_loop =
    Ok (Next {| locals := loc'; fields := [] |}) /\
    lookup "renderers"%string loc' = Some (PList (map (rend dc o) (upd tvs r))) /\
    (forall x, String.eqb x "$new" = false -> String.eqb x "value" = false -> String.eqb x "renderer" = false ->
               String.eqb x "renderers" = false -> String.eqb x "row" = false -> lookup x loc' = lookup x loc).
Proof. exact prime_row. Qed.
Print Assumptions C16_source_render_csv_prime_row.

(* The whole of render_csv: run on the columns, the rows, a file holding f0, expand and nullvalue of the options o,
   the translated body leaves in `writer` (the csv.writer wrapping the file) f0 followed by the records of
   Render.csv_records - the header and one record per line of render_rows under the CSV options (spaced = False,
   listsep = ','), the renderers having seen exactly Render.column of every column (col_states).  That text is
   Render.render_csv's for well-typed supported tables (render_csv = Some (flat_map csv_record (csv_records ..))).
   Hypotheses: _get_renderer(datatype, ctx) builds a renderer that has seen nothing; calling render_rows is
   interpreting its translation (C16_source_render_rows). *)
Theorem C16_source_render_csv : forall (call_ref : nat -> list pv -> pv) (quant : dec -> str -> dec)
    (numfmt : list (dec * str) -> dec -> str -> str) (dc : pv) (o : opts),
  (forall t c, call_ref 0%nat [enc_rdtype t; c] = robj t c []) ->
  (forall a b c, call_ref 1%nat [a; b; c] =
                 res_val (call_function call_ref (prims_top quant numfmt) render_rows_fn [a; b; c])) ->
  forall (desc : list (str * dtype)) (rows : list (list cellv)) (f0 : str),
  exists s',
    PyMini.exec_block call_ref (prims_top quant numfmt)
      {| locals := [("columns", PList (map enc_rcolumn desc)); ("rows", PList (map enc_rrow rows)); ("dcontext", dc);
                    ("file", enc_s f0); ("expand", PBool (o_expand o)); ("nullvalue", enc_s (o_null o))]%string;
         fields := [] |} (f_body render_csv_fn) = Ok (Next s') /\
    lookup "writer"%string (locals s') =
    Some (csv_writer (f0 ++ flat_map csv_record (csv_records quant numfmt o desc rows))).
Proof. exact (fun cr q nf dc o => render_csv_src cr q nf dc (o_expand o) (o_null o)). Qed.
Print Assumptions C16_source_render_csv.

Theorem C16_source_render_csv_refs :
  nth_error refs 0 = Some (0%nat, "beanquery.query_render._get_renderer"%string) /\
  nth_error refs 1 = Some (1%nat, "beanquery.query_render.render_rows"%string).
Proof. exact csv_refs. Qed.
Print Assumptions C16_source_render_csv_refs.

(* ---- render_text.  First its first six statements on their own (text_prefix: RenderContext, renderers, headers,
   alignment, the priming loop, widths), for all options, descriptions and rows: widths = Render.table_widths
   (max(1, narrow or len(header), len(nullvalue), prepare()) per column), the renderers have seen exactly Render.column of
   their column (col_states, C16_source_priming_is_col_states), alignment = Render.align_of.  Then the whole function
   (C16_source_render_text below). *)
Theorem C16_source_render_text_widths_partial : forall (call_ref : nat -> list pv -> pv) (quant : dec -> str -> dec)
    (numfmt : list (dec * str) -> dec -> str -> str) (dc : pv) (o : opts),
  (forall t c, call_ref 0%nat [enc_rdtype t; c] = robj t c []) ->
  forall (desc : list (str * dtype)) (rows : list (list cellv)) (f0 : str),
  exists s',
    PyMini.exec_block call_ref (prims_top quant numfmt) {| locals := text_locals dc o desc rows f0; fields := [] |}
      text_prefix = Ok (Next s') /\
    lookup "widths"%string (locals s') =
      Some (PList (map (fun w => PInt (Z.of_nat w)) (table_widths quant numfmt o desc rows))) /\
    lookup "renderers"%string (locals s') =
      Some (PList (map (rend dc o) (fold_left upd rows (map (fun d => (snd d, [])) desc)))) /\
    lookup "alignment"%string (locals s') =
      Some (PList (map (fun d => PInt (match align_of (snd d) with ARight => 1 | ALeft => 0 end)) desc)) /\
    lookup "headers"%string (locals s') = Some (PList (map enc_s (map fst desc))) /\
    lookup "ctx"%string (locals s') = Some (enc_ctx dc o) /\ lookup "file"%string (locals s') = Some (enc_s f0).
Proof. exact text_widths_src. Qed.
Print Assumptions C16_source_render_text_widths_partial.

(* what the renderers have seen after the priming loop is Render.col_states *)
Theorem C16_source_priming_is_col_states : forall (quant : dec -> str -> dec) (o : opts) (desc : list (str * dtype))
    (rows : list (list cellv)),
  map (rstate_of quant o) (fold_left upd rows (map (fun d => (snd d, [])) desc)) = col_states quant o desc rows.
Proof. exact col_states_fold. Qed.
Print Assumptions C16_source_priming_is_col_states.

(* The whole of render_text: run on the columns, the rows, a file holding f0 and the options o (expand, boxed, spaced,
   listsep, nullvalue, narrow, unicode), the translated body leaves in `file` f0 followed by exactly the text of
   Render.render_text: unlines (text_lines o desc rows) - top rule when boxed, the header line (each header cut to its
   column width and centred with CPython's rounding, joined by the column separator inside the frame), the rule under it,
   one line per line of render_rows with every cell padded to its column width on the side its datatype's alignment says,
   bottom rule when boxed.  C16_rectangular / C16_fixed_offsets_no_truncation / C16_header_* / C16_check_table_sound are
   stated over this text_lines.  Hypotheses as for render_csv: _get_renderer builds a renderer that has seen nothing;
   calling render_rows is interpreting its translation.  Primitives (Model/PrimsRender.v): join / center / ljust / rjust
   are Render.v's own, rjust with a fill character, '{}'-template format, zip of three sequences, file.write appends. *)
Theorem C16_source_render_text : forall (call_ref : nat -> list pv -> pv) (quant : dec -> str -> dec)
    (numfmt : list (dec * str) -> dec -> str -> str) (dc : pv) (o : opts),
  (forall t c, call_ref 0%nat [enc_rdtype t; c] = robj t c []) ->
  (forall a b c, call_ref 1%nat [a; b; c] =
                 res_val (call_function call_ref (prims_top quant numfmt) render_rows_fn [a; b; c])) ->
  forall (desc : list (str * dtype)) (rows : list (list cellv)) (f0 : str),
  exists s',
    PyMini.exec_block call_ref (prims_top quant numfmt) {| locals := text_locals dc o desc rows f0; fields := [] |}
      (f_body render_text_fn) = Ok (Next s') /\
    lookup "file"%string (locals s') = Some (enc_s (f0 ++ unlines (text_lines quant numfmt o desc rows))).
Proof. exact render_text_src. Qed.
Print Assumptions C16_source_render_text.

Theorem C16_source_render_text_is_model : forall (call_ref : nat -> list pv -> pv) (quant : dec -> str -> dec)
    (numfmt : list (dec * str) -> dec -> str -> str) (dc : pv) (o : opts),
  (forall t c, call_ref 0%nat [enc_rdtype t; c] = robj t c []) ->
  (forall a b c, call_ref 1%nat [a; b; c] =
                 res_val (call_function call_ref (prims_top quant numfmt) render_rows_fn [a; b; c])) ->
  forall (desc : list (str * dtype)) (rows : list (list cellv)) (f0 text : str),
  render_text quant numfmt o desc rows = Some text ->
  exists s',
    PyMini.exec_block call_ref (prims_top quant numfmt) {| locals := text_locals dc o desc rows f0; fields := [] |}
      (f_body render_text_fn) = Ok (Next s') /\
    lookup "file"%string (locals s') = Some (enc_s (f0 ++ text)).
Proof. exact render_text_src_model. Qed.
Print Assumptions C16_source_render_text_is_model.

(* the parameters of the translated function are those text_locals binds, in this order; its opaque callables are
   exactly the two the hypotheses speak about *)
Theorem C16_source_render_text_signature :
  f_params render_text_fn = map fst (text_locals PNone (mkopts false false false false false [] []) [] [] []) /\
  nth_error refs 0 = Some (0%nat, "beanquery.query_render._get_renderer"%string) /\
  nth_error refs 1 = Some (1%nat, "beanquery.query_render.render_rows"%string).
Proof. split; [reflexivity|exact text_refs]. Qed.
Print Assumptions C16_source_render_text_signature.

(* Non-vacuity: the translated render_text run by the interpreter (boxed, unicode, wide headers, a right-aligned int column
   with a NULL) writes what the model renders *)
Example C16_source_render_text_example :
  let o := mkopts true true false false false [45] [32; 32] in
  let desc := [([110; 117; 109]%Z, TInt); ([115]%Z, TStr)] in
  let rows := [[CInt (-5); CStr [97; 98]%Z]; [CNull; CStr [99]%Z]] in
  run_render_text o desc rows = render_text no_quant no_numfmt o desc rows /\
  run_render_text (mkopts false false true false true [] [32; 32]) desc rows =
    render_text no_quant no_numfmt (mkopts false false true false true [] [32; 32]) desc rows /\
  render_text no_quant no_numfmt o desc rows <> None.
Proof. repeat split; try (vm_compute; reflexivity). vm_compute. discriminate. Qed.

(* ---------------------------------------------------------------------------------------------------------------
   AmountRenderer / PositionRenderer (and DecimalRenderer.__init__), tied by translation.  Beancount's DisplayContext stays
   abstract exactly as in the model: [quant] is the ledger's quantiser (self.quantize, an opaque callable kq), [numfmt] the
   column formatter (Model/PrimsRender.v prims_amt: DisplayContext() collects the (number, currency) pairs update() is
   called with, .build(Align.DOT, Precision.MAXIMUM) applied to (number, currency) is numfmt of those pairs).  The
   renderer's state is Render.astate / pstate; amt_env / amt_ready / pos_env / pos_ready are the objects' fields. *)
Theorem C16_source_decimal_init : forall (call_ref : nat -> list pv -> pv) (ctx : pv),
  PyMini.bind (call_method call_ref prims_render render_base_init [] [ctx])
       (fun r => call_method call_ref prims_render render_decimal_init_tail (fst r) [ctx]) =
  Ok (dec_fields (PInt 0) (0, 0)%Z [], PNone).
Proof. exact decimal_init_src. Qed.
Print Assumptions C16_source_decimal_init.

Theorem C16_source_amount_init : forall (call_ref : nat -> list pv -> pv) (numfmt : list (dec * str) -> dec -> str -> str)
    (kq : nat) (o : opts),
  let ctx := enc_ctx (PTuple [PInt 67; PRef kq]) o in
  PyMini.bind (call_method call_ref (prims_amt numfmt) render_base_init [] [ctx])
       (fun r => call_method call_ref (prims_amt numfmt) render_amount_init_tail (fst r) [ctx]) =
  Ok (amt_env kq (PInt 0) (PBool false) a_init [], PNone).
Proof. exact amount_init_src. Qed.
Print Assumptions C16_source_amount_init.

(* update = Render.a_update: the number is quantised by the ledger's context BEFORE it reaches the column's DisplayContext *)
Theorem C16_source_amount_update : forall (call_ref : nat -> list pv -> pv) (quant : dec -> str -> dec)
    (numfmt : list (dec * str) -> dec -> str -> str) (kq : nat),
  (forall d c, call_ref kq [PV (VDec d); PV (VStr c)] = PV (VDec (quant d c))) ->
  forall (mw prep : pv) (st : astate) (a : amt) (tail : env),
  call_method call_ref (prims_amt numfmt) render_amount_update (amt_env kq mw prep st tail) [enc_amt a] =
  Ok (amt_env kq mw prep (a_update quant st a) tail, PNone).
Proof. exact amount_update_src. Qed.
Print Assumptions C16_source_amount_update.

Theorem C16_source_amount_column : forall (call_ref : nat -> list pv -> pv) (quant : dec -> str -> dec)
    (numfmt : list (dec * str) -> dec -> str -> str) (kq : nat),
  (forall d c, call_ref kq [PV (VDec d); PV (VStr c)] = PV (VDec (quant d c))) ->
  forall (vals : list amt) (mw prep : pv) (st : astate) (tail : env),
  run_updates_p call_ref (prims_amt numfmt) render_amount_update (amt_env kq mw prep st tail) (map enc_amt vals) =
  Ok (amt_env kq mw prep (fold_left (a_update quant) vals st) tail).
Proof. exact amount_column_src. Qed.
Print Assumptions C16_source_amount_column.

(* prepare (its own statements, then ColumnRenderer.prepare) = Render.a_width; no commodity is called '__default__' *)
Theorem C16_source_amount_prepare : forall (call_ref : nat -> list pv -> pv)
    (numfmt : list (dec * str) -> dec -> str -> str) (kq : nat) (p : pv) (st : astate), no_default st ->
  PyMini.bind (call_method call_ref (prims_amt numfmt) render_amount_prepare_head (amt_env kq (PInt 0) p st []) [])
       (fun r => call_method call_ref (prims_amt numfmt) render_base_prepare (fst r) []) =
  Ok (amt_ready numfmt kq st, PInt (Z.of_nat (a_width numfmt st))).
Proof. exact amount_prepare_src. Qed.
Print Assumptions C16_source_amount_prepare.

Theorem C16_source_amount_format : forall (call_ref : nat -> list pv -> pv)
    (numfmt : list (dec * str) -> dec -> str -> str) (kq : nat) (st : astate) (a : amt),
  call_method call_ref (prims_amt numfmt) render_amount_format (amt_ready numfmt kq st) [enc_amt a] =
  Ok (amt_ready numfmt kq st, PV (VStr (a_format numfmt st a))).
Proof. exact amount_format_src. Qed.
Print Assumptions C16_source_amount_format.

(* PositionRenderer: its two owned AmountRenderers run AmountRenderer's translated methods (Model/PrimsRenderPos.v) *)
Theorem C16_source_position_init : forall (call_ref : nat -> list pv -> pv)
    (numfmt : list (dec * str) -> dec -> str -> str) (kq : nat) (ctx : pv) (ka : nat),
  call_ref ka [ctx] = fresh_amt kq a_init -> ka = 2%nat ->
  PyMini.bind (call_method call_ref (prims_pos call_ref numfmt) render_base_init [] [ctx])
       (fun r => call_method call_ref (prims_pos call_ref numfmt) render_position_init_tail (fst r) [ctx]) =
  Ok (pos_env kq (PInt 0) (PBool false) p_init, PNone).
Proof. exact position_init_src. Qed.
Print Assumptions C16_source_position_init.

Theorem C16_source_position_update : forall (call_ref : nat -> list pv -> pv) (quant : dec -> str -> dec)
    (numfmt : list (dec * str) -> dec -> str -> str) (kq : nat),
  (forall d c, call_ref kq [PV (VDec d); PV (VStr c)] = PV (VDec (quant d c))) ->
  forall (mw prep : pv) (st : pstate) (p : posn),
  call_method call_ref (prims_pos call_ref numfmt) render_position_update (pos_env kq mw prep st) [enc_posn p] =
  Ok (pos_env kq mw prep (p_update quant st p), PNone).
Proof. exact position_update_src. Qed.
Print Assumptions C16_source_position_update.

Theorem C16_source_position_column : forall (call_ref : nat -> list pv -> pv) (quant : dec -> str -> dec)
    (numfmt : list (dec * str) -> dec -> str -> str) (kq : nat),
  (forall d c, call_ref kq [PV (VDec d); PV (VStr c)] = PV (VDec (quant d c))) ->
  forall (vals : list posn) (mw prep : pv) (st : pstate),
  run_updates_p call_ref (prims_pos call_ref numfmt) render_position_update (pos_env kq mw prep st) (map enc_posn vals) =
  Ok (pos_env kq mw prep (fold_left (p_update quant) vals st)).
Proof. exact position_column_src. Qed.
Print Assumptions C16_source_position_column.

Theorem C16_source_position_prepare : forall (call_ref : nat -> list pv -> pv)
    (numfmt : list (dec * str) -> dec -> str -> str) (kq : nat) (mw prep : pv) (st : pstate),
  no_default (p_u st) -> no_default (p_c st) ->
  PyMini.bind (call_method call_ref (prims_pos call_ref numfmt) render_position_prepare_head (pos_env kq mw prep st) [])
       (fun r => call_method call_ref (prims_pos call_ref numfmt) render_base_prepare (fst r) []) =
  Ok (pos_ready numfmt kq st, PInt (Z.of_nat (p_width numfmt st))).
Proof. exact position_prepare_src. Qed.
Print Assumptions C16_source_position_prepare.

Theorem C16_source_position_format : forall (call_ref : nat -> list pv -> pv)
    (numfmt : list (dec * str) -> dec -> str -> str) (kq : nat) (st : pstate) (p : posn),
  call_method call_ref (prims_pos call_ref numfmt) render_position_format (pos_ready numfmt kq st) [enc_posn p] =
  Ok (pos_ready numfmt kq st, PV (VStr (p_format numfmt st p))).
Proof. exact position_format_src. Qed.
Print Assumptions C16_source_position_format.

Theorem C16_source_amount_class_ref : nth_error refs 2 = Some (2%nat, "beanquery.query_render.AmountRenderer"%string).
Proof. exact amount_refs. Qed.
Print Assumptions C16_source_amount_class_ref.

(* Non-vacuity: a quantiser oracle exists (identity), a column of two amounts is run through the translated
   update / prepare / format with a toy formatter *)
Example C16_source_amount_example :
  let cr : nat -> list pv -> pv := fun _ args => match args with [d; _] => d | _ => PNone end in
  let nf : list (dec * str) -> dec -> str -> str := fun ups d c => show_int (dcoef d) in
  let vals := [(mkdec false 12 0, [85; 83; 68]%Z); (mkdec false 7 0, [69; 85]%Z)] in
  (forall d c, cr 0%nat [PV (VDec d); PV (VStr c)] = PV (VDec (no_quant d c))) /\
  no_default (fold_left (a_update no_quant) vals a_init) /\
  PyMini.bind (run_updates_p cr (prims_amt nf) render_amount_update (amt_env 0 (PInt 0) (PBool false) a_init []) (map enc_amt vals))
    (fun flds => PyMini.bind (PyMini.bind (call_method cr (prims_amt nf) render_amount_prepare_head flds [])
                                (fun r => call_method cr (prims_amt nf) render_base_prepare (fst r) []))
       (fun r => PyMini.bind (call_method cr (prims_amt nf) render_amount_format (fst r) [enc_amt (mkdec false 7 0, [69; 85]%Z)])
                   (fun r2 => Ok (snd r, snd r2)))) =
  Ok (PInt 5, PV (VStr [55; 32; 69; 85; 32]%Z)).
Proof. split; [reflexivity|]. split; [repeat constructor|vm_compute; reflexivity]. Qed.

(* CostRenderer (bld-render4 / bld-render5; Proofs/SrcRenderCost.v): the owned AmountRenderer runs AmountRenderer's translated
   methods on the (number, currency) of the cost (Model/PrimsRenderCost.v: prims_cost, cost_as_amt); `{date:%Y-%m-%d}` is
   Render.date_str; the label goes between double quotes as it is. *)
Import Verif.Model.PrimsRenderCost Verif.Proofs.SrcRenderCost.

Theorem C16_source_cost_init : forall (call_ref : nat -> list pv -> pv)
    (numfmt : list (dec * str) -> dec -> str -> str) (kq : nat) (ctx : pv) (ka : nat),
  call_ref ka [ctx] = fresh_amt kq a_init -> ka = 2%nat ->
  PyMini.bind (call_method call_ref (prims_cost call_ref numfmt) render_base_init [] [ctx])
       (fun r => call_method call_ref (prims_cost call_ref numfmt) render_cost_init_tail (fst r) [ctx]) =
  Ok (cost_env kq (PInt 0) (PBool false) c_init, PNone).
Proof. exact cost_init_src. Qed.
Print Assumptions C16_source_cost_init.

Theorem C16_source_cost_update : forall (call_ref : nat -> list pv -> pv) (quant : dec -> str -> dec)
    (numfmt : list (dec * str) -> dec -> str -> str) (kq : nat),
  (forall d c, call_ref kq [PV (VDec d); PV (VStr c)] = PV (VDec (quant d c))) ->
  forall (mw prep : pv) (st : cstate) (v : cost),
  call_method call_ref (prims_cost call_ref numfmt) render_cost_update (cost_env kq mw prep st) [enc_cost v] =
  Ok (cost_env kq mw prep (c_update quant st v), PNone).
Proof. exact cost_update_src. Qed.
Print Assumptions C16_source_cost_update.

Theorem C16_source_cost_column : forall (call_ref : nat -> list pv -> pv) (quant : dec -> str -> dec)
    (numfmt : list (dec * str) -> dec -> str -> str) (kq : nat),
  (forall d c, call_ref kq [PV (VDec d); PV (VStr c)] = PV (VDec (quant d c))) ->
  forall (vals : list cost) (mw prep : pv) (st : cstate),
  run_updates_p call_ref (prims_cost call_ref numfmt) render_cost_update (cost_env kq mw prep st) (map enc_cost vals) =
  Ok (cost_env kq mw prep (fold_left (c_update quant) vals st)).
Proof. exact cost_column_src. Qed.
Print Assumptions C16_source_cost_column.

Theorem C16_source_cost_prepare : forall (call_ref : nat -> list pv -> pv)
    (numfmt : list (dec * str) -> dec -> str -> str) (kq : nat) (mw prep : pv) (st : cstate),
  no_default (c_a st) ->
  PyMini.bind (call_method call_ref (prims_cost call_ref numfmt) render_cost_prepare_head (cost_env kq mw prep st) [])
       (fun r => call_method call_ref (prims_cost call_ref numfmt) render_base_prepare (fst r) []) =
  Ok (cost_ready numfmt kq st, PInt (Z.of_nat (c_width numfmt st))).
Proof. exact cost_prepare_src. Qed.
Print Assumptions C16_source_cost_prepare.

Theorem C16_source_cost_format : forall (call_ref : nat -> list pv -> pv)
    (numfmt : list (dec * str) -> dec -> str -> str) (kq : nat) (st : cstate) (v : cost),
  call_method call_ref (prims_cost call_ref numfmt) render_cost_format (cost_ready numfmt kq st) [enc_cost v] =
  Ok (cost_ready numfmt kq st, PV (VStr (c_format numfmt st v))).
Proof. exact cost_format_src. Qed.
Print Assumptions C16_source_cost_format.

(* the formatted cell of any value the column has seen fits the width prepare() answers: the amount part by hypothesis
   (the number formatter is abstract), the date when %Y-%m-%d gives 10 characters (four-digit years), the label because
   update() reserved len(label) + 4 and format() adds exactly ', ' and two quotes to the label AS IS *)
Theorem C16_cost_fits : forall (quant : dec -> str -> dec) (numfmt : list (dec * str) -> dec -> str -> str)
    (vals : list cost) (v : cost),
  let st := fold_left (c_update quant) vals c_init in
  In v vals ->
  (List.length (a_format numfmt (c_a st) (c_amt v)) <= a_width numfmt (c_a st))%nat ->
  (forall y m d, c_date v = Some (y, m, d) -> List.length (date_str y m d) = 10%nat) ->
  (List.length (c_format numfmt st v) <= c_width numfmt st)%nat.
Proof. exact cost_fits. Qed.
Print Assumptions C16_cost_fits.

(* SetRenderer / EnumRenderer (bld-render5; Gen/SrcRenderSet.v, Model/PrimsRenderSet.v, Proofs/SrcRenderSet.v): a set is the
   list of its elements in any order, sorted() = Render.sort_strs, sum() = left fold of +, sep.join = Render.join *)
Import Verif.Gen.SrcRenderSet Verif.Model.PrimsRenderSet Verif.Proofs.SrcRenderSet.

Theorem C16_source_set_init : forall (call_ref : nat -> list pv -> pv) (dc : pv) (o : opts),
  PyMini.bind (call_method call_ref prims_set render_base_init [] [enc_ctx dc o])
       (fun r => call_method call_ref prims_set render_set_init_tail (fst r) [enc_ctx dc o]) =
  Ok (set_env (PInt 0) (PBool false) (o_listsep o), PNone).
Proof. exact set_init_src. Qed.
Print Assumptions C16_source_set_init.

Theorem C16_source_set_update : forall (call_ref : nat -> list pv -> pv) (w : Z) (prep : pv) (sep : str) (l : list str),
  call_method call_ref prims_set render_set_update (set_env (PInt w) prep sep) [enc_set l] =
  Ok (set_env (PInt (set_update sep w l)) prep sep, PNone).
Proof. exact set_update_src. Qed.
Print Assumptions C16_source_set_update.

Theorem C16_source_set_column : forall (call_ref : nat -> list pv -> pv) (ls : list (list str)) (w : Z) (prep : pv) (sep : str),
  run_updates_p call_ref prims_set render_set_update (set_env (PInt w) prep sep) (map enc_set ls) =
  Ok (set_env (PInt (fold_left (set_update sep) ls w)) prep sep).
Proof. exact set_column_src. Qed.
Print Assumptions C16_source_set_column.

Theorem C16_source_set_prepare : forall (call_ref : nat -> list pv -> pv) (w prep : pv) (sep : str),
  call_method call_ref prims_set render_base_prepare (set_env w prep sep) [] = Ok (set_env w (PBool true) sep, w).
Proof. exact set_prepare_src. Qed.
Print Assumptions C16_source_set_prepare.

Theorem C16_source_set_format : forall (call_ref : nat -> list pv -> pv) (mw prep : pv) (sep : str) (l : list str),
  call_method call_ref prims_set render_set_format (set_env mw prep sep) [enc_set l] =
  Ok (set_env mw prep sep, PV (VStr (set_format sep l))).
Proof. exact set_format_src. Qed.
Print Assumptions C16_source_set_format.

(* __init__, update over the sets of the column, prepare, format: the width and the cell of Render.col_prepare / st_width /
   st_format for a TSet column *)
Theorem C16_source_set_lifecycle : forall (call_ref : nat -> list pv -> pv) (quant : dec -> str -> dec)
    (numfmt : list (dec * str) -> dec -> str -> str) (dc : pv) (o : opts) (vals : list cellv),
  let W := fold_left (set_update (o_listsep o)) (the_sets vals) 0 in
  PyMini.bind (PyMini.bind (call_method call_ref prims_set render_base_init [] [enc_ctx dc o])
             (fun r => call_method call_ref prims_set render_set_init_tail (fst r) [enc_ctx dc o]))
       (fun r => PyMini.bind (run_updates_p call_ref prims_set render_set_update (fst r) (map enc_set (the_sets vals)))
                      (fun flds => call_method call_ref prims_set render_base_prepare flds [])) =
  Ok (set_env (PInt W) (PBool true) (o_listsep o), PInt W) /\
  Z.to_nat W = st_width numfmt (col_prepare quant o TSet vals) /\
  forall l, call_method call_ref prims_set render_set_format (set_env (PInt W) (PBool true) (o_listsep o)) [enc_set l] =
            Ok (set_env (PInt W) (PBool true) (o_listsep o),
                enc_out (st_format numfmt o TSet (col_prepare quant o TSet vals) (CSet l))).
Proof. exact set_lifecycle_src. Qed.
Print Assumptions C16_source_set_lifecycle.

Theorem C16_source_enum_format : forall (call_ref : nat -> list pv -> pv) (flds : env) (n : str),
  call_method call_ref prims_set render_enum_format flds [enc_enum n] = Ok (flds, PV (VStr n)).
Proof. exact enum_format_src. Qed.
Print Assumptions C16_source_enum_format.

Theorem C16_source_renderset_no_opaque : SrcRenderSet.refs = [].
Proof. reflexivity. Qed.
Print Assumptions C16_source_renderset_no_opaque.

(* InventoryRenderer.positionsortkey, the key format() sorts positions by: (currency, -number, (cost currency, -cost number,
   cost date) or ()).  Only this static method of InventoryRenderer is tied by translation. *)
Theorem C16_source_inventory_sortkey : forall (call_ref : nat -> list pv -> pv) (u : amt) (c : option cost),
  call_function call_ref prims_invkey render_inv_sortkey [enc_fpos u c] = Ok (inv_sortkey u c).
Proof. exact inv_sortkey_src. Qed.
Print Assumptions C16_source_inventory_sortkey.

(* Non-vacuity: a set column {b, a}, NULL, {ccc} with listsep ', ' through the translated __init__ / update / prepare / format *)
Example C16_source_set_example :
  let o := mkopts false false false false true [] [44; 32]%Z in
  let vals := [CSet [[98]; [97]]; CNull; CSet [[99; 99; 99]]]%Z in
  PyMini.bind (PyMini.bind (PyMini.bind (call_method (fun _ _ => PNone) prims_set render_base_init [] [enc_ctx PNone o])
             (fun r => call_method (fun _ _ => PNone) prims_set render_set_init_tail (fst r) [enc_ctx PNone o]))
       (fun r => PyMini.bind (run_updates_p (fun _ _ => PNone) prims_set render_set_update (fst r) (map enc_set (the_sets vals)))
                      (fun flds => call_method (fun _ _ => PNone) prims_set render_base_prepare flds [])))
       (fun r => PyMini.bind (call_method (fun _ _ => PNone) prims_set render_set_format (fst r) [enc_set [[98]; [97]]%Z])
                   (fun r2 => Ok (snd r, snd r2))) =
  Ok (PInt 4, PV (VStr [97; 44; 32; 98]%Z)).
Proof. vm_compute. reflexivity. Qed.

(* Non-vacuity: two costs (one dated, one labelled "lot") through the translated CostRenderer methods with the toy formatter of
   C16_source_amount_example: width 5 + 12 + 7, cell  7 EU , "lot"  *)
Example C16_source_cost_example :
  let cr : nat -> list pv -> pv := fun _ args => match args with [d; _] => d | _ => PNone end in
  let nf : list (dec * str) -> dec -> str -> str := fun ups d c => show_int (dcoef d) in
  let v1 := mkcost (mkdec false 12 0, [85; 83; 68]%Z) (Some (2020, 1, 2)%Z) None in
  let v2 := mkcost (mkdec false 7 0, [69; 85]%Z) None (Some [108; 111; 116]%Z) in
  (forall d c, cr 0%nat [PV (VDec d); PV (VStr c)] = PV (VDec (no_quant d c))) /\
  no_default (c_a (fold_left (c_update no_quant) [v1; v2] c_init)) /\
  PyMini.bind (run_updates_p cr (prims_cost cr nf) render_cost_update (cost_env 0 (PInt 0) (PBool false) c_init) (map enc_cost [v1; v2]))
    (fun flds => PyMini.bind (PyMini.bind (call_method cr (prims_cost cr nf) render_cost_prepare_head flds [])
                                (fun r => call_method cr (prims_cost cr nf) render_base_prepare (fst r) []))
       (fun r => PyMini.bind (call_method cr (prims_cost cr nf) render_cost_format (fst r) [enc_cost v2])
                   (fun r2 => Ok (snd r, snd r2)))) =
  Ok (PInt 24, PV (VStr [55; 32; 69; 85; 32; 44; 32; 34; 108; 111; 116; 34]%Z)).
Proof. split; [reflexivity|]. split; [repeat constructor|vm_compute; reflexivity]. Qed.

(* InventoryRenderer.format, the expanded layout (bld-render6; Gen/SrcRenderInv.v = the first statement of format,
   `if self.expand: ...; return strings`; Model/PrimsRenderInv.v; Proofs/SrcRenderInv.v).  The receiver has expand = True and
   holds under the key True of `self.renderers` a PositionRenderer prepared in state st (what C16_source_position_prepare
   leaves; calling its format is interpreting the translated PositionRenderer.format); every other field is arbitrary.
   TRUSTED (primitive "sorted:key=positionsortkey"): sorted(positions, key=self.positionsortkey) = Render.sort_pos. *)
Import Verif.Gen.SrcRenderInv Verif.Model.PrimsRenderInv Verif.Proofs.SrcRenderInv.

Theorem C16_source_inventory_format_expand : forall (call_ref : nat -> list pv -> pv)
    (numfmt : list (dec * str) -> dec -> str -> str) (kq : nat) (st : pstate) (mw prep ls cn ds : pv) (rs : list pv)
    (l : list posn),
  ddict_get (PBool true) rs = Some (the_renderer numfmt kq st) ->
  call_method call_ref (prims_inv call_ref numfmt) render_inv_format_expand (inv_env mw prep ls cn ds rs) [enc_inv l] =
  Ok (inv_env mw prep ls cn ds rs, PList (map enc_s (inv_format numfmt st l))).
Proof. exact inv_format_expand_src. Qed.
Print Assumptions C16_source_inventory_format_expand.

(* ... which is the cell Render.st_format gives an Inventory column with expand whose state is st *)
Theorem C16_source_inventory_format_cell : forall (call_ref : nat -> list pv -> pv)
    (numfmt : list (dec * str) -> dec -> str -> str) (kq : nat) (o : opts) (st : pstate) (mw prep ls cn ds : pv)
    (rs : list pv) (l : list posn),
  ddict_get (PBool true) rs = Some (the_renderer numfmt kq st) ->
  call_method call_ref (prims_inv call_ref numfmt) render_inv_format_expand (inv_env mw prep ls cn ds rs)
    [enc_rcell (CInv l)] =
  Ok (inv_env mw prep ls cn ds rs, enc_out (st_format numfmt o TInventory (SInvX st) (CInv l))).
Proof. intros call_ref numfmt kq o st mw prep ls cn ds rs l H. exact (inv_format_expand_src call_ref numfmt kq st mw prep ls cn ds rs l H). Qed.
Print Assumptions C16_source_inventory_format_cell.

Theorem C16_source_renderinv_no_opaque : SrcRenderInv.refs = [].
Proof. reflexivity. Qed.
Print Assumptions C16_source_renderinv_no_opaque.

(* InventoryRenderer.update, its FIRST statement (the loop `for pos in value.get_positions(): self.renderers[self.expand or
   pos.units.currency].update(pos)`; the Counter / self.counts bookkeeping after it is not translated), expand = True.
   `cur rs` is the PositionRenderer the key True of the dict rs stands for: the stored one or, for a missing key, the
   defaultdict factory's product fresh_posr = the object C16_source_position_init proves PositionRenderer.__init__ builds.
   The loop feeds it the positions in order (Render.p_update); after a non-empty inventory the key is present. *)
Theorem C16_source_inventory_update_loop : forall (call_ref : nat -> list pv -> pv) (quant : dec -> str -> dec)
    (numfmt : list (dec * str) -> dec -> str -> str) (kq : nat),
  (forall d c, call_ref kq [PV (VDec d); PV (VStr c)] = PV (VDec (quant d c))) ->
  forall (st : pstate) (mw prep mw' prep' ls cn ds : pv) (rs : list pv) (l : list posn),
  cur kq rs = posr kq mw' prep' st ->
  exists rs', cur kq rs' = posr kq mw' prep' (fold_left (p_update quant) l st) /\
    (l = [] -> rs' = rs) /\ (l <> [] -> ddict_get (PBool true) rs' = Some (cur kq rs')) /\
    call_method call_ref (prims_invu call_ref numfmt (fresh_posr kq)) render_inv_update_loop (inv_env mw prep ls cn ds rs)
      [enc_inv l] = Ok (inv_env mw prep ls cn ds rs', PNone).
Proof. exact inv_update_loop_src. Qed.
Print Assumptions C16_source_inventory_update_loop.

(* the whole column, from the empty dict of a new InventoryRenderer: the renderer under True ends in Render.inv_state *)
Theorem C16_source_inventory_column : forall (call_ref : nat -> list pv -> pv) (quant : dec -> str -> dec)
    (numfmt : list (dec * str) -> dec -> str -> str) (kq : nat),
  (forall d c, call_ref kq [PV (VDec d); PV (VStr c)] = PV (VDec (quant d c))) ->
  forall (invs : list (list posn)) (mw prep ls cn ds : pv),
  exists rs', cur kq rs' = posr kq (PInt 0) (PBool false) (inv_state quant invs) /\
    run_updates_p call_ref (prims_invu call_ref numfmt (fresh_posr kq)) render_inv_update_loop
      (inv_env mw prep ls cn ds []) (map enc_inv invs) = Ok (inv_env mw prep ls cn ds rs').
Proof.
  intros call_ref quant numfmt kq Hq invs mw prep ls cn ds.
  exact (inv_column_src call_ref quant numfmt kq Hq invs p_init mw prep (PInt 0) (PBool false) ls cn ds [] (cur_empty kq)).
Qed.
Print Assumptions C16_source_inventory_column.

(* InventoryRenderer.prepare under expand: `if self.expand: self.maxwidth = self.renderers[self.expand].prepare()` (the else
   branch is cut off; the final `return super().prepare()` is run as the translated ColumnRenderer.prepare): the renderer the
   key True stands for is prepared and stored under True, maxwidth = the result = Render.p_width of its state *)
Import Verif.Proofs.SrcRenderInvPrep.

Theorem C16_source_inventory_prepare_expand : forall (call_ref : nat -> list pv -> pv)
    (numfmt : list (dec * str) -> dec -> str -> str) (kq : nat) (st : pstate) (mw prep mw' prep' ls cn ds : pv)
    (rs : list pv),
  cur kq rs = posr kq mw' prep' st -> no_default (p_u st) -> no_default (p_c st) ->
  PyMini.bind (call_method call_ref (prims_invp call_ref numfmt (fresh_posr kq)) render_inv_prepare_expand
                 (inv_env mw prep ls cn ds rs) [])
       (fun r => call_method call_ref (prims_invp call_ref numfmt (fresh_posr kq)) render_base_prepare (fst r) []) =
  Ok (inv_env (PInt (Z.of_nat (p_width numfmt st))) (PBool true) ls cn ds
        (ddict_set rs (PBool true) (the_renderer numfmt kq st)),
      PInt (Z.of_nat (p_width numfmt st))).
Proof. exact inv_prepare_expand_src. Qed.
Print Assumptions C16_source_inventory_prepare_expand.

(* the life cycle of an expanded Inventory column through the translated statements: update() over the column's inventories
   from the empty dict of a new renderer, prepare(), format(l) for any l; S = Render.inv_state, the width Render.p_width S
   (= st_width of col_prepare for TInventory with expand), the cell Render.inv_format S l *)
Theorem C16_source_inventory_lifecycle : forall (call_ref : nat -> list pv -> pv)
    (numfmt : list (dec * str) -> dec -> str -> str) (kq : nat) (quant : dec -> str -> dec),
  (forall d c, call_ref kq [PV (VDec d); PV (VStr c)] = PV (VDec (quant d c))) ->
  forall (invs : list (list posn)) (mw prep ls cn ds : pv),
  let S := inv_state quant invs in
  let W := PInt (Z.of_nat (p_width numfmt S)) in
  no_default (p_u S) -> no_default (p_c S) ->
  exists rs1 rs2,
    run_updates_p call_ref (prims_invu call_ref numfmt (fresh_posr kq)) render_inv_update_loop
      (inv_env mw prep ls cn ds []) (map enc_inv invs) = Ok (inv_env mw prep ls cn ds rs1) /\
    PyMini.bind (call_method call_ref (prims_invp call_ref numfmt (fresh_posr kq)) render_inv_prepare_expand
                   (inv_env mw prep ls cn ds rs1) [])
         (fun r => call_method call_ref (prims_invp call_ref numfmt (fresh_posr kq)) render_base_prepare (fst r) []) =
      Ok (inv_env W (PBool true) ls cn ds rs2, W) /\
    forall l, call_method call_ref (prims_inv call_ref numfmt) render_inv_format_expand (inv_env W (PBool true) ls cn ds rs2)
                [enc_inv l] = Ok (inv_env W (PBool true) ls cn ds rs2, PList (map enc_s (inv_format numfmt S l))).
Proof. exact inv_lifecycle_src. Qed.
Print Assumptions C16_source_inventory_lifecycle.
