(* C18 Scalar function library. Statements only; proofs in Proofs/DatesProofs.v (general arithmetic),
   Proofs/DatesRange{A,B,C,D}.v (vm_compute over all 73 414 dates 1900-01-01 .. 2100-12-31),
   Proofs/DatesTheorems.v (lifting) and Proofs/StrFuncsProofs.v (strings, accounts, numbers, casts).
   [in_range o] is  693596 <= o <= 767009,  the ordinals of 1900-01-01 and 2100-12-31. *)
From Coq Require Import String ZArith List Bool.
Import ListNotations.
From Verif Require Import Base.Out Base.PyValue Model.Dates Model.StrFuncs
  Proofs.DatesProofs Proofs.DatesChecks Proofs.DatesTheorems Proofs.StrFuncsProofs Proofs.DecDivCheck.
Open Scope Z_scope.
Open Scope list_scope.

Example C18_range_is_1900_2100 : ord2ymd LO = (1900, 1, 1) /\ ord2ymd HI = (2100, 12, 31) /\ HI - LO + 1 = Z.pos NDATES.
Proof. vm_compute. auto. Qed.

(* ---------------- calendar ---------------- *)
(* ordinal -> (y, m, d) -> ordinal and back, on the whole range *)
Theorem C18_ymd_ord_bijection :
  (forall o, in_range o -> let '(y, m, d) := ord2ymd o in
                           valid_ymd y m d = true /\ ymd2ord y m d = o /\ 1900 <= y <= 2100) /\
  (forall y m d, 1900 <= y <= 2100 -> valid_ymd y m d = true -> ord2ymd (ymd2ord y m d) = (y, m, d)).
Proof. split; [exact ord_ymd_ord | exact ymd_ord_ymd]. Qed.
Print Assumptions C18_ymd_ord_bijection.

(* for every unit accepted by date_trunc *)
Theorem C18_trunc_le : forall u o, in_range o -> exists r, trunc_u u o = VDate r /\ r <= o.
Proof. exact trunc_le. Qed.
Print Assumptions C18_trunc_le.

Theorem C18_trunc_idempotent : forall u o r, in_range o -> trunc_u u o = VDate r -> trunc_u u r = VDate r.
Proof. exact trunc_idem. Qed.
Print Assumptions C18_trunc_idempotent.

Theorem C18_trunc_monotone : forall u a b, in_range a -> in_range b -> a <= b -> trunc_ord u a <= trunc_ord u b.
Proof. exact trunc_mono. Qed.
Print Assumptions C18_trunc_monotone.

(* date_trunc(u, d) belongs to d's unit: every date_part that identifies the unit (year+month,
   year+quarter, year, decade, century, millennium, ISO year+ISO week) agrees ... *)
Theorem C18_part_agrees_with_trunc : forall u o r,
  in_range o -> trunc_u u o = VDate r -> unit_id u r = unit_id u o.
Proof. exact trunc_same_unit. Qed.
Print Assumptions C18_part_agrees_with_trunc.

(* ... and it is the first day of the unit: no date of the unit is earlier, its day number is 1 *)
Theorem C18_trunc_is_first_day : forall u o x, u <> UWeek -> in_range o -> in_range x ->
  unit_id u x = unit_id u o -> trunc_ord u o <= x.
Proof. exact trunc_first. Qed.
Print Assumptions C18_trunc_is_first_day.

Theorem C18_trunc_day_is_one : forall u o r, u <> UWeek -> in_range o -> trunc_u u o = VDate r -> day_of r = 1.
Proof. exact trunc_day_one. Qed.
Print Assumptions C18_trunc_day_is_one.

(* week: the Monday on or before the date, the only Monday among the 7 days ending at the date
   (for every date, not only the range) *)
Theorem C18_trunc_week_is_monday : forall o r, trunc_u UWeek o = VDate r ->
  r <= o /\ o - 6 <= r /\ weekday r = 0 /\ r = o - weekday o.
Proof. exact trunc_week_spec. Qed.
Print Assumptions C18_trunc_week_is_monday.

Theorem C18_trunc_week_first_day : forall o r x,
  trunc_u UWeek o = VDate r -> weekday x = 0 -> o - 6 <= x <= o -> x = r.
Proof. exact trunc_week_first. Qed.
Print Assumptions C18_trunc_week_first_day.

(* year/month/quarter/weekday/yearmonth are date_part / date_trunc; the field strings dispatch to the units *)
Theorem C18_extractors_are_parts : forall o,
  f_year o = VInt (part_u PYear o) /\ f_month o = VInt (part_u PMonth o) /\
  f_quarter o = VStr (pad0 4 (part_u PYear o) ++ s2z "-Q"%string ++ nat_digits (part_u PQuarter o)) /\
  f_weekday o = VStr (s2z (nth (Z.to_nat (part_u PWeekday o)) day_names ""%string)) /\
  f_yearmonth o = trunc_u UMonth o /\
  (forall u, date_trunc (s2z (tunit_name u)) o = trunc_u u o).
Proof.
  intros o. repeat split; [apply year_is_part|apply month_is_part|apply quarter_is_part|
                           apply weekday_is_part|apply yearmonth_is_trunc|intros; apply date_trunc_dispatch].
Qed.
Print Assumptions C18_extractors_are_parts.

(* ---------------- date_add / date_diff / date +- int ---------------- *)
Theorem C18_add_diff_inverse : forall o n r, valid_ord o = true -> date_add o n = VDate r ->
  date_diff r o = VInt n /\ date_minus_date r o = VInt n /\
  date_add r (- n) = VDate o /\ date_minus_int r n = VDate o /\ date_plus_int r (- n) = VDate o.
Proof.
  intros o n r Ho H. destruct (date_add_diff o n r H). destruct (date_add_back o n r Ho H) as (? & ? & ?). auto.
Qed.
Print Assumptions C18_add_diff_inverse.

Theorem C18_diff_add_inverse : forall x y, valid_ord x = true -> date_add y (x - y) = VDate x.
Proof. exact date_diff_add. Qed.
Print Assumptions C18_diff_add_inverse.

Theorem C18_plus_minus_int_inverse : forall o n r, valid_ord o = true ->
  (date_plus_int o n = VDate r -> date_minus_int r n = VDate o /\ date_minus_date r o = VInt n) /\
  (date_minus_int o n = VDate r -> date_plus_int r n = VDate o).
Proof. intros o n r Ho. split; [apply date_plus_minus_int | apply date_minus_plus_int]; exact Ho. Qed.
Print Assumptions C18_plus_minus_int_inverse.

(* ---------------- date_bin ---------------- *)
(* day strides, all origins and sources: the largest origin + q*k <= source *)
Theorem C18_date_bin_spec_days : forall k source origin, 0 < k ->
  exists q, date_bin_rd (mkrd 0 0 k) source origin = VDate (origin + q * k) /\
            origin + q * k <= source < origin + q * k + k.
Proof. exact date_bin_days. Qed.
Print Assumptions C18_date_bin_spec_days.

(* month / year strides, for ANY stride and dates on which adding the stride moves forward:
   the result is origin + stride + ... + stride (k-fold), not after the source, and one more stride
   is strictly after the source *)
Theorem C18_date_bin_spec_months : forall r source origin,
  (rd_months r <> 0 \/ rd_years r <> 0) ->
  (forall n, origin <= n <= source -> exists n', rd_add n r = VDate n' /\ n < n') ->
  origin <= source ->
  exists k b nxt, date_bin_rd r source origin = VDate b /\
                  iter_step (fun n => rd_add n r) k origin = VDate b /\
                  b <= source /\ rd_add b r = VDate nxt /\ source < nxt.
Proof. exact date_bin_months_fwd. Qed.
Print Assumptions C18_date_bin_spec_months.

(* the hypothesis holds for the strides 1, 2, 3, 6 months and 1, 5 years everywhere on the range *)
Theorem C18_date_bin_spec_range : forall r source origin,
  In r bin_strides -> in_range origin -> in_range source ->
  (origin <= source ->
   exists k b nxt, date_bin_rd r source origin = VDate b /\
                   iter_step (fun n => rd_add n r) k origin = VDate b /\
                   b <= source /\ rd_add b r = VDate nxt /\ source < nxt) /\
  (source < origin ->
   exists k b prev, date_bin_rd r source origin = VDate b /\
                    iter_step (fun n => rd_add n (rd_neg r)) (S k) origin = VDate b /\
                    b <= source /\ iter_step (fun n => rd_add n (rd_neg r)) k origin = VDate prev /\
                    source < prev).
Proof.
  intros r s o Hr Ho Hs. split; intros H; [apply date_bin_fwd_range|apply date_bin_bwd_range]; assumption.
Qed.
Print Assumptions C18_date_bin_spec_range.

(* non-positive strides give NULL *)
Theorem C18_date_bin_nonpositive : forall r source origin,
  (forall k, k < 0 -> date_bin_rd (mkrd 0 0 k) source origin = VNull) /\
  (forall o1, (rd_months r <> 0 \/ rd_years r <> 0) -> rd_add origin r = VDate o1 -> o1 <= origin ->
              date_bin_rd r source origin = VNull).
Proof.
  intros r s o. split; [intros k Hk; apply date_bin_days_negative; exact Hk|].
  intros o1 H1 H2 H3. eapply date_bin_months_nonpositive; eauto.
Qed.
Print Assumptions C18_date_bin_nonpositive.

(* the comparison of the code before the repair (`n >= source`) puts a source that is exactly on a
   bin boundary into the previous bin: date_bin('1 month', 2020-02-01, 2020-01-01) = 2020-01-01 *)
Theorem C18_date_bin_old_refuted :
  exists r source origin b,
    date_bin_rd_old r source origin = VDate b /\ rd_add b r = VDate source /\
    date_bin_rd r source origin = VDate source.
Proof. exact date_bin_old_refuted. Qed.
Print Assumptions C18_date_bin_old_refuted.

(* ---------------- accounts ---------------- *)
Theorem C18_parent_leaf : forall a, a <> [] ->
  exists p l, f_parent a = VStr p /\ f_leaf a = VStr l /\
    (removelast (acc_split a) <> [] -> p ++ [58] ++ l = a) /\
    (removelast (acc_split a) = [] -> p = [] /\ l = a).
Proof. exact parent_leaf. Qed.
Print Assumptions C18_parent_leaf.

Theorem C18_root_prefix : forall a n, 0 <= n ->
  exists r, f_root a n = VStr r /\
            (n <= Z.of_nat (length (acc_split a)) ->
             exists comps, length comps = Z.to_nat n /\ r = acc_join comps /\
                           exists rest, acc_split a = comps ++ rest).
Proof. exact root_components. Qed.
Print Assumptions C18_root_prefix.

Theorem C18_root_all : forall a n, Z.of_nat (length (acc_split a)) <= n -> f_root a n = VStr a.
Proof. exact root_all. Qed.
Print Assumptions C18_root_all.

Theorem C18_split_join : forall sep s, sep <> [] -> join sep (split sep s) = s.
Proof. exact join_split. Qed.
Print Assumptions C18_split_join.

(* account_sortkey strings compare like (index of the account type, name) *)
Theorem C18_sortkey_order : forall types a b ia ib, length types = 5%nat ->
  index_of (acc_type a) types 0 = Some ia -> index_of (acc_type b) types 0 = Some ib ->
  exists ka kb, f_account_sortkey types a = VStr ka /\ f_account_sortkey types b = VStr kb /\
                str_lt ka kb = (ia <? ib) || ((ia =? ib) && str_lt a b).
Proof. exact sortkey_order. Qed.
Print Assumptions C18_sortkey_order.

(* possign keeps x for assets/expenses (types 0 and 4), negates it for every other type *)
Theorem C18_possign : forall types x a,
  (acc_type a = nth 0 types [] \/ acc_type a = nth 4 types [] -> f_possign types x a = VDec x) /\
  (zeqb (acc_type a) (nth 0 types []) = false -> zeqb (acc_type a) (nth 4 types []) = false ->
   f_possign types x a = VDec (dec_neg x)) /\
  (ndigits (dcoef x) <= PREC ->
   dexp (dec_neg x) = dexp x /\ dec_signed (dec_neg x) = - dec_signed x /\ dcoef (dec_neg x) = dcoef x).
Proof.
  intros. split; [apply possign_debit|]. split; [apply possign_credit|apply dec_neg_spec].
Qed.
Print Assumptions C18_possign.

Example C18_possign_five_types :
  let types := map s2z ["Assets"; "Liabilities"; "Equity"; "Income"; "Expenses"]%string in
  let x := mkdec false 150 (-2) in
  map (fun t => f_possign types x (s2z t ++ s2z ":A"%string)) ["Assets"; "Liabilities"; "Equity"; "Income"; "Expenses"]%string
  = [VDec x; VDec (dec_neg x); VDec (dec_neg x); VDec (dec_neg x); VDec x].
Proof. vm_compute. reflexivity. Qed.

(* ---------------- strings ---------------- *)
Theorem C18_substr_slice : forall (s : list Z) a b k,
  f_substr s a b = VStr (py_slice s a b) /\
  Z.of_nat (length (py_slice s a b)) =
    Z.max 0 (clamp_idx (Z.of_nat (length s)) b - clamp_idx (Z.of_nat (length s)) a) /\
  (- Z.of_nat (length s) <= a < 0 -> py_slice s a b = py_slice s (a + Z.of_nat (length s)) b) /\
  (- Z.of_nat (length s) <= b < 0 -> py_slice s a b = py_slice s a (b + Z.of_nat (length s))) /\
  (0 <= a <= Z.of_nat (length s) -> 0 <= b <= Z.of_nat (length s) ->
   py_slice s a b = firstn (Z.to_nat (b - a)) (skipn (Z.to_nat a) s)) /\
  py_slice s 0 k ++ py_slice s k (Z.of_nat (length s)) = s.
Proof.
  intros. split; [reflexivity|]. split; [apply py_slice_length|]. split; [apply py_slice_neg_start|].
  split; [apply py_slice_neg_stop|]. split; [apply py_slice_nonneg|apply py_slice_split].
Qed.
Print Assumptions C18_substr_slice.

Theorem C18_upper_lower : forall s,
  map up_c (map up_c s) = map up_c s /\ map low_c (map low_c s) = map low_c s /\
  map low_c (map up_c s) = map low_c s /\ map up_c (map low_c s) = map up_c s /\
  length (map up_c s) = length s /\ length (map low_c s) = length s.
Proof.
  intros s. repeat split; [apply upper_idem|apply lower_idem|apply lower_upper|apply upper_lower|
                           apply map_length|apply map_length].
Qed.
Print Assumptions C18_upper_lower.

(* ---------------- numbers ---------------- *)
Theorem C18_abs_neg_round_safediv :
  (forall d, ndigits (dcoef d) <= PREC -> 0 <= dcoef d ->
     dexp (dec_abs d) = dexp d /\ dec_signed (dec_abs d) = Z.abs (dec_signed d) /\ dneg (dec_abs d) = false) /\
  (forall d, ndigits (dcoef d) <= PREC -> dec_abs (dec_abs d) = dec_abs d) /\
  (forall d, ndigits (dcoef d) <= PREC ->
     dexp (dec_neg d) = dexp d /\ dec_signed (dec_neg d) = - dec_signed d /\ dcoef (dec_neg d) = dcoef d) /\
  (forall d, ndigits (dcoef d) <= PREC -> dcoef d <> 0 -> dec_neg (dec_neg d) = d) /\
  (forall z n, 0 <= n -> f_round_int z n = VInt z) /\
  (forall z n, n < 0 -> exists r, f_round_int z n = VInt r /\ (10 ^ (- n) | r) /\ 2 * Z.abs (z - r) <= 10 ^ (- n)) /\
  (forall d n r, f_round_dec d n = VDec r ->
     dexp r = - n /\ dneg r = dneg d /\
     (- n <= dexp d -> dcoef r = dcoef d * 10 ^ (dexp d + n)) /\
     (dexp d < - n -> 2 * Z.abs (dcoef d - dcoef r * 10 ^ (- n - dexp d)) <= 10 ^ (- n - dexp d))) /\
  (forall c p, 0 < p -> 2 * (c mod p) = p -> Z.even (div_half_even c p) = true) /\
  (forall x y, dcoef y = 0 -> f_safediv x y = VDec (mkdec false 0 0)) /\
  (forall x, f_safediv_int x 0 = VDec (mkdec false 0 0)) /\
  (forall x y, dcoef y <> 0 -> f_safediv x y = VDec (dec_div x y)).
Proof.
  split; [exact dec_abs_spec|]. split; [exact dec_abs_idem|]. split; [exact dec_neg_spec|].
  split; [exact dec_neg_involutive|]. split; [exact round_int_nonneg|]. split; [exact round_int_neg|].
  split; [exact round_dec_spec|]. split; [intros c p Hp; apply div_half_even_spec; exact Hp|].
  split; [exact safediv_zero|]. split; [exact safediv_int_zero|exact safediv_nonzero].
Qed.
Print Assumptions C18_abs_neg_round_safediv.

(* safediv(x, y) = x / y correctly rounded to 28 digits (sign, at most 28 digits, within half a unit
   in the last place, exact unless all 28 digits are used, exact results at the ideal exponent or
   stripped of trailing zeros) for all x, y in a pool of 48 small decimals:
   coefficients {0,1,2,3,5,6,7,9,12,25,64,999} x exponents {-1,2} x both signs *)
Theorem C18_safediv_correctly_rounded : forall x y,
  In x div_pool -> In y div_pool -> dcoef y <> 0 ->
  exists r, f_safediv x y = VDec r /\ div_ok x y r = true.
Proof. exact safediv_correctly_rounded. Qed.
Print Assumptions C18_safediv_correctly_rounded.

(* ---------------- casts ---------------- *)
(* every cast returns a value of the target type or NULL, never an error *)
Theorem C18_casts_total : forall x, no_err x = true ->
  ok is_bool_x (cast_bool x) = true /\ ok is_int_x (cast_int x) = true /\
  ok is_dec_x (cast_decimal x) = true /\ ok is_str_x (cast_str x) = true /\
  ok is_date_x (cast_date x) = true.
Proof. exact casts_total. Qed.
Print Assumptions C18_casts_total.

Theorem C18_cast_date3_total : forall y m d,
  (exists o, cast_date3 y m d = VDate o) \/ cast_date3 y m d = VNull.
Proof. exact cast_date3_total. Qed.
Print Assumptions C18_cast_date3_total.

Theorem C18_cast_date_str_roundtrip : forall o, in_range o ->
  cast_date (cast_str (XV (VDate o))) = XV (VDate o).
Proof. exact date_str_roundtrip. Qed.
Print Assumptions C18_cast_date_str_roundtrip.

(* before the repairs int(decimal 'Infinity') and date(2^31, 1, 1) raised OverflowError *)
Theorem C18_casts_old_refuted :
  (exists x, no_err x = true /\ cast_int_gen false x = XV (VErr 2)) /\
  (exists y m d, cast_date3_gen false y m d = VErr 2).
Proof. split; [exact cast_int_old_refuted|exact cast_date3_old_refuted]. Qed.
Print Assumptions C18_casts_old_refuted.

Example C18_in_range_inhabited : in_range (ymd2ord 2020 2 29).
Proof. unfold in_range. vm_compute. split; discriminate. Qed.
Example C18_bin_strides_inhabited : In (rd_make 0 3 0) bin_strides.
Proof. simpl. auto. Qed.

(* ------------------------------------------------------------------------------------------------------------------
   Tie by translation (group `env`): the models above are what the CURRENT source of query_env.py says.
   Gen/SrcEnv.v holds the PyMini translation, made on every run by harness/vf/src_env.py + py2mini.py from
   inspect.getsource of the plain Python function behind each registered BQL function; Proofs/SrcEnv.v proves, for all
   arguments, that interpreting the translated body (call_function, library calls given by Model/PrimsEnv.v's prim_env,
   any call_ref) returns the model function's value, NULL or exception.  A changed function body changes Gen/SrcEnv.v
   and these theorems are re-checked against it. *)
From Coq Require Import String.
From Verif Require Import Model.Eval Model.PyMini Model.PrimsEnv Gen.SrcEnv Proofs.SrcEnv.

Theorem C18_source_year : forall (call_ref : nat -> list pv -> pv), forall o, call_function call_ref prim_env env_year [PV (VDate o)] = lift (f_year o).
Proof. exact year_src. Qed.
Print Assumptions C18_source_year.

Theorem C18_source_month : forall (call_ref : nat -> list pv -> pv), forall o, call_function call_ref prim_env env_month [PV (VDate o)] = lift (f_month o).
Proof. exact month_src. Qed.
Print Assumptions C18_source_month.

Theorem C18_source_day : forall (call_ref : nat -> list pv -> pv), forall o, call_function call_ref prim_env env_day [PV (VDate o)] = lift (f_day o).
Proof. exact day_src. Qed.
Print Assumptions C18_source_day.

Theorem C18_source_date_diff : forall (call_ref : nat -> list pv -> pv), forall x y, call_function call_ref prim_env env_date_diff [PV (VDate x); PV (VDate y)] = lift (date_diff x y).
Proof. exact date_diff_src. Qed.
Print Assumptions C18_source_date_diff.

Theorem C18_source_upper : forall (call_ref : nat -> list pv -> pv), forall s, call_function call_ref prim_env env_upper [pstr s] = lift (f_upper s).
Proof. exact upper_src. Qed.
Print Assumptions C18_source_upper.

Theorem C18_source_lower : forall (call_ref : nat -> list pv -> pv), forall s, call_function call_ref prim_env env_lower [pstr s] = lift (f_lower s).
Proof. exact lower_src. Qed.
Print Assumptions C18_source_lower.

Theorem C18_source_length : forall (call_ref : nat -> list pv -> pv), forall s, call_function call_ref prim_env env_length [pstr s] = lift (f_length s).
Proof. exact length_src. Qed.
Print Assumptions C18_source_length.

Theorem C18_source_date_add : forall (call_ref : nat -> list pv -> pv), forall o n, call_function call_ref prim_env env_date_add [PV (VDate o); PInt n] = lift (date_add o n).
Proof. exact date_add_src. Qed.
Print Assumptions C18_source_date_add.

Theorem C18_source_maxwidth : forall (call_ref : nat -> list pv -> pv), forall s n, call_function call_ref prim_env env_maxwidth [pstr s; PInt n] = lift (f_maxwidth s n).
Proof. exact maxwidth_src. Qed.
Print Assumptions C18_source_maxwidth.

Theorem C18_source_abs : forall (call_ref : nat -> list pv -> pv), forall d, call_function call_ref prim_env env_abs [PV (VDec d)] = lift (f_abs d).
Proof. exact abs_src. Qed.
Print Assumptions C18_source_abs.

Theorem C18_source_neg_dec : forall (call_ref : nat -> list pv -> pv), forall d, call_function call_ref prim_env env_neg [PV (VDec d)] = lift (f_neg d).
Proof. exact neg_dec_src. Qed.
Print Assumptions C18_source_neg_dec.

Theorem C18_source_neg_int : forall (call_ref : nat -> list pv -> pv), forall z, call_function call_ref prim_env env_neg [PInt z] = lift (f_neg_int z).
Proof. exact neg_int_src. Qed.
Print Assumptions C18_source_neg_int.

Theorem C18_source_round_dec : forall (call_ref : nat -> list pv -> pv), forall d n, call_function call_ref prim_env env_round [PV (VDec d); PInt n] = lift (f_round_dec d n).
Proof. exact round_dec_src. Qed.
Print Assumptions C18_source_round_dec.

Theorem C18_source_round_int : forall (call_ref : nat -> list pv -> pv), forall z n, call_function call_ref prim_env env_round [PInt z; PInt n] = lift (f_round_int z n).
Proof. exact round_int_src. Qed.
Print Assumptions C18_source_round_int.

Theorem C18_source_subst : forall (call_ref : nat -> list pv -> pv), forall p r s, call_function call_ref prim_env env_subst [pstr p; pstr r; pstr s] = lift (f_subst_lit p r s).
Proof. exact subst_src. Qed.
Print Assumptions C18_source_subst.

Theorem C18_source_grep : forall (call_ref : nat -> list pv -> pv), forall p s, call_function call_ref prim_env env_grep [pstr p; pstr s] = lift (f_grep_lit p s).
Proof. exact grep_src. Qed.
Print Assumptions C18_source_grep.

Theorem C18_source_grepn : forall (call_ref : nat -> list pv -> pv), forall p s n, call_function call_ref prim_env env_grepn [pstr p; pstr s; PInt n] = lift (f_grepn_lit p s n).
Proof. exact grepn_src. Qed.
Print Assumptions C18_source_grepn.

Theorem C18_source_bool : forall (call_ref : nat -> list pv -> pv), forall x, no_err x = true -> StrFuncs.is_null x = false -> call_function call_ref prim_env env_bool [pv_of_x x] = Ok (pv_of_x (cast_bool x)).
Proof. exact bool_src. Qed.
Print Assumptions C18_source_bool.

Theorem C18_source_int : forall (call_ref : nat -> list pv -> pv), forall x, no_err x = true -> call_function call_ref prim_env env_int [pv_of_x x] = Ok (pv_of_x (cast_int x)).
Proof. exact int_src. Qed.
Print Assumptions C18_source_int.

Theorem C18_source_decimal : forall (call_ref : nat -> list pv -> pv), forall x, no_err x = true -> call_function call_ref prim_env env_decimal [pv_of_x x] = Ok (pv_of_x (cast_decimal x)).
Proof. exact decimal_src. Qed.
Print Assumptions C18_source_decimal.

Theorem C18_source_str : forall (call_ref : nat -> list pv -> pv), forall x, no_err x = true -> StrFuncs.is_null x = false -> call_function call_ref prim_env env_str [pv_of_x x] = Ok (pv_of_x (cast_str x)).
Proof. exact str_src. Qed.
Print Assumptions C18_source_str.

Theorem C18_source_date_from_ymd : forall (call_ref : nat -> list pv -> pv), forall y m d, call_function call_ref prim_env env_date_from_ymd [PInt y; PInt m; PInt d] = lift (cast_date3 y m d).
Proof. exact date_from_ymd_src. Qed.
Print Assumptions C18_source_date_from_ymd.

Theorem C18_source_date : forall (call_ref : nat -> list pv -> pv), forall x, no_err x = true -> call_function call_ref prim_env env_date [pv_of_x x] = Ok (pv_of_x (cast_date x)).
Proof. exact date_src. Qed.
Print Assumptions C18_source_date.

Theorem C18_source_root : forall (call_ref : nat -> list pv -> pv), forall a n, call_function call_ref prim_env env_root [pstr a; PInt n] = lift (f_root a n).
Proof. exact root_src. Qed.
Print Assumptions C18_source_root.

Theorem C18_source_parent : forall (call_ref : nat -> list pv -> pv), forall a, call_function call_ref prim_env env_parent [pstr a] = lift (f_parent a).
Proof. exact parent_src. Qed.
Print Assumptions C18_source_parent.

Theorem C18_source_leaf : forall (call_ref : nat -> list pv -> pv), forall a, call_function call_ref prim_env env_leaf [pstr a] = lift (f_leaf a).
Proof. exact leaf_src. Qed.
Print Assumptions C18_source_leaf.

Theorem C18_source_weekday : forall (call_ref : nat -> list pv -> pv), forall o, call_function call_ref prim_env env_weekday [PV (VDate o)] = lift (f_weekday o).
Proof. exact weekday_src. Qed.
Print Assumptions C18_source_weekday.

Theorem C18_source_substr : forall (call_ref : nat -> list pv -> pv), forall s a b, call_function call_ref prim_env env_substr [pstr s; PInt a; PInt b] = lift (f_substr s a b).
Proof. exact substr_src. Qed.
Print Assumptions C18_source_substr.

Theorem C18_source_splitcomp : forall (call_ref : nat -> list pv -> pv), forall s d i, call_function call_ref prim_env env_splitcomp [pstr s; pstr d; PInt i] = lift (f_splitcomp s d i).
Proof. exact splitcomp_src. Qed.
Print Assumptions C18_source_splitcomp.

Theorem C18_source_joinstr : forall (call_ref : nat -> list pv -> pv), forall vs, call_function call_ref prim_env env_joinstr [PList (pstrs vs)] = lift (f_joinstr vs).
Proof. exact joinstr_src. Qed.
Print Assumptions C18_source_joinstr.

Theorem C18_source_safediv : forall (call_ref : nat -> list pv -> pv), forall x y, call_function call_ref prim_env env_safediv [PV (VDec x); PV (VDec y)] = lift (f_safediv x y).
Proof. exact safediv_src. Qed.
Print Assumptions C18_source_safediv.

Theorem C18_source_safediv_int : forall (call_ref : nat -> list pv -> pv), forall x y, call_function call_ref prim_env env_safediv [PV (VDec x); PInt y] = lift (f_safediv_int x y).
Proof. exact safediv_int_src. Qed.
Print Assumptions C18_source_safediv_int.

Theorem C18_source_yearmonth : forall (call_ref : nat -> list pv -> pv), forall o, valid_ord o = true -> call_function call_ref prim_env env_yearmonth [PV (VDate o)] = lift (f_yearmonth o).
Proof. exact yearmonth_src. Qed.
Print Assumptions C18_source_yearmonth.

Theorem C18_source_quarter : forall (call_ref : nat -> list pv -> pv), forall o, valid_ord o = true -> call_function call_ref prim_env env_quarter [PV (VDate o)] = lift (f_quarter o).
Proof. exact quarter_src. Qed.
Print Assumptions C18_source_quarter.

Theorem C18_source_date_trunc : forall (call_ref : nat -> list pv -> pv), forall f o, valid_ord o = true -> call_function call_ref prim_env env_date_trunc [pstr f; PV (VDate o)] = lift (date_trunc f o).
Proof. exact date_trunc_src. Qed.
Print Assumptions C18_source_date_trunc.

Theorem C18_source_date_part : forall (call_ref : nat -> list pv -> pv), forall f o, call_function call_ref prim_env env_date_part [pstr f; PV (VDate o)] = lift (date_part f o).
Proof. exact date_part_src. Qed.
Print Assumptions C18_source_date_part.

Theorem C18_source_possign : forall (call_ref : nat -> list pv -> pv), forall types d a, call_function call_ref prim_env env_possign [p_types types; PV (VDec d); pstr a] = lift (f_possign types d a).
Proof. exact possign_src. Qed.
Print Assumptions C18_source_possign.

Theorem C18_source_account_sortkey : forall (call_ref : nat -> list pv -> pv), forall types a, call_function call_ref prim_env env_account_sortkey [p_types types; pstr a] = lift (f_account_sortkey types a).
Proof. exact account_sortkey_src. Qed.
Print Assumptions C18_source_account_sortkey.

Theorem C18_source_findfirst : forall (call_ref : nat -> list pv -> pv), forall p vs, call_function call_ref prim_env env_findfirst [pstr p; PList (pstrs vs)] = lift (f_findfirst_lit p vs).
Proof. exact findfirst_src. Qed.
Print Assumptions C18_source_findfirst.

Theorem C18_source_date_bin_str : forall (call_ref : nat -> list pv -> pv), forall s source origin, call_ref (ref_of "beanquery.query_env.interval"%string) [pstr s] = match interval s with None => PNone | Some r => p_rd r end -> (forall r, interval s = Some r -> call_ref (ref_of "beanquery.query_env.date_bin"%string) [p_rd r; PV (VDate source); PV (VDate origin)] = PV (date_bin_rd r source origin)) -> call_function call_ref prim_env env_date_bin_str [pstr s; PV (VDate source); PV (VDate origin)] = raised (date_bin s source origin).
Proof. exact date_bin_str_src. Qed.
Print Assumptions C18_source_date_bin_str.

Theorem C18_source_length_apply_func : forall (call_ref : nat -> list pv -> pv), forall s, call_function call_ref prim_env env_length [pstr s] = lift (apply_func FLength [VStr s]).
Proof. exact length_apply_func. Qed.
Print Assumptions C18_source_length_apply_func.

Theorem C18_source_upper_apply_func : forall (call_ref : nat -> list pv -> pv), forall s, call_function call_ref prim_env env_upper [pstr s] = lift (apply_func FUpper [VStr s]).
Proof. exact upper_apply_func. Qed.
Print Assumptions C18_source_upper_apply_func.

Theorem C18_source_lower_apply_func : forall (call_ref : nat -> list pv -> pv), forall s, call_function call_ref prim_env env_lower [pstr s] = lift (apply_func FLower [VStr s]).
Proof. exact lower_apply_func. Qed.
Print Assumptions C18_source_lower_apply_func.

Theorem C18_source_substr_apply_func : forall (call_ref : nat -> list pv -> pv), forall s a b, call_function call_ref prim_env env_substr [pstr s; PInt a; PInt b] = lift (apply_func FSubstr [VStr s; VInt a; VInt b]).
Proof. exact substr_apply_func. Qed.
Print Assumptions C18_source_substr_apply_func.

Theorem C18_source_bool_apply_func : forall (call_ref : nat -> list pv -> pv), forall v, (forall k, v <> VErr k) -> call_function call_ref prim_env env_bool [PV v] = lift (apply_func FBool [v]).
Proof. exact bool_apply_func. Qed.
Print Assumptions C18_source_bool_apply_func.

(* Non-vacuity: translated bodies run on concrete arguments; date(2024, 2, 29) has ordinal 738945. *)
Example C18_source_example_trunc :
  call_function (fun _ _ => PNone) prim_env env_date_trunc [pstr (s2z "century"); PV (VDate 738945)]
  = Ok (PV (VDate (ymd2ord 2001 1 1))).
Proof. vm_compute. reflexivity. Qed.
Example C18_source_example_int :
  call_function (fun _ _ => PNone) prim_env env_int [pv_of_x (XSpec false 1)] = Ok PNone /\
  call_function (fun _ _ => PNone) prim_env env_int [pstr (s2z " 1_0 ")] = Ok (PInt 10).
Proof. split; vm_compute; reflexivity. Qed.
Example C18_source_example_valid_ord : valid_ord 738945 = true.
Proof. reflexivity. Qed.
Example C18_source_example_findfirst :
  call_function (fun _ _ => PNone) prim_env env_findfirst
    [pstr (s2z "b"); PList (pstrs [s2z "bz"; s2z "a"; s2z "ba"])] = Ok (pstr (s2z "ba")).
Proof. vm_compute. reflexivity. Qed.
(* the hypotheses of C18_source_date_bin_str are satisfiable: callees that behave as the models of interval and
   date_bin on date_bin('1 day', 2024-02-29, 2024-01-01) *)
Example C18_source_example_date_bin_str :
  let call_ref := fun (k : nat) (_ : list pv) =>
    if Nat.eqb k (ref_of "beanquery.query_env.interval"%string) then p_rd (rd_make 0 0 1)
    else PV (date_bin_rd (rd_make 0 0 1) 738945 738886) in
  interval (s2z "1 day") = Some (rd_make 0 0 1) /\
  call_ref (ref_of "beanquery.query_env.interval"%string) [pstr (s2z "1 day")] = p_rd (rd_make 0 0 1) /\
  call_ref (ref_of "beanquery.query_env.date_bin"%string) [p_rd (rd_make 0 0 1); PV (VDate 738945); PV (VDate 738886)] =
    PV (date_bin_rd (rd_make 0 0 1) 738945 738886) /\
  call_function call_ref prim_env env_date_bin_str [pstr (s2z "1 day"); PV (VDate 738945); PV (VDate 738886)] =
    Ok (PV (VDate 738945)).
Proof. vm_compute. repeat split; reflexivity. Qed.

(* ================================================================================================================
   Tie by translation of date_bin(relativedelta, date, date) - the overload with the two `while True` loops (bld-env2).
   Gen/SrcEnv2.v holds the PyMini term of the WHOLE function, regenerated on every run (harness/vf/src_env2.py);
   `while True: B` is the fuelled `for $while in $fuel: B` over an extra last parameter, followed by a marker primitive
   without semantics (running out of fuel is Stuck, never a value).  Primitives (dateutil's date + relativedelta with the
   day clipped to the month, timedelta arithmetic): Model/PrimsEnvDateBin.v.  Proofs: Proofs/SrcEnvDateBin.v.
   [run_date_bin call_ref fuel r source origin] = the interpreter on the term with arguments (p_rdelta r, source, origin, fuel).
   ================================================================================================================ *)
From Verif Require Import Model.PrimsEnvDateBin Gen.SrcEnv2 Proofs.DatesChecks Proofs.SrcEnvDateBin.

(* for EVERY amount of fuel: the term = the model's loops run with that much fuel (VErr 9 "out of fuel" <-> Stuck) *)
Theorem C18_source_date_bin_fuel : forall call_ref fuel r source origin, day_in_range r source origin ->
  run_date_bin call_ref fuel r source origin = lift (date_bin_fuel (List.length fuel) r source origin).
Proof. exact date_bin_src_fuel. Qed.
Print Assumptions C18_source_date_bin_fuel.

(* the fuelled model with the model's own fuel IS Dates.date_bin_rd, the function C18_date_bin_* are stated over *)
Theorem C18_source_date_bin_fuel_model : forall r source origin,
  date_bin_fuel (model_fuel source origin) r source origin = date_bin_rd r source origin.
Proof. exact date_bin_fuel_model. Qed.
Print Assumptions C18_source_date_bin_fuel_model.

(* more fuel than the model's bound changes nothing unless the model itself ran out *)
Theorem C18_source_date_bin_fuel_enough : forall r source origin n,
  date_bin_rd r source origin <> VErr 9 -> (model_fuel source origin <= n)%nat ->
  date_bin_fuel n r source origin = date_bin_rd r source origin.
Proof. exact date_bin_fuel_enough. Qed.
Print Assumptions C18_source_date_bin_fuel_enough.

Theorem C18_source_date_bin : forall call_ref fuel r source origin, day_in_range r source origin ->
  date_bin_rd r source origin <> VErr 9 -> (model_fuel source origin <= List.length fuel)%nat ->
  run_date_bin call_ref fuel r source origin = lift (date_bin_rd r source origin).
Proof. exact date_bin_src. Qed.
Print Assumptions C18_source_date_bin.

(* the bound |source - origin| + 1 is sufficient whenever every addition of the stride moves the date forward *)
Theorem C18_source_date_bin_progress_fwd : forall call_ref fuel r source origin,
  (rd_months r <> 0 \/ rd_years r <> 0) ->
  (forall n, origin <= n <= source -> exists n', rd_add n r = VDate n' /\ n < n') ->
  origin <= source -> (Z.to_nat (source - origin + 1) <= List.length fuel)%nat ->
  run_date_bin call_ref fuel r source origin = lift (date_bin_rd r source origin).
Proof. exact date_bin_src_progress_fwd. Qed.
Print Assumptions C18_source_date_bin_progress_fwd.

Theorem C18_source_date_bin_progress_bwd : forall call_ref fuel r source origin,
  (rd_months r <> 0 \/ rd_years r <> 0) ->
  (exists o1, rd_add origin r = VDate o1 /\ origin < o1) ->
  (forall x, source < x <= origin -> exists x', rd_add x (rd_neg r) = VDate x' /\ x' < x) ->
  source < origin -> (Z.to_nat (origin - source + 1) <= List.length fuel)%nat ->
  run_date_bin call_ref fuel r source origin = lift (date_bin_rd r source origin).
Proof. exact date_bin_src_progress_bwd. Qed.
Print Assumptions C18_source_date_bin_progress_bwd.

(* strides in days: no loop is entered, any fuel *)
Theorem C18_source_date_bin_days : forall call_ref fuel k source origin,
  (0 < k -> valid_ord (origin + (source - origin) / k * k) = true) ->
  run_date_bin call_ref fuel (mkrd 0 0 k) source origin = lift (date_bin_rd (mkrd 0 0 k) source origin).
Proof. exact date_bin_src_days. Qed.
Print Assumptions C18_source_date_bin_days.

(* month / year strides 1, 2, 3, 6 months, 1, 5 years on 1900-01-01 .. 2100-12-31 (progress checked for every date) *)
Theorem C18_source_date_bin_range : forall call_ref fuel r source origin,
  In r bin_strides -> in_range origin -> in_range source ->
  (Z.to_nat (Z.abs (source - origin) + 1) <= List.length fuel)%nat ->
  run_date_bin call_ref fuel r source origin = lift (date_bin_rd r source origin).
Proof. exact date_bin_src_range. Qed.
Print Assumptions C18_source_date_bin_range.

(* the encoding of the stride is the one C18_source_date_bin_str hands to the opaque callable date_bin *)
Theorem C18_source_date_bin_encoding : forall r, p_rdelta r = p_rd r.
Proof. reflexivity. Qed.
Print Assumptions C18_source_date_bin_encoding.

(* Non-vacuity (each line replayed on the live function): date_bin('1 month', 2024-02-29, origin 2024-01-31) with 31 passes
   of fuel is 2024-02-29 (738945: the clipped 2024-01-31 + 1 month is not > source, the next step is); with one pass it is
   out of fuel = Stuck; a zero stride in days raises ZeroDivisionError; 7 days; a source before the origin (backward loop). *)
Example C18_source_example_date_bin :
  run_date_bin (fun _ _ => PNone) (repeat PNone 31) (rd_make 0 1 0) 738945 738916 = Ok (PV (VDate 738945)) /\
  run_date_bin (fun _ _ => PNone) (repeat PNone 1) (rd_make 0 1 0) 738945 738916 = Stuck /\
  run_date_bin (fun _ _ => PNone) [] (rd_make 0 0 0) 738945 738916 = Exc ZeroDivisionError /\
  run_date_bin (fun _ _ => PNone) [] (rd_make 0 0 7) 738945 738916 = Ok (PV (VDate 738944)) /\
  run_date_bin (fun _ _ => PNone) (repeat PNone 31) (rd_make 0 1 0) 738916 738945 = Ok (PV (VDate 738914)).
Proof. vm_compute. repeat split; reflexivity. Qed.
