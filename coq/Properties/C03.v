(* C03 ORDER BY / DISTINCT / LIMIT. Statements only; proofs in Proofs/OrderProofs.v
   (generic stable-sort theory in Base/StableSort.v). *)
From Coq Require Import ZArith List Bool Permutation.
Import ListNotations.
From Verif Require Import Base.StableSort Base.PyValue Proofs.PyValueProofs Model.Order Proofs.OrderProofs.
(* imported before the C03_source_* theorems; required here so that coqdep sees the dependency on the generated file *)
From Verif Require Model.PyMini Model.PrimsExec Gen.SrcExec Proofs.SrcExec.
Open Scope Z_scope.

(* The executor's multi-pass sort (one list.sort per maximal run of equal
   direction of the reversed ORDER BY list, tuple keys, reverse=) equals ONE
   stable sort under the lexicographic order in which every key has its own
   direction -- for every ORDER BY list and every table. *)
Theorem C03_multipass_lex : forall (spec : list (nat * bool)) (rows : list row),
  order_rows spec rows = isort (spec_le spec) rows.
Proof. exact order_rows_lex. Qed.
Print Assumptions C03_multipass_lex.

Theorem C03_perm : forall spec rows, Permutation rows (order_rows spec rows).
Proof. exact order_rows_perm. Qed.
Print Assumptions C03_perm.

Theorem C03_sorted : forall spec rows, sorted (spec_le spec) (order_rows spec rows).
Proof. exact order_rows_sorted. Qed.
Print Assumptions C03_sorted.

(* rows that tie on every key keep their prior relative order *)
Theorem C03_stable : forall spec rows a,
  filter (eqv (spec_le spec) a) (order_rows spec rows) = filter (eqv (spec_le spec) a) rows.
Proof. exact order_rows_stable. Qed.
Print Assumptions C03_stable.

(* sortedness + stability determine the result uniquely (so modelling Timsort by
   insertion sort loses nothing) *)
Theorem C03_unique : forall spec rows l,
  sorted (spec_le spec) l ->
  (forall a, filter (eqv (spec_le spec) a) l = filter (eqv (spec_le spec) a) rows) ->
  l = order_rows spec rows.
Proof. exact order_rows_unique. Qed.
Print Assumptions C03_unique.

Theorem C03_order_total : forall spec, total (spec_le spec).
Proof. exact spec_le_total. Qed.
Print Assumptions C03_order_total.
Theorem C03_order_trans : forall spec, trans (spec_le spec).
Proof. exact spec_le_trans. Qed.
Print Assumptions C03_order_trans.

Theorem C03_null_first_asc : forall i t a b,
  cell i a = VNull -> cell i b <> VNull -> spec_le ((i, false) :: t) b a = false.
Proof. exact null_first_asc. Qed.
Print Assumptions C03_null_first_asc.

Theorem C03_null_last_desc : forall i t a b,
  cell i a = VNull -> cell i b <> VNull -> spec_le ((i, true) :: t) a b = false.
Proof. exact null_last_desc. Qed.
Print Assumptions C03_null_last_desc.

(* DISTINCT keeps a row exactly when no equal visible row precedes it. *)
Theorem C03_distinct_snoc : forall l x,
  uniquify (l ++ [x]) = uniquify l ++ (if existsb (row_eq x) l then [] else [x]).
Proof. exact uniquify_snoc. Qed.
Print Assumptions C03_distinct_snoc.

Theorem C03_distinct_nodup : forall l, ForallOrdPairs (fun a b => row_eq a b = false) (uniquify l).
Proof. exact uniquify_nodup. Qed.
Print Assumptions C03_distinct_nodup.

Theorem C03_distinct_complete : forall l x, In x l -> exists y, In y (uniquify l) /\ row_eq x y = true.
Proof. exact uniquify_complete. Qed.
Print Assumptions C03_distinct_complete.

Theorem C03_limit : forall n l, 0 <= n ->
  limit (Some n) l = firstn (Nat.min (Z.to_nat n) (length l)) l.
Proof. exact limit_spec. Qed.
Print Assumptions C03_limit.

(* order of application: ORDER BY, projection to the visible targets, DISTINCT, LIMIT *)
Theorem C03_pipeline : forall spec vis distinct lim rows,
  post (Some spec) vis distinct lim rows =
  limit lim ((if distinct then uniquify else fun l => l) (map (project vis) (isort (spec_le spec) rows))).
Proof. exact post_pipeline. Qed.
Print Assumptions C03_pipeline.

Example C03_example :
  post (Some [(1%nat, true); (0%nat, false)]) [0%nat] true (Some 2)
       [[VInt 3; VNull]; [VInt 1; VInt 5]; [VInt 2; VInt 5]; [VInt 1; VInt 5]; [VInt 0; VNull]]
  = [[VInt 1]; [VInt 2]].
Proof. reflexivity. Qed.

(* On the executor: for aggregate and non-aggregate queries alike, the result is LIMIT (DISTINCT (projection to the
   visible targets (ONE stable sort of the unordered rows by the directed lexicographic key order))). *)
From Verif Require Import Model.Eval Model.Exec.
Theorem C03_exec_pipeline : forall (q : query) (spec : list (nat * bool)) (table : list row),
  q_order q = Some spec ->
  exec q table =
  limit (q_limit q) ((if q_distinct q then uniquify else fun l => l)
                       (map (project (q_vis q)) (isort (spec_le spec) (exec_rows q table)))).
Proof. intros q spec table H. unfold exec. rewrite H. apply post_pipeline. Qed.
Print Assumptions C03_exec_pipeline.

(* ---------------------------------------------------------------------------------------------------------------
   Tie by translation (PYMINI.md): Gen/SrcExec.v is regenerated on every run from the SOURCE of
   beanquery/query_execute.py (uniquify, nullitemgetter's inner functions, the ORDER BY .. LIMIT tail of
   execute_select selected by structure).  Interpreting those terms equals, for ALL inputs, the Model/Order.v
   functions the theorems above are about.  Library calls have the semantics of Model/PrimsExec.v (trusted). *)
From Coq Require Import String.
Import Verif.Model.PyMini Verif.Model.PrimsExec Verif.Gen.SrcExec Verif.Proofs.SrcExec.

(* uniquify: the translated generator function yields Order.uniquify of the rows *)
Theorem C03_source_uniquify : forall (call_ref : nat -> list pv -> pv) (prim : string -> list pv -> res pv),
  prim "builtins.set"%string [] = Ok (PList []) ->
  forall rows : list row,
  call_fun call_ref prim exec_uniquify [PList (map row_pv rows)] = Ok (PList (map row_pv (uniquify rows))).
Proof. exact uniquify_src. Qed.
Print Assumptions C03_source_uniquify.

(* nullitemgetter(i) and nullitemgetter(i, j, ..): the key of a row is its cells, None replaced by the NULL sentinel *)
Theorem C03_source_nullitemgetter_single : forall (call_ref : nat -> list pv -> pv) (r : row) (i : nat),
  (i < List.length r)%nat ->
  call_fun call_ref prims_base exec_nig_single [idx_pv i; rowl_pv r] = Ok (key_pv (cell i r)).
Proof. exact nig_single_src. Qed.
Print Assumptions C03_source_nullitemgetter_single.

Theorem C03_source_nullitemgetter_multi : forall (call_ref : nat -> list pv -> pv) (r : row) (idxs : list nat),
  (forall i, In i idxs -> (i < List.length r)%nat) ->
  call_fun call_ref prims_base exec_nig_multi [PTuple (map idx_pv idxs); rowl_pv r] =
  Ok (PTuple (map (fun i => key_pv (cell i r)) idxs)).
Proof. exact nig_multi_src. Qed.
Print Assumptions C03_source_nullitemgetter_multi.

(* rows.sort(key=nullitemgetter( *idxs ), reverse=d), the key function being the translated source, is sort_pass *)
Theorem C03_source_sort_pass : forall (call_ref : nat -> list pv -> pv) (idxs : list nat) (d : bool) (rows : list row),
  idxs <> [] -> (forall r, In r rows -> forall i, In i idxs -> (i < List.length r)%nat) ->
  sort_prim (apply_key call_ref exec_nig_single exec_nig_multi 1) (map rowl_pv rows)
            (partial_clo 1 (map idx_pv idxs)) d =
  Ok (PTuple [PList (map rowl_pv (sort_pass idxs d rows)); PNone]).
Proof. exact sort_prim_src. Qed.
Print Assumptions C03_source_sort_pass.

(* the whole tail `if order_spec is not None: .. return result_types, list(rows)`: Order.post, for every ORDER BY list
   (or none), result_indexes, DISTINCT flag, LIMIT and rows whose width covers the indexes.  Opaque callable 1 is
   nullitemgetter (calling it yields a closure value), 2 is uniquify (linked to its own translation). *)
Theorem C03_source_order_tail : forall (call_ref : nat -> list pv -> pv),
  (forall args, call_ref 1%nat args = partial_clo 1 args) ->
  (forall l, call_ref 2%nat [PList l] =
             res_pv (call_fun call_ref (prims_exec call_ref exec_nig_single exec_nig_multi 1) exec_uniquify [PList l])) ->
  forall (spec : option (list (nat * bool))) (vis : list nat) (distinct : bool) (lim : option Z)
         (rows : list row) (tbl rt : pv),
  (forall r, In r rows -> forall i,
     In i vis \/ match spec with Some sp => In i (map fst sp) | None => False end -> (i < List.length r)%nat) ->
  (forall n, lim = Some n -> 0 <= n) ->
  call_fun call_ref (prims_exec call_ref exec_nig_single exec_nig_multi 1) exec_order_tail
    [spec_pv spec; PList (map rowl_pv rows); PList (map idx_pv vis); query_obj tbl (PBool distinct) (lim_pv lim); rt] =
  Ok (PTuple [rt; PList (map row_pv (post spec vis distinct (clip_limit lim) rows))]).
Proof. exact order_tail_src. Qed.
Print Assumptions C03_source_order_tail.

(* ... hence what the SOURCE computes is one stable lexicographic sort, projection, DISTINCT, LIMIT *)
Theorem C03_source_order_tail_lex : forall (call_ref : nat -> list pv -> pv),
  (forall args, call_ref 1%nat args = partial_clo 1 args) ->
  (forall l, call_ref 2%nat [PList l] =
             res_pv (call_fun call_ref (prims_exec call_ref exec_nig_single exec_nig_multi 1) exec_uniquify [PList l])) ->
  forall (sp : list (nat * bool)) (vis : list nat) (distinct : bool) (lim : option Z) (rows : list row) (tbl rt : pv),
  (forall r, In r rows -> forall i, In i vis \/ In i (map fst sp) -> (i < List.length r)%nat) ->
  (forall n, lim = Some n -> 0 <= n) ->
  call_fun call_ref (prims_exec call_ref exec_nig_single exec_nig_multi 1) exec_order_tail
    [spec_pv (Some sp); PList (map rowl_pv rows); PList (map idx_pv vis); query_obj tbl (PBool distinct) (lim_pv lim); rt] =
  Ok (PTuple [rt; PList (map row_pv
        (limit (clip_limit lim) ((if distinct then uniquify else fun l => l)
                                   (map (project vis) (isort (spec_le sp) rows)))))]).
Proof. exact order_tail_lex_src. Qed.
Print Assumptions C03_source_order_tail_lex.

Theorem C03_source_limit_clip : forall lim, (forall n, lim = Some n -> n <= sys_maxsize) -> clip_limit lim = lim.
Proof. exact clip_limit_small. Qed.
Print Assumptions C03_source_limit_clip.

(* the linking hypotheses are satisfiable ... *)
Example C03_source_linking_satisfiable :
  (forall args, demo_ref 1%nat args = partial_clo 1 args) /\
  (forall l, demo_ref 2%nat [PList l] =
             res_pv (call_fun demo_ref (prims_exec demo_ref exec_nig_single exec_nig_multi 1) exec_uniquify [PList l])).
Proof. exact demo_ref_linked. Qed.

(* ... and the translated tail really runs: the data of C03_example, executed by the interpreter on the generated term *)
Example C03_source_example :
  call_fun demo_ref (prims_exec demo_ref exec_nig_single exec_nig_multi 1) exec_order_tail
    [spec_pv (Some [(1%nat, true); (0%nat, false)]);
     PList (map rowl_pv [[VInt 3; VNull]; [VInt 1; VInt 5]; [VInt 2; VInt 5]; [VInt 1; VInt 5]; [VInt 0; VNull]]);
     PList [idx_pv 0]; query_obj PNone (PBool true) (PInt 2); PNone]
  = Ok (PTuple [PNone; PList [row_pv [VInt 1]; row_pv [VInt 2]]]).
Proof. vm_compute. reflexivity. Qed.
