(* C03 ORDER BY / DISTINCT / LIMIT. Statements only; proofs in Proofs/OrderProofs.v
   (generic stable-sort theory in Base/StableSort.v). *)
From Coq Require Import ZArith List Bool Permutation.
Import ListNotations.
From Verif Require Import Base.StableSort Base.PyValue Proofs.PyValueProofs Model.Order Proofs.OrderProofs.
Open Scope Z_scope.

(* The executor's multi-pass sort (one list.sort per maximal run of equal
   direction of the reversed ORDER BY list, tuple keys, reverse=) equals ONE
   stable sort under the lexicographic order in which every key has its own
   direction -- for every ORDER BY list and every table. *)
Theorem C03_multipass_lex : forall (spec : list (nat * bool)) (rows : list row),
  order_rows spec rows = isort (spec_le spec) rows.
Proof. exact order_rows_lex. Qed.
Print Assumptions C03_multipass_lex.

Theorem C03_perm : forall spec rows, Permutation rows (order_rows spec rows).
Proof. exact order_rows_perm. Qed.
Print Assumptions C03_perm.

Theorem C03_sorted : forall spec rows, sorted (spec_le spec) (order_rows spec rows).
Proof. exact order_rows_sorted. Qed.
Print Assumptions C03_sorted.

(* rows that tie on every key keep their prior relative order *)
Theorem C03_stable : forall spec rows a,
  filter (eqv (spec_le spec) a) (order_rows spec rows) = filter (eqv (spec_le spec) a) rows.
Proof. exact order_rows_stable. Qed.
Print Assumptions C03_stable.

(* sortedness + stability determine the result uniquely (so modelling Timsort by
   insertion sort loses nothing) *)
Theorem C03_unique : forall spec rows l,
  sorted (spec_le spec) l ->
  (forall a, filter (eqv (spec_le spec) a) l = filter (eqv (spec_le spec) a) rows) ->
  l = order_rows spec rows.
Proof. exact order_rows_unique. Qed.
Print Assumptions C03_unique.

Theorem C03_order_total : forall spec, total (spec_le spec).
Proof. exact spec_le_total. Qed.
Print Assumptions C03_order_total.
Theorem C03_order_trans : forall spec, trans (spec_le spec).
Proof. exact spec_le_trans. Qed.
Print Assumptions C03_order_trans.

Theorem C03_null_first_asc : forall i t a b,
  cell i a = VNull -> cell i b <> VNull -> spec_le ((i, false) :: t) b a = false.
Proof. exact null_first_asc. Qed.
Print Assumptions C03_null_first_asc.

Theorem C03_null_last_desc : forall i t a b,
  cell i a = VNull -> cell i b <> VNull -> spec_le ((i, true) :: t) a b = false.
Proof. exact null_last_desc. Qed.
Print Assumptions C03_null_last_desc.

(* DISTINCT keeps a row exactly when no equal visible row precedes it. *)
Theorem C03_distinct_snoc : forall l x,
  uniquify (l ++ [x]) = uniquify l ++ (if existsb (row_eq x) l then [] else [x]).
Proof. exact uniquify_snoc. Qed.
Print Assumptions C03_distinct_snoc.

Theorem C03_distinct_nodup : forall l, ForallOrdPairs (fun a b => row_eq a b = false) (uniquify l).
Proof. exact uniquify_nodup. Qed.
Print Assumptions C03_distinct_nodup.

Theorem C03_distinct_complete : forall l x, In x l -> exists y, In y (uniquify l) /\ row_eq x y = true.
Proof. exact uniquify_complete. Qed.
Print Assumptions C03_distinct_complete.

Theorem C03_limit : forall n l, 0 <= n ->
  limit (Some n) l = firstn (Nat.min (Z.to_nat n) (length l)) l.
Proof. exact limit_spec. Qed.
Print Assumptions C03_limit.

(* order of application: ORDER BY, projection to the visible targets, DISTINCT, LIMIT *)
Theorem C03_pipeline : forall spec vis distinct lim rows,
  post (Some spec) vis distinct lim rows =
  limit lim ((if distinct then uniquify else fun l => l) (map (project vis) (isort (spec_le spec) rows))).
Proof. exact post_pipeline. Qed.
Print Assumptions C03_pipeline.

Example C03_example :
  post (Some [(1%nat, true); (0%nat, false)]) [0%nat] true (Some 2)
       [[VInt 3; VNull]; [VInt 1; VInt 5]; [VInt 2; VInt 5]; [VInt 1; VInt 5]; [VInt 0; VNull]]
  = [[VInt 1]; [VInt 2]].
Proof. reflexivity. Qed.

(* On the executor: for aggregate and non-aggregate queries alike, the result is LIMIT (DISTINCT (projection to the
   visible targets (ONE stable sort of the unordered rows by the directed lexicographic key order))). *)
From Verif Require Import Model.Eval Model.Exec.
Theorem C03_exec_pipeline : forall (q : query) (spec : list (nat * bool)) (table : list row),
  q_order q = Some spec ->
  exec q table =
  limit (q_limit q) ((if q_distinct q then uniquify else fun l => l)
                       (map (project (q_vis q)) (isort (spec_le spec) (exec_rows q table)))).
Proof. intros q spec table H. unfold exec. rewrite H. apply post_pipeline. Qed.
Print Assumptions C03_exec_pipeline.
