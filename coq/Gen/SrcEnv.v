(* GENERATED on every run by harness/vf/py2mini.py from the source of the imported beanquery objects
   (inspect.getsource + ast).  Do not edit.  One PyMini term per translated function; `refs` names the opaque
   callables the bodies mention (XConst (PRef k)). *)
From Coq Require Import String ZArith List.
Import ListNotations.
From Verif Require Import Base.PyValue Model.PyMini.
Open Scope string_scope.
Open Scope Z_scope.

(* beanquery.query_env.year (BQL year) *)
Definition env_year : fdef :=
  {| f_params := ["x"];
     f_body := [(SReturn (Some (XAttr (XName "x") "year")))];
     f_gen := false |}.

(* beanquery.query_env.month (BQL month) *)
Definition env_month : fdef :=
  {| f_params := ["x"];
     f_body := [(SReturn (Some (XAttr (XName "x") "month")))];
     f_gen := false |}.

(* beanquery.query_env.day (BQL day) *)
Definition env_day : fdef :=
  {| f_params := ["x"];
     f_body := [(SReturn (Some (XAttr (XName "x") "day")))];
     f_gen := false |}.

(* beanquery.query_env.yearmonth (BQL yearmonth) *)
Definition env_yearmonth : fdef :=
  {| f_params := ["x"];
     f_body := [(SReturn (Some (XPrim "datetime.date" [(XAttr (XName "x") "year"); (XAttr (XName "x") "month"); (XConst (PInt 1))])))];
     f_gen := false |}.

(* beanquery.query_env.quarter (BQL quarter) *)
Definition env_quarter : fdef :=
  {| f_params := ["x"];
     f_body := [(SReturn (Some (XCallMethod (XConst (PV (VStr [123; 58; 48; 52; 100; 125; 45; 81; 123; 58; 49; 100; 125]))) "format" [(XAttr (XName "x") "year"); (XBin OAdd (XBin OFloorDiv (XBin OSub (XAttr (XName "x") "month") (XConst (PInt 1))) (XConst (PInt 3))) (XConst (PInt 1)))])))];
     f_gen := false |}.

(* beanquery.query_env.weekday_ (BQL weekday) *)
Definition env_weekday : fdef :=
  {| f_params := ["x"];
     f_body := [(SReturn (Some (XCallMethod (XName "x") "strftime" [(XConst (PV (VStr [37; 97])))])))];
     f_gen := false |}.

(* beanquery.query_env.date_diff (BQL date_diff) *)
Definition env_date_diff : fdef :=
  {| f_params := ["x"; "y"];
     f_body := [(SReturn (Some (XAttr (XBin OSub (XName "x") (XName "y")) "days")))];
     f_gen := false |}.

(* beanquery.query_env.date_add (BQL date_add) *)
Definition env_date_add : fdef :=
  {| f_params := ["x"; "y"];
     f_body := [(SReturn (Some (XBin OAdd (XName "x") (XPrim "datetime.timedelta:days" [(XName "y")]))))];
     f_gen := false |}.

(* beanquery.query_env.date_trunc (BQL date_trunc) *)
Definition env_date_trunc : fdef :=
  {| f_params := ["field"; "x"];
     f_body := [(SIf (XCompare (XName "field") [(CEq, (XConst (PV (VStr [119; 101; 101; 107]))))]) [(SReturn (Some (XBin OSub (XName "x") (XPrim "dateutil.relativedelta.relativedelta:weekday" [(XPrim "dateutil._common.weekday" [(XConst (PInt 0)); (XConst (PInt (-1)))])]))))] []); (SIf (XCompare (XName "field") [(CEq, (XConst (PV (VStr [109; 111; 110; 116; 104]))))]) [(SReturn (Some (XPrim "datetime.date" [(XAttr (XName "x") "year"); (XAttr (XName "x") "month"); (XConst (PInt 1))])))] []); (SIf (XCompare (XName "field") [(CEq, (XConst (PV (VStr [113; 117; 97; 114; 116; 101; 114]))))]) [(SReturn (Some (XPrim "datetime.date" [(XAttr (XName "x") "year"); (XBin OSub (XAttr (XName "x") "month") (XBin OMod (XBin OSub (XAttr (XName "x") "month") (XConst (PInt 1))) (XConst (PInt 3)))); (XConst (PInt 1))])))] []); (SIf (XCompare (XName "field") [(CEq, (XConst (PV (VStr [121; 101; 97; 114]))))]) [(SReturn (Some (XPrim "datetime.date" [(XAttr (XName "x") "year"); (XConst (PInt 1)); (XConst (PInt 1))])))] []); (SIf (XCompare (XName "field") [(CEq, (XConst (PV (VStr [100; 101; 99; 97; 100; 101]))))]) [(SReturn (Some (XPrim "datetime.date" [(XBin OSub (XAttr (XName "x") "year") (XBin OMod (XAttr (XName "x") "year") (XConst (PInt 10)))); (XConst (PInt 1)); (XConst (PInt 1))])))] []); (SIf (XCompare (XName "field") [(CEq, (XConst (PV (VStr [99; 101; 110; 116; 117; 114; 121]))))]) [(SReturn (Some (XPrim "datetime.date" [(XBin OSub (XAttr (XName "x") "year") (XBin OMod (XBin OSub (XAttr (XName "x") "year") (XConst (PInt 1))) (XConst (PInt 100)))); (XConst (PInt 1)); (XConst (PInt 1))])))] []); (SIf (XCompare (XName "field") [(CEq, (XConst (PV (VStr [109; 105; 108; 108; 101; 110; 110; 105; 117; 109]))))]) [(SReturn (Some (XPrim "datetime.date" [(XBin OSub (XAttr (XName "x") "year") (XBin OMod (XBin OSub (XAttr (XName "x") "year") (XConst (PInt 1))) (XConst (PInt 1000)))); (XConst (PInt 1)); (XConst (PInt 1))])))] []); (SReturn (Some (XConst PNone)))];
     f_gen := false |}.

(* beanquery.query_env.date_part (BQL date_part) *)
Definition env_date_part : fdef :=
  {| f_params := ["field"; "x"];
     f_body := [(SIf (XBoolOp false [(XCompare (XName "field") [(CEq, (XConst (PV (VStr [119; 101; 101; 107; 100; 97; 121]))))]); (XCompare (XName "field") [(CEq, (XConst (PV (VStr [100; 111; 119]))))])]) [(SReturn (Some (XCallMethod (XName "x") "weekday" [])))] []); (SIf (XBoolOp false [(XCompare (XName "field") [(CEq, (XConst (PV (VStr [105; 115; 111; 119; 101; 101; 107; 100; 97; 121]))))]); (XCompare (XName "field") [(CEq, (XConst (PV (VStr [105; 115; 111; 100; 111; 119]))))])]) [(SReturn (Some (XCallMethod (XName "x") "isoweekday" [])))] []); (SIf (XCompare (XName "field") [(CEq, (XConst (PV (VStr [119; 101; 101; 107]))))]) [(SReturn (Some (XIndex (XCallMethod (XName "x") "isocalendar" []) (XConst (PInt 1)))))] []); (SIf (XCompare (XName "field") [(CEq, (XConst (PV (VStr [109; 111; 110; 116; 104]))))]) [(SReturn (Some (XAttr (XName "x") "month")))] []); (SIf (XCompare (XName "field") [(CEq, (XConst (PV (VStr [113; 117; 97; 114; 116; 101; 114]))))]) [(SReturn (Some (XBin OAdd (XBin OFloorDiv (XBin OSub (XAttr (XName "x") "month") (XConst (PInt 1))) (XConst (PInt 3))) (XConst (PInt 1)))))] []); (SIf (XCompare (XName "field") [(CEq, (XConst (PV (VStr [121; 101; 97; 114]))))]) [(SReturn (Some (XAttr (XName "x") "year")))] []); (SIf (XCompare (XName "field") [(CEq, (XConst (PV (VStr [105; 115; 111; 121; 101; 97; 114]))))]) [(SReturn (Some (XIndex (XCallMethod (XName "x") "isocalendar" []) (XConst (PInt 0)))))] []); (SIf (XCompare (XName "field") [(CEq, (XConst (PV (VStr [100; 101; 99; 97; 100; 101]))))]) [(SReturn (Some (XBin OFloorDiv (XAttr (XName "x") "year") (XConst (PInt 10)))))] []); (SIf (XCompare (XName "field") [(CEq, (XConst (PV (VStr [99; 101; 110; 116; 117; 114; 121]))))]) [(SReturn (Some (XBin OAdd (XBin OFloorDiv (XBin OSub (XAttr (XName "x") "year") (XConst (PInt 1))) (XConst (PInt 100))) (XConst (PInt 1)))))] []); (SIf (XCompare (XName "field") [(CEq, (XConst (PV (VStr [109; 105; 108; 108; 101; 110; 110; 105; 117; 109]))))]) [(SReturn (Some (XBin OAdd (XBin OFloorDiv (XBin OSub (XAttr (XName "x") "year") (XConst (PInt 1))) (XConst (PInt 1000))) (XConst (PInt 1)))))] []); (SIf (XCompare (XName "field") [(CEq, (XConst (PV (VStr [101; 112; 111; 99; 104]))))]) [(SReturn (Some (XPrim "builtins.int" [(XCallMethod (XBin OSub (XName "x") (XPrim "datetime.date" [(XConst (PInt 1970)); (XConst (PInt 1)); (XConst (PInt 1))])) "total_seconds" [])])))] []); (SReturn (Some (XConst PNone)))];
     f_gen := false |}.

(* beanquery.query_env.date_from_ymd (BQL date) *)
Definition env_date_from_ymd : fdef :=
  {| f_params := ["year"; "month"; "day"];
     f_body := [(STry [(SReturn (Some (XPrim "datetime.date" [(XName "year"); (XName "month"); (XName "day")])))] [5; 6] [(SReturn (Some (XConst PNone)))])];
     f_gen := false |}.

(* beanquery.query_env.date_ (BQL date) *)
Definition env_date : fdef :=
  {| f_params := ["x"];
     f_body := [(SIf (XPrim "builtins.isinstance" [(XName "x"); (XConst (PRef 0))]) [(SReturn (Some (XName "x")))] []); (SIf (XPrim "builtins.isinstance" [(XName "x"); (XConst (PRef 1))]) [(STry [(SReturn (Some (XCallMethod (XPrim "datetime.datetime.strptime" [(XName "x"); (XConst (PV (VStr [37; 89; 45; 37; 109; 45; 37; 100])))]) "date" [])))] [5] [SPass])] []); (SReturn (Some (XConst PNone)))];
     f_gen := false |}.

(* beanquery.query_env.int_ (BQL int) *)
Definition env_int : fdef :=
  {| f_params := ["x"];
     f_body := [(STry [(SReturn (Some (XPrim "builtins.int" [(XName "x")])))] [5; 1; 6] [(SReturn (Some (XConst PNone)))])];
     f_gen := false |}.

(* beanquery.query_env.decimal_ (BQL decimal) *)
Definition env_decimal : fdef :=
  {| f_params := ["x"];
     f_body := [(STry [(SReturn (Some (XPrim "decimal.Decimal" [(XName "x")])))] [5; 1; 9] [(SReturn (Some (XConst PNone)))])];
     f_gen := false |}.

(* beanquery.query_env.str_ (BQL str) *)
Definition env_str : fdef :=
  {| f_params := ["x"];
     f_body := [(SIf (XCompare (XName "x") [(CIs, (XConst (PBool true)))]) [(SReturn (Some (XConst (PV (VStr [84; 82; 85; 69])))))] []); (SIf (XCompare (XName "x") [(CIs, (XConst (PBool false)))]) [(SReturn (Some (XConst (PV (VStr [70; 65; 76; 83; 69])))))] []); (SReturn (Some (XPrim "builtins.str" [(XName "x")])))];
     f_gen := false |}.

(* beanquery.query_env.bool_ (BQL bool) *)
Definition env_bool : fdef :=
  {| f_params := ["x"];
     f_body := [(SReturn (Some (XPrim "builtins.bool" [(XName "x")])))];
     f_gen := false |}.

(* beanquery.query_env.neg (BQL neg) *)
Definition env_neg : fdef :=
  {| f_params := ["x"];
     f_body := [(SReturn (Some (XNeg (XName "x"))))];
     f_gen := false |}.

(* beanquery.query_env.abs_ (BQL abs) *)
Definition env_abs : fdef :=
  {| f_params := ["x"];
     f_body := [(SReturn (Some (XPrim "builtins.abs" [(XName "x")])))];
     f_gen := false |}.

(* beanquery.query_env.safediv (BQL safediv) *)
Definition env_safediv : fdef :=
  {| f_params := ["x"; "y"];
     f_body := [(SIf (XCompare (XName "y") [(CEq, (XConst (PInt 0)))]) [(SReturn (Some (XConst (PV (VDec (mkdec false 0 0))))))] []); (SReturn (Some (XBin ODiv (XName "x") (XName "y"))))];
     f_gen := false |}.

(* beanquery.query_env.round_ (BQL round) *)
Definition env_round : fdef :=
  {| f_params := ["num"; "digits"];
     f_body := [(SReturn (Some (XPrim "builtins.round" [(XName "num"); (XName "digits")])))];
     f_gen := false |}.
Definition env_round_defaults : list expr := [(XConst (PInt 0))].

(* beanquery.query_env.length (BQL length) *)
Definition env_length : fdef :=
  {| f_params := ["x"];
     f_body := [(SReturn (Some (XLen (XName "x"))))];
     f_gen := false |}.

(* beanquery.query_env.substr (BQL substr) *)
Definition env_substr : fdef :=
  {| f_params := ["string"; "start"; "end"];
     f_body := [(SReturn (Some (XSlice (XName "string") (Some (XName "start")) (Some (XName "end")))))];
     f_gen := false |}.

(* beanquery.query_env.splitcomp (BQL splitcomp) *)
Definition env_splitcomp : fdef :=
  {| f_params := ["string"; "delim"; "index"];
     f_body := [(SReturn (Some (XIndex (XCallMethod (XName "string") "split" [(XName "delim")]) (XName "index"))))];
     f_gen := false |}.

(* beanquery.query_env.maxwidth (BQL maxwidth) *)
Definition env_maxwidth : fdef :=
  {| f_params := ["x"; "n"];
     f_body := [(SReturn (Some (XPrim "textwrap.shorten:width" [(XName "x"); (XName "n")])))];
     f_gen := false |}.

(* beanquery.query_env.upper (BQL upper) *)
Definition env_upper : fdef :=
  {| f_params := ["string"];
     f_body := [(SReturn (Some (XCallMethod (XName "string") "upper" [])))];
     f_gen := false |}.

(* beanquery.query_env.lower (BQL lower) *)
Definition env_lower : fdef :=
  {| f_params := ["string"];
     f_body := [(SReturn (Some (XCallMethod (XName "string") "lower" [])))];
     f_gen := false |}.

(* beanquery.query_env.root (BQL root) *)
Definition env_root : fdef :=
  {| f_params := ["acc"; "n"];
     f_body := [(SReturn (Some (XPrim "beancount.core.account.root" [(XName "n"); (XName "acc")])))];
     f_gen := false |}.
Definition env_root_defaults : list expr := [(XConst (PInt 1))].

(* beanquery.query_env.parent (BQL parent) *)
Definition env_parent : fdef :=
  {| f_params := ["acc"];
     f_body := [(SReturn (Some (XPrim "beancount.core.account.parent" [(XName "acc")])))];
     f_gen := false |}.

(* beanquery.query_env.leaf (BQL leaf) *)
Definition env_leaf : fdef :=
  {| f_params := ["acc"];
     f_body := [(SReturn (Some (XPrim "beancount.core.account.leaf" [(XName "acc")])))];
     f_gen := false |}.

(* beanquery.query_env.grep (BQL grep) *)
Definition env_grep : fdef :=
  {| f_params := ["pattern"; "string"];
     f_body := [(SAssign (TName "match") (XPrim "re.search" [(XName "pattern"); (XName "string")])); (SIf (XName "match") [(SReturn (Some (XCallMethod (XName "match") "group" [(XConst (PInt 0))])))] []); (SReturn (Some (XConst PNone)))];
     f_gen := false |}.

(* beanquery.query_env.grepn (BQL grepn) *)
Definition env_grepn : fdef :=
  {| f_params := ["pattern"; "string"; "n"];
     f_body := [(SAssign (TName "match") (XPrim "re.search" [(XName "pattern"); (XName "string")])); (SIf (XName "match") [(SReturn (Some (XCallMethod (XName "match") "group" [(XName "n")])))] []); (SReturn (Some (XConst PNone)))];
     f_gen := false |}.

(* beanquery.query_env.subst (BQL subst) *)
Definition env_subst : fdef :=
  {| f_params := ["pattern"; "repl"; "string"];
     f_body := [(SReturn (Some (XPrim "re.sub" [(XName "pattern"); (XName "repl"); (XName "string")])))];
     f_gen := false |}.

(* beanquery.query_env.joinstr (BQL joinstr) *)
Definition env_joinstr : fdef :=
  {| f_params := ["values"];
     f_body := [(SReturn (Some (XCallMethod (XConst (PV (VStr [44]))) "join" [(XName "values")])))];
     f_gen := false |}.

(* beanquery.query_env.possign (BQL possign) without its first statement: account_types is a parameter *)
Definition env_possign : fdef :=
  {| f_params := ["account_types"; "x"; "account"];
     f_body := [(SAssign (TName "sign") (XPrim "beancount.core.account_types.get_account_sign" [(XName "account"); (XName "account_types")])); (SReturn (Some (XIfExp (XCompare (XName "sign") [(CGe, (XConst (PInt 0)))]) (XName "x") (XNeg (XName "x")))))];
     f_gen := false |}.

(* beanquery.query_env.account_sortkey (BQL account_sortkey) without its first statement: account_types is a parameter *)
Definition env_account_sortkey : fdef :=
  {| f_params := ["account_types"; "acc"];
     f_body := [(SUnpack [(TName "index"); (TName "name")] (XPrim "beancount.core.account_types.get_account_sort_key" [(XName "account_types"); (XName "acc")])); (SReturn (Some (XCallMethod (XConst (PV (VStr [123; 125; 45; 123; 125]))) "format" [(XName "index"); (XName "name")])))];
     f_gen := false |}.

(* beanquery.query_env.findfirst (BQL findfirst) *)
Definition env_findfirst : fdef :=
  {| f_params := ["pattern"; "values"];
     f_body := [(SIf (XNot (XName "values")) [(SReturn (Some (XConst PNone)))] []); (SFor "value" (XPrim "builtins.sorted" [(XName "values")]) [(SIf (XPrim "re.match" [(XName "pattern"); (XName "value")]) [(SReturn (Some (XName "value")))] [])]); (SReturn (Some (XConst PNone)))];
     f_gen := false |}.

(* beanquery.query_env.date_bin_str (BQL date_bin) *)
Definition env_date_bin_str : fdef :=
  {| f_params := ["stride"; "source"; "origin"];
     f_body := [(SAssign (TName "stride") (XCall (XConst (PRef 2)) [(XName "stride")] None)); (SIf (XCompare (XName "stride") [(CIs, (XConst PNone))]) [(SReturn (Some (XConst PNone)))] []); (SReturn (Some (XCall (XConst (PRef 3)) [(XName "stride"); (XName "source"); (XName "origin")] None)))];
     f_gen := false |}.

(* beanquery.query_env.interval (BQL interval); no theorem *)
Definition envx_interval : fdef :=
  {| f_params := ["x"];
     f_body := [(SAssign (TName "m") (XCall (XConst (PRef 4)) [(XConst (PV (VStr [40; 91; 45; 43; 93; 63; 91; 48; 45; 57; 93; 43; 41; 92; 115; 43; 40; 100; 97; 121; 124; 109; 111; 110; 116; 104; 124; 121; 101; 97; 114; 41; 115; 63]))); (XName "x")] None)); (SIf (XNot (XName "m")) [(SReturn (Some (XConst PNone)))] []); (SAssign (TName "number") (XPrim "builtins.int" [(XCallMethod (XName "m") "group" [(XConst (PInt 1))])])); (SAssign (TName "unit") (XCallMethod (XName "m") "group" [(XConst (PInt 2))])); (SIf (XCompare (XName "unit") [(CEq, (XConst (PV (VStr [100; 97; 121]))))]) [(SReturn (Some (XPrim "dateutil.relativedelta.relativedelta:days" [(XName "number")])))] []); (SIf (XCompare (XName "unit") [(CEq, (XConst (PV (VStr [119; 101; 101; 107]))))]) [(SReturn (Some (XPrim "dateutil.relativedelta.relativedelta:weeks" [(XName "number")])))] []); (SIf (XCompare (XName "unit") [(CEq, (XConst (PV (VStr [109; 111; 110; 116; 104]))))]) [(SReturn (Some (XPrim "dateutil.relativedelta.relativedelta:months" [(XName "number")])))] []); (SIf (XCompare (XName "unit") [(CEq, (XConst (PV (VStr [121; 101; 97; 114]))))]) [(SReturn (Some (XPrim "dateutil.relativedelta.relativedelta:years" [(XName "number")])))] []); (SIf (XCompare (XName "unit") [(CEq, (XConst (PV (VStr [100; 101; 99; 97; 100; 101]))))]) [(SReturn (Some (XPrim "dateutil.relativedelta.relativedelta:years" [(XBin OMul (XName "number") (XConst (PInt 10)))])))] []); (SIf (XCompare (XName "unit") [(CEq, (XConst (PV (VStr [99; 101; 110; 116; 117; 114; 121]))))]) [(SReturn (Some (XPrim "dateutil.relativedelta.relativedelta:years" [(XBin OMul (XName "number") (XConst (PInt 100)))])))] []); (SIf (XCompare (XName "unit") [(CEq, (XConst (PV (VStr [109; 105; 108; 108; 101; 110; 110; 105; 117; 109]))))]) [(SReturn (Some (XPrim "dateutil.relativedelta.relativedelta:years" [(XBin OMul (XName "number") (XConst (PInt 1000)))])))] []); (SReturn (Some (XConst PNone)))];
     f_gen := false |}.

(* beanquery.query_env.parse_date (BQL parse_date); no theorem *)
Definition envx_parse_date : fdef :=
  {| f_params := ["string"; "frmt"];
     f_body := [(SIf (XCompare (XName "frmt") [(CIs, (XConst PNone))]) [(SReturn (Some (XCallMethod (XCall (XConst (PRef 5)) [(XName "string")] None) "date" [])))] []); (SReturn (Some (XCallMethod (XPrim "datetime.datetime.strptime" [(XName "string"); (XName "frmt")]) "date" [])))];
     f_gen := false |}.
Definition envx_parse_date_defaults : list expr := [(XConst PNone)].

(* beanquery.query_env.repr_ (BQL repr); no theorem *)
Definition envx_repr : fdef :=
  {| f_params := ["x"];
     f_body := [(SReturn (Some (XCall (XConst (PRef 6)) [(XName "x")] None)))];
     f_gen := false |}.

(* beanquery.query_env.today (BQL today); no theorem *)
Definition envx_today : fdef :=
  {| f_params := [];
     f_body := [(SReturn (Some (XCall (XConst (PRef 7)) [] None)))];
     f_gen := false |}.

Definition refs : list (nat * string) :=
  [(0%nat, "datetime.date"); (1%nat, "builtins.str"); (2%nat, "beanquery.query_env.interval"); (3%nat, "beanquery.query_env.date_bin"); (4%nat, "re.fullmatch"); (5%nat, "dateutil.parser._parser.parse"); (6%nat, "builtins.repr"); (7%nat, "datetime.date.today")].
