(* GENERATED on every run by harness/vf/py2mini.py from the source of the imported beanquery objects
   (inspect.getsource + ast).  Do not edit.  One PyMini term per translated function; `refs` names the opaque
   callables the bodies mention (XConst (PRef k)). *)
From Coq Require Import String ZArith List.
Import ListNotations.
From Verif Require Import Base.PyValue Model.PyMini.
Open Scope string_scope.
Open Scope Z_scope.

(* beanquery.query_compile.EvalUnaryOp.__call__ *)
Definition node_unary : fdef :=
  {| f_params := ["self"; "context"];
     f_body := [(SAssign (TName "operand") (XCall (XAttr (XName "self") "operand") [(XName "context")] None)); (SReturn (Some (XCall (XAttr (XName "self") "operator") [(XName "operand")] None)))];
     f_gen := false |}.

(* beanquery.query_compile.EvalUnaryOpSafe.__call__ *)
Definition node_unary_safe : fdef :=
  {| f_params := ["self"; "context"];
     f_body := [(SAssign (TName "operand") (XCall (XAttr (XName "self") "operand") [(XName "context")] None)); (SIf (XCompare (XName "operand") [(CIs, (XConst PNone))]) [(SReturn (Some (XConst PNone)))] []); (SReturn (Some (XCall (XAttr (XName "self") "operator") [(XName "operand")] None)))];
     f_gen := false |}.

(* beanquery.query_compile.EvalBinaryOp.__call__ *)
Definition node_binary : fdef :=
  {| f_params := ["self"; "context"];
     f_body := [(SAssign (TName "left") (XCall (XAttr (XName "self") "left") [(XName "context")] None)); (SIf (XCompare (XName "left") [(CIs, (XConst PNone))]) [(SReturn (Some (XConst PNone)))] []); (SAssign (TName "right") (XCall (XAttr (XName "self") "right") [(XName "context")] None)); (SIf (XCompare (XName "right") [(CIs, (XConst PNone))]) [(SReturn (Some (XConst PNone)))] []); (SReturn (Some (XCall (XAttr (XName "self") "operator") [(XName "left"); (XName "right")] None)))];
     f_gen := false |}.

(* beanquery.query_compile.EvalBetween.__call__ *)
Definition node_between : fdef :=
  {| f_params := ["self"; "context"];
     f_body := [(SAssign (TName "operand") (XCall (XAttr (XName "self") "operand") [(XName "context")] None)); (SIf (XCompare (XName "operand") [(CIs, (XConst PNone))]) [(SReturn (Some (XConst PNone)))] []); (SAssign (TName "lower") (XCall (XAttr (XName "self") "lower") [(XName "context")] None)); (SIf (XCompare (XName "lower") [(CIs, (XConst PNone))]) [(SReturn (Some (XConst PNone)))] []); (SAssign (TName "upper") (XCall (XAttr (XName "self") "upper") [(XName "context")] None)); (SIf (XCompare (XName "upper") [(CIs, (XConst PNone))]) [(SReturn (Some (XConst PNone)))] []); (SReturn (Some (XCompare (XName "lower") [(CLe, (XName "operand")); (CLe, (XName "upper"))])))];
     f_gen := false |}.

(* beanquery.query_compile.EvalAnd.__call__ *)
Definition node_and : fdef :=
  {| f_params := ["self"; "context"];
     f_body := [(SFor "arg" (XAttr (XName "self") "args") [(SAssign (TName "value") (XCall (XName "arg") [(XName "context")] None)); (SIf (XCompare (XName "value") [(CIs, (XConst PNone))]) [(SReturn (Some (XConst PNone)))] []); (SIf (XNot (XName "value")) [(SReturn (Some (XConst (PBool false))))] [])]); (SReturn (Some (XConst (PBool true))))];
     f_gen := false |}.

(* beanquery.query_compile.EvalOr.__call__ *)
Definition node_or : fdef :=
  {| f_params := ["self"; "context"];
     f_body := [(SAssign (TName "r") (XConst (PBool false))); (SFor "arg" (XAttr (XName "self") "args") [(SAssign (TName "value") (XCall (XName "arg") [(XName "context")] None)); (SIf (XCompare (XName "value") [(CIs, (XConst PNone))]) [(SAssign (TName "r") (XConst PNone))] []); (SIf (XName "value") [(SReturn (Some (XConst (PBool true))))] [])]); (SReturn (Some (XName "r")))];
     f_gen := false |}.

(* beanquery.query_compile.EvalCoalesce.__call__ *)
Definition node_coalesce : fdef :=
  {| f_params := ["self"; "context"];
     f_body := [(SFor "arg" (XAttr (XName "self") "args") [(SAssign (TName "value") (XCall (XName "arg") [(XName "context")] None)); (SIf (XCompare (XName "value") [(CIsNot, (XConst PNone))]) [(SReturn (Some (XName "value")))] [])]); (SReturn (Some (XConst PNone)))];
     f_gen := false |}.

(* beanquery.query_compile.EvalConstant.__call__ *)
Definition node_constant : fdef :=
  {| f_params := ["self"; "_"];
     f_body := [(SReturn (Some (XAttr (XName "self") "value")))];
     f_gen := false |}.

(* beanquery.query_env.function.<locals>.decorator.<locals>.Func.__call__ (pass_row=False, pass_context=False; instance: bool) *)
Definition func_wrapper_plain : fdef :=
  {| f_params := ["self"; "row"];
     f_body := [(SAssign (TName "args") (XListComp (XCall (XName "operand") [(XName "row")] None) "operand" (XAttr (XName "self") "operands") None)); (SFor "arg" (XName "args") [(SIf (XCompare (XName "arg") [(CIs, (XConst PNone))]) [(SReturn (Some (XConst PNone)))] [])]); (SIf (XConst (PBool false)) [(SReturn (Some (XCall (XConst (PRef 0)) [(XName "row")] (Some (XName "args")))))] []); (SIf (XConst PNone) [(SReturn (Some (XCall (XConst (PRef 0)) [(XAttr (XName "self") "context")] (Some (XName "args")))))] []); (SReturn (Some (XCall (XConst (PRef 0)) [] (Some (XName "args")))))];
     f_gen := false |}.

(* beanquery.query_env.function.<locals>.decorator.<locals>.Func.__call__ (pass_row=False, pass_context=True; instance: open_date) *)
Definition func_wrapper_context : fdef :=
  {| f_params := ["self"; "row"];
     f_body := [(SAssign (TName "args") (XListComp (XCall (XName "operand") [(XName "row")] None) "operand" (XAttr (XName "self") "operands") None)); (SFor "arg" (XName "args") [(SIf (XCompare (XName "arg") [(CIs, (XConst PNone))]) [(SReturn (Some (XConst PNone)))] [])]); (SIf (XConst (PBool false)) [(SReturn (Some (XCall (XConst (PRef 0)) [(XName "row")] (Some (XName "args")))))] []); (SIf (XConst (PBool true)) [(SReturn (Some (XCall (XConst (PRef 0)) [(XAttr (XName "self") "context")] (Some (XName "args")))))] []); (SReturn (Some (XCall (XConst (PRef 0)) [] (Some (XName "args")))))];
     f_gen := false |}.

(* beanquery.query_env.function.<locals>.decorator.<locals>.Func.__call__ (pass_row=True, pass_context=False; instance: any_meta) *)
Definition func_wrapper_row : fdef :=
  {| f_params := ["self"; "row"];
     f_body := [(SAssign (TName "args") (XListComp (XCall (XName "operand") [(XName "row")] None) "operand" (XAttr (XName "self") "operands") None)); (SFor "arg" (XName "args") [(SIf (XCompare (XName "arg") [(CIs, (XConst PNone))]) [(SReturn (Some (XConst PNone)))] [])]); (SIf (XConst (PBool true)) [(SReturn (Some (XCall (XConst (PRef 0)) [(XName "row")] (Some (XName "args")))))] []); (SIf (XConst PNone) [(SReturn (Some (XCall (XConst (PRef 0)) [(XAttr (XName "self") "context")] (Some (XName "args")))))] []); (SReturn (Some (XCall (XConst (PRef 0)) [] (Some (XName "args")))))];
     f_gen := false |}.

Definition refs : list (nat * string) :=
  [(0%nat, "closure:func")].
