(* GENERATED on every run by harness/vf/py2mini.py from the source of the imported beanquery objects
   (inspect.getsource + ast).  Do not edit.  One PyMini term per translated function; `refs` names the opaque
   callables the bodies mention (XConst (PRef k)). *)
From Coq Require Import String ZArith List.
Import ListNotations.
From Verif Require Import Base.PyValue Model.PyMini.
Open Scope string_scope.
Open Scope Z_scope.

(* beanquery.query_execute.Allocator.__init__; parameters: self *)
Definition alloc_init : fdef :=
  {| f_params := ["self"];
     f_body := [(SAssign (TSelf "size") (XConst (PInt 0)))];
     f_gen := false |}.

(* beanquery.query_execute.Allocator.allocate; parameters: self *)
Definition alloc_allocate : fdef :=
  {| f_params := ["self"];
     f_body := [(SAssign (TName "handle") (XAttr (XName "self") "size")); (SAug (TSelf "size") OAdd (XConst (PInt 1))); (SReturn (Some (XName "handle")))];
     f_gen := false |}.

(* beanquery.query_execute.Allocator.create_store; parameters: self *)
Definition alloc_create_store : fdef :=
  {| f_params := ["self"];
     f_body := [(SReturn (Some (XBin OMul (XList [(XConst PNone)]) (XAttr (XName "self") "size"))))];
     f_gen := false |}.

(* beanquery.query_compile.EvalAggregator.allocate; parameters: self, allocator *)
Definition aggm_EvalAggregator_allocate : fdef :=
  {| f_params := ["self"; "allocator"];
     f_body := [(SAssign (TSelf "handle") (XMethod (TName "allocator") "allocate" [])); (SReturn (Some (XName "allocator")))];
     f_gen := false |}.

(* beanquery.query_compile.EvalAggregator.initialize; parameters: self, store *)
Definition aggm_EvalAggregator_initialize : fdef :=
  {| f_params := ["self"; "store"];
     f_body := [(SAssign (TName "store") (XPrim "stmt:setitem" [(XName "store"); (XAttr (XName "self") "handle"); (XCall (XAttr (XName "self") "dtype") [] None)])); (SAssign (TSelf "value") (XConst PNone)); (SReturn (Some (XName "store")))];
     f_gen := false |}.

(* beanquery.query_env.Count.update; parameters: self, store, context *)
Definition aggm_Count_update : fdef :=
  {| f_params := ["self"; "store"; "context"];
     f_body := [(SAssign (TName "store") (XPrim "stmt:setitem" [(XName "store"); (XAttr (XName "self") "handle"); (XBin OAdd (XIndex (XName "store") (XAttr (XName "self") "handle")) (XConst (PInt 1)))])); (SReturn (Some (XName "store")))];
     f_gen := false |}.

(* beanquery.query_compile.EvalAggregator.finalize; parameters: self, store *)
Definition aggm_EvalAggregator_finalize : fdef :=
  {| f_params := ["self"; "store"];
     f_body := [(SAssign (TSelf "value") (XIndex (XName "store") (XAttr (XName "self") "handle"))); (SReturn (Some (XName "store")))];
     f_gen := false |}.

(* beanquery.query_compile.EvalAggregator.__call__; parameters: self, context *)
Definition aggm_EvalAggregator_call : fdef :=
  {| f_params := ["self"; "context"];
     f_body := [(SReturn (Some (XAttr (XName "self") "value")))];
     f_gen := false |}.

(* beanquery.query_env.CountArg.update; parameters: self, store, context *)
Definition aggm_CountArg_update : fdef :=
  {| f_params := ["self"; "store"; "context"];
     f_body := [(SAssign (TName "value") (XCall (XIndex (XAttr (XName "self") "operands") (XConst (PInt 0))) [(XName "context")] None)); (SIf (XCompare (XName "value") [(CIsNot, (XConst PNone))]) [(SAssign (TName "store") (XPrim "stmt:setitem" [(XName "store"); (XAttr (XName "self") "handle"); (XBin OAdd (XIndex (XName "store") (XAttr (XName "self") "handle")) (XConst (PInt 1)))]))] []); (SReturn (Some (XName "store")))];
     f_gen := false |}.

(* beanquery.query_env.SumInt.update; parameters: self, store, context *)
Definition aggm_SumInt_update : fdef :=
  {| f_params := ["self"; "store"; "context"];
     f_body := [(SAssign (TName "value") (XCall (XIndex (XAttr (XName "self") "operands") (XConst (PInt 0))) [(XName "context")] None)); (SIf (XCompare (XName "value") [(CIsNot, (XConst PNone))]) [(SAssign (TName "store") (XPrim "stmt:setitem" [(XName "store"); (XAttr (XName "self") "handle"); (XBin OAdd (XIndex (XName "store") (XAttr (XName "self") "handle")) (XName "value"))]))] []); (SReturn (Some (XName "store")))];
     f_gen := false |}.

(* beanquery.query_env.SumDecimal.update; parameters: self, store, context *)
Definition aggm_SumDecimal_update : fdef :=
  {| f_params := ["self"; "store"; "context"];
     f_body := [(SAssign (TName "value") (XCall (XIndex (XAttr (XName "self") "operands") (XConst (PInt 0))) [(XName "context")] None)); (SIf (XCompare (XName "value") [(CIsNot, (XConst PNone))]) [(SAssign (TName "store") (XPrim "stmt:setitem" [(XName "store"); (XAttr (XName "self") "handle"); (XBin OAdd (XIndex (XName "store") (XAttr (XName "self") "handle")) (XName "value"))]))] []); (SReturn (Some (XName "store")))];
     f_gen := false |}.

(* beanquery.query_env.First.initialize; parameters: self, store *)
Definition aggm_First_initialize : fdef :=
  {| f_params := ["self"; "store"];
     f_body := [(SAssign (TName "store") (XPrim "stmt:setitem" [(XName "store"); (XAttr (XName "self") "handle"); (XConst PNone)])); (SReturn (Some (XName "store")))];
     f_gen := false |}.

(* beanquery.query_env.First.update; parameters: self, store, context *)
Definition aggm_First_update : fdef :=
  {| f_params := ["self"; "store"; "context"];
     f_body := [(SIf (XCompare (XIndex (XName "store") (XAttr (XName "self") "handle")) [(CIs, (XConst PNone))]) [(SAssign (TName "value") (XCall (XIndex (XAttr (XName "self") "operands") (XConst (PInt 0))) [(XName "context")] None)); (SAssign (TName "store") (XPrim "stmt:setitem" [(XName "store"); (XAttr (XName "self") "handle"); (XName "value")]))] []); (SReturn (Some (XName "store")))];
     f_gen := false |}.

(* beanquery.query_env.Last.initialize; parameters: self, store *)
Definition aggm_Last_initialize : fdef :=
  {| f_params := ["self"; "store"];
     f_body := [(SAssign (TName "store") (XPrim "stmt:setitem" [(XName "store"); (XAttr (XName "self") "handle"); (XConst PNone)])); (SReturn (Some (XName "store")))];
     f_gen := false |}.

(* beanquery.query_env.Last.update; parameters: self, store, context *)
Definition aggm_Last_update : fdef :=
  {| f_params := ["self"; "store"; "context"];
     f_body := [(SAssign (TName "value") (XCall (XIndex (XAttr (XName "self") "operands") (XConst (PInt 0))) [(XName "context")] None)); (SAssign (TName "store") (XPrim "stmt:setitem" [(XName "store"); (XAttr (XName "self") "handle"); (XName "value")])); (SReturn (Some (XName "store")))];
     f_gen := false |}.

(* beanquery.query_env.Min.initialize; parameters: self, store *)
Definition aggm_Min_initialize : fdef :=
  {| f_params := ["self"; "store"];
     f_body := [(SAssign (TName "store") (XPrim "stmt:setitem" [(XName "store"); (XAttr (XName "self") "handle"); (XConst PNone)])); (SReturn (Some (XName "store")))];
     f_gen := false |}.

(* beanquery.query_env.Min.update; parameters: self, store, context *)
Definition aggm_Min_update : fdef :=
  {| f_params := ["self"; "store"; "context"];
     f_body := [(SAssign (TName "value") (XCall (XIndex (XAttr (XName "self") "operands") (XConst (PInt 0))) [(XName "context")] None)); (SIf (XCompare (XName "value") [(CIsNot, (XConst PNone))]) [(SAssign (TName "cur") (XIndex (XName "store") (XAttr (XName "self") "handle"))); (SIf (XBoolOp false [(XCompare (XName "cur") [(CIs, (XConst PNone))]); (XCompare (XName "value") [(CLt, (XName "cur"))])]) [(SAssign (TName "store") (XPrim "stmt:setitem" [(XName "store"); (XAttr (XName "self") "handle"); (XName "value")]))] [])] []); (SReturn (Some (XName "store")))];
     f_gen := false |}.

(* beanquery.query_env.Max.initialize; parameters: self, store *)
Definition aggm_Max_initialize : fdef :=
  {| f_params := ["self"; "store"];
     f_body := [(SAssign (TName "store") (XPrim "stmt:setitem" [(XName "store"); (XAttr (XName "self") "handle"); (XConst PNone)])); (SReturn (Some (XName "store")))];
     f_gen := false |}.

(* beanquery.query_env.Max.update; parameters: self, store, context *)
Definition aggm_Max_update : fdef :=
  {| f_params := ["self"; "store"; "context"];
     f_body := [(SAssign (TName "value") (XCall (XIndex (XAttr (XName "self") "operands") (XConst (PInt 0))) [(XName "context")] None)); (SIf (XCompare (XName "value") [(CIsNot, (XConst PNone))]) [(SAssign (TName "cur") (XIndex (XName "store") (XAttr (XName "self") "handle"))); (SIf (XBoolOp false [(XCompare (XName "cur") [(CIs, (XConst PNone))]); (XCompare (XName "value") [(CGt, (XName "cur"))])]) [(SAssign (TName "store") (XPrim "stmt:setitem" [(XName "store"); (XAttr (XName "self") "handle"); (XName "value")]))] [])] []); (SReturn (Some (XName "store")))];
     f_gen := false |}.

(* beanquery.query_execute.execute_select, aggregated branch, part `split`; parameters: c_target_exprs, group_indexes
   after desugaring (rules A2, A1, A4, A5, A6, A7):
     c_nonaggregate_exprs = []
     c_aggregate_exprs = []
     for index, c_expr in enumerate(c_target_exprs):
         if index in group_indexes:
             c_nonaggregate_exprs.append(c_expr)
         else:
             _, aggregate_exprs = compiler.get_columns_and_aggregates(c_expr)
             c_aggregate_exprs.extend(aggregate_exprs) *)
Definition agg_split : fdef :=
  {| f_params := ["c_target_exprs"; "group_indexes"];
     f_body := [(SAssign (TName "c_nonaggregate_exprs") (XList [])); (SAssign (TName "c_aggregate_exprs") (XList [])); (SForUnpack ["index"; "c_expr"] (XPrim "builtins.enumerate" [(XName "c_target_exprs")]) [(SIf (XCompare (XName "index") [(CIn, (XName "group_indexes"))]) [(SExpr (XMethod (TName "c_nonaggregate_exprs") "append" [(XName "c_expr")]))] [(SUnpack [(TName "_"); (TName "aggregate_exprs")] (XCall (XConst (PRef 0)) [(XName "c_expr")] None)); (SExpr (XMethod (TName "c_aggregate_exprs") "extend" [(XName "aggregate_exprs")]))])])];
     f_gen := false |}.

(* beanquery.query_execute.execute_select, aggregated branch, part `alloc`; parameters: c_aggregate_exprs
   after desugaring (rules A2, A1, A4, A5, A6, A7):
     allocator = Allocator()
     $acc = []
     for c_expr in c_aggregate_exprs:
         allocator = c_expr.allocate(allocator)
         $acc.append(c_expr)
     c_aggregate_exprs = $acc *)
Definition agg_alloc : fdef :=
  {| f_params := ["c_aggregate_exprs"];
     f_body := [(SAssign (TName "allocator") (XPrim "new:beanquery.query_execute.Allocator" [])); (SAssign (TName "$acc") (XList [])); (SFor "c_expr" (XName "c_aggregate_exprs") [(SAssign (TName "allocator") (XMethod (TName "c_expr") "allocate" [(XName "allocator")])); (SExpr (XMethod (TName "$acc") "append" [(XName "c_expr")]))]); (SAssign (TName "c_aggregate_exprs") (XName "$acc"))];
     f_gen := false |}.

(* beanquery.query_execute.execute_select, aggregated branch, part `scan`; parameters: query, c_where, c_nonaggregate_exprs, allocator, c_aggregate_exprs
   after desugaring (rules A2, A1, A4, A5, A6, A7):
     context = None
     aggregates = $dict.new()
     for context in query.table:
         if c_where is None or c_where(context):
             key = tuple((c_expr(context) for c_expr in c_nonaggregate_exprs))
             if not $dict.contains(aggregates, key):
                 create$store = allocator.create_store()
                 $acc = []
                 for create$c_expr in c_aggregate_exprs:
                     create$store = create$c_expr.initialize(create$store)
                     $acc.append(create$c_expr)
                 c_aggregate_exprs = $acc
                 create$ret = create$store
                 aggregates = $dict.set(aggregates, key, create$ret)
             store = $dict.get(aggregates, key)
             $acc = []
             for c_expr in c_aggregate_exprs:
                 store = c_expr.update(store, context)
                 $acc.append(c_expr)
             c_aggregate_exprs = $acc
             aggregates = $dict.set(aggregates, key, store) *)
Definition agg_scan : fdef :=
  {| f_params := ["query"; "c_where"; "c_nonaggregate_exprs"; "allocator"; "c_aggregate_exprs"];
     f_body := [(SAssign (TName "context") (XConst PNone)); (SAssign (TName "aggregates") (XPrim "dict.new" [])); (SFor "context" (XAttr (XName "query") "table") [(SIf (XBoolOp false [(XCompare (XName "c_where") [(CIs, (XConst PNone))]); (XCall (XName "c_where") [(XName "context"); (XName "c_aggregate_exprs")] None)]) [(SAssign (TName "key") (XPrim "builtins.tuple" [(XListComp (XCall (XName "c_expr") [(XName "context"); (XName "c_aggregate_exprs")] None) "c_expr" (XName "c_nonaggregate_exprs") None)])); (SIf (XNot (XPrim "dict.contains" [(XName "aggregates"); (XName "key")])) [(SAssign (TName "create$store") (XCallMethod (XName "allocator") "create_store" [])); (SAssign (TName "$acc") (XList [])); (SFor "create$c_expr" (XName "c_aggregate_exprs") [(SAssign (TName "create$store") (XMethod (TName "create$c_expr") "initialize" [(XName "create$store")])); (SExpr (XMethod (TName "$acc") "append" [(XName "create$c_expr")]))]); (SAssign (TName "c_aggregate_exprs") (XName "$acc")); (SAssign (TName "create$ret") (XName "create$store")); (SAssign (TName "aggregates") (XPrim "dict.set" [(XName "aggregates"); (XName "key"); (XName "create$ret")]))] []); (SAssign (TName "store") (XPrim "dict.get" [(XName "aggregates"); (XName "key")])); (SAssign (TName "$acc") (XList [])); (SFor "c_expr" (XName "c_aggregate_exprs") [(SAssign (TName "store") (XMethod (TName "c_expr") "update" [(XName "store"); (XName "context")])); (SExpr (XMethod (TName "$acc") "append" [(XName "c_expr")]))]); (SAssign (TName "c_aggregate_exprs") (XName "$acc")); (SAssign (TName "aggregates") (XPrim "dict.set" [(XName "aggregates"); (XName "key"); (XName "store")]))] [])])];
     f_gen := false |}.

(* beanquery.query_execute.execute_select, aggregated branch, part `output`; parameters: aggregates, c_aggregate_exprs, c_target_exprs, group_indexes, context, query, rows
   after desugaring (rules A2, A1, A4, A5, A6, A7):
     for key, store in aggregates.items():
         $skip = False
         key_iter = iter(key)
         values = []
         $acc = []
         for c_expr in c_aggregate_exprs:
             store = c_expr.finalize(store)
             $acc.append(c_expr)
         c_aggregate_exprs = $acc
         for index, c_expr in enumerate(c_target_exprs):
             if index in group_indexes:
                 value = next(key_iter)
             else:
                 value = c_expr(context)
             values.append(value)
         if query.having_index is not None:
             if not values[query.having_index]:
                 $skip = True
         if not $skip:
             rows.append(values) *)
Definition agg_output : fdef :=
  {| f_params := ["aggregates"; "c_aggregate_exprs"; "c_target_exprs"; "group_indexes"; "context"; "query"; "rows"];
     f_body := [(SForUnpack ["key"; "store"] (XCallMethod (XName "aggregates") "items" []) [(SAssign (TName "$skip") (XConst (PBool false))); (SAssign (TName "key_iter") (XPrim "builtins.iter" [(XName "key")])); (SAssign (TName "values") (XList [])); (SAssign (TName "$acc") (XList [])); (SFor "c_expr" (XName "c_aggregate_exprs") [(SAssign (TName "store") (XMethod (TName "c_expr") "finalize" [(XName "store")])); (SExpr (XMethod (TName "$acc") "append" [(XName "c_expr")]))]); (SAssign (TName "c_aggregate_exprs") (XName "$acc")); (SForUnpack ["index"; "c_expr"] (XPrim "builtins.enumerate" [(XName "c_target_exprs")]) [(SIf (XCompare (XName "index") [(CIn, (XName "group_indexes"))]) [(SAssign (TName "value") (XMethod (TName "key_iter") "pop" [(XConst (PInt 0))]))] [(SAssign (TName "value") (XCall (XName "c_expr") [(XName "context"); (XName "c_aggregate_exprs")] None))]); (SExpr (XMethod (TName "values") "append" [(XName "value")]))]); (SIf (XCompare (XAttr (XName "query") "having_index") [(CIsNot, (XConst PNone))]) [(SIf (XNot (XIndex (XName "values") (XAttr (XName "query") "having_index"))) [(SAssign (TName "$skip") (XConst (PBool true)))] [])] []); (SIf (XNot (XName "$skip")) [(SExpr (XMethod (TName "rows") "append" [(XName "values")]))] [])])];
     f_gen := false |}.

(* beanquery.query_execute.execute_select: else-branch of `if query.group_indexes is None:`; parameters: c_target_exprs, group_indexes, query, c_where, rows *)
Definition agg_branch : fdef :=
  {| f_params := ["c_target_exprs"; "group_indexes"; "query"; "c_where"; "rows"];
     f_body := [(SAssign (TName "c_nonaggregate_exprs") (XList [])); (SAssign (TName "c_aggregate_exprs") (XList [])); (SForUnpack ["index"; "c_expr"] (XPrim "builtins.enumerate" [(XName "c_target_exprs")]) [(SIf (XCompare (XName "index") [(CIn, (XName "group_indexes"))]) [(SExpr (XMethod (TName "c_nonaggregate_exprs") "append" [(XName "c_expr")]))] [(SUnpack [(TName "_"); (TName "aggregate_exprs")] (XCall (XConst (PRef 0)) [(XName "c_expr")] None)); (SExpr (XMethod (TName "c_aggregate_exprs") "extend" [(XName "aggregate_exprs")]))])]); (SAssign (TName "allocator") (XPrim "new:beanquery.query_execute.Allocator" [])); (SAssign (TName "$acc") (XList [])); (SFor "c_expr" (XName "c_aggregate_exprs") [(SAssign (TName "allocator") (XMethod (TName "c_expr") "allocate" [(XName "allocator")])); (SExpr (XMethod (TName "$acc") "append" [(XName "c_expr")]))]); (SAssign (TName "c_aggregate_exprs") (XName "$acc")); (SAssign (TName "context") (XConst PNone)); (SAssign (TName "aggregates") (XPrim "dict.new" [])); (SFor "context" (XAttr (XName "query") "table") [(SIf (XBoolOp false [(XCompare (XName "c_where") [(CIs, (XConst PNone))]); (XCall (XName "c_where") [(XName "context"); (XName "c_aggregate_exprs")] None)]) [(SAssign (TName "key") (XPrim "builtins.tuple" [(XListComp (XCall (XName "c_expr") [(XName "context"); (XName "c_aggregate_exprs")] None) "c_expr" (XName "c_nonaggregate_exprs") None)])); (SIf (XNot (XPrim "dict.contains" [(XName "aggregates"); (XName "key")])) [(SAssign (TName "create$store") (XCallMethod (XName "allocator") "create_store" [])); (SAssign (TName "$acc") (XList [])); (SFor "create$c_expr" (XName "c_aggregate_exprs") [(SAssign (TName "create$store") (XMethod (TName "create$c_expr") "initialize" [(XName "create$store")])); (SExpr (XMethod (TName "$acc") "append" [(XName "create$c_expr")]))]); (SAssign (TName "c_aggregate_exprs") (XName "$acc")); (SAssign (TName "create$ret") (XName "create$store")); (SAssign (TName "aggregates") (XPrim "dict.set" [(XName "aggregates"); (XName "key"); (XName "create$ret")]))] []); (SAssign (TName "store") (XPrim "dict.get" [(XName "aggregates"); (XName "key")])); (SAssign (TName "$acc") (XList [])); (SFor "c_expr" (XName "c_aggregate_exprs") [(SAssign (TName "store") (XMethod (TName "c_expr") "update" [(XName "store"); (XName "context")])); (SExpr (XMethod (TName "$acc") "append" [(XName "c_expr")]))]); (SAssign (TName "c_aggregate_exprs") (XName "$acc")); (SAssign (TName "aggregates") (XPrim "dict.set" [(XName "aggregates"); (XName "key"); (XName "store")]))] [])]); (SForUnpack ["key"; "store"] (XCallMethod (XName "aggregates") "items" []) [(SAssign (TName "$skip") (XConst (PBool false))); (SAssign (TName "key_iter") (XPrim "builtins.iter" [(XName "key")])); (SAssign (TName "values") (XList [])); (SAssign (TName "$acc") (XList [])); (SFor "c_expr" (XName "c_aggregate_exprs") [(SAssign (TName "store") (XMethod (TName "c_expr") "finalize" [(XName "store")])); (SExpr (XMethod (TName "$acc") "append" [(XName "c_expr")]))]); (SAssign (TName "c_aggregate_exprs") (XName "$acc")); (SForUnpack ["index"; "c_expr"] (XPrim "builtins.enumerate" [(XName "c_target_exprs")]) [(SIf (XCompare (XName "index") [(CIn, (XName "group_indexes"))]) [(SAssign (TName "value") (XMethod (TName "key_iter") "pop" [(XConst (PInt 0))]))] [(SAssign (TName "value") (XCall (XName "c_expr") [(XName "context"); (XName "c_aggregate_exprs")] None))]); (SExpr (XMethod (TName "values") "append" [(XName "value")]))]); (SIf (XCompare (XAttr (XName "query") "having_index") [(CIsNot, (XConst PNone))]) [(SIf (XNot (XIndex (XName "values") (XAttr (XName "query") "having_index"))) [(SAssign (TName "$skip") (XConst (PBool true)))] [])] []); (SIf (XNot (XName "$skip")) [(SExpr (XMethod (TName "rows") "append" [(XName "values")]))] [])])];
     f_gen := false |}.

Definition refs : list (nat * string) :=
  [(0%nat, "beanquery.compiler.get_columns_and_aggregates")].

(* the aggregator classes registered in query_compile.FUNCTIONS (inventory sums left out: C12) and the function each protocol
   method resolves to through the MRO of the live class *)
From Verif Require Import Model.PrimsAgg.
Definition class_Count : aggcls :=
  {| c_allocate := aggm_EvalAggregator_allocate; c_initialize := aggm_EvalAggregator_initialize; c_update := aggm_Count_update; c_finalize := aggm_EvalAggregator_finalize; c_call := aggm_EvalAggregator_call |}.
Definition class_CountArg : aggcls :=
  {| c_allocate := aggm_EvalAggregator_allocate; c_initialize := aggm_EvalAggregator_initialize; c_update := aggm_CountArg_update; c_finalize := aggm_EvalAggregator_finalize; c_call := aggm_EvalAggregator_call |}.
Definition class_SumInt : aggcls :=
  {| c_allocate := aggm_EvalAggregator_allocate; c_initialize := aggm_EvalAggregator_initialize; c_update := aggm_SumInt_update; c_finalize := aggm_EvalAggregator_finalize; c_call := aggm_EvalAggregator_call |}.
Definition class_SumDecimal : aggcls :=
  {| c_allocate := aggm_EvalAggregator_allocate; c_initialize := aggm_EvalAggregator_initialize; c_update := aggm_SumDecimal_update; c_finalize := aggm_EvalAggregator_finalize; c_call := aggm_EvalAggregator_call |}.
Definition class_First : aggcls :=
  {| c_allocate := aggm_EvalAggregator_allocate; c_initialize := aggm_First_initialize; c_update := aggm_First_update; c_finalize := aggm_EvalAggregator_finalize; c_call := aggm_EvalAggregator_call |}.
Definition class_Last : aggcls :=
  {| c_allocate := aggm_EvalAggregator_allocate; c_initialize := aggm_Last_initialize; c_update := aggm_Last_update; c_finalize := aggm_EvalAggregator_finalize; c_call := aggm_EvalAggregator_call |}.
Definition class_Min : aggcls :=
  {| c_allocate := aggm_EvalAggregator_allocate; c_initialize := aggm_Min_initialize; c_update := aggm_Min_update; c_finalize := aggm_EvalAggregator_finalize; c_call := aggm_EvalAggregator_call |}.
Definition class_Max : aggcls :=
  {| c_allocate := aggm_EvalAggregator_allocate; c_initialize := aggm_Max_initialize; c_update := aggm_Max_update; c_finalize := aggm_EvalAggregator_finalize; c_call := aggm_EvalAggregator_call |}.
Definition agg_classes : list (string * string * string * aggcls) :=
  [("beanquery.query_env.Count", "count", "*", class_Count); ("beanquery.query_env.CountArg", "count", "any", class_CountArg); ("beanquery.query_env.SumInt", "sum", "int", class_SumInt); ("beanquery.query_env.SumDecimal", "sum", "Decimal", class_SumDecimal); ("beanquery.query_env.First", "first", "any", class_First); ("beanquery.query_env.Last", "last", "any", class_Last); ("beanquery.query_env.Min", "min", "any", class_Min); ("beanquery.query_env.Max", "max", "any", class_Max)].
Definition agg_left_out : list string := ["SumAmount"; "SumPosition"; "SumInventory"].
Definition agg_nodes_var : string := "c_aggregate_exprs".
