(* GENERATED on every run by harness/vf/py2mini.py from the source of the imported beanquery objects
   (inspect.getsource + ast).  Do not edit.  One PyMini term per translated function; `refs` names the opaque
   callables the bodies mention (XConst (PRef k)). *)
From Coq Require Import String ZArith List.
Import ListNotations.
From Verif Require Import Base.PyValue Model.PyMini.
Open Scope string_scope.
Open Scope Z_scope.

(* beanquery.cursor.Column.__getitem__ (ApiTranslator: subscripts are the primitive "getitem") *)
Definition column_getitem : fdef :=
  {| f_params := ["self"; "key"];
     f_body := [(SIf (XPrim "isinstance:builtins.slice" [(XName "key")]) [(SReturn (Some (XPrim "builtins.tuple" [(XListComp (XCall (XName "getter") [(XName "self")] None) "getter" (XPrim "getitem" [(XAttr (XName "self") "_vars"); (XName "key")]) None)])))] []); (SReturn (Some (XCall (XPrim "getitem" [(XAttr (XName "self") "_vars"); (XName "key")]) [(XName "self")] None)))];
     f_gen := false |}.

Definition refs : list (nat * string) :=
  [].

(* the function the live class beanquery.cursor.Column resolves each method of the sequence protocol to *)
Definition column_protocol : list (string * string) :=
  [("__len__", "beanquery.cursor.Column.__len__"); ("__getitem__", "beanquery.cursor.Column.__getitem__"); ("__iter__", "collections.abc.Sequence.__iter__"); ("__contains__", "collections.abc.Sequence.__contains__"); ("__reversed__", "collections.abc.Sequence.__reversed__"); ("index", "collections.abc.Sequence.index"); ("count", "collections.abc.Sequence.count")].
