(* GENERATED on every run by harness/vf/py2mini.py from the source of the imported beanquery objects
   (inspect.getsource + ast).  Do not edit.  One PyMini term per translated function; `refs` names the opaque
   callables the bodies mention (XConst (PRef k)). *)
From Coq Require Import String ZArith List.
Import ListNotations.
From Verif Require Import Base.PyValue Model.PyMini.
Open Scope string_scope.
Open Scope Z_scope.

(* beanquery.shell.DispatchingShell.parseline *)
Definition shell_parseline : fdef :=
  {| f_params := ["self"; "line"];
     f_body := [(SUnpack [(TName "cmd"); (TName "arg"); (TName "line")] (XPrim "super.parseline" [(XName "self"); (XName "line")])); (SIf (XNot (XName "cmd")) [(SReturn (Some (XTuple [(XName "cmd"); (XName "arg"); (XName "line")])))] []); (SIf (XCallMethod (XName "cmd") "startswith" [(XConst (PV (VStr [46])))]) [(SAssign (TName "cmd") (XSlice (XName "cmd") (Some (XConst (PInt 1))) None))] []); (SIf (XCompare (XName "cmd") [(CEq, (XConst (PV (VStr [69; 79; 70]))))]) [(SAssign (TName "line") (XConst (PV (VStr [46; 69; 79; 70]))))] []); (SReturn (Some (XTuple [(XName "cmd"); (XName "arg"); (XName "line")])))];
     f_gen := false |}.

(* beanquery.shell.DispatchingShell.onecmd *)
Definition shell_onecmd : fdef :=
  {| f_params := ["self"; "line"];
     f_body := [(SUnpack [(TName "cmd"); (TName "arg"); (TName "line")] (XCall (XAttr (XName "self") "parseline") [(XName "line")] None)); (SIf (XNot (XName "cmd")) [(SReturn None)] []); (SIf (XNot (XCallMethod (XName "line") "startswith" [(XConst (PV (VStr [46])))])) [(SAssign (TName "cmd") (XCallMethod (XName "cmd") "lower" [])); (SIf (XCompare (XName "cmd") [(CNotIn, (XList [(XConst (PV (VStr [99; 108; 101; 97; 114]))); (XConst (PV (VStr [101; 114; 114; 111; 114; 115]))); (XConst (PV (VStr [101; 120; 105; 116]))); (XConst (PV (VStr [104; 101; 108; 112]))); (XConst (PV (VStr [104; 105; 115; 116; 111; 114; 121]))); (XConst (PV (VStr [112; 97; 114; 115; 101]))); (XConst (PV (VStr [113; 117; 105; 116]))); (XConst (PV (VStr [114; 117; 110]))); (XConst (PV (VStr [115; 101; 116])))]))]) [(SReturn (Some (XCall (XAttr (XName "self") "execute") [(XName "line")] None)))] []); (SExpr (XCall (XConst (PRef 0)) [(XPrim "fstring" [(XConst (PV (VStr [99; 111; 109; 109; 97; 110; 100; 115; 32; 119; 105; 116; 104; 111; 117; 116; 32; 34; 46; 34; 32; 112; 114; 101; 102; 105; 120; 32; 97; 114; 101; 32; 100; 101; 112; 114; 101; 99; 97; 116; 101; 100; 46; 32; 117; 115; 101; 32; 34; 46]))); (XName "cmd"); (XConst (PV (VStr [34; 32; 105; 110; 115; 116; 101; 97; 100])))]); (XConst (PInt 0))] None))] []); (SAssign (TName "func") (XPrim "builtins.getattr" [(XName "self"); (XBin OAdd (XConst (PV (VStr [100; 111; 95]))) (XName "cmd")); (XConst PNone)])); (SIf (XCompare (XName "func") [(CIsNot, (XConst PNone))]) [(SReturn (Some (XCall (XName "func") [(XName "arg")] None)))] []); (SExpr (XMethod (TSelf "$events") "append" [(XTuple [(XConst (PV (VStr [101; 114; 114; 111; 114]))); (XPrim "fstring" [(XConst (PV (VStr [117; 110; 107; 110; 111; 119; 110; 32; 99; 111; 109; 109; 97; 110; 100; 32; 34]))); (XName "cmd"); (XConst (PV (VStr [34])))])])]))];
     f_gen := false |}.

(* beanquery.shell.Settings._parse_bool *)
Definition settings_parse_bool : fdef :=
  {| f_params := ["self"; "value"];
     f_body := [(SIf (XCompare (XName "value") [(CIn, (XList [(XConst (PBool true)); (XConst (PBool false))]))]) [(SReturn (Some (XName "value")))] []); (SAssign (TName "norm") (XCallMethod (XCallMethod (XName "value") "strip" []) "lower" [])); (SIf (XCompare (XName "norm") [(CIn, (XList [(XConst (PV (VStr [49]))); (XConst (PV (VStr [116; 114; 117; 101]))); (XConst (PV (VStr [116]))); (XConst (PV (VStr [121; 101; 115]))); (XConst (PV (VStr [121]))); (XConst (PV (VStr [111; 110])))]))]) [(SReturn (Some (XConst (PBool true))))] []); (SIf (XCompare (XName "norm") [(CIn, (XList [(XConst (PV (VStr [48]))); (XConst (PV (VStr [102; 97; 108; 115; 101]))); (XConst (PV (VStr [102]))); (XConst (PV (VStr [110; 111]))); (XConst (PV (VStr [110]))); (XConst (PV (VStr [111; 102; 102])))]))]) [(SReturn (Some (XConst (PBool false))))] []); (SExpr (XPrim "raise" [(XConst (PV (VStr [98; 117; 105; 108; 116; 105; 110; 115; 46; 86; 97; 108; 117; 101; 69; 114; 114; 111; 114]))); (XConst (PV (VStr [34]))); (XPrim "fstring" [(XConst (PV (VStr [34]))); (XName "value"); (XConst (PV (VStr [34; 32; 105; 115; 32; 110; 111; 116; 32; 97; 32; 118; 97; 108; 105; 100; 32; 98; 111; 111; 108; 101; 97; 110])))])]))];
     f_gen := false |}.

(* beanquery.shell.Settings._parse_format *)
Definition settings_parse_format : fdef :=
  {| f_params := ["self"; "value"];
     f_body := [(SIf (XNot (XPrim "contains:beanquery.shell.FORMATS" [(XName "value")])) [(SExpr (XPrim "raise" [(XConst (PV (VStr [98; 117; 105; 108; 116; 105; 110; 115; 46; 86; 97; 108; 117; 101; 69; 114; 114; 111; 114]))); (XConst (PV (VStr [34]))); (XPrim "fstring" [(XConst (PV (VStr [34]))); (XName "value"); (XConst (PV (VStr [34; 32; 105; 115; 32; 110; 111; 116; 32; 97; 32; 118; 97; 108; 105; 100; 32; 102; 111; 114; 109; 97; 116])))])]))] []); (SReturn (Some (XName "value")))];
     f_gen := false |}.

(* beanquery.shell.Settings.getstr (self as a value) *)
Definition settings_getstr : fdef :=
  {| f_params := ["self"; "name"];
     f_body := [(SIf (XNot (XPrim "contains" [(XCallMethod (XName "self") "todict" []); (XName "name")])) [(SExpr (XPrim "raise" [(XConst (PV (VStr [98; 117; 105; 108; 116; 105; 110; 115; 46; 65; 116; 116; 114; 105; 98; 117; 116; 101; 69; 114; 114; 111; 114]))); (XConst (PV (VStr []))); (XName "name")]))] []); (SAssign (TName "value") (XPrim "builtins.getattr" [(XName "self"); (XName "name")])); (SIf (XPrim "isinstance:builtins.str" [(XName "value")]) [(SReturn (Some (XPrim "builtins.repr" [(XName "value")])))] []); (SIf (XPrim "isinstance:builtins.bool" [(XName "value")]) [(SReturn (Some (XIfExp (XName "value") (XConst (PV (VStr [116; 114; 117; 101]))) (XConst (PV (VStr [102; 97; 108; 115; 101]))))))] []); (SReturn (Some (XPrim "builtins.str" [(XName "value")])))];
     f_gen := false |}.

(* beanquery.shell.Settings.setstr (self as a value) *)
Definition settings_setstr : fdef :=
  {| f_params := ["self"; "name"; "value"];
     f_body := [(SIf (XNot (XPrim "contains" [(XCallMethod (XName "self") "todict" []); (XName "name")])) [(SExpr (XPrim "raise" [(XConst (PV (VStr [98; 117; 105; 108; 116; 105; 110; 115; 46; 65; 116; 116; 114; 105; 98; 117; 116; 101; 69; 114; 114; 111; 114]))); (XConst (PV (VStr []))); (XName "name")]))] []); (SAssign (TName "vtype") (XPrim "builtins.type" [(XPrim "builtins.getattr" [(XName "self"); (XName "name")])])); (SAssign (TName "parse") (XPrim "builtins.getattr" [(XName "self"); (XPrim "fstring" [(XConst (PV (VStr [95; 112; 97; 114; 115; 101; 95]))); (XName "name")]); (XPrim "builtins.getattr" [(XName "self"); (XPrim "fstring" [(XConst (PV (VStr [95; 112; 97; 114; 115; 101; 95]))); (XAttr (XName "vtype") "__name__")]); (XName "vtype")])])); (SAssign (TName "self") (XPrim "builtins.setattr" [(XName "self"); (XName "name"); (XCall (XName "parse") [(XName "value")] None)]))];
     f_gen := false |}.

(* beanquery.shell.DispatchingShell.do_set *)
Definition shell_do_set : fdef :=
  {| f_params := ["self"; "arg"];
     f_body := [(SIf (XNot (XName "arg")) [(SFor "name" (XPrim "iter" [(XAttr (XName "self") "settings")]) [(SAssign (TName "value") (XCallMethod (XAttr (XName "self") "settings") "getstr" [(XName "name")])); (SExpr (XMethod (TSelf "$events") "append" [(XTuple [(XConst (PV (VStr [111; 117; 116; 102; 105; 108; 101]))); (XPrim "fstring" [(XName "name"); (XConst (PV (VStr [58; 32]))); (XName "value")])])]))])] [(SAssign (TName "components") (XPrim "shlex.split" [(XName "arg")])); (SAssign (TName "name") (XPrim "getitem" [(XName "components"); (XConst (PInt 0))])); (SIf (XCompare (XLen (XName "components")) [(CEq, (XConst (PInt 1)))]) [(STry [(SAssign (TName "value") (XCallMethod (XAttr (XName "self") "settings") "getstr" [(XName "name")])); (SExpr (XMethod (TSelf "$events") "append" [(XTuple [(XConst (PV (VStr [111; 117; 116; 102; 105; 108; 101]))); (XPrim "fstring" [(XName "name"); (XConst (PV (VStr [58; 32]))); (XName "value")])])]))] [7] [(SExpr (XMethod (TSelf "$events") "append" [(XTuple [(XConst (PV (VStr [101; 114; 114; 111; 114]))); (XPrim "fstring" [(XConst (PV (VStr [118; 97; 114; 105; 97; 98; 108; 101; 32; 34]))); (XName "name"); (XConst (PV (VStr [34; 32; 100; 111; 101; 115; 32; 110; 111; 116; 32; 101; 120; 105; 115; 116])))])])]))])] [(SIf (XCompare (XLen (XName "components")) [(CEq, (XConst (PInt 2)))]) [(SAssign (TName "value") (XPrim "getitem" [(XName "components"); (XConst (PInt 1))])); (STry [(STry [(SExpr (XMethod (TSelf "settings") "setstr" [(XName "name"); (XName "value")]))] [5] [(SExpr (XMethod (TSelf "$events") "append" [(XTuple [(XConst (PV (VStr [101; 114; 114; 111; 114]))); (XPrim "exc_text" [])])]))])] [7] [(SExpr (XMethod (TSelf "$events") "append" [(XTuple [(XConst (PV (VStr [101; 114; 114; 111; 114]))); (XPrim "fstring" [(XConst (PV (VStr [118; 97; 114; 105; 97; 98; 108; 101; 32; 34]))); (XName "name"); (XConst (PV (VStr [34; 32; 100; 111; 101; 115; 32; 110; 111; 116; 32; 101; 120; 105; 115; 116])))])])]))])] [(SExpr (XMethod (TSelf "$events") "append" [(XTuple [(XConst (PV (VStr [101; 114; 114; 111; 114]))); (XConst (PV (VStr [105; 110; 118; 97; 108; 105; 100; 32; 110; 117; 109; 98; 101; 114; 32; 111; 102; 32; 97; 114; 103; 117; 109; 101; 110; 116; 115])))])]))])])])];
     f_gen := false |}.

(* beanquery.shell.BQLShell.parse *)
Definition shell_parse : fdef :=
  {| f_params := ["self"; "line"; "default_close_date"];
     f_body := [(SAssign (TName "statement") (XCallMethod (XAttr (XName "self") "context") "parse" [(XName "line")])); (SIf (XBoolOp true [(XPrim "isinstance:beanquery.parser.ast.Select" [(XName "statement")]); (XPrim "isinstance:beanquery.parser.ast.From" [(XAttr (XName "statement") "from_clause")]); (XNot (XAttr (XAttr (XName "statement") "from_clause") "close"))]) [(SAssign (TName "statement") (XPrim "setpath:from_clause.close" [(XName "statement"); (XName "default_close_date")]))] []); (SReturn (Some (XName "statement")))];
     f_gen := false |}.
Definition shell_parse_defaults : list expr := [(XConst PNone)].

Definition refs : list (nat * string) :=
  [(0%nat, "_warnings.warn:stacklevel")].
