(* GENERATED on every run by harness/vf/py2mini.py from the source of the imported beanquery objects
   (inspect.getsource + ast).  Do not edit.  One PyMini term per translated function; `refs` names the opaque
   callables the bodies mention (XConst (PRef k)). *)
From Coq Require Import String ZArith List.
Import ListNotations.
From Verif Require Import Base.PyValue Model.PyMini.
Open Scope string_scope.
Open Scope Z_scope.

(* beanquery.query_render.EnumRenderer.format *)
Definition render_enum_format : fdef :=
  {| f_params := ["self"; "value"];
     f_body := [(SReturn (Some (XAttr (XName "value") "name")))];
     f_gen := false |}.

(* beanquery.query_render.SetRenderer.__init__ without its first statement `super().__init__(ctx)` *)
Definition render_set_init_tail : fdef :=
  {| f_params := ["self"; "ctx"];
     f_body := [(SAssign (TSelf "sep") (XAttr (XName "ctx") "listsep"))];
     f_gen := false |}.

(* beanquery.query_render.SetRenderer.update *)
Definition render_set_update : fdef :=
  {| f_params := ["self"; "value"];
     f_body := [(SAssign (TSelf "maxwidth") (XPrim "builtins.max" [(XAttr (XName "self") "maxwidth"); (XBin OSub (XPrim "builtins.sum" [(XListComp (XBin OAdd (XLen (XName "x")) (XLen (XAttr (XName "self") "sep"))) "x" (XName "value") None)]) (XLen (XAttr (XName "self") "sep")))]))];
     f_gen := false |}.

(* beanquery.query_render.SetRenderer.format *)
Definition render_set_format : fdef :=
  {| f_params := ["self"; "value"];
     f_body := [(SReturn (Some (XCallMethod (XAttr (XName "self") "sep") "join" [(XListComp (XPrim "builtins.str" [(XName "x")]) "x" (XPrim "builtins.sorted" [(XName "value")]) None)])))];
     f_gen := false |}.

(* beanquery.query_render.InventoryRenderer.positionsortkey *)
Definition render_inv_sortkey : fdef :=
  {| f_params := ["position"];
     f_body := [(SReturn (Some (XTuple [(XAttr (XAttr (XName "position") "units") "currency"); (XNeg (XAttr (XAttr (XName "position") "units") "number")); (XIfExp (XAttr (XName "position") "cost") (XTuple [(XAttr (XAttr (XName "position") "cost") "currency"); (XNeg (XAttr (XAttr (XName "position") "cost") "number")); (XAttr (XAttr (XName "position") "cost") "date")]) (XTuple []))])))];
     f_gen := false |}.

Definition refs : list (nat * string) :=
  [].
