(* GENERATED on every run by harness/vf/py2mini.py from the source of the imported beanquery objects
   (inspect.getsource + ast).  Do not edit.  One PyMini term per translated function; `refs` names the opaque
   callables the bodies mention (XConst (PRef k)). *)
From Coq Require Import String ZArith List.
Import ListNotations.
From Verif Require Import Base.PyValue Model.PyMini.
Open Scope string_scope.
Open Scope Z_scope.

(* beanquery.compiler.Compiler.compile *)
Definition compiler_compile : fdef :=
  {| f_params := ["self"; "query"; "parameters"];
     f_body := [(SAssign (TSelf "parameters") (XName "parameters")); (SAssign (TName "placeholders") (XListComp (XName "node") "node" (XCallMethod (XName "query") "walk" []) (Some (XPrim "isinstance:beanquery.parser.ast.Placeholder" [(XName "node")])))); (SIf (XName "placeholders") [(SAssign (TName "names") (XPrim "builtins.set" [(XListComp (XAttr (XName "placeholder") "name") "placeholder" (XName "placeholders") None)])); (SIf (XPrim "builtins.all" [(XName "names")]) [(SIf (XNot (XPrim "isinstance:typing.Mapping" [(XName "parameters")])) [(SExpr (XPrim "raise" [(XConst (PV (VStr [98; 117; 105; 108; 116; 105; 110; 115; 46; 84; 121; 112; 101; 69; 114; 114; 111; 114]))); (XConst (PV (VStr [113; 117; 101; 114; 121; 32; 112; 97; 114; 97; 109; 101; 116; 101; 114; 115; 32; 115; 104; 111; 117; 108; 100; 32; 98; 101; 32; 97; 32; 109; 97; 112; 112; 105; 110; 103; 32; 119; 104; 101; 110; 32; 117; 115; 105; 110; 103; 32; 110; 97; 109; 101; 100; 32; 112; 108; 97; 99; 101; 104; 111; 108; 100; 101; 114; 115]))); (XConst PNone)]))] []); (SIf (XPrim "set.difference" [(XName "names"); (XCallMethod (XName "parameters") "keys" [])]) [(SAssign (TName "missing") (XCallMethod (XConst (PV (VStr [44; 32]))) "join" [(XPrim "builtins.sorted" [(XPrim "set.difference" [(XName "names"); (XCallMethod (XName "parameters") "keys" [])])])])); (SExpr (XPrim "raise" [(XConst (PV (VStr [98; 101; 97; 110; 113; 117; 101; 114; 121; 46; 80; 114; 111; 103; 114; 97; 109; 109; 105; 110; 103; 69; 114; 114; 111; 114]))); (XConst (PV (VStr [113; 117; 101; 114; 121; 32; 112; 97; 114; 97; 109; 101; 116; 101; 114; 32; 109; 105; 115; 115; 105; 110; 103; 58; 32]))); (XPrim "fstring" [(XConst (PV (VStr [113; 117; 101; 114; 121; 32; 112; 97; 114; 97; 109; 101; 116; 101; 114; 32; 109; 105; 115; 115; 105; 110; 103; 58; 32]))); (XName "missing")])]))] [])] [(SIf (XNot (XPrim "builtins.any" [(XName "names")])) [(SIf (XNot (XPrim "isinstance:typing.Sequence" [(XName "parameters")])) [(SExpr (XPrim "raise" [(XConst (PV (VStr [98; 117; 105; 108; 116; 105; 110; 115; 46; 84; 121; 112; 101; 69; 114; 114; 111; 114]))); (XConst (PV (VStr [113; 117; 101; 114; 121; 32; 112; 97; 114; 97; 109; 101; 116; 101; 114; 115; 32; 115; 104; 111; 117; 108; 100; 32; 98; 101; 32; 97; 32; 115; 101; 113; 117; 101; 110; 99; 101; 32; 119; 104; 101; 110; 32; 117; 115; 105; 110; 103; 32; 112; 111; 115; 105; 116; 105; 111; 110; 97; 108; 32; 112; 108; 97; 99; 101; 104; 111; 108; 100; 101; 114; 115]))); (XConst PNone)]))] []); (SIf (XCompare (XLen (XName "placeholders")) [(CNe, (XLen (XName "parameters")))]) [(SExpr (XPrim "raise" [(XConst (PV (VStr [98; 101; 97; 110; 113; 117; 101; 114; 121; 46; 80; 114; 111; 103; 114; 97; 109; 109; 105; 110; 103; 69; 114; 114; 111; 114]))); (XConst (PV (VStr [116; 104; 101; 32; 113; 117; 101; 114; 121; 32; 104; 97; 115; 32]))); (XPrim "fstring" [(XConst (PV (VStr [116; 104; 101; 32; 113; 117; 101; 114; 121; 32; 104; 97; 115; 32]))); (XLen (XName "placeholders")); (XConst (PV (VStr [32; 112; 108; 97; 99; 101; 104; 111; 108; 100; 101; 114; 115; 32; 98; 117; 116; 32]))); (XLen (XName "parameters")); (XConst (PV (VStr [32; 112; 97; 114; 97; 109; 101; 116; 101; 114; 115; 32; 119; 101; 114; 101; 32; 112; 97; 115; 115; 101; 100])))])]))] []); (SAssign (TSelf "positional") (XPrim "builtins.dict" [(XListComp (XTuple [(XPrim "builtins.id" [(XIndex (XName "$t") (XConst (PInt 1)))]); (XIndex (XName "$t") (XConst (PInt 0)))]) "$t" (XPrim "builtins.enumerate" [(XPrim "sorted_by" [(XName "placeholders"); (XListComp (XAttr (XAttr (XName "node") "parseinfo") "pos") "node" (XName "placeholders") None)])]) None)]))] [(SExpr (XPrim "raise" [(XConst (PV (VStr [98; 101; 97; 110; 113; 117; 101; 114; 121; 46; 80; 114; 111; 103; 114; 97; 109; 109; 105; 110; 103; 69; 114; 114; 111; 114]))); (XConst (PV (VStr [112; 111; 115; 105; 116; 105; 111; 110; 97; 108; 32; 97; 110; 100; 32; 110; 97; 109; 101; 100; 32; 112; 97; 114; 97; 109; 101; 116; 101; 114; 115; 32; 99; 97; 110; 110; 111; 116; 32; 98; 101; 32; 109; 105; 120; 101; 100]))); (XConst PNone)]))])])] []); (SExpr (XCall (XConst (PRef 0)) [(XName "query")] None)); (SReturn (Some (XCall (XAttr (XName "self") "_compile") [(XName "query")] None)))];
     f_gen := false |}.
Definition compiler_compile_defaults : list expr := [(XConst PNone)].

(* beanquery.compiler.Compiler._placeholder (the handler _compile dispatches ast.Placeholder to) *)
Definition compiler_placeholder : fdef :=
  {| f_params := ["self"; "node"];
     f_body := [(SIf (XNot (XAttr (XName "node") "name")) [(SReturn (Some (XCall (XConst (PRef 1)) [(XPrim "getitem" [(XAttr (XName "self") "parameters"); (XPrim "getitem" [(XAttr (XName "self") "positional"); (XPrim "builtins.id" [(XName "node")])])])] None)))] []); (SReturn (Some (XCall (XConst (PRef 1)) [(XPrim "getitem" [(XAttr (XName "self") "parameters"); (XAttr (XName "node") "name")])] None)))];
     f_gen := false |}.

(* beanquery.compiler.compile *)
Definition compiler_compile_fn : fdef :=
  {| f_params := ["context"; "statement"; "parameters"];
     f_body := [(SReturn (Some (XCallMethod (XCall (XConst (PRef 2)) [(XName "context")] None) "compile" [(XName "statement"); (XName "parameters")])))];
     f_gen := false |}.
Definition compiler_compile_fn_defaults : list expr := [(XConst PNone)].

(* beanquery.Connection.__init__: the leading `self.<attr> = ...` statements (the per-connection state; what follows attaches a data source) *)
Definition connection_init_state : fdef :=
  {| f_params := ["self"; "dsn"];
     f_body := [(SAssign (TSelf "tables") (XPrim "builtins.dict" [(XList [(XTuple [(XConst (PV (VStr []))); (XCall (XConst (PRef 3)) [] None)])])])); (SAssign (TSelf "options") (XPrim "builtins.dict" [(XList [])])); (SAssign (TSelf "errors") (XList []))];
     f_gen := false |}.
Definition connection_init_state_defaults : list expr := [(XConst PNone)].

(* beanquery.Connection.execute *)
Definition connection_execute : fdef :=
  {| f_params := ["self"; "query"; "params"];
     f_body := [(SReturn (Some (XCallMethod (XCall (XAttr (XName "self") "cursor") [] None) "execute" [(XName "query"); (XName "params")])))];
     f_gen := false |}.
Definition connection_execute_defaults : list expr := [(XConst PNone)].

(* beanquery.Connection.cursor *)
Definition connection_cursor : fdef :=
  {| f_params := ["self"];
     f_body := [(SReturn (Some (XCall (XConst (PRef 4)) [(XName "self")] None)))];
     f_gen := false |}.

(* beanquery.Connection.parse *)
Definition connection_parse : fdef :=
  {| f_params := ["self"; "query"];
     f_body := [(SReturn (Some (XCall (XConst (PRef 5)) [(XName "query")] None)))];
     f_gen := false |}.

(* beanquery.Connection.compile *)
Definition connection_compile : fdef :=
  {| f_params := ["self"; "query"];
     f_body := [(SReturn (Some (XCall (XConst (PRef 6)) [(XName "self"); (XName "query")] None)))];
     f_gen := false |}.

Definition refs : list (nat * string) :=
  [(0%nat, "beanquery.compiler.check_subqueries"); (1%nat, "beanquery.query_compile.EvalConstant"); (2%nat, "beanquery.compiler.Compiler"); (3%nat, "beanquery.tables.NullTable"); (4%nat, "beanquery.cursor.Cursor"); (5%nat, "beanquery.parser.parse"); (6%nat, "beanquery.compiler.compile")].
