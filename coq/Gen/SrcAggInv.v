(* GENERATED on every run by harness/vf/py2mini.py from the source of the imported beanquery objects
   (inspect.getsource + ast).  Do not edit.  One PyMini term per translated function; `refs` names the opaque
   callables the bodies mention (XConst (PRef k)). *)
From Coq Require Import String ZArith List.
Import ListNotations.
From Verif Require Import Base.PyValue Model.PyMini.
Open Scope string_scope.
Open Scope Z_scope.

(* beanquery.query_compile.EvalAggregator.allocate; parameters: self, allocator *)
Definition aggi_EvalAggregator_allocate : fdef :=
  {| f_params := ["self"; "allocator"];
     f_body := [(SAssign (TSelf "handle") (XMethod (TName "allocator") "allocate" [])); (SReturn (Some (XName "allocator")))];
     f_gen := false |}.

(* beanquery.query_compile.EvalAggregator.initialize; parameters: self, store *)
Definition aggi_EvalAggregator_initialize : fdef :=
  {| f_params := ["self"; "store"];
     f_body := [(SAssign (TName "store") (XPrim "stmt:setitem" [(XName "store"); (XAttr (XName "self") "handle"); (XCall (XAttr (XName "self") "dtype") [] None)])); (SAssign (TSelf "value") (XConst PNone)); (SReturn (Some (XName "store")))];
     f_gen := false |}.

(* beanquery.query_env.SumAmount.update; parameters: self, store, context; rule A10 (method of a store slot) used 1x *)
Definition aggi_SumAmount_update : fdef :=
  {| f_params := ["self"; "store"; "context"];
     f_body := [(SAssign (TName "value") (XCall (XIndex (XAttr (XName "self") "operands") (XConst (PInt 0))) [(XName "context")] None)); (SIf (XCompare (XName "value") [(CIsNot, (XConst PNone))]) [(SAssign (TName "$slot") (XIndex (XName "store") (XAttr (XName "self") "handle"))); (SExpr (XMethod (TName "$slot") "add_amount" [(XName "value")])); (SAssign (TName "store") (XPrim "stmt:setitem" [(XName "store"); (XAttr (XName "self") "handle"); (XName "$slot")]))] []); (SReturn (Some (XName "store")))];
     f_gen := false |}.

(* beanquery.query_compile.EvalAggregator.finalize; parameters: self, store *)
Definition aggi_EvalAggregator_finalize : fdef :=
  {| f_params := ["self"; "store"];
     f_body := [(SAssign (TSelf "value") (XIndex (XName "store") (XAttr (XName "self") "handle"))); (SReturn (Some (XName "store")))];
     f_gen := false |}.

(* beanquery.query_compile.EvalAggregator.__call__; parameters: self, context *)
Definition aggi_EvalAggregator_call : fdef :=
  {| f_params := ["self"; "context"];
     f_body := [(SReturn (Some (XAttr (XName "self") "value")))];
     f_gen := false |}.

(* beanquery.query_env.SumPosition.update; parameters: self, store, context; rule A10 (method of a store slot) used 1x *)
Definition aggi_SumPosition_update : fdef :=
  {| f_params := ["self"; "store"; "context"];
     f_body := [(SAssign (TName "value") (XCall (XIndex (XAttr (XName "self") "operands") (XConst (PInt 0))) [(XName "context")] None)); (SIf (XCompare (XName "value") [(CIsNot, (XConst PNone))]) [(SAssign (TName "$slot") (XIndex (XName "store") (XAttr (XName "self") "handle"))); (SExpr (XMethod (TName "$slot") "add_position" [(XName "value")])); (SAssign (TName "store") (XPrim "stmt:setitem" [(XName "store"); (XAttr (XName "self") "handle"); (XName "$slot")]))] []); (SReturn (Some (XName "store")))];
     f_gen := false |}.

(* beanquery.query_env.SumInventory.update; parameters: self, store, context; rule A10 (method of a store slot) used 1x *)
Definition aggi_SumInventory_update : fdef :=
  {| f_params := ["self"; "store"; "context"];
     f_body := [(SAssign (TName "value") (XCall (XIndex (XAttr (XName "self") "operands") (XConst (PInt 0))) [(XName "context")] None)); (SIf (XCompare (XName "value") [(CIsNot, (XConst PNone))]) [(SAssign (TName "$slot") (XIndex (XName "store") (XAttr (XName "self") "handle"))); (SExpr (XMethod (TName "$slot") "add_inventory" [(XName "value")])); (SAssign (TName "store") (XPrim "stmt:setitem" [(XName "store"); (XAttr (XName "self") "handle"); (XName "$slot")]))] []); (SReturn (Some (XName "store")))];
     f_gen := false |}.

(* beanquery.query_env.First.initialize; parameters: self, store *)
Definition aggi_First_initialize : fdef :=
  {| f_params := ["self"; "store"];
     f_body := [(SAssign (TName "store") (XPrim "stmt:setitem" [(XName "store"); (XAttr (XName "self") "handle"); (XConst PNone)])); (SReturn (Some (XName "store")))];
     f_gen := false |}.

(* beanquery.query_env.First.update; parameters: self, store, context *)
Definition aggi_First_update : fdef :=
  {| f_params := ["self"; "store"; "context"];
     f_body := [(SIf (XCompare (XIndex (XName "store") (XAttr (XName "self") "handle")) [(CIs, (XConst PNone))]) [(SAssign (TName "value") (XCall (XIndex (XAttr (XName "self") "operands") (XConst (PInt 0))) [(XName "context")] None)); (SAssign (TName "store") (XPrim "stmt:setitem" [(XName "store"); (XAttr (XName "self") "handle"); (XName "value")]))] []); (SReturn (Some (XName "store")))];
     f_gen := false |}.

(* beanquery.query_env.Last.initialize; parameters: self, store *)
Definition aggi_Last_initialize : fdef :=
  {| f_params := ["self"; "store"];
     f_body := [(SAssign (TName "store") (XPrim "stmt:setitem" [(XName "store"); (XAttr (XName "self") "handle"); (XConst PNone)])); (SReturn (Some (XName "store")))];
     f_gen := false |}.

(* beanquery.query_env.Last.update; parameters: self, store, context *)
Definition aggi_Last_update : fdef :=
  {| f_params := ["self"; "store"; "context"];
     f_body := [(SAssign (TName "value") (XCall (XIndex (XAttr (XName "self") "operands") (XConst (PInt 0))) [(XName "context")] None)); (SAssign (TName "store") (XPrim "stmt:setitem" [(XName "store"); (XAttr (XName "self") "handle"); (XName "value")])); (SReturn (Some (XName "store")))];
     f_gen := false |}.

Definition refs : list (nat * string) :=
  [].

(* the aggregator classes of query_compile.FUNCTIONS whose state is an Inventory (left out of Gen/SrcAgg.v) and the function each
   protocol method resolves to through the MRO of the live class *)
From Verif Require Import Model.PrimsAgg.
Definition class_SumAmount : aggcls :=
  {| c_allocate := aggi_EvalAggregator_allocate; c_initialize := aggi_EvalAggregator_initialize; c_update := aggi_SumAmount_update; c_finalize := aggi_EvalAggregator_finalize; c_call := aggi_EvalAggregator_call |}.
Definition class_SumPosition : aggcls :=
  {| c_allocate := aggi_EvalAggregator_allocate; c_initialize := aggi_EvalAggregator_initialize; c_update := aggi_SumPosition_update; c_finalize := aggi_EvalAggregator_finalize; c_call := aggi_EvalAggregator_call |}.
Definition class_SumInventory : aggcls :=
  {| c_allocate := aggi_EvalAggregator_allocate; c_initialize := aggi_EvalAggregator_initialize; c_update := aggi_SumInventory_update; c_finalize := aggi_EvalAggregator_finalize; c_call := aggi_EvalAggregator_call |}.
Definition agginv_classes : list (string * string * string * aggcls) :=
  [("beanquery.query_env.SumAmount", "sum", "beancount.core.amount.Amount", class_SumAmount); ("beanquery.query_env.SumPosition", "sum", "beancount.core.position.Position", class_SumPosition); ("beanquery.query_env.SumInventory", "sum", "beancount.core.inventory.Inventory", class_SumInventory)].

(* the `dtype` attribute of a live instance of each class (set by its __init__): the callable EvalAggregator.initialize
   calls for the fresh accumulator, and whether calling it gave a new empty beancount Inventory *)
Definition agginv_dtypes : list (string * string * bool) :=
  [("beanquery.query_env.SumAmount", "beancount.core.inventory.Inventory", true); ("beanquery.query_env.SumPosition", "beancount.core.inventory.Inventory", true); ("beanquery.query_env.SumInventory", "beancount.core.inventory.Inventory", true)].

(* bld-inv2: EVERY overload registered under `first` / `last` in the live query_compile.FUNCTIONS (name, class, argument types,
   the function each protocol method resolves to through the MRO of the live class) *)
Definition class_First : aggcls :=
  {| c_allocate := aggi_EvalAggregator_allocate; c_initialize := aggi_First_initialize; c_update := aggi_First_update; c_finalize := aggi_EvalAggregator_finalize; c_call := aggi_EvalAggregator_call |}.
Definition class_Last : aggcls :=
  {| c_allocate := aggi_EvalAggregator_allocate; c_initialize := aggi_Last_initialize; c_update := aggi_Last_update; c_finalize := aggi_EvalAggregator_finalize; c_call := aggi_EvalAggregator_call |}.
Definition first_last_overloads : list (string * string * string * aggcls) :=
  [("first", "beanquery.query_env.First", "any", class_First); ("last", "beanquery.query_env.Last", "any", class_Last)].

(* what the live types.function_lookup(FUNCTIONS, name, [operand of that datatype]) returns, for every datatype of the registry
   and Inventory / Position / Amount *)
Definition first_last_dispatch : list (string * string * string) :=
  [("first", "beancount.core.amount.Amount", "beanquery.query_env.First"); ("first", "beancount.core.inventory.Inventory", "beanquery.query_env.First"); ("first", "beancount.core.position.Position", "beanquery.query_env.First"); ("first", "builtins.bool", "beanquery.query_env.First"); ("first", "builtins.dict", "beanquery.query_env.First"); ("first", "builtins.int", "beanquery.query_env.First"); ("first", "builtins.list", "beanquery.query_env.First"); ("first", "builtins.object", "beanquery.query_env.First"); ("first", "builtins.set", "beanquery.query_env.First"); ("first", "builtins.str", "beanquery.query_env.First"); ("first", "datetime.date", "beanquery.query_env.First"); ("first", "dateutil.relativedelta.relativedelta", "beanquery.query_env.First"); ("first", "decimal.Decimal", "beanquery.query_env.First"); ("last", "beancount.core.amount.Amount", "beanquery.query_env.Last"); ("last", "beancount.core.inventory.Inventory", "beanquery.query_env.Last"); ("last", "beancount.core.position.Position", "beanquery.query_env.Last"); ("last", "builtins.bool", "beanquery.query_env.Last"); ("last", "builtins.dict", "beanquery.query_env.Last"); ("last", "builtins.int", "beanquery.query_env.Last"); ("last", "builtins.list", "beanquery.query_env.Last"); ("last", "builtins.object", "beanquery.query_env.Last"); ("last", "builtins.set", "beanquery.query_env.Last"); ("last", "builtins.str", "beanquery.query_env.Last"); ("last", "datetime.date", "beanquery.query_env.Last"); ("last", "dateutil.relativedelta.relativedelta", "beanquery.query_env.Last"); ("last", "decimal.Decimal", "beanquery.query_env.Last")].
