(* GENERATED on every run by harness/vf/py2mini.py from the source of the imported beanquery objects
   (inspect.getsource + ast).  Do not edit.  One PyMini term per translated function; `refs` names the opaque
   callables the bodies mention (XConst (PRef k)). *)
From Coq Require Import String ZArith List.
Import ListNotations.
From Verif Require Import Base.PyValue Model.PyMini.
Open Scope string_scope.
Open Scope Z_scope.

(* beanquery.query_render.ColumnRenderer.prepare *)
Definition render_base_prepare : fdef :=
  {| f_params := ["self"];
     f_body := [(SAssign (TSelf "prepared") (XConst (PBool true))); (SReturn (Some (XAttr (XName "self") "maxwidth")))];
     f_gen := false |}.

(* beanquery.query_render.ObjectRenderer.update *)
Definition render_object_update : fdef :=
  {| f_params := ["self"; "value"];
     f_body := [(SAssign (TSelf "maxwidth") (XPrim "builtins.max" [(XAttr (XName "self") "maxwidth"); (XLen (XCall (XAttr (XName "self") "format") [(XName "value")] None))]))];
     f_gen := false |}.

(* beanquery.query_render.ObjectRenderer.format *)
Definition render_object_format : fdef :=
  {| f_params := ["self"; "value"];
     f_body := [(SReturn (Some (XPrim "builtins.str" [(XName "value")])))];
     f_gen := false |}.

(* beanquery.query_render.BoolRenderer.update *)
Definition render_bool_update : fdef :=
  {| f_params := ["self"; "value"];
     f_body := [(SAssign (TSelf "maxwidth") (XPrim "builtins.max" [(XAttr (XName "self") "maxwidth"); (XIfExp (XName "value") (XConst (PInt 4)) (XConst (PInt 5)))]))];
     f_gen := false |}.

(* beanquery.query_render.BoolRenderer.format *)
Definition render_bool_format : fdef :=
  {| f_params := ["self"; "value"];
     f_body := [(SReturn (Some (XIfExp (XName "value") (XConst (PV (VStr [84; 82; 85; 69]))) (XConst (PV (VStr [70; 65; 76; 83; 69]))))))];
     f_gen := false |}.

(* beanquery.query_render.DateRenderer.update *)
Definition render_date_update : fdef :=
  {| f_params := ["self"; "value"];
     f_body := [(SAssign (TSelf "maxwidth") (XConst (PInt 10)))];
     f_gen := false |}.

(* beanquery.query_render.DateRenderer.format *)
Definition render_date_format : fdef :=
  {| f_params := ["self"; "value"];
     f_body := [(SReturn (Some (XCallMethod (XName "value") "strftime" [(XConst (PV (VStr [37; 89; 45; 37; 109; 45; 37; 100])))])))];
     f_gen := false |}.

(* beanquery.query_render.DecimalRenderer.update *)
Definition render_decimal_update : fdef :=
  {| f_params := ["self"; "value"];
     f_body := [(SAssign (TName "n") (XCallMethod (XName "value") "as_tuple" [])); (SIf (XCompare (XAttr (XName "n") "exponent") [(CGt, (XConst (PInt 0)))]) [(SAssign (TSelf "nintegral") (XPrim "builtins.max" [(XAttr (XName "self") "nintegral"); (XLen (XPrim "builtins.str" [(XName "value")]))]))] [(SAssign (TSelf "nintegral") (XPrim "builtins.max" [(XAttr (XName "self") "nintegral"); (XBin OAdd (XPrim "builtins.max" [(XConst (PInt 1)); (XBin OAdd (XLen (XAttr (XName "n") "digits")) (XAttr (XName "n") "exponent"))]) (XAttr (XName "n") "sign"))])); (SAssign (TSelf "nfractional") (XPrim "builtins.max" [(XAttr (XName "self") "nfractional"); (XNeg (XAttr (XName "n") "exponent"))]))])];
     f_gen := false |}.

(* beanquery.query_render.DecimalRenderer.format *)
Definition render_decimal_format : fdef :=
  {| f_params := ["self"; "value"];
     f_body := [(SAssign (TName "n") (XCallMethod (XName "value") "as_tuple" [])); (SIf (XCompare (XAttr (XName "n") "exponent") [(CGt, (XConst (PInt 0)))]) [(SReturn (Some (XCallMethod (XCallMethod (XPrim "builtins.str" [(XName "value")]) "rjust" [(XAttr (XName "self") "nintegral")]) "ljust" [(XAttr (XName "self") "maxwidth")])))] []); (SAssign (TName "left") (XBin OSub (XAttr (XName "self") "nintegral") (XBin OAdd (XPrim "builtins.max" [(XConst (PInt 1)); (XBin OAdd (XLen (XAttr (XName "n") "digits")) (XAttr (XName "n") "exponent"))]) (XAttr (XName "n") "sign")))); (SReturn (Some (XPrim "fstr" [(XPrim "format:>" [(XConst (PV (VStr []))); (XName "left")]); (XPrim "format:<" [(XName "value"); (XBin OSub (XAttr (XName "self") "maxwidth") (XName "left"))])])))];
     f_gen := false |}.

(* beanquery.query_render.DecimalRenderer.prepare without its last statement `return super().prepare()` *)
Definition render_decimal_prepare_head : fdef :=
  {| f_params := ["self"];
     f_body := [(SAssign (TSelf "maxwidth") (XBin OAdd (XBin OAdd (XAttr (XName "self") "nintegral") (XAttr (XName "self") "nfractional")) (XIfExp (XCompare (XAttr (XName "self") "nfractional") [(CGt, (XConst (PInt 0)))]) (XConst (PInt 1)) (XConst (PInt 0)))))];
     f_gen := false |}.

(* beanquery.query_render.render_rows *)
Definition render_rows_fn : fdef :=
  {| f_params := ["rows"; "renderers"; "ctx"];
     f_body := [(SAssign (TName "null") (XAttr (XName "ctx") "null")); (SAssign (TName "spacerow") (XBin OMul (XList [(XConst (PV (VStr [])))]) (XLen (XName "renderers")))); (SFor "row" (XName "rows") [(SAssign (TName "cells") (XListComp (XIfExp (XCompare (XIndex (XName "$item") (XConst (PInt 1))) [(CIsNot, (XConst PNone))]) (XCallMethod (XIndex (XName "$item") (XConst (PInt 0))) "format" [(XIndex (XName "$item") (XConst (PInt 1)))]) (XName "null")) "$item" (XPrim "builtins.zip" [(XName "renderers"); (XName "row")]) None)); (SIf (XNot (XPrim "truth" [(XPrim "builtins.any" [(XListComp (XPrim "isinstance:list" [(XName "cell")]) "cell" (XName "cells") None)])])) [(SYield (XName "cells"))] [(SAssign (TName "cells") (XListComp (XIfExp (XPrim "truth" [(XPrim "isinstance:list" [(XName "cell")])]) (XName "cell") (XList [(XName "cell")])) "cell" (XName "cells") None)); (SAssign (TName "nlines") (XPrim "builtins.max" [(XConst (PInt 1)); (XPrim "builtins.max" [(XListComp (XLen (XName "cell")) "cell" (XName "cells") None)])])); (SAssign (TName "$new") (XList [])); (SFor "cell" (XName "cells") [(SIf (XCompare (XLen (XName "cell")) [(CLt, (XName "nlines"))]) [(SExpr (XMethod (TName "cell") "extend" [(XBin OMul (XList [(XConst (PV (VStr [])))]) (XBin OSub (XName "nlines") (XLen (XName "cell"))))]))] []); (SExpr (XMethod (TName "$new") "append" [(XName "cell")]))]); (SAssign (TName "cells") (XName "$new")); (SFor "$y" (XPrim "zip*" [(XName "cells")]) [(SYield (XName "$y"))])]); (SIf (XPrim "truth" [(XAttr (XName "ctx") "spaced")]) [(SYield (XName "spacerow"))] [])])];
     f_gen := true |}.

(* beanquery.query_render.render_csv (without its unused **kwargs) *)
Definition render_csv_fn : fdef :=
  {| f_params := ["columns"; "rows"; "dcontext"; "file"; "expand"; "nullvalue"];
     f_body := [(SAssign (TName "ctx") (XPrim "beanquery.query_render.RenderContext:expand,spaced,listsep,null" [(XName "dcontext"); (XName "expand"); (XConst (PBool false)); (XConst (PV (VStr [44]))); (XName "nullvalue")])); (SAssign (TName "renderers") (XListComp (XCall (XConst (PRef 0)) [(XAttr (XName "column") "datatype"); (XName "ctx")] None) "column" (XName "columns") None)); (SAssign (TName "headers") (XListComp (XAttr (XName "column") "name") "column" (XName "columns") None)); (SFor "row" (XName "rows") [(SAssign (TName "$new") (XList [])); (SForUnpack ["value"; "renderer"] (XPrim "builtins.zip" [(XName "row"); (XName "renderers")]) [(SIf (XCompare (XName "value") [(CIsNot, (XConst PNone))]) [(SExpr (XMethod (TName "renderer") "update" [(XName "value")]))] []); (SExpr (XMethod (TName "$new") "append" [(XName "renderer")]))]); (SAssign (TName "renderers") (XBin OAdd (XName "$new") (XSlice (XName "renderers") (Some (XLen (XName "$new"))) None)))]); (SExpr (XListComp (XCallMethod (XName "render") "prepare" []) "render" (XName "renderers") None)); (SAssign (TName "writer") (XPrim "_csv.writer" [(XName "file")])); (SExpr (XMethod (TName "writer") "writerow" [(XName "headers")])); (SExpr (XMethod (TName "writer") "writerows" [(XCall (XConst (PRef 1)) [(XName "rows"); (XName "renderers"); (XName "ctx")] None)]))];
     f_gen := false |}.
Definition render_csv_fn_defaults : list expr := [(XConst (PBool false)); (XConst (PV (VStr [])))].

(* beanquery.query_render.render_text (without its unused **kwargs) *)
Definition render_text_fn : fdef :=
  {| f_params := ["columns"; "rows"; "dcontext"; "file"; "expand"; "boxed"; "spaced"; "listsep"; "nullvalue"; "narrow"; "unicode"];
     f_body := [(SAssign (TName "ctx") (XPrim "beanquery.query_render.RenderContext:expand,spaced,listsep,null" [(XName "dcontext"); (XName "expand"); (XName "spaced"); (XName "listsep"); (XName "nullvalue")])); (SAssign (TName "renderers") (XListComp (XCall (XConst (PRef 0)) [(XAttr (XName "column") "datatype"); (XName "ctx")] None) "column" (XName "columns") None)); (SAssign (TName "headers") (XListComp (XAttr (XName "column") "name") "column" (XName "columns") None)); (SAssign (TName "alignment") (XListComp (XAttr (XName "renderer") "align") "renderer" (XName "renderers") None)); (SFor "row" (XName "rows") [(SAssign (TName "$new") (XList [])); (SForUnpack ["value"; "renderer"] (XPrim "builtins.zip" [(XName "row"); (XName "renderers")]) [(SIf (XCompare (XName "value") [(CIsNot, (XConst PNone))]) [(SExpr (XMethod (TName "renderer") "update" [(XName "value")]))] []); (SExpr (XMethod (TName "$new") "append" [(XName "renderer")]))]); (SAssign (TName "renderers") (XBin OAdd (XName "$new") (XSlice (XName "renderers") (Some (XLen (XName "$new"))) None)))]); (SAssign (TName "widths") (XListComp (XPrim "builtins.max" [(XConst (PInt 1)); (XBoolOp false [(XName "narrow"); (XLen (XIndex (XName "$item") (XConst (PInt 0))))]); (XLen (XName "nullvalue")); (XCallMethod (XIndex (XName "$item") (XConst (PInt 1))) "prepare" [])]) "$item" (XPrim "builtins.zip" [(XName "headers"); (XName "renderers")]) None)); (SIf (XPrim "truth" [(XName "boxed")]) [(SIf (XPrim "truth" [(XName "unicode")]) [(SAssign (TName "frmt") (XConst (PV (VStr [9474; 32; 123; 125; 32; 9474; 10])))); (SAssign (TName "colsep") (XConst (PV (VStr [32; 9474; 32])))); (SAssign (TName "lines") (XListComp (XCallMethod (XConst (PV (VStr []))) "rjust" [(XName "width"); (XConst (PV (VStr [9472])))]) "width" (XName "widths") None)); (SAssign (TName "top") (XCallMethod (XConst (PV (VStr [9484; 9472; 123; 125; 9472; 9488; 10]))) "format" [(XCallMethod (XConst (PV (VStr [9472; 9516; 9472]))) "join" [(XName "lines")])])); (SAssign (TName "hline") (XCallMethod (XConst (PV (VStr [9500; 9472; 123; 125; 9472; 9508; 10]))) "format" [(XCallMethod (XConst (PV (VStr [9472; 9532; 9472]))) "join" [(XName "lines")])])); (SAssign (TName "bottom") (XCallMethod (XConst (PV (VStr [9492; 9472; 123; 125; 9472; 9496; 10]))) "format" [(XCallMethod (XConst (PV (VStr [9472; 9524; 9472]))) "join" [(XName "lines")])]))] [(SAssign (TName "frmt") (XConst (PV (VStr [124; 32; 123; 125; 32; 124; 10])))); (SAssign (TName "colsep") (XConst (PV (VStr [32; 124; 32])))); (SAssign (TName "top") (XCallMethod (XConst (PV (VStr [43; 45; 123; 125; 45; 43; 10]))) "format" [(XCallMethod (XConst (PV (VStr [45; 43; 45]))) "join" [(XListComp (XCallMethod (XConst (PV (VStr []))) "rjust" [(XName "width"); (XConst (PV (VStr [45])))]) "width" (XName "widths") None)])])); (SAssign (TName "hline") (XName "top")); (SAssign (TName "bottom") (XName "top"))])] [(SAssign (TName "frmt") (XConst (PV (VStr [123; 125; 10])))); (SAssign (TName "colsep") (XConst (PV (VStr [32; 32])))); (SAssign (TName "top") (XConst (PV (VStr [])))); (SAssign (TName "bottom") (XName "top")); (SAssign (TName "hline") (XCallMethod (XConst (PV (VStr [123; 125; 10]))) "format" [(XCallMethod (XName "colsep") "join" [(XListComp (XCallMethod (XConst (PV (VStr []))) "rjust" [(XName "width"); (XIfExp (XPrim "truth" [(XName "unicode")]) (XConst (PV (VStr [9472]))) (XConst (PV (VStr [45]))))]) "width" (XName "widths") None)])]))]); (SExpr (XMethod (TName "file") "write" [(XName "top")])); (SExpr (XMethod (TName "file") "write" [(XCallMethod (XName "frmt") "format" [(XCallMethod (XName "colsep") "join" [(XListComp (XCallMethod (XSlice (XIndex (XName "$item") (XConst (PInt 0))) None (Some (XIndex (XName "$item") (XConst (PInt 1))))) "center" [(XIndex (XName "$item") (XConst (PInt 1)))]) "$item" (XPrim "builtins.zip" [(XName "headers"); (XName "widths")]) None)])])])); (SExpr (XMethod (TName "file") "write" [(XName "hline")])); (SFor "row" (XCall (XConst (PRef 1)) [(XName "rows"); (XName "renderers"); (XName "ctx")] None) [(SExpr (XMethod (TName "file") "write" [(XCallMethod (XName "frmt") "format" [(XCallMethod (XName "colsep") "join" [(XListComp (XIfExp (XCompare (XIndex (XName "$item") (XConst (PInt 2))) [(CEq, (XConst (PInt 0)))]) (XCallMethod (XIndex (XName "$item") (XConst (PInt 0))) "ljust" [(XIndex (XName "$item") (XConst (PInt 1)))]) (XCallMethod (XIndex (XName "$item") (XConst (PInt 0))) "rjust" [(XIndex (XName "$item") (XConst (PInt 1)))])) "$item" (XPrim "builtins.zip" [(XName "row"); (XName "widths"); (XName "alignment")]) None)])])]))]); (SExpr (XMethod (TName "file") "write" [(XName "bottom")]))];
     f_gen := false |}.
Definition render_text_fn_defaults : list expr := [(XConst (PBool false)); (XConst (PBool false)); (XConst (PBool false)); (XConst (PV (VStr [32; 32]))); (XConst (PV (VStr []))); (XConst (PBool true)); (XConst (PBool false))].

(* beanquery.query_render.ColumnRenderer.__init__ *)
Definition render_base_init : fdef :=
  {| f_params := ["self"; "ctx"];
     f_body := [(SAssign (TSelf "maxwidth") (XConst (PInt 0))); (SAssign (TSelf "prepared") (XConst (PBool false)))];
     f_gen := false |}.

(* beanquery.query_render.DecimalRenderer.__init__ without its first statement `super().__init__(ctx)` *)
Definition render_decimal_init_tail : fdef :=
  {| f_params := ["self"; "ctx"];
     f_body := [(SAssign (TSelf "nintegral") (XConst (PInt 0))); (SAssign (TSelf "nfractional") (XConst (PInt 0)))];
     f_gen := false |}.

(* beanquery.query_render.AmountRenderer.__init__ without its first statement `super().__init__(ctx)` *)
Definition render_amount_init_tail : fdef :=
  {| f_params := ["self"; "ctx"];
     f_body := [(SAssign (TSelf "quantize") (XAttr (XAttr (XName "ctx") "dcontext") "quantize")); (SAssign (TSelf "dcontext") (XPrim "beancount.core.display_context.DisplayContext" [])); (SAssign (TSelf "curwidth") (XConst (PInt 0)))];
     f_gen := false |}.

(* beanquery.query_render.AmountRenderer.update *)
Definition render_amount_update : fdef :=
  {| f_params := ["self"; "value"];
     f_body := [(SIf (XCompare (XName "value") [(CIsNot, (XConst PNone))]) [(SAssign (TName "number") (XCall (XAttr (XName "self") "quantize") [(XAttr (XName "value") "number"); (XAttr (XName "value") "currency")] None)); (SExpr (XMethod (TSelf "dcontext") "update" [(XName "number"); (XAttr (XName "value") "currency")])); (SAssign (TSelf "curwidth") (XPrim "builtins.max" [(XAttr (XName "self") "curwidth"); (XLen (XAttr (XName "value") "currency"))]))] [])];
     f_gen := false |}.

(* beanquery.query_render.AmountRenderer.prepare without its last statement `return super().prepare()` *)
Definition render_amount_prepare_head : fdef :=
  {| f_params := ["self"];
     f_body := [(SAssign (TSelf "func") (XCallMethod (XAttr (XName "self") "dcontext") "build" [(XConst (PInt 2)); (XConst (PInt 2))])); (SAssign (TName "zero") (XPrim "decimal.Decimal" [])); (SFor "commodity" (XAttr (XAttr (XName "self") "dcontext") "ccontexts") [(SIf (XCompare (XName "commodity") [(CNe, (XConst (PV (VStr [95; 95; 100; 101; 102; 97; 117; 108; 116; 95; 95]))))]) [(SAssign (TSelf "maxwidth") (XPrim "builtins.max" [(XAttr (XName "self") "maxwidth"); (XBin OAdd (XBin OAdd (XLen (XPrim "apply" [(XAttr (XName "self") "func"); (XName "zero"); (XName "commodity")])) (XConst (PInt 1))) (XAttr (XName "self") "curwidth"))]))] [])])];
     f_gen := false |}.

(* beanquery.query_render.AmountRenderer.format *)
Definition render_amount_format : fdef :=
  {| f_params := ["self"; "value"];
     f_body := [(SReturn (Some (XPrim "fstr" [(XPrim "format:plain" [(XPrim "apply" [(XAttr (XName "self") "func"); (XAttr (XName "value") "number"); (XAttr (XName "value") "currency")])]); (XConst (PV (VStr [32]))); (XPrim "format:<" [(XAttr (XName "value") "currency"); (XAttr (XName "self") "curwidth")])])))];
     f_gen := false |}.

(* beanquery.query_render.PositionRenderer.__init__ without its first statement `super().__init__(ctx)` *)
Definition render_position_init_tail : fdef :=
  {| f_params := ["self"; "ctx"];
     f_body := [(SAssign (TSelf "units_renderer") (XCall (XConst (PRef 2)) [(XName "ctx")] None)); (SAssign (TSelf "cost_renderer") (XCall (XConst (PRef 2)) [(XName "ctx")] None))];
     f_gen := false |}.

(* beanquery.query_render.PositionRenderer.update *)
Definition render_position_update : fdef :=
  {| f_params := ["self"; "value"];
     f_body := [(SExpr (XMethod (TSelf "units_renderer") "update" [(XAttr (XName "value") "units")])); (SExpr (XMethod (TSelf "cost_renderer") "update" [(XAttr (XName "value") "cost")]))];
     f_gen := false |}.

(* beanquery.query_render.PositionRenderer.prepare without its last statement `return super().prepare()` *)
Definition render_position_prepare_head : fdef :=
  {| f_params := ["self"];
     f_body := [(SAssign (TName "units_width") (XMethod (TSelf "units_renderer") "prepare" [])); (SAssign (TName "cost_width") (XMethod (TSelf "cost_renderer") "prepare" [])); (SAssign (TSelf "maxwidth") (XBin OAdd (XBin OAdd (XName "units_width") (XName "cost_width")) (XIfExp (XCompare (XName "cost_width") [(CGt, (XConst (PInt 0)))]) (XConst (PInt 3)) (XConst (PInt 0)))))];
     f_gen := false |}.

(* beanquery.query_render.PositionRenderer.format *)
Definition render_position_format : fdef :=
  {| f_params := ["self"; "value"];
     f_body := [(SAssign (TName "units") (XCallMethod (XAttr (XName "self") "units_renderer") "format" [(XAttr (XName "value") "units")])); (SIf (XCompare (XAttr (XName "value") "cost") [(CIs, (XConst PNone))]) [(SReturn (Some (XCallMethod (XName "units") "ljust" [(XAttr (XName "self") "maxwidth")])))] []); (SAssign (TName "cost") (XCallMethod (XAttr (XName "self") "cost_renderer") "format" [(XAttr (XName "value") "cost")])); (SReturn (Some (XPrim "fstr" [(XPrim "format:plain" [(XName "units")]); (XConst (PV (VStr [32; 123]))); (XPrim "format:plain" [(XName "cost")]); (XConst (PV (VStr [125])))])))];
     f_gen := false |}.

(* beanquery.query_render.CostRenderer.__init__ without its first statement `super().__init__(ctx)` *)
Definition render_cost_init_tail : fdef :=
  {| f_params := ["self"; "ctx"];
     f_body := [(SAssign (TSelf "amount_renderer") (XCall (XConst (PRef 2)) [(XName "ctx")] None)); (SAssign (TSelf "date_width") (XConst (PInt 0))); (SAssign (TSelf "label_width") (XConst (PInt 0)))];
     f_gen := false |}.

(* beanquery.query_render.CostRenderer.update *)
Definition render_cost_update : fdef :=
  {| f_params := ["self"; "value"];
     f_body := [(SExpr (XMethod (TSelf "amount_renderer") "update" [(XName "value")])); (SIf (XCompare (XAttr (XName "value") "date") [(CIsNot, (XConst PNone))]) [(SAssign (TSelf "date_width") (XBin OAdd (XConst (PInt 10)) (XConst (PInt 2))))] []); (SIf (XCompare (XAttr (XName "value") "label") [(CIsNot, (XConst PNone))]) [(SAssign (TSelf "label_width") (XPrim "builtins.max" [(XAttr (XName "self") "label_width"); (XBin OAdd (XLen (XAttr (XName "value") "label")) (XConst (PInt 4)))]))] [])];
     f_gen := false |}.

(* beanquery.query_render.CostRenderer.prepare without its last statement `return super().prepare()` *)
Definition render_cost_prepare_head : fdef :=
  {| f_params := ["self"];
     f_body := [(SAssign (TName "cost_width") (XMethod (TSelf "amount_renderer") "prepare" [])); (SAssign (TSelf "maxwidth") (XBin OAdd (XBin OAdd (XName "cost_width") (XAttr (XName "self") "date_width")) (XAttr (XName "self") "label_width")))];
     f_gen := false |}.

(* beanquery.query_render.CostRenderer.format *)
Definition render_cost_format : fdef :=
  {| f_params := ["self"; "value"];
     f_body := [(SAssign (TName "parts") (XList [(XCallMethod (XAttr (XName "self") "amount_renderer") "format" [(XName "value")])])); (SIf (XCompare (XAttr (XName "value") "date") [(CIsNot, (XConst PNone))]) [(SExpr (XMethod (TName "parts") "append" [(XPrim "fstr" [(XPrim "format:spec" [(XAttr (XName "value") "date"); (XConst (PV (VStr [37; 89; 45; 37; 109; 45; 37; 100])))])])]))] []); (SIf (XCompare (XAttr (XName "value") "label") [(CIsNot, (XConst PNone))]) [(SExpr (XMethod (TName "parts") "append" [(XPrim "fstr" [(XConst (PV (VStr [34]))); (XPrim "format:plain" [(XAttr (XName "value") "label")]); (XConst (PV (VStr [34])))])]))] []); (SReturn (Some (XCallMethod (XConst (PV (VStr [44; 32]))) "join" [(XName "parts")])))];
     f_gen := false |}.

Definition refs : list (nat * string) :=
  [(0%nat, "beanquery.query_render._get_renderer"); (1%nat, "beanquery.query_render.render_rows"); (2%nat, "beanquery.query_render.AmountRenderer")].
