(* GENERATED on every run by harness/vf/py2mini.py from the source of the imported beanquery objects
   (inspect.getsource + ast).  Do not edit.  One PyMini term per translated function; `refs` names the opaque
   callables the bodies mention (XConst (PRef k)). *)
From Coq Require Import String ZArith List.
Import ListNotations.
From Verif Require Import Base.PyValue Model.PyMini.
Open Scope string_scope.
Open Scope Z_scope.

(* beanquery.query_render.ColumnRenderer.prepare *)
Definition render_base_prepare : fdef :=
  {| f_params := ["self"];
     f_body := [(SAssign (TSelf "prepared") (XConst (PBool true))); (SReturn (Some (XAttr (XName "self") "maxwidth")))];
     f_gen := false |}.

(* beanquery.query_render.ObjectRenderer.update *)
Definition render_object_update : fdef :=
  {| f_params := ["self"; "value"];
     f_body := [(SAssign (TSelf "maxwidth") (XPrim "builtins.max" [(XAttr (XName "self") "maxwidth"); (XLen (XCall (XAttr (XName "self") "format") [(XName "value")] None))]))];
     f_gen := false |}.

(* beanquery.query_render.ObjectRenderer.format *)
Definition render_object_format : fdef :=
  {| f_params := ["self"; "value"];
     f_body := [(SReturn (Some (XPrim "builtins.str" [(XName "value")])))];
     f_gen := false |}.

(* beanquery.query_render.BoolRenderer.update *)
Definition render_bool_update : fdef :=
  {| f_params := ["self"; "value"];
     f_body := [(SAssign (TSelf "maxwidth") (XPrim "builtins.max" [(XAttr (XName "self") "maxwidth"); (XIfExp (XName "value") (XConst (PInt 4)) (XConst (PInt 5)))]))];
     f_gen := false |}.

(* beanquery.query_render.BoolRenderer.format *)
Definition render_bool_format : fdef :=
  {| f_params := ["self"; "value"];
     f_body := [(SReturn (Some (XIfExp (XName "value") (XConst (PV (VStr [84; 82; 85; 69]))) (XConst (PV (VStr [70; 65; 76; 83; 69]))))))];
     f_gen := false |}.

(* beanquery.query_render.DateRenderer.update *)
Definition render_date_update : fdef :=
  {| f_params := ["self"; "value"];
     f_body := [(SAssign (TSelf "maxwidth") (XConst (PInt 10)))];
     f_gen := false |}.

(* beanquery.query_render.DateRenderer.format *)
Definition render_date_format : fdef :=
  {| f_params := ["self"; "value"];
     f_body := [(SReturn (Some (XCallMethod (XName "value") "strftime" [(XConst (PV (VStr [37; 89; 45; 37; 109; 45; 37; 100])))])))];
     f_gen := false |}.

(* beanquery.query_render.DecimalRenderer.update *)
Definition render_decimal_update : fdef :=
  {| f_params := ["self"; "value"];
     f_body := [(SAssign (TName "n") (XCallMethod (XName "value") "as_tuple" [])); (SIf (XCompare (XAttr (XName "n") "exponent") [(CGt, (XConst (PInt 0)))]) [(SAssign (TSelf "nintegral") (XPrim "builtins.max" [(XAttr (XName "self") "nintegral"); (XLen (XPrim "builtins.str" [(XName "value")]))]))] [(SAssign (TSelf "nintegral") (XPrim "builtins.max" [(XAttr (XName "self") "nintegral"); (XBin OAdd (XPrim "builtins.max" [(XConst (PInt 1)); (XBin OAdd (XLen (XAttr (XName "n") "digits")) (XAttr (XName "n") "exponent"))]) (XAttr (XName "n") "sign"))])); (SAssign (TSelf "nfractional") (XPrim "builtins.max" [(XAttr (XName "self") "nfractional"); (XNeg (XAttr (XName "n") "exponent"))]))])];
     f_gen := false |}.

(* beanquery.query_render.DecimalRenderer.format *)
Definition render_decimal_format : fdef :=
  {| f_params := ["self"; "value"];
     f_body := [(SAssign (TName "n") (XCallMethod (XName "value") "as_tuple" [])); (SIf (XCompare (XAttr (XName "n") "exponent") [(CGt, (XConst (PInt 0)))]) [(SReturn (Some (XCallMethod (XCallMethod (XPrim "builtins.str" [(XName "value")]) "rjust" [(XAttr (XName "self") "nintegral")]) "ljust" [(XAttr (XName "self") "maxwidth")])))] []); (SAssign (TName "left") (XBin OSub (XAttr (XName "self") "nintegral") (XBin OAdd (XPrim "builtins.max" [(XConst (PInt 1)); (XBin OAdd (XLen (XAttr (XName "n") "digits")) (XAttr (XName "n") "exponent"))]) (XAttr (XName "n") "sign")))); (SReturn (Some (XPrim "fstr" [(XPrim "format:>" [(XConst (PV (VStr []))); (XName "left")]); (XPrim "format:<" [(XName "value"); (XBin OSub (XAttr (XName "self") "maxwidth") (XName "left"))])])))];
     f_gen := false |}.

(* beanquery.query_render.DecimalRenderer.prepare without its last statement `return super().prepare()` *)
Definition render_decimal_prepare_head : fdef :=
  {| f_params := ["self"];
     f_body := [(SAssign (TSelf "maxwidth") (XBin OAdd (XBin OAdd (XAttr (XName "self") "nintegral") (XAttr (XName "self") "nfractional")) (XIfExp (XCompare (XAttr (XName "self") "nfractional") [(CGt, (XConst (PInt 0)))]) (XConst (PInt 1)) (XConst (PInt 0)))))];
     f_gen := false |}.

(* beanquery.query_render.render_rows *)
Definition render_rows_fn : fdef :=
  {| f_params := ["rows"; "renderers"; "ctx"];
     f_body := [(SAssign (TName "null") (XAttr (XName "ctx") "null")); (SAssign (TName "spacerow") (XBin OMul (XList [(XConst (PV (VStr [])))]) (XLen (XName "renderers")))); (SFor "row" (XName "rows") [(SAssign (TName "cells") (XListComp (XIfExp (XCompare (XIndex (XName "$item") (XConst (PInt 1))) [(CIsNot, (XConst PNone))]) (XCallMethod (XIndex (XName "$item") (XConst (PInt 0))) "format" [(XIndex (XName "$item") (XConst (PInt 1)))]) (XName "null")) "$item" (XPrim "builtins.zip" [(XName "renderers"); (XName "row")]) None)); (SIf (XNot (XPrim "truth" [(XPrim "builtins.any" [(XListComp (XPrim "isinstance:list" [(XName "cell")]) "cell" (XName "cells") None)])])) [(SYield (XName "cells"))] [(SAssign (TName "cells") (XListComp (XIfExp (XPrim "truth" [(XPrim "isinstance:list" [(XName "cell")])]) (XName "cell") (XList [(XName "cell")])) "cell" (XName "cells") None)); (SAssign (TName "nlines") (XPrim "builtins.max" [(XConst (PInt 1)); (XPrim "builtins.max" [(XListComp (XLen (XName "cell")) "cell" (XName "cells") None)])])); (SAssign (TName "$new") (XList [])); (SFor "cell" (XName "cells") [(SIf (XCompare (XLen (XName "cell")) [(CLt, (XName "nlines"))]) [(SExpr (XMethod (TName "cell") "extend" [(XBin OMul (XList [(XConst (PV (VStr [])))]) (XBin OSub (XName "nlines") (XLen (XName "cell"))))]))] []); (SExpr (XMethod (TName "$new") "append" [(XName "cell")]))]); (SAssign (TName "cells") (XName "$new")); (SFor "$y" (XPrim "zip*" [(XName "cells")]) [(SYield (XName "$y"))])]); (SIf (XPrim "truth" [(XAttr (XName "ctx") "spaced")]) [(SYield (XName "spacerow"))] [])])];
     f_gen := true |}.

(* beanquery.query_render.render_csv (without its unused **kwargs) *)
Definition render_csv_fn : fdef :=
  {| f_params := ["columns"; "rows"; "dcontext"; "file"; "expand"; "nullvalue"];
     f_body := [(SAssign (TName "ctx") (XPrim "beanquery.query_render.RenderContext:expand,spaced,listsep,null" [(XName "dcontext"); (XName "expand"); (XConst (PBool false)); (XConst (PV (VStr [44]))); (XName "nullvalue")])); (SAssign (TName "renderers") (XListComp (XCall (XConst (PRef 0)) [(XAttr (XName "column") "datatype"); (XName "ctx")] None) "column" (XName "columns") None)); (SAssign (TName "headers") (XListComp (XAttr (XName "column") "name") "column" (XName "columns") None)); (SFor "row" (XName "rows") [(SAssign (TName "$new") (XList [])); (SForUnpack ["value"; "renderer"] (XPrim "builtins.zip" [(XName "row"); (XName "renderers")]) [(SIf (XCompare (XName "value") [(CIsNot, (XConst PNone))]) [(SExpr (XMethod (TName "renderer") "update" [(XName "value")]))] []); (SExpr (XMethod (TName "$new") "append" [(XName "renderer")]))]); (SAssign (TName "renderers") (XBin OAdd (XName "$new") (XSlice (XName "renderers") (Some (XLen (XName "$new"))) None)))]); (SExpr (XListComp (XCallMethod (XName "render") "prepare" []) "render" (XName "renderers") None)); (SAssign (TName "writer") (XPrim "_csv.writer" [(XName "file")])); (SExpr (XMethod (TName "writer") "writerow" [(XName "headers")])); (SExpr (XMethod (TName "writer") "writerows" [(XCall (XConst (PRef 1)) [(XName "rows"); (XName "renderers"); (XName "ctx")] None)]))];
     f_gen := false |}.
Definition render_csv_fn_defaults : list expr := [(XConst (PBool false)); (XConst (PV (VStr [])))].

Definition refs : list (nat * string) :=
  [(0%nat, "beanquery.query_render._get_renderer"); (1%nat, "beanquery.query_render.render_rows")].
