(* GENERATED on every run by harness/vf/py2mini.py from the source of the imported beanquery objects
   (inspect.getsource + ast).  Do not edit.  One PyMini term per translated function; `refs` names the opaque
   callables the bodies mention (XConst (PRef k)). *)
From Coq Require Import String ZArith List.
Import ListNotations.
From Verif Require Import Base.PyValue Model.PyMini.
Open Scope string_scope.
Open Scope Z_scope.

(* beanquery.query_env.date_bin (BQL date_bin on a relativedelta stride); while True = for over the extra parameter $fuel, see harness/vf/src_env2.py *)
Definition env2_date_bin : fdef :=
  {| f_params := ["stride"; "source"; "origin"; "$fuel"];
     f_body := [(SIf (XBoolOp false [(XAttr (XName "stride") "months"); (XAttr (XName "stride") "years")]) [(SIf (XCompare (XBin OAdd (XName "origin") (XName "stride")) [(CLe, (XName "origin"))]) [(SReturn (Some (XConst PNone)))] []); (SIf (XCompare (XName "source") [(CGe, (XName "origin"))]) [(SAssign (TName "d") (XName "origin")); (SAssign (TName "n") (XName "origin")); (SFor "$while" (XName "$fuel") [(SAug (TName "n") OAdd (XName "stride")); (SIf (XCompare (XName "n") [(CGt, (XName "source"))]) [(SReturn (Some (XName "d")))] []); (SAssign (TName "d") (XName "n"))]); (SExpr (XPrim "while:exhausted" []))] [(SAssign (TName "n") (XName "origin")); (SFor "$while" (XName "$fuel") [(SAug (TName "n") OSub (XName "stride")); (SIf (XCompare (XName "n") [(CLe, (XName "source"))]) [(SReturn (Some (XName "n")))] [])]); (SExpr (XPrim "while:exhausted" []))])] [(SAssign (TName "seconds") (XBin OAdd (XBin OAdd (XBin OAdd (XBin OMul (XAttr (XName "stride") "days") (XConst (PInt 86400))) (XBin OMul (XAttr (XName "stride") "hours") (XConst (PInt 3600)))) (XBin OMul (XAttr (XName "stride") "minutes") (XConst (PInt 60)))) (XAttr (XName "stride") "seconds"))); (SIf (XCompare (XName "seconds") [(CLt, (XConst (PInt 0)))]) [(SReturn (Some (XConst PNone)))] []); (SAssign (TName "diff") (XCallMethod (XBin OSub (XName "source") (XName "origin")) "total_seconds" [])); (SAssign (TName "modulo") (XBin OMod (XName "diff") (XName "seconds"))); (SAssign (TName "delta") (XBin OSub (XName "diff") (XName "modulo"))); (SAssign (TName "result") (XBin OAdd (XName "origin") (XPrim "datetime.timedelta:seconds" [(XName "delta")]))); (SIf (XCompare (XName "modulo") [(CLt, (XConst (PInt 0)))]) [(SAug (TName "result") OSub (XPrim "datetime.timedelta:seconds" [(XName "seconds")]))] []); (SReturn (Some (XName "result")))])];
     f_gen := false |}.

Definition refs : list (nat * string) :=
  [].
