(* GENERATED on every run by harness/vf/py2mini.py from the source of the imported beanquery objects
   (inspect.getsource + ast).  Do not edit.  One PyMini term per translated function; `refs` names the opaque
   callables the bodies mention (XConst (PRef k)). *)
From Coq Require Import String ZArith List.
Import ListNotations.
From Verif Require Import Base.PyValue Model.PyMini.
Open Scope string_scope.
Open Scope Z_scope.

(* beanquery.query_render.InventoryRenderer.format: its first statement `if self.expand: ...; return strings` (the expanded layout) *)
Definition render_inv_format_expand : fdef :=
  {| f_params := ["self"; "value"];
     f_body := [(SIf (XAttr (XName "self") "expand") [(SAssign (TName "strings") (XList [])); (SFor "pos" (XPrim "sorted:key=positionsortkey" [(XCallMethod (XName "value") "get_positions" [])]) [(SExpr (XMethod (TName "strings") "append" [(XCallMethod (XPrim "ddict.get" [(XAttr (XName "self") "renderers"); (XAttr (XName "self") "expand")]) "format" [(XName "pos")])]))]); (SReturn (Some (XName "strings")))] [])];
     f_gen := false |}.

(* beanquery.query_render.InventoryRenderer.update: its first statement, the loop `for pos in value.get_positions(): self.renderers[...].update(pos)` *)
Definition render_inv_update_loop : fdef :=
  {| f_params := ["self"; "value"];
     f_body := [(SFor "pos" (XCallMethod (XName "value") "get_positions" []) [(SAssign (TName "$r") (XPrim "ddict.getdefault" [(XAttr (XName "self") "renderers"); (XBoolOp false [(XAttr (XName "self") "expand"); (XAttr (XAttr (XName "pos") "units") "currency")])])); (SExpr (XMethod (TName "$r") "update" [(XName "pos")])); (SAssign (TSelf "renderers") (XPrim "dict.set" [(XAttr (XName "self") "renderers"); (XBoolOp false [(XAttr (XName "self") "expand"); (XAttr (XAttr (XName "pos") "units") "currency")]); (XName "$r")]))])];
     f_gen := false |}.

(* beanquery.query_render.InventoryRenderer.prepare: `if self.expand: self.maxwidth = self.renderers[self.expand].prepare()` (without the else branch and without the final `return super().prepare()`) *)
Definition render_inv_prepare_expand : fdef :=
  {| f_params := ["self"];
     f_body := [(SIf (XAttr (XName "self") "expand") [(SAssign (TName "$r") (XPrim "ddict.getdefault" [(XAttr (XName "self") "renderers"); (XAttr (XName "self") "expand")])); (SAssign (TSelf "maxwidth") (XMethod (TName "$r") "prepare" [])); (SAssign (TSelf "renderers") (XPrim "dict.set" [(XAttr (XName "self") "renderers"); (XAttr (XName "self") "expand"); (XName "$r")]))] [])];
     f_gen := false |}.

Definition refs : list (nat * string) :=
  [].
