(* GENERATED on every run by harness/vf/py2mini.py from the source of the imported beanquery objects
   (inspect.getsource + ast).  Do not edit.  One PyMini term per translated function; `refs` names the opaque
   callables the bodies mention (XConst (PRef k)). *)
From Coq Require Import String ZArith List.
Import ListNotations.
From Verif Require Import Base.PyValue Model.PyMini.
Open Scope string_scope.
Open Scope Z_scope.

(* beanquery.query_env.BeanTable.prepare; parameters: self *)
Definition src_prepare : fdef :=
  {| f_params := ["self"];
     f_body := [(SAssign (TName "entries") (XAttr (XName "self") "entries")); (SAssign (TName "options") (XAttr (XName "self") "options")); (SIf (XCompare (XAttr (XName "self") "open") [(CIsNot, (XConst PNone))]) [(SUnpack [(TName "entries"); (TName "index")] (XPrim "beancount.ops.summarize.open_opt" [(XName "entries"); (XAttr (XName "self") "open"); (XName "options")]))] []); (SIf (XCompare (XAttr (XName "self") "close") [(CIsNot, (XConst PNone))]) [(SIf (XPrim "builtins.isinstance" [(XAttr (XName "self") "close"); (XConst (PRef 0))]) [(SUnpack [(TName "entries"); (TName "index")] (XPrim "beancount.ops.summarize.close_opt" [(XName "entries"); (XAttr (XName "self") "close"); (XName "options")]))] [(SIf (XCompare (XAttr (XName "self") "close") [(CIs, (XConst (PBool true)))]) [(SUnpack [(TName "entries"); (TName "index")] (XPrim "beancount.ops.summarize.close_opt" [(XName "entries"); (XConst PNone); (XName "options")]))] [])])] []); (SIf (XCompare (XAttr (XName "self") "clear") [(CIsNot, (XConst PNone))]) [(SUnpack [(TName "entries"); (TName "index")] (XPrim "beancount.ops.summarize.clear_opt" [(XName "entries"); (XConst PNone); (XName "options")]))] []); (SReturn (Some (XName "entries")))];
     f_gen := false |}.

Definition refs : list (nat * string) :=
  [(0%nat, "datetime.date")].
