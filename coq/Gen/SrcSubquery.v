(* GENERATED on every run by harness/vf/py2mini.py from the source of the imported beanquery objects
   (inspect.getsource + ast).  Do not edit.  One PyMini term per translated function; `refs` names the opaque
   callables the bodies mention (XConst (PRef k)). *)
From Coq Require Import String ZArith List.
Import ListNotations.
From Verif Require Import Base.PyValue Model.PyMini.
Open Scope string_scope.
Open Scope Z_scope.

(* beanquery.query_compile.SubqueryTable.__init__ *)
Definition subq_table_init : fdef :=
  {| f_params := ["self"; "subquery"];
     f_body := [(SAssign (TSelf "columns") (XPrim "dict.new" [])); (SAssign (TSelf "subquery") (XName "subquery")); (SForUnpack ["i"; "target"] (XPrim "builtins.enumerate" [(XListComp (XName "target") "target" (XAttr (XName "subquery") "c_targets") (Some (XCompare (XAttr (XName "target") "name") [(CIsNot, (XConst PNone))])))]) [(SAssign (TName "column") (XCall (XConst (PRef 0)) [(XName "i"); (XAttr (XName "target") "name"); (XAttr (XAttr (XName "target") "c_expr") "dtype")] None)); (SAssign (TSelf "columns") (XPrim "dict.set" [(XAttr (XName "self") "columns"); (XAttr (XName "target") "name"); (XCall (XName "column") [] None)]))])];
     f_gen := false |}.

(* beanquery.query_compile.SubqueryTable.__iter__ *)
Definition subq_table_iter : fdef :=
  {| f_params := ["self"];
     f_body := [(SUnpack [(TName "columns"); (TName "rows")] (XCall (XConst (PRef 1)) [(XAttr (XName "self") "subquery")] None)); (SReturn (Some (XPrim "builtins.iter" [(XName "rows")])))];
     f_gen := false |}.

(* beanquery.query_compile.EvalConstantSubquery1D.__init__ *)
Definition subq_in_init : fdef :=
  {| f_params := ["self"; "subquery"];
     f_body := [(SAssign (TSelf "dtype") (XConst (PRef 2))); (SAssign (TSelf "subquery") (XName "subquery")); (SAssign (TSelf "value") (XConst (PRef 3)))];
     f_gen := false |}.

(* beanquery.query_compile.EvalConstantSubquery1D.__call__ *)
Definition subq_in_call : fdef :=
  {| f_params := ["self"; "context"];
     f_body := [(SIf (XCompare (XAttr (XName "self") "value") [(CIs, (XConst (PRef 3)))]) [(SUnpack [(TName "columns"); (TName "rows")] (XCall (XConst (PRef 1)) [(XAttr (XName "self") "subquery")] None)); (SAssign (TName "value") (XListComp (XIndex (XName "row") (XConst (PInt 0))) "row" (XName "rows") None)); (SAssign (TSelf "value") (XIfExp (XName "value") (XName "value") (XConst PNone)))] []); (SReturn (Some (XAttr (XName "self") "value")))];
     f_gen := false |}.

(* beanquery.query_compile.EvalBinaryOp.__call__ (the node class of every IN / NOT IN overload) *)
Definition subq_node_binary : fdef :=
  {| f_params := ["self"; "context"];
     f_body := [(SAssign (TName "left") (XCall (XAttr (XName "self") "left") [(XName "context")] None)); (SIf (XCompare (XName "left") [(CIs, (XConst PNone))]) [(SReturn (Some (XConst PNone)))] []); (SAssign (TName "right") (XCall (XAttr (XName "self") "right") [(XName "context")] None)); (SIf (XCompare (XName "right") [(CIs, (XConst PNone))]) [(SReturn (Some (XConst PNone)))] []); (SReturn (Some (XCall (XAttr (XName "self") "operator") [(XName "left"); (XName "right")] None)))];
     f_gen := false |}.

(* beanquery.query_compile.in_: the function of the 3 overloads of OPERATORS[In] [['any', 'dict'], ['any', 'list'], ['any', 'set']] *)
Definition subq_in : fdef :=
  {| f_params := ["x"; "y"];
     f_body := [(SReturn (Some (XPrim "_operator.contains" [(XName "y"); (XName "x")])))];
     f_gen := false |}.

(* beanquery.query_compile.not_in_: the function of the 3 overloads of OPERATORS[NotIn] [['any', 'dict'], ['any', 'list'], ['any', 'set']] *)
Definition subq_not_in : fdef :=
  {| f_params := ["x"; "y"];
     f_body := [(SReturn (Some (XNot (XPrim "_operator.contains" [(XName "y"); (XName "x")]))))];
     f_gen := false |}.

Definition refs : list (nat * string) :=
  [(0%nat, "beanquery.query_compile.SubqueryTable.column"); (1%nat, "beanquery.query_execute.execute_query"); (2%nat, "builtins.list"); (3%nat, "beanquery.query_compile.MARKER")].

(* beanquery.query_compile.SubqueryTable.column (outside the fragment: a class statement inside a function), as data read off its
   AST: its parameters; the parameter `operator.itemgetter(.)` is applied to in
   `__call__ = staticmethod(operator.itemgetter(.))`; the parameter handed to `super().__init__(.)`; the bases *)
From Verif Require Import Model.PrimsSubquery.
Definition column_factory : factory :=
  {| fa_name := "beanquery.query_compile.SubqueryTable.column";
     fa_params := ["i"; "name"; "dtype"];
     fa_accessor := "i";
     fa_dtype := "dtype";
     fa_bases := ["beanquery.query_compile.EvalColumn"] |}.
