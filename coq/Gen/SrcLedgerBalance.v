(* GENERATED on every run by harness/vf/py2mini.py from the source of the imported beanquery objects
   (inspect.getsource + ast).  Do not edit.  One PyMini term per translated function; `refs` names the opaque
   callables the bodies mention (XConst (PRef k)). *)
From Coq Require Import String ZArith List.
Import ListNotations.
From Verif Require Import Base.PyValue Model.PyMini.
Open Scope string_scope.
Open Scope Z_scope.

(* beanquery.query_env.Row.__init__; parameters: self, entries, options *)
Definition src_row_init : fdef :=
  {| f_params := ["self"; "entries"; "options"];
     f_body := [(SAssign (TSelf "rowid") (XConst (PInt 0))); (SAssign (TSelf "balance") (XPrim "beancount.core.inventory.Inventory" [])); (SAssign (TSelf "balance_rowid") (XConst PNone)); (SAssign (TSelf "balance_value") (XConst PNone))];
     f_gen := false |}.

(* beanquery.query_env.balance (PostingsTable.columns["balance"]; receiver: context); parameters: context *)
Definition src_balance : fdef :=
  {| f_params := ["context"];
     f_body := [(SIf (XCompare (XAttr (XName "context") "balance_rowid") [(CNe, (XAttr (XName "context") "rowid"))]) [(SExpr (XMethod (TSelf "balance") "add_position" [(XAttr (XName "context") "posting")])); (SAssign (TSelf "balance_value") (XPrim "copy.copy" [(XAttr (XName "context") "balance")])); (SAssign (TSelf "balance_rowid") (XAttr (XName "context") "rowid"))] []); (SReturn (Some (XAttr (XName "context") "balance_value")))];
     f_gen := false |}.

Definition refs : list (nat * string) :=
  [].

(* vars(beanquery.query_env.Row): the class attributes an instance reads until it assigns its own *)
Definition row_class_attrs : list (string * pv) :=
  [("rowid", PNone); ("posting", PNone); ("entry", PNone)].
