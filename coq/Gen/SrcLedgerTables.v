(* GENERATED on every run by harness/vf/py2mini.py from the source of the imported beanquery objects
   (inspect.getsource + ast).  Do not edit.  One PyMini term per translated function; `refs` names the opaque
   callables the bodies mention (XConst (PRef k)). *)
From Coq Require Import String ZArith List.
Import ListNotations.
From Verif Require Import Base.PyValue Model.PyMini.
Open Scope string_scope.
Open Scope Z_scope.

(* beanquery.query_env.Row.__init__; parameters: self, entries, options *)
Definition src_row_init : fdef :=
  {| f_params := ["self"; "entries"; "options"];
     f_body := [(SAssign (TSelf "rowid") (XConst (PInt 0))); (SAssign (TSelf "balance") (XPrim "beancount.core.inventory.Inventory" [])); (SAssign (TSelf "balance_rowid") (XConst PNone)); (SAssign (TSelf "balance_value") (XConst PNone))];
     f_gen := false |}.

(* beanquery.query_env.EntriesTable.__iter__; parameters: self *)
Definition src_entries_iter : fdef :=
  {| f_params := ["self"];
     f_body := [(SAssign (TName "entries") (XCall (XAttr (XName "self") "prepare") [] None)); (SAssign (TName "context") (XPrim "beanquery.query_env.Row" [(XName "entries"); (XAttr (XName "self") "options")])); (SFor "entry" (XName "entries") [(SAssign (TName "context") (XPrim "setattr:entry" [(XName "context"); (XName "entry")])); (SAssign (TName "context") (XPrim "setattr:rowid" [(XName "context"); (XBin OAdd (XAttr (XName "context") "rowid") (XConst (PInt 1)))])); (SYield (XName "context"))])];
     f_gen := true |}.

(* beanquery.query_env.PostingsTable.__iter__; parameters: self *)
Definition src_postings_iter : fdef :=
  {| f_params := ["self"];
     f_body := [(SAssign (TName "entries") (XCall (XAttr (XName "self") "prepare") [] None)); (SAssign (TName "context") (XPrim "beanquery.query_env.Row" [(XName "entries"); (XAttr (XName "self") "options")])); (SFor "entry" (XName "entries") [(SIf (XPrim "builtins.isinstance" [(XName "entry"); (XConst (PRef 0))]) [(SAssign (TName "context") (XPrim "setattr:entry" [(XName "context"); (XName "entry")])); (SFor "posting" (XAttr (XName "entry") "postings") [(SAssign (TName "context") (XPrim "setattr:rowid" [(XName "context"); (XBin OAdd (XAttr (XName "context") "rowid") (XConst (PInt 1)))])); (SAssign (TName "context") (XPrim "setattr:posting" [(XName "context"); (XName "posting")])); (SYield (XName "context"))])] [])])];
     f_gen := true |}.

(* beanquery.sources.beancount.Table.__iter__; parameters: self *)
Definition src_typed_iter : fdef :=
  {| f_params := ["self"];
     f_body := [(SAssign (TName "datatype") (XAttr (XName "self") "datatype")); (SFor "entry" (XAttr (XName "self") "entries") [(SIf (XPrim "builtins.isinstance" [(XName "entry"); (XName "datatype")]) [(SYield (XName "entry"))] [])])];
     f_gen := true |}.

Definition refs : list (nat * string) :=
  [(0%nat, "beancount.core.data.Transaction")].

(* vars(beanquery.query_env.Row): the class attributes an instance reads until it assigns its own *)
Definition row_class_attrs : list (string * pv) :=
  [("rowid", PNone); ("posting", PNone); ("entry", PNone)].

(* the table classes of beanquery.sources.beancount whose __iter__ is Table.__iter__, with their datatype *)
Definition typed_tables : list (string * string) :=
  [("balances", "beancount.core.data.Balance"); ("documents", "beancount.core.data.Document"); ("events", "beancount.core.data.Event"); ("notes", "beancount.core.data.Note"); ("prices", "beancount.core.data.Price"); ("transactions", "beancount.core.data.Transaction")].
