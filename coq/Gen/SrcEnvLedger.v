(* GENERATED on every run by harness/vf/py2mini.py from the source of the imported beanquery objects
   (inspect.getsource + ast).  Do not edit.  One PyMini term per translated function; `refs` names the opaque
   callables the bodies mention (XConst (PRef k)). *)
From Coq Require Import String ZArith List.
Import ListNotations.
From Verif Require Import Base.PyValue Model.PyMini.
Open Scope string_scope.
Open Scope Z_scope.

(* beanquery.query_env.position_units (BQL units) *)
Definition envl_position_units : fdef :=
  {| f_params := ["pos"];
     f_body := [(SReturn (Some (XPrim "beancount.core.convert.get_units" [(XName "pos")])))];
     f_gen := false |}.

(* beanquery.query_env.inventory_units (BQL units) *)
Definition envl_inventory_units : fdef :=
  {| f_params := ["inv"];
     f_body := [(SReturn (Some (XCallMethod (XName "inv") "reduce" [(XConst (PRef 0))])))];
     f_gen := false |}.

(* beanquery.query_env.position_cost (BQL cost) *)
Definition envl_position_cost : fdef :=
  {| f_params := ["pos"];
     f_body := [(SReturn (Some (XPrim "beancount.core.convert.get_cost" [(XName "pos")])))];
     f_gen := false |}.

(* beanquery.query_env.inventory_cost (BQL cost) *)
Definition envl_inventory_cost : fdef :=
  {| f_params := ["inv"];
     f_body := [(SReturn (Some (XCallMethod (XName "inv") "reduce" [(XConst (PRef 1))])))];
     f_gen := false |}.

(* beanquery.query_env.position_value (BQL value); context.tables[..] reads are the parameters prices_price_map *)
Definition envl_position_value : fdef :=
  {| f_params := ["prices_price_map"; "pos"; "date"];
     f_body := [(SAssign (TName "price_map") (XName "prices_price_map")); (SReturn (Some (XPrim "beancount.core.convert.get_value" [(XName "pos"); (XName "price_map"); (XName "date")])))];
     f_gen := false |}.
Definition envl_position_value_defaults : list expr := [(XConst PNone)].

(* beanquery.query_env.inventory_value (BQL value); context.tables[..] reads are the parameters prices_price_map *)
Definition envl_inventory_value : fdef :=
  {| f_params := ["prices_price_map"; "inv"; "date"];
     f_body := [(SAssign (TName "price_map") (XName "prices_price_map")); (SReturn (Some (XCallMethod (XName "inv") "reduce" [(XConst (PRef 2)); (XName "price_map"); (XName "date")])))];
     f_gen := false |}.
Definition envl_inventory_value_defaults : list expr := [(XConst PNone)].

(* beanquery.query_env.convert_amount (BQL convert); context.tables[..] reads are the parameters prices_price_map *)
Definition envl_convert_amount : fdef :=
  {| f_params := ["prices_price_map"; "amount_"; "currency"; "date"];
     f_body := [(SAssign (TName "price_map") (XName "prices_price_map")); (SReturn (Some (XPrim "beancount.core.convert.convert_amount" [(XName "amount_"); (XName "currency"); (XName "price_map"); (XName "date")])))];
     f_gen := false |}.
Definition envl_convert_amount_defaults : list expr := [(XConst PNone)].

(* beanquery.query_env.convert_position (BQL convert); context.tables[..] reads are the parameters prices_price_map *)
Definition envl_convert_position : fdef :=
  {| f_params := ["prices_price_map"; "pos"; "currency"; "date"];
     f_body := [(SAssign (TName "price_map") (XName "prices_price_map")); (SReturn (Some (XPrim "beancount.core.convert.convert_position" [(XName "pos"); (XName "currency"); (XName "price_map"); (XName "date")])))];
     f_gen := false |}.
Definition envl_convert_position_defaults : list expr := [(XConst PNone)].

(* beanquery.query_env.convert_inventory (BQL convert); context.tables[..] reads are the parameters prices_price_map *)
Definition envl_convert_inventory : fdef :=
  {| f_params := ["prices_price_map"; "inv"; "currency"; "date"];
     f_body := [(SAssign (TName "price_map") (XName "prices_price_map")); (SReturn (Some (XCallMethod (XName "inv") "reduce" [(XConst (PRef 3)); (XName "currency"); (XName "price_map"); (XName "date")])))];
     f_gen := false |}.
Definition envl_convert_inventory_defaults : list expr := [(XConst PNone)].

(* beanquery.query_env.getprice (BQL getprice); context.tables[..] reads are the parameters prices_price_map *)
Definition envl_getprice : fdef :=
  {| f_params := ["prices_price_map"; "base"; "quote"; "date"];
     f_body := [(SAssign (TName "price_map") (XName "prices_price_map")); (SAssign (TName "pair") (XTuple [(XCallMethod (XName "base") "upper" []); (XCallMethod (XName "quote") "upper" [])])); (SUnpack [(TName "_"); (TName "price")] (XPrim "beancount.core.prices.get_price" [(XName "price_map"); (XName "pair"); (XName "date")])); (SReturn (Some (XName "price")))];
     f_gen := false |}.
Definition envl_getprice_defaults : list expr := [(XConst PNone)].

(* beanquery.query_env.number (BQL number) *)
Definition envl_number : fdef :=
  {| f_params := ["x"];
     f_body := [(SReturn (Some (XAttr (XName "x") "number")))];
     f_gen := false |}.

(* beanquery.query_env.currency (BQL commodity, currency) *)
Definition envl_currency : fdef :=
  {| f_params := ["x"];
     f_body := [(SReturn (Some (XAttr (XName "x") "currency")))];
     f_gen := false |}.

(* beanquery.query_env.filter_currency_position (BQL filter_currency) *)
Definition envl_filter_currency_position : fdef :=
  {| f_params := ["pos"; "currency"];
     f_body := [(SReturn (Some (XIfExp (XCompare (XAttr (XAttr (XName "pos") "units") "currency") [(CEq, (XName "currency"))]) (XName "pos") (XConst PNone))))];
     f_gen := false |}.

(* beanquery.query_env.open_date (BQL open_date); context.tables[..] reads are the parameters accounts_accounts *)
Definition envl_open_date : fdef :=
  {| f_params := ["accounts_accounts"; "acc"];
     f_body := [(SUnpack [(TName "open_entry"); (TName "_")] (XCallMethod (XName "accounts_accounts") "get" [(XName "acc"); (XTuple [(XConst PNone); (XConst PNone)])])); (SIf (XCompare (XName "open_entry") [(CIs, (XConst PNone))]) [(SReturn (Some (XConst PNone)))] []); (SReturn (Some (XAttr (XName "open_entry") "date")))];
     f_gen := false |}.

(* beanquery.query_env.close_date (BQL close_date); context.tables[..] reads are the parameters accounts_accounts *)
Definition envl_close_date : fdef :=
  {| f_params := ["accounts_accounts"; "acc"];
     f_body := [(SUnpack [(TName "_"); (TName "close_entry")] (XCallMethod (XName "accounts_accounts") "get" [(XName "acc"); (XTuple [(XConst PNone); (XConst PNone)])])); (SIf (XCompare (XName "close_entry") [(CIs, (XConst PNone))]) [(SReturn (Some (XConst PNone)))] []); (SReturn (Some (XAttr (XName "close_entry") "date")))];
     f_gen := false |}.

(* beanquery.query_env.open_meta (BQL open_meta); context.tables[..] reads are the parameters accounts_accounts *)
Definition envl_open_meta : fdef :=
  {| f_params := ["accounts_accounts"; "account"; "key"];
     f_body := [(SUnpack [(TName "open_entry"); (TName "_")] (XCallMethod (XName "accounts_accounts") "get" [(XName "account"); (XTuple [(XConst PNone); (XConst PNone)])])); (SIf (XCompare (XName "open_entry") [(CIs, (XConst PNone))]) [(SReturn (Some (XConst PNone)))] []); (SIf (XCompare (XName "key") [(CIs, (XConst PNone))]) [(SReturn (Some (XAttr (XName "open_entry") "meta")))] []); (SReturn (Some (XCallMethod (XAttr (XName "open_entry") "meta") "get" [(XName "key")])))];
     f_gen := false |}.
Definition envl_open_meta_defaults : list expr := [(XConst PNone)].

(* beanquery.query_env.currency_meta (BQL commodity_meta, currency_meta); context.tables[..] reads are the parameters commodities_commodities *)
Definition envl_currency_meta : fdef :=
  {| f_params := ["commodities_commodities"; "commodity"; "key"];
     f_body := [(SAssign (TName "entry") (XCallMethod (XName "commodities_commodities") "get" [(XName "commodity")])); (SIf (XCompare (XName "entry") [(CIs, (XConst PNone))]) [(SReturn (Some (XConst PNone)))] []); (SIf (XCompare (XName "key") [(CIs, (XConst PNone))]) [(SReturn (Some (XAttr (XName "entry") "meta")))] []); (SReturn (Some (XCallMethod (XAttr (XName "entry") "meta") "get" [(XName "key")])))];
     f_gen := false |}.
Definition envl_currency_meta_defaults : list expr := [(XConst PNone)].

(* beanquery.query_env.GetItem2.__call__ (BQL getitem, 2 operands) *)
Definition envl_getitem2 : fdef :=
  {| f_params := ["self"; "row"];
     f_body := [(SUnpack [(TName "obj"); (TName "key")] (XAttr (XName "self") "operands")); (SAssign (TName "obj") (XCall (XName "obj") [(XName "row")] None)); (SIf (XCompare (XName "obj") [(CIs, (XConst PNone))]) [(SReturn (Some (XConst PNone)))] []); (SReturn (Some (XCallMethod (XName "obj") "get" [(XCall (XName "key") [(XName "row")] None)])))];
     f_gen := false |}.

(* beanquery.query_env.GetItem3.__call__ (BQL getitem, 3 operands) *)
Definition envl_getitem3 : fdef :=
  {| f_params := ["self"; "row"];
     f_body := [(SUnpack [(TName "obj"); (TName "key"); (TName "default")] (XAttr (XName "self") "operands")); (SAssign (TName "obj") (XCall (XName "obj") [(XName "row")] None)); (SIf (XCompare (XName "obj") [(CIs, (XConst PNone))]) [(SReturn (Some (XConst PNone)))] []); (SReturn (Some (XCallMethod (XName "obj") "get" [(XCall (XName "key") [(XName "row")] None); (XCall (XName "default") [(XName "row")] None)])))];
     f_gen := false |}.

(* beanquery.query_env.only_inventory (BQL only); theorem in Proofs/SrcInvFuncs.v *)
Definition envlx_only_inventory : fdef :=
  {| f_params := ["currency"; "inventory_"];
     f_body := [(SReturn (Some (XCallMethod (XName "inventory_") "get_currency_units" [(XName "currency")])))];
     f_gen := false |}.

(* beanquery.query_env.empty_inventory (BQL empty); theorem in Proofs/SrcInvFuncs.v *)
Definition envlx_empty_inventory : fdef :=
  {| f_params := ["inventory_"];
     f_body := [(SReturn (Some (XCallMethod (XName "inventory_") "is_empty" [])))];
     f_gen := false |}.

(* beanquery.query_env.filter_currency_inventory (BQL filter_currency); theorem in Proofs/SrcInvFuncs.v *)
Definition envlx_filter_currency_inventory : fdef :=
  {| f_params := ["inv"; "currency"];
     f_body := [(SReturn (Some (XPrim "beancount.core.inventory.Inventory" [(XListComp (XName "pos") "pos" (XName "inv") (Some (XCompare (XAttr (XAttr (XName "pos") "units") "currency") [(CEq, (XName "currency"))])))])))];
     f_gen := false |}.

Definition refs : list (nat * string) :=
  [(0%nat, "beancount.core.convert.get_units"); (1%nat, "beancount.core.convert.get_cost"); (2%nat, "beancount.core.convert.get_value"); (3%nat, "beancount.core.convert.convert_position")].
