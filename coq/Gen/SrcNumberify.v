(* GENERATED on every run by harness/vf/py2mini.py from the source of the imported beanquery objects
   (inspect.getsource + ast).  Do not edit.  One PyMini term per translated function; `refs` names the opaque
   callables the bodies mention (XConst (PRef k)). *)
From Coq Require Import String ZArith List.
Import ListNotations.
From Verif Require Import Base.PyValue Model.PyMini.
Open Scope string_scope.
Open Scope Z_scope.

(* beanquery.numberify.numberify_results *)
Definition numberify_driver : fdef :=
  {| f_params := ["columns"; "drows"; "dformat"];
     f_body := [(SAssign (TName "converters") (XList [])); (SForUnpack ["index"; "column"] (XPrim "builtins.enumerate" [(XName "columns")]) [(SAssign (TName "convert_col_fun") (XPrim "global:CONVERTING_TYPES.get" [(XAttr (XName "column") "datatype")])); (SIf (XCompare (XName "convert_col_fun") [(CIs, (XConst PNone))]) [(SExpr (XMethod (TName "converters") "append" [(XCall (XConst (PRef 0)) [(XAttr (XName "column") "name"); (XAttr (XName "column") "datatype"); (XName "index")] None)]))] [(SAssign (TName "col_converters") (XPrim "apply" [(XName "convert_col_fun"); (XAttr (XName "column") "name"); (XName "drows"); (XName "index")])); (SExpr (XMethod (TName "converters") "extend" [(XName "col_converters")]))])]); (SAssign (TName "otypes") (XPrim "builtins.tuple" [(XListComp (XCall (XConst (PRef 1)) [(XAttr (XName "c") "name"); (XAttr (XName "c") "dtype")] None) "c" (XName "converters") None)])); (SAssign (TName "orows") (XList [])); (SFor "drow" (XName "drows") [(SAssign (TName "orow") (XList [])); (SFor "converter" (XName "converters") [(SExpr (XMethod (TName "orow") "append" [(XPrim "apply" [(XName "converter"); (XName "drow"); (XName "dformat")])]))]); (SExpr (XMethod (TName "orows") "append" [(XName "orow")]))]); (SReturn (Some (XTuple [(XName "otypes"); (XName "orows")])))];
     f_gen := false |}.
Definition numberify_driver_defaults : list expr := [(XConst PNone)].

(* beanquery.numberify.IdentityConverter.__init__ *)
Definition conv_identity_init : fdef :=
  {| f_params := ["self"; "name"; "dtype"; "index"];
     f_body := [(SAssign (TSelf "name") (XName "name")); (SAssign (TSelf "dtype") (XName "dtype")); (SAssign (TSelf "index") (XName "index"))];
     f_gen := false |}.

(* beanquery.numberify.IdentityConverter.__call__ *)
Definition conv_identity_call : fdef :=
  {| f_params := ["self"; "drow"; "_"];
     f_body := [(SReturn (Some (XIndex (XName "drow") (XAttr (XName "self") "index"))))];
     f_gen := false |}.

(* beanquery.numberify.AmountConverter.__init__ *)
Definition conv_amount_init : fdef :=
  {| f_params := ["self"; "name"; "index"; "currency"];
     f_body := [(SAssign (TSelf "name") (XName "name")); (SAssign (TSelf "index") (XName "index")); (SAssign (TSelf "currency") (XName "currency"))];
     f_gen := false |}.

(* beanquery.numberify.AmountConverter.__call__ *)
Definition conv_amount_call : fdef :=
  {| f_params := ["self"; "drow"; "dformat"];
     f_body := [(SAssign (TName "vamount") (XIndex (XName "drow") (XAttr (XName "self") "index"))); (SIf (XBoolOp true [(XPrim "truth" [(XName "vamount")]); (XCompare (XAttr (XName "vamount") "currency") [(CEq, (XAttr (XName "self") "currency"))])]) [(SAssign (TName "number") (XAttr (XName "vamount") "number")); (SIf (XPrim "truth" [(XName "dformat")]) [(SAssign (TName "number") (XCallMethod (XName "dformat") "quantize" [(XName "number"); (XAttr (XName "self") "currency")]))] [])] [(SAssign (TName "number") (XConst PNone))]); (SReturn (Some (XName "number")))];
     f_gen := false |}.

(* beanquery.numberify.PositionConverter.__init__ *)
Definition conv_position_init : fdef :=
  {| f_params := ["self"; "name"; "index"; "currency"];
     f_body := [(SAssign (TSelf "name") (XName "name")); (SAssign (TSelf "index") (XName "index")); (SAssign (TSelf "currency") (XName "currency"))];
     f_gen := false |}.

(* beanquery.numberify.PositionConverter.__call__ *)
Definition conv_position_call : fdef :=
  {| f_params := ["self"; "drow"; "dformat"];
     f_body := [(SAssign (TName "pos") (XIndex (XName "drow") (XAttr (XName "self") "index"))); (SIf (XBoolOp true [(XPrim "truth" [(XName "pos")]); (XCompare (XAttr (XAttr (XName "pos") "units") "currency") [(CEq, (XAttr (XName "self") "currency"))])]) [(SAssign (TName "number") (XAttr (XAttr (XName "pos") "units") "number")); (SIf (XPrim "truth" [(XName "dformat")]) [(SAssign (TName "number") (XCallMethod (XName "dformat") "quantize" [(XAttr (XAttr (XName "pos") "units") "number"); (XAttr (XName "self") "currency")]))] [])] [(SAssign (TName "number") (XConst PNone))]); (SReturn (Some (XName "number")))];
     f_gen := false |}.

(* beanquery.numberify.InventoryConverter.__init__ *)
Definition conv_inventory_init : fdef :=
  {| f_params := ["self"; "name"; "index"; "currency"];
     f_body := [(SAssign (TSelf "name") (XName "name")); (SAssign (TSelf "index") (XName "index")); (SAssign (TSelf "currency") (XName "currency"))];
     f_gen := false |}.

(* beanquery.numberify.InventoryConverter.__call__ *)
Definition conv_inventory_call : fdef :=
  {| f_params := ["self"; "drow"; "dformat"];
     f_body := [(SAssign (TName "inv") (XIndex (XName "drow") (XAttr (XName "self") "index"))); (SIf (XCompare (XName "inv") [(CIs, (XConst PNone))]) [(SReturn (Some (XConst PNone)))] []); (SAssign (TName "number") (XAttr (XCallMethod (XName "inv") "get_currency_units" [(XAttr (XName "self") "currency")]) "number")); (SIf (XBoolOp true [(XPrim "truth" [(XName "number")]); (XPrim "truth" [(XName "dformat")])]) [(SReturn (Some (XCallMethod (XName "dformat") "quantize" [(XName "number"); (XAttr (XName "self") "currency")])))] []); (SReturn (Some (XBoolOp false [(XName "number"); (XConst PNone)])))];
     f_gen := false |}.

(* beanquery.numberify.convert_col_Amount *)
Definition census_amount : fdef :=
  {| f_params := ["name"; "drows"; "index"];
     f_body := [(SAssign (TName "currency_map") (XPrim "collections.defaultdict(int)" [])); (SFor "drow" (XName "drows") [(SAssign (TName "vamount") (XIndex (XName "drow") (XName "index"))); (SIf (XBoolOp true [(XPrim "truth" [(XName "vamount")]); (XPrim "truth" [(XAttr (XName "vamount") "currency")])]) [(SAssign (TName "currency_map") (XPrim "stmt:setitem" [(XName "currency_map"); (XAttr (XName "vamount") "currency"); (XBin OAdd (XPrim "dd:getitem" [(XName "currency_map"); (XAttr (XName "vamount") "currency")]) (XConst (PInt 1)))]))] [])]); (SReturn (Some (XListComp (XCall (XConst (PRef 2)) [(XCallMethod (XConst (PV (VStr [123; 125; 32; 40; 123; 125; 41]))) "format" [(XName "name"); (XIndex (XName "$item") (XConst (PInt 0)))]); (XName "index"); (XIndex (XName "$item") (XConst (PInt 0)))] None) "$item" (XPrim "builtins.sorted:key,reverse" [(XCallMethod (XName "currency_map") "items" []); (XConst (PRef 3)); (XConst (PBool true))]) None)))];
     f_gen := false |}.

(* beanquery.numberify.convert_col_Position *)
Definition census_position : fdef :=
  {| f_params := ["name"; "drows"; "index"];
     f_body := [(SAssign (TName "currency_map") (XPrim "collections.defaultdict(int)" [])); (SFor "drow" (XName "drows") [(SAssign (TName "pos") (XIndex (XName "drow") (XName "index"))); (SIf (XBoolOp true [(XPrim "truth" [(XName "pos")]); (XPrim "truth" [(XAttr (XAttr (XName "pos") "units") "currency")])]) [(SAssign (TName "currency_map") (XPrim "stmt:setitem" [(XName "currency_map"); (XAttr (XAttr (XName "pos") "units") "currency"); (XBin OAdd (XPrim "dd:getitem" [(XName "currency_map"); (XAttr (XAttr (XName "pos") "units") "currency")]) (XConst (PInt 1)))]))] [])]); (SReturn (Some (XListComp (XCall (XConst (PRef 4)) [(XCallMethod (XConst (PV (VStr [123; 125; 32; 40; 123; 125; 41]))) "format" [(XName "name"); (XIndex (XName "$item") (XConst (PInt 0)))]); (XName "index"); (XIndex (XName "$item") (XConst (PInt 0)))] None) "$item" (XPrim "builtins.sorted:key,reverse" [(XCallMethod (XName "currency_map") "items" []); (XConst (PRef 5)); (XConst (PBool true))]) None)))];
     f_gen := false |}.

(* beanquery.numberify.convert_col_Inventory *)
Definition census_inventory : fdef :=
  {| f_params := ["name"; "drows"; "index"];
     f_body := [(SAssign (TName "currency_map") (XPrim "collections.defaultdict(int)" [])); (SFor "drow" (XName "drows") [(SAssign (TName "inv") (XIndex (XName "drow") (XName "index"))); (SIf (XCompare (XName "inv") [(CIs, (XConst PNone))]) [] [(SFor "currency" (XCallMethod (XName "inv") "currencies" []) [(SAssign (TName "currency_map") (XPrim "stmt:setitem" [(XName "currency_map"); (XName "currency"); (XBin OAdd (XPrim "dd:getitem" [(XName "currency_map"); (XName "currency")]) (XConst (PInt 1)))]))])])]); (SReturn (Some (XListComp (XCall (XConst (PRef 6)) [(XCallMethod (XConst (PV (VStr [123; 125; 32; 40; 123; 125; 41]))) "format" [(XName "name"); (XIndex (XName "$item") (XConst (PInt 0)))]); (XName "index"); (XIndex (XName "$item") (XConst (PInt 0)))] None) "$item" (XPrim "builtins.sorted:key,reverse" [(XCallMethod (XName "currency_map") "items" []); (XConst (PRef 7)); (XConst (PBool true))]) None)))];
     f_gen := false |}.

(* synthetic: lambda item: (item[1], item[0]) *)
Definition census_amount_lambda0 : fdef :=
  {| f_params := ["item"];
     f_body := [(SReturn (Some (XTuple [(XIndex (XName "item") (XConst (PInt 1))); (XIndex (XName "item") (XConst (PInt 0)))])))];
     f_gen := false |}.

(* synthetic: lambda item: (item[1], item[0]) *)
Definition census_position_lambda0 : fdef :=
  {| f_params := ["item"];
     f_body := [(SReturn (Some (XTuple [(XIndex (XName "item") (XConst (PInt 1))); (XIndex (XName "item") (XConst (PInt 0)))])))];
     f_gen := false |}.

(* synthetic: lambda item: (item[1], item[0]) *)
Definition census_inventory_lambda0 : fdef :=
  {| f_params := ["item"];
     f_body := [(SReturn (Some (XTuple [(XIndex (XName "item") (XConst (PInt 1))); (XIndex (XName "item") (XConst (PInt 0)))])))];
     f_gen := false |}.

Definition refs : list (nat * string) :=
  [(0%nat, "beanquery.numberify.IdentityConverter"); (1%nat, "beanquery.Column"); (2%nat, "beanquery.numberify.AmountConverter"); (3%nat, "lambda:census_amount_lambda0"); (4%nat, "beanquery.numberify.PositionConverter"); (5%nat, "lambda:census_position_lambda0"); (6%nat, "beanquery.numberify.InventoryConverter"); (7%nat, "lambda:census_inventory_lambda0"); (8%nat, "beanquery.numberify.convert_col_Amount"); (9%nat, "beanquery.numberify.convert_col_Position"); (10%nat, "beanquery.numberify.convert_col_Inventory")].

(* the synthetic functions of the lambdas, by opaque-callable number *)
Definition lambdas : list (nat * fdef) :=
  [(3%nat, census_amount_lambda0); (5%nat, census_position_lambda0); (7%nat, census_inventory_lambda0)].

(* translated functions that the bodies reach as opaque callables (census functions via CONVERTING_TYPES) *)
Definition functions : list (nat * fdef) :=
  [(8%nat, census_amount); (9%nat, census_position); (10%nat, census_inventory)].

(* beanquery.numberify.CONVERTING_TYPES: encoded datatype -> opaque-callable number of the census function *)
Definition converting_types : list (pv * nat) :=
  [((PTuple [PInt 31]), 8%nat); ((PTuple [PInt 32]), 9%nat); ((PTuple [PInt 33]), 10%nat)].

(* class attribute `dtype` of the converter classes *)
Definition converter_dtypes : list (string * option pv) :=
  [("IdentityConverter", None); ("AmountConverter", Some (PTuple [PInt 30; PInt 1])); ("PositionConverter", Some (PTuple [PInt 30; PInt 1])); ("InventoryConverter", Some (PTuple [PInt 30; PInt 1]))].
