(* GENERATED on every run by harness/vf/py2mini.py from the source of the imported beanquery objects
   (inspect.getsource + ast).  Do not edit.  One PyMini term per translated function; `refs` names the opaque
   callables the bodies mention (XConst (PRef k)). *)
From Coq Require Import String ZArith List.
Import ListNotations.
From Verif Require Import Base.PyValue Model.PyMini.
Open Scope string_scope.
Open Scope Z_scope.

(* beanquery.cursor.Cursor.fetchone *)
Definition cursor_fetchone : fdef :=
  {| f_params := ["self"];
     f_body := [(SIf (XBoolOp false [(XCompare (XAttr (XName "self") "_rows") [(CIs, (XConst PNone))]); (XNot (XLen (XAttr (XName "self") "_rows")))]) [(SReturn (Some (XConst PNone)))] []); (SAug (TSelf "_pos") OAdd (XConst (PInt 1))); (SReturn (Some (XMethod (TSelf "_rows") "pop" [(XConst (PInt 0))])))];
     f_gen := false |}.

(* beanquery.cursor.Cursor.fetchmany *)
Definition cursor_fetchmany : fdef :=
  {| f_params := ["self"; "size"];
     f_body := [(SIf (XCompare (XAttr (XName "self") "_rows") [(CIs, (XConst PNone))]) [(SReturn (Some (XList [])))] []); (SAssign (TName "n") (XIfExp (XCompare (XName "size") [(CIsNot, (XConst PNone))]) (XName "size") (XAttr (XName "self") "arraysize"))); (SAssign (TName "rows") (XSlice (XAttr (XName "self") "_rows") None (Some (XName "n")))); (SAssign (TSelf "_rows") (XSlice (XAttr (XName "self") "_rows") (Some (XName "n")) None)); (SAug (TSelf "_pos") OAdd (XLen (XName "rows"))); (SReturn (Some (XName "rows")))];
     f_gen := false |}.
Definition cursor_fetchmany_defaults : list expr := [(XConst PNone)].

(* beanquery.cursor.Cursor.fetchall *)
Definition cursor_fetchall : fdef :=
  {| f_params := ["self"];
     f_body := [(SIf (XCompare (XAttr (XName "self") "_rows") [(CIs, (XConst PNone))]) [(SReturn (Some (XList [])))] []); (SAssign (TName "rows") (XAttr (XName "self") "_rows")); (SAssign (TSelf "_rows") (XList [])); (SAug (TSelf "_pos") OAdd (XLen (XName "rows"))); (SReturn (Some (XName "rows")))];
     f_gen := false |}.

(* beanquery.cursor.Cursor.rowcount *)
Definition cursor_rowcount : fdef :=
  {| f_params := ["self"];
     f_body := [(SReturn (Some (XAttr (XName "self") "_rowcount")))];
     f_gen := false |}.

(* beanquery.cursor.Cursor.rownumber *)
Definition cursor_rownumber : fdef :=
  {| f_params := ["self"];
     f_body := [(SReturn (Some (XAttr (XName "self") "_pos")))];
     f_gen := false |}.

(* beanquery.cursor.Cursor.description *)
Definition cursor_description : fdef :=
  {| f_params := ["self"];
     f_body := [(SReturn (Some (XAttr (XName "self") "_description")))];
     f_gen := false |}.

(* beanquery.cursor.Cursor.__init__ *)
Definition cursor_init : fdef :=
  {| f_params := ["self"; "connection"];
     f_body := [(SAssign (TSelf "_context") (XName "connection")); (SAssign (TSelf "_description") (XConst PNone)); (SAssign (TSelf "_rows") (XConst PNone)); (SAssign (TSelf "_rowcount") (XConst (PInt (-1)))); (SAssign (TSelf "_pos") (XConst (PInt 0))); (SAssign (TSelf "arraysize") (XConst (PInt 1)))];
     f_gen := false |}.

(* beanquery.cursor.Cursor.execute *)
Definition cursor_execute : fdef :=
  {| f_params := ["self"; "query"; "params"];
     f_body := [(SIf (XNot (XCall (XConst (PRef 1)) [(XName "query"); (XConst (PRef 0))] None)) [(SAssign (TName "query") (XCall (XConst (PRef 2)) [(XName "query")] None))] []); (SAssign (TName "query") (XCall (XConst (PRef 3)) [(XAttr (XName "self") "_context"); (XName "query"); (XName "params")] None)); (SUnpack [(TName "description"); (TName "rows")] (XCall (XConst (PRef 4)) [(XName "query")] None)); (SAssign (TSelf "_description") (XName "description")); (SAssign (TSelf "_rows") (XName "rows")); (SAssign (TSelf "_rowcount") (XLen (XName "rows"))); (SAssign (TSelf "_pos") (XConst (PInt 0))); (SReturn (Some (XName "self")))];
     f_gen := false |}.
Definition cursor_execute_defaults : list expr := [(XConst PNone)].

(* beanquery.cursor.Cursor.connection *)
Definition cursor_connection : fdef :=
  {| f_params := ["self"];
     f_body := [(SReturn (Some (XAttr (XName "self") "_context")))];
     f_gen := false |}.

(* beanquery.cursor.Cursor.executemany *)
Definition cursor_executemany : fdef :=
  {| f_params := ["self"; "query"; "params"];
     f_body := [(SAssign (TName "query") (XCall (XConst (PRef 2)) [(XName "query")] None)); (SFor "p" (XName "params") [(SExpr (XCall (XAttr (XName "self") "execute") [(XName "query"); (XName "p")] None))])];
     f_gen := false |}.
Definition cursor_executemany_defaults : list expr := [(XConst PNone)].

(* beanquery.cursor.Cursor.__iter__ *)
Definition cursor_iter : fdef :=
  {| f_params := ["self"];
     f_body := [(SReturn (Some (XCall (XConst (PRef 5)) [(XAttr (XName "self") "fetchone"); (XConst PNone)] None)))];
     f_gen := false |}.

(* beanquery.cursor.Column.__init__ *)
Definition column_init : fdef :=
  {| f_params := ["self"; "name"; "datatype"];
     f_body := [(SAssign (TSelf "_name") (XName "name")); (SAssign (TSelf "_type") (XName "datatype"))];
     f_gen := false |}.

(* beanquery.cursor.Column.__len__ *)
Definition column_len : fdef :=
  {| f_params := ["self"];
     f_body := [(SReturn (Some (XConst (PInt 7))))];
     f_gen := false |}.

(* beanquery.cursor.Column.__getitem__ *)
Definition column_getitem : fdef :=
  {| f_params := ["self"; "key"];
     f_body := [(SIf (XCall (XConst (PRef 1)) [(XName "key"); (XConst (PRef 6))] None) [(SReturn (Some (XCall (XConst (PRef 7)) [(XListComp (XCall (XName "getter") [(XName "self")] None) "getter" (XIndex (XAttr (XName "self") "_vars") (XName "key")) None)] None)))] []); (SReturn (Some (XCall (XIndex (XAttr (XName "self") "_vars") (XName "key")) [(XName "self")] None)))];
     f_gen := false |}.

(* beanquery.cursor.Column.name *)
Definition column_prop_name : fdef :=
  {| f_params := ["self"];
     f_body := [(SReturn (Some (XAttr (XName "self") "_name")))];
     f_gen := false |}.

(* beanquery.cursor.Column.type_code *)
Definition column_prop_type_code : fdef :=
  {| f_params := ["self"];
     f_body := [(SReturn (Some (XCall (XConst (PRef 8)) [(XAttr (XName "self") "_type")] None)))];
     f_gen := false |}.

(* beanquery.cursor.Column.display_size *)
Definition column_prop_display_size : fdef :=
  {| f_params := ["self"];
     f_body := [(SReturn (Some (XConst PNone)))];
     f_gen := false |}.

(* beanquery.cursor.Column.internal_size *)
Definition column_prop_internal_size : fdef :=
  {| f_params := ["self"];
     f_body := [(SReturn (Some (XConst PNone)))];
     f_gen := false |}.

(* beanquery.cursor.Column.precision *)
Definition column_prop_precision : fdef :=
  {| f_params := ["self"];
     f_body := [(SReturn (Some (XConst PNone)))];
     f_gen := false |}.

(* beanquery.cursor.Column.scale *)
Definition column_prop_scale : fdef :=
  {| f_params := ["self"];
     f_body := [(SReturn (Some (XConst PNone)))];
     f_gen := false |}.

(* beanquery.cursor.Column.null_ok *)
Definition column_prop_null_ok : fdef :=
  {| f_params := ["self"];
     f_body := [(SReturn (Some (XConst PNone)))];
     f_gen := false |}.

Definition refs : list (nat * string) :=
  [(0%nat, "beanquery.parser.ast.Node"); (1%nat, "builtins.isinstance"); (2%nat, "beanquery.parser.parse"); (3%nat, "beanquery.compiler.compile"); (4%nat, "beanquery.query_execute.execute_query"); (5%nat, "builtins.iter"); (6%nat, "builtins.slice"); (7%nat, "builtins.tuple"); (8%nat, "builtins.hash")].

(* beanquery.cursor.Column._vars: the attribute each attrgetter reads, and the translated property *)
Definition column_vars : list (string * fdef) :=
  [("name", column_prop_name); ("type_code", column_prop_type_code); ("display_size", column_prop_display_size); ("internal_size", column_prop_internal_size); ("precision", column_prop_precision); ("scale", column_prop_scale); ("null_ok", column_prop_null_ok)].
