(* GENERATED on every run by harness/vf/py2mini.py from the source of the imported beanquery objects
   (inspect.getsource + ast).  Do not edit.  One PyMini term per translated function; `refs` names the opaque
   callables the bodies mention (XConst (PRef k)). *)
From Coq Require Import String ZArith List.
Import ListNotations.
From Verif Require Import Base.PyValue Model.PyMini.
Open Scope string_scope.
Open Scope Z_scope.

(* beanquery.cursor.Cursor.fetchone *)
Definition cursor_fetchone : fdef :=
  {| f_params := ["self"];
     f_body := [(SIf (XBoolOp false [(XCompare (XAttr (XName "self") "_rows") [(CIs, (XConst PNone))]); (XNot (XLen (XAttr (XName "self") "_rows")))]) [(SReturn (Some (XConst PNone)))] []); (SAug (TSelf "_pos") OAdd (XConst (PInt 1))); (SReturn (Some (XMethod (TSelf "_rows") "pop" [(XConst (PInt 0))])))];
     f_gen := false |}.

(* beanquery.cursor.Cursor.fetchmany *)
Definition cursor_fetchmany : fdef :=
  {| f_params := ["self"; "size"];
     f_body := [(SIf (XCompare (XAttr (XName "self") "_rows") [(CIs, (XConst PNone))]) [(SReturn (Some (XList [])))] []); (SAssign (TName "n") (XIfExp (XCompare (XName "size") [(CIsNot, (XConst PNone))]) (XName "size") (XAttr (XName "self") "arraysize"))); (SAssign (TName "rows") (XSlice (XAttr (XName "self") "_rows") None (Some (XName "n")))); (SAssign (TSelf "_rows") (XSlice (XAttr (XName "self") "_rows") (Some (XName "n")) None)); (SAug (TSelf "_pos") OAdd (XLen (XName "rows"))); (SReturn (Some (XName "rows")))];
     f_gen := false |}.
Definition cursor_fetchmany_defaults : list expr := [(XConst PNone)].

(* beanquery.cursor.Cursor.fetchall *)
Definition cursor_fetchall : fdef :=
  {| f_params := ["self"];
     f_body := [(SIf (XCompare (XAttr (XName "self") "_rows") [(CIs, (XConst PNone))]) [(SReturn (Some (XList [])))] []); (SAssign (TName "rows") (XAttr (XName "self") "_rows")); (SAssign (TSelf "_rows") (XList [])); (SAug (TSelf "_pos") OAdd (XLen (XName "rows"))); (SReturn (Some (XName "rows")))];
     f_gen := false |}.

(* beanquery.cursor.Cursor.rowcount *)
Definition cursor_rowcount : fdef :=
  {| f_params := ["self"];
     f_body := [(SReturn (Some (XAttr (XName "self") "_rowcount")))];
     f_gen := false |}.

(* beanquery.cursor.Cursor.rownumber *)
Definition cursor_rownumber : fdef :=
  {| f_params := ["self"];
     f_body := [(SReturn (Some (XAttr (XName "self") "_pos")))];
     f_gen := false |}.

(* beanquery.cursor.Cursor.description *)
Definition cursor_description : fdef :=
  {| f_params := ["self"];
     f_body := [(SReturn (Some (XAttr (XName "self") "_description")))];
     f_gen := false |}.

Definition refs : list (nat * string) :=
  [].
