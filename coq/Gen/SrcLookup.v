(* GENERATED on every run by harness/vf/py2mini.py from the source of the imported beanquery objects
   (inspect.getsource + ast).  Do not edit.  One PyMini term per translated function; `refs` names the opaque
   callables the bodies mention (XConst (PRef k)). *)
From Coq Require Import String ZArith List.
Import ListNotations.
From Verif Require Import Base.PyValue Model.PyMini.
Open Scope string_scope.
Open Scope Z_scope.

(* beanquery.types.function_lookup; parameters: functions, name, operands *)
Definition types_function_lookup : fdef :=
  {| f_params := ["functions"; "name"; "operands"];
     f_body := [(SFor "signature" (XPrim "itertools.product:*" [(XListComp (XCall (XConst (PRef 0)) [(XAttr (XName "operand") "dtype")] None) "operand" (XName "operands") None)]) [(SFor "func" (XCallMethod (XName "functions") "get" [(XName "name"); (XTuple [])]) [(SIf (XPrim "sig_eq" [(XAttr (XName "func") "__intypes__"); (XPrim "builtins.list" [(XName "signature")])]) [(SReturn (Some (XName "func")))] [])])]); (SReturn (Some (XConst PNone)))];
     f_gen := false |}.

(* beanquery.types._bases; parameters: t *)
Definition types_bases : fdef :=
  {| f_params := ["t"];
     f_body := [(SIf (XPrim "is:NoneType" [(XName "t")]) [(SReturn (Some (XTuple [(XPrim "type:object" [])])))] []); (SAssign (TName "bases") (XAttr (XName "t") "__mro__")); (SIf (XBoolOp true [(XCompare (XLen (XName "bases")) [(CGt, (XConst (PInt 1)))]); (XPrim "is:object" [(XPrim "getitem" [(XName "bases"); (XConst (PInt (-1)))])])]) [(SReturn (Some (XSlice (XName "bases") None (Some (XConst (PInt (-1)))))))] []); (SReturn (Some (XName "bases")))];
     f_gen := false |}.

Definition refs : list (nat * string) :=
  [(0%nat, "beanquery.types._bases")].

(* parts of the compiler outside the PyMini fragment today (not translated): none *)

(* t.__mro__ of the datatype classes of the live registries (src_compiler.live_types), by snapshot name *)
Definition type_mros : list (string * list string) :=
  [("*", ["*"]); ("Decimal", ["Decimal"; "object"]); ("NoneType", ["NoneType"; "object"]); ("beancount.core.amount.Amount", ["beancount.core.amount.Amount"; "beancount.core.amount.Amount"; "tuple"; "object"]); ("beancount.core.data.Booking", ["beancount.core.data.Booking"; "enum.Enum"; "object"]); ("beancount.core.data.Transaction", ["beancount.core.data.Transaction"; "tuple"; "object"]); ("beancount.core.inventory.Inventory", ["beancount.core.inventory.Inventory"; "dict"; "object"]); ("beancount.core.position.Cost", ["beancount.core.position.Cost"; "tuple"; "object"]); ("beancount.core.position.Position", ["beancount.core.position.Position"; "beancount.core.position.Position"; "tuple"; "object"]); ("beanquery.sources.beancount.Amount", ["beanquery.sources.beancount.Amount"; "beanquery.types.Structure"; "object"]); ("beanquery.sources.beancount.Close", ["beanquery.sources.beancount.Close"; "beanquery.types.Structure"; "object"]); ("beanquery.sources.beancount.Cost", ["beanquery.sources.beancount.Cost"; "beanquery.types.Structure"; "object"]); ("beanquery.sources.beancount.Metadata", ["beanquery.sources.beancount.Metadata"; "dict"; "object"]); ("beanquery.sources.beancount.Open", ["beanquery.sources.beancount.Open"; "beanquery.types.Structure"; "object"]); ("beanquery.sources.beancount.Position", ["beanquery.sources.beancount.Position"; "beanquery.types.Structure"; "object"]); ("beanquery.sources.beancount.Transaction", ["beanquery.sources.beancount.Transaction"; "beanquery.types.Structure"; "object"]); ("beanquery.types.Structure", ["beanquery.types.Structure"; "object"]); ("bool", ["bool"; "int"; "object"]); ("date", ["date"; "object"]); ("dateutil.relativedelta.relativedelta", ["dateutil.relativedelta.relativedelta"; "object"]); ("dict", ["dict"; "object"]); ("enum.Enum", ["enum.Enum"; "object"]); ("frozenset", ["frozenset"; "object"]); ("int", ["int"; "object"]); ("list", ["list"; "object"]); ("object", ["object"]); ("set", ["set"; "object"]); ("str", ["str"; "object"]); ("tuple", ["tuple"; "object"])].
