(* GENERATED on every run by harness/vf/py2mini.py from the source of the imported beanquery objects
   (inspect.getsource + ast).  Do not edit.  One PyMini term per translated function; `refs` names the opaque
   callables the bodies mention (XConst (PRef k)). *)
From Coq Require Import String ZArith List.
Import ListNotations.
From Verif Require Import Base.PyValue Model.PyMini.
Open Scope string_scope.
Open Scope Z_scope.

(* beanquery.query_execute.uniquify; parameters: iterable *)
Definition exec_uniquify : fdef :=
  {| f_params := ["iterable"];
     f_body := [(SAssign (TName "seen") (XPrim "builtins.set" [])); (SFor "obj" (XName "iterable") [(SIf (XCompare (XName "obj") [(CNotIn, (XName "seen"))]) [(SExpr (XMethod (TName "seen") "add" [(XName "obj")])); (SYield (XName "obj"))] [])])];
     f_gen := true |}.

(* beanquery.query_execute.nullitemgetter.<locals>.func (several items; captured: items); parameters: items, obj *)
Definition exec_nig_multi : fdef :=
  {| f_params := ["items"; "obj"];
     f_body := [(SAssign (TName "r") (XList [])); (SFor "i" (XName "items") [(SAssign (TName "value") (XIndex (XName "obj") (XName "i"))); (SExpr (XMethod (TName "r") "append" [(XIfExp (XCompare (XName "value") [(CIsNot, (XConst PNone))]) (XName "value") (XConst (PRef 0)))]))]); (SReturn (Some (XPrim "builtins.tuple" [(XName "r")])))];
     f_gen := false |}.

(* beanquery.query_execute.nullitemgetter.<locals>.func (one item; captured: item); parameters: item, obj *)
Definition exec_nig_single : fdef :=
  {| f_params := ["item"; "obj"];
     f_body := [(SAssign (TName "value") (XIndex (XName "obj") (XName "item"))); (SReturn (Some (XIfExp (XCompare (XName "value") [(CIsNot, (XConst PNone))]) (XName "value") (XConst (PRef 0)))))];
     f_gen := false |}.

(* beanquery.query_execute.execute_select: then-branch of `if query.group_indexes is None:`; parameters: query, c_where, c_target_exprs, rows *)
Definition exec_row_loop : fdef :=
  {| f_params := ["query"; "c_where"; "c_target_exprs"; "rows"];
     f_body := [(SFor "context" (XAttr (XName "query") "table") [(SIf (XBoolOp false [(XCompare (XName "c_where") [(CIs, (XConst PNone))]); (XCall (XName "c_where") [(XName "context")] None)]) [(SAssign (TName "values") (XListComp (XCall (XName "c_expr") [(XName "context")] None) "c_expr" (XName "c_target_exprs") None)); (SExpr (XMethod (TName "rows") "append" [(XName "values")]))] [])])];
     f_gen := false |}.

(* beanquery.query_execute.execute_select: from `if order_spec is not None:` to the return; parameters: order_spec, rows, result_indexes, query, result_types *)
Definition exec_order_tail : fdef :=
  {| f_params := ["order_spec"; "rows"; "result_indexes"; "query"; "result_types"];
     f_body := [(SIf (XCompare (XName "order_spec") [(CIsNot, (XConst PNone))]) [(SForUnpack ["reverse"; "spec"] (XPrim "itertools.groupby:key" [(XPrim "builtins.reversed" [(XName "order_spec")]); (XPrim "operator.itemgetter" [(XConst (PInt 1))])]) [(SAssign (TName "indexes") (XPrim "builtins.reversed" [(XListComp (XIndex (XName "i") (XConst (PInt 0))) "i" (XName "spec") None)])); (SExpr (XMethod (TName "rows") "sort:key,reverse" [(XCall (XConst (PRef 1)) [] (Some (XName "indexes"))); (XName "reverse")]))])] []); (SAssign (TName "rows") (XListComp (XPrim "builtins.tuple" [(XListComp (XIndex (XName "row") (XName "i")) "i" (XName "result_indexes") None)]) "row" (XName "rows") None)); (SIf (XAttr (XName "query") "distinct") [(SAssign (TName "rows") (XCall (XConst (PRef 2)) [(XName "rows")] None))] []); (SIf (XCompare (XAttr (XName "query") "limit") [(CIsNot, (XConst PNone))]) [(SAssign (TName "rows") (XPrim "itertools.islice" [(XName "rows"); (XPrim "builtins.min" [(XAttr (XName "query") "limit"); (XConst (PInt 9223372036854775807))])]))] []); (SReturn (Some (XTuple [(XName "result_types"); (XPrim "builtins.list" [(XName "rows")])])))];
     f_gen := false |}.

(* beanquery.query_execute.execute_query, EvalPivot branch: from `pivoted = []` to the return; parameters: rows, col1, columns, keys, col2, nother, other *)
Definition exec_pivot_fill : fdef :=
  {| f_params := ["rows"; "col1"; "columns"; "keys"; "col2"; "nother"; "other"];
     f_body := [(SAssign (TName "pivoted") (XList [])); (SExpr (XMethod (TName "rows") "sort:key" [(XCall (XConst (PRef 1)) [(XName "col1")] None)])); (SForUnpack ["field1"; "group"] (XPrim "itertools.groupby:key" [(XName "rows"); (XPrim "operator.itemgetter" [(XName "col1")])]) [(SAssign (TName "outrow") (XBin OAdd (XList [(XName "field1")]) (XBin OMul (XList [(XConst PNone)]) (XBin OSub (XLen (XName "columns")) (XConst (PInt 1)))))); (SFor "row" (XName "group") [(SAssign (TName "index") (XBin OAdd (XBin OMul (XCallMethod (XName "keys") "index" [(XIndex (XName "row") (XName "col2"))]) (XName "nother")) (XConst (PInt 1)))); (SAssign (TName "outrow") (XPrim "stmt:setslice" [(XName "outrow"); (XName "index"); (XBin OAdd (XName "index") (XName "nother")); (XCall (XName "other") [(XName "row")] None)]))]); (SExpr (XMethod (TName "pivoted") "append" [(XPrim "builtins.tuple" [(XName "outrow")])]))]); (SReturn (Some (XTuple [(XName "columns"); (XName "pivoted")])))];
     f_gen := false |}.

(* beanquery.query_execute.execute_query (whole function); parameters: query *)
Definition exec_execute_query : fdef :=
  {| f_params := ["query"];
     f_body := [(SIf (XPrim "isinstance:beanquery.query_compile.EvalQuery" [(XName "query")]) [(SReturn (Some (XCall (XConst (PRef 3)) [(XName "query")] None)))] []); (SIf (XPrim "isinstance:beanquery.query_compile.EvalPivot" [(XName "query")]) [(SUnpack [(TName "columns"); (TName "rows")] (XCall (XConst (PRef 3)) [(XAttr (XName "query") "query")] None)); (SUnpack [(TName "col1"); (TName "col2")] (XAttr (XName "query") "pivots")); (SAssign (TName "othercols") (XListComp (XName "i") "i" (XPrim "builtins.range" [(XLen (XName "columns"))]) (Some (XCompare (XName "i") [(CNotIn, (XAttr (XName "query") "pivots"))])))); (SAssign (TName "nother") (XLen (XName "othercols"))); SPass; (SAssign (TName "keys") (XPrim "sorted_by" [(XPrim "builtins.set" [(XListComp (XIndex (XName "row") (XName "col2")) "row" (XName "rows") None)]); (XListComp (XIfExp (XCompare (XName "value") [(CIsNot, (XConst PNone))]) (XName "value") (XConst (PRef 0))) "value" (XPrim "builtins.set" [(XListComp (XIndex (XName "row") (XName "col2")) "row" (XName "rows") None)]) None)])); (SIf (XCompare (XName "nother") [(CGt, (XConst (PInt 1)))]) [(SAssign (TName "it") (XPrim "itertools.product" [(XName "keys"); (XPrim "builtins.tuple" [(XListComp (XIndex (XName "columns") (XName "i")) "i" (XName "othercols") None)])])); (SAssign (TName "names") (XBin OAdd (XList [(XPrim "fstring" [(XAttr (XIndex (XName "columns") (XName "col1")) "name"); (XConst (PV (VStr [47]))); (XAttr (XIndex (XName "columns") (XName "col2")) "name")])]) (XListComp (XPrim "fstring" [(XIndex (XName "$t") (XConst (PInt 0))); (XConst (PV (VStr [47]))); (XAttr (XIndex (XName "$t") (XConst (PInt 1))) "name")]) "$t" (XName "it") None)))] [(SAssign (TName "names") (XBin OAdd (XList [(XPrim "fstring" [(XAttr (XIndex (XName "columns") (XName "col1")) "name"); (XConst (PV (VStr [47]))); (XAttr (XIndex (XName "columns") (XName "col2")) "name")])]) (XListComp (XPrim "fstring" [(XName "key")]) "key" (XName "keys") None)))]); (SAssign (TName "datatypes") (XBin OAdd (XList [(XAttr (XIndex (XName "columns") (XName "col1")) "datatype")]) (XBin OMul (XListComp (XAttr (XName "col") "datatype") "col" (XPrim "builtins.tuple" [(XListComp (XIndex (XName "columns") (XName "i")) "i" (XName "othercols") None)]) None) (XLen (XName "keys"))))); (SAssign (TName "columns") (XPrim "builtins.tuple" [(XListComp (XCall (XConst (PRef 4)) [(XIndex (XName "$t") (XConst (PInt 0))); (XIndex (XName "$t") (XConst (PInt 1)))] None) "$t" (XPrim "builtins.zip" [(XName "names"); (XName "datatypes")]) None)])); (SAssign (TName "pivoted") (XList [])); (SExpr (XMethod (TName "rows") "sort:key" [(XCall (XConst (PRef 1)) [(XName "col1")] None)])); (SForUnpack ["field1"; "group"] (XPrim "itertools.groupby:key" [(XName "rows"); (XPrim "operator.itemgetter" [(XName "col1")])]) [(SAssign (TName "outrow") (XBin OAdd (XList [(XName "field1")]) (XBin OMul (XList [(XConst PNone)]) (XBin OSub (XLen (XName "columns")) (XConst (PInt 1)))))); (SFor "row" (XName "group") [(SAssign (TName "index") (XBin OAdd (XBin OMul (XCallMethod (XName "keys") "index" [(XIndex (XName "row") (XName "col2"))]) (XName "nother")) (XConst (PInt 1)))); (SAssign (TName "outrow") (XPrim "stmt:setslice" [(XName "outrow"); (XName "index"); (XBin OAdd (XName "index") (XName "nother")); (XPrim "builtins.tuple" [(XListComp (XIndex (XName "row") (XName "i")) "i" (XName "othercols") None)])]))]); (SExpr (XMethod (TName "pivoted") "append" [(XPrim "builtins.tuple" [(XName "outrow")])]))]); (SReturn (Some (XTuple [(XName "columns"); (XName "pivoted")])))] []); (SExpr (XPrim "raise:builtins.RuntimeError" []))];
     f_gen := false |}.

Definition refs : list (nat * string) :=
  [(0%nat, "NULL"); (1%nat, "beanquery.query_execute.nullitemgetter"); (2%nat, "beanquery.query_execute.uniquify"); (3%nat, "beanquery.query_execute.execute_select"); (4%nat, "beanquery.Column")].

(* parts of the executor outside the PyMini fragment today (not translated): exec_agg_loop: statement FunctionDef(name='create', args=arguments(posonlyargs=[], args=[], kwonlyargs=[], kw_defaults=[], de *)
