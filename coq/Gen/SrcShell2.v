(* GENERATED on every run by harness/vf/py2mini.py from the source of the imported beanquery objects
   (inspect.getsource + ast).  Do not edit.  One PyMini term per translated function; `refs` names the opaque
   callables the bodies mention (XConst (PRef k)). *)
From Coq Require Import String ZArith List.
Import ListNotations.
From Verif Require Import Base.PyValue Model.PyMini.
Open Scope string_scope.
Open Scope Z_scope.

(* beanquery.shell.BQLShell.on_Select; parameters: self, statement *)
Definition shell_on_select : fdef :=
  {| f_params := ["self"; "statement"];
     f_body := [(SAssign (TName "cursor") (XCallMethod (XAttr (XName "self") "context") "execute" [(XName "statement")])); (SAssign (TName "desc") (XAttr (XName "cursor") "description")); (SAssign (TName "rows") (XCallMethod (XName "cursor") "fetchall" [])); (SAssign (TName "dcontext") (XPrim "getitem" [(XAttr (XAttr (XName "self") "context") "options"); (XConst (PV (VStr [100; 99; 111; 110; 116; 101; 120; 116])))])); (SIf (XAttr (XAttr (XName "self") "settings") "numberify") [(SUnpack [(TName "desc"); (TName "rows")] (XCall (XConst (PRef 0)) [(XName "desc"); (XName "rows"); (XCallMethod (XName "dcontext") "build" [])] None))] []); (SAssign (TName "out") (XPrim "with:enter" [(XAttr (XName "self") "output")])); (SAssign (TName "render") (XPrim "get:beanquery.shell.FORMATS" [(XAttr (XAttr (XName "self") "settings") "format")])); (SIf (XCompare (XName "render") [(CIsNot, (XConst PNone))]) [(SReturn (Some (XPrim "apply:dcontext,**" [(XName "render"); (XName "desc"); (XName "rows"); (XName "out"); (XName "dcontext"); (XCallMethod (XAttr (XName "self") "settings") "todict" [])])))] []); (SExpr (XPrim "raise" [(XConst (PV (VStr [98; 117; 105; 108; 116; 105; 110; 115; 46; 78; 111; 116; 73; 109; 112; 108; 101; 109; 101; 110; 116; 101; 100; 69; 114; 114; 111; 114]))); (XConst (PV (VStr []))); (XConst PNone)]))];
     f_gen := false |}.

(* beanquery.shell.FORMATS["text"] = beanquery.render.text.render; parameters: desc, rows, file, dcontext, kwargs *)
Definition render_text_adapter : fdef :=
  {| f_params := ["desc"; "rows"; "file"; "dcontext"; "kwargs"];
     f_body := [(SIf (XNot (XName "rows")) [(SReturn (Some (XCall (XConst (PRef 1)) [(XConst (PV (VStr [40; 101; 109; 112; 116; 121; 41]))); (XName "file")] None)))] []); (SReturn (Some (XCall (XConst (PRef 2)) [(XName "desc"); (XName "rows"); (XName "dcontext"); (XName "file"); (XName "kwargs")] None)))];
     f_gen := false |}.

(* beanquery.shell.FORMATS["csv"] = beanquery.render.csv.render; parameters: desc, rows, file, dcontext, kwargs *)
Definition render_csv_adapter : fdef :=
  {| f_params := ["desc"; "rows"; "file"; "dcontext"; "kwargs"];
     f_body := [(SReturn (Some (XCall (XConst (PRef 3)) [(XName "desc"); (XName "rows"); (XName "dcontext"); (XName "file"); (XName "kwargs")] None)))];
     f_gen := false |}.

Definition refs : list (nat * string) :=
  [(0%nat, "beanquery.numberify.numberify_results"); (1%nat, "builtins.print:file"); (2%nat, "beanquery.query_render.render_text:**"); (3%nat, "beanquery.query_render.render_csv:**")].

(* the keys of the live beanquery.shell.FORMATS dict, in its order *)
Definition formats_keys : list string :=
  ["csv"; "text"].
