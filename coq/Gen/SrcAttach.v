(* GENERATED on every run by harness/vf/py2mini.py from the source of the imported beanquery objects
   (inspect.getsource + ast).  Do not edit.  One PyMini term per translated function; `refs` names the opaque
   callables the bodies mention (XConst (PRef k)). *)
From Coq Require Import String ZArith List.
Import ListNotations.
From Verif Require Import Base.PyValue Model.PyMini.
Open Scope string_scope.
Open Scope Z_scope.

(* beanquery.Connection.__init__; parameters: self, dsn, kwargs *)
Definition connection_init : fdef :=
  {| f_params := ["self"; "dsn"; "kwargs"];
     f_body := [(SAssign (TSelf "tables") (XPrim "builtins.dict" [(XList [(XTuple [(XConst (PV (VStr []))); (XCall (XConst (PRef 0)) [] None)])])])); (SAssign (TSelf "options") (XPrim "builtins.dict" [(XList [])])); (SAssign (TSelf "errors") (XList [])); (SIf (XCompare (XName "dsn") [(CIsNot, (XConst PNone))]) [(SExpr (XCall (XAttr (XName "self") "attach") [(XName "dsn"); (XName "kwargs")] None))] [])];
     f_gen := false |}.
Definition connection_init_defaults : list expr := [(XConst PNone)].

(* beanquery.Connection.attach; parameters: self, dsn, kwargs *)
Definition connection_attach : fdef :=
  {| f_params := ["self"; "dsn"; "kwargs"];
     f_body := [(SAssign (TName "scheme") (XAttr (XCall (XConst (PRef 1)) [(XName "dsn")] None) "scheme")); (SAssign (TName "source") (XCall (XConst (PRef 2)) [(XPrim "fstring" [(XConst (PV (VStr [98; 101; 97; 110; 113; 117; 101; 114; 121; 46; 115; 111; 117; 114; 99; 101; 115; 46]))); (XName "scheme")])] None)); (SExpr (XCall (XAttr (XName "source") "attach") [(XName "self"); (XName "dsn"); (XName "kwargs")] None))];
     f_gen := false |}.

Definition refs : list (nat * string) :=
  [(0%nat, "beanquery.tables.NullTable"); (1%nat, "urllib.parse.urlparse"); (2%nat, "importlib.import_module")].
