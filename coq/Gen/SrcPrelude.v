(* GENERATED on every run by harness/vf/py2mini.py from the source of the imported beanquery objects
   (inspect.getsource + ast).  Do not edit.  One PyMini term per translated function; `refs` names the opaque
   callables the bodies mention (XConst (PRef k)). *)
From Coq Require Import String ZArith List.
Import ListNotations.
From Verif Require Import Base.PyValue Model.PyMini.
Open Scope string_scope.
Open Scope Z_scope.

(* beanquery.query_execute.execute_select: the statements in front of `if query.group_indexes is None:`; parameters: query *)
Definition exec_prelude : fdef :=
  {| f_params := ["query"];
     f_body := [(SAssign (TName "result_types") (XPrim "builtins.tuple" [(XListComp (XCall (XConst (PRef 0)) [(XAttr (XName "target") "name"); (XAttr (XAttr (XName "target") "c_expr") "dtype")] None) "target" (XAttr (XName "query") "c_targets") (Some (XCompare (XAttr (XName "target") "name") [(CIsNot, (XConst PNone))])))])); (SAssign (TName "group_indexes") (XIfExp (XCompare (XAttr (XName "query") "group_indexes") [(CIsNot, (XConst PNone))]) (XPrim "builtins.set" [(XAttr (XName "query") "group_indexes")]) (XAttr (XName "query") "group_indexes"))); (SAssign (TName "result_indexes") (XListComp (XIndex (XName "$t") (XConst (PInt 0))) "$t" (XPrim "builtins.enumerate" [(XAttr (XName "query") "c_targets")]) (Some (XAttr (XIndex (XName "$t") (XConst (PInt 1))) "name")))); (SAssign (TName "order_spec") (XAttr (XName "query") "order_spec")); (SAssign (TName "c_where") (XAttr (XName "query") "c_where")); (SAssign (TName "rows") (XList [])); (SAssign (TName "c_target_exprs") (XListComp (XAttr (XName "c_target") "c_expr") "c_target" (XAttr (XName "query") "c_targets") None))];
     f_gen := false |}.

Definition refs : list (nat * string) :=
  [(0%nat, "beanquery.Column")].

(* parts of the executor outside the PyMini fragment today (not translated): none *)
