(* GENERATED on every run by harness/vf/py2mini.py from the source of the imported beanquery objects
   (inspect.getsource + ast).  Do not edit.  One PyMini term per translated function; `refs` names the opaque
   callables the bodies mention (XConst (PRef k)). *)
From Coq Require Import String ZArith List.
Import ListNotations.
From Verif Require Import Base.PyValue Model.PyMini.
Open Scope string_scope.
Open Scope Z_scope.

(* beanquery.sources.beancount.attach; parameters: context, dsn, entries, errors, options; rules B1-B3 of harness/vf/src_attach2.py *)
Definition source_attach : fdef :=
  {| f_params := ["context"; "dsn"; "entries"; "errors"; "options"];
     f_body := [(SAssign (TName "filename") (XAttr (XCall (XConst (PRef 0)) [(XName "dsn")] None) "path")); (SIf (XName "filename") [(SUnpack [(TName "entries"); (TName "errors"); (TName "options")] (XCall (XConst (PRef 1)) [(XName "filename")] None))] []); (SFor "table" (XList [(XConst (PRef 2)); (XConst (PRef 3)); (XConst (PRef 4)); (XConst (PRef 5)); (XConst (PRef 6)); (XConst (PRef 7)); (XConst (PRef 8)); (XConst (PRef 9)); (XConst (PRef 10)); (XConst (PRef 11))]) [(SAssign (TSelf "tables") (XPrim "dict.set" [(XAttr (XName "context") "tables"); (XAttr (XName "table") "name"); (XCall (XName "table") [(XName "entries"); (XName "options")] None)]))]); (SAssign (TSelf "options") (XPrim "dict.update" [(XAttr (XName "context") "options"); (XName "options")])); (SAssign (TSelf "errors") (XPrim "list.extend" [(XAttr (XName "context") "errors"); (XName "errors")]))];
     f_gen := false |}.
Definition source_attach_defaults : list expr := [(XConst PNone); (XConst PNone); (XConst PNone)].

Definition refs : list (nat * string) :=
  [(0%nat, "urllib.parse.urlparse"); (1%nat, "beancount.loader.load_file"); (2%nat, "beanquery.query_env.EntriesTable"); (3%nat, "beanquery.query_env.PostingsTable"); (4%nat, "beanquery.sources.beancount.TransactionsTable"); (5%nat, "beanquery.sources.beancount.PricesTable"); (6%nat, "beanquery.sources.beancount.BalancesTable"); (7%nat, "beanquery.sources.beancount.NotesTable"); (8%nat, "beanquery.sources.beancount.EventsTable"); (9%nat, "beanquery.sources.beancount.DocumentsTable"); (10%nat, "beanquery.sources.beancount.AccountsTable"); (11%nat, "beanquery.sources.beancount.CommoditiesTable")].

(* the LIVE module-level list TABLES, in order: (opaque callable standing for the class, class, its `name`) *)
Definition attach2_tables : list (nat * string * string) :=
  [(2%nat, "beanquery.query_env.EntriesTable", "entries"); (3%nat, "beanquery.query_env.PostingsTable", "postings"); (4%nat, "beanquery.sources.beancount.TransactionsTable", "transactions"); (5%nat, "beanquery.sources.beancount.PricesTable", "prices"); (6%nat, "beanquery.sources.beancount.BalancesTable", "balances"); (7%nat, "beanquery.sources.beancount.NotesTable", "notes"); (8%nat, "beanquery.sources.beancount.EventsTable", "events"); (9%nat, "beanquery.sources.beancount.DocumentsTable", "documents"); (10%nat, "beanquery.sources.beancount.AccountsTable", "accounts"); (11%nat, "beanquery.sources.beancount.CommoditiesTable", "commodities")].

(* the attributes of the connection the function assigns (after B1 / B2) *)
Definition attach2_written : list string := ["tables"; "options"; "errors"].
