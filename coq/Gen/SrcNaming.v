(* GENERATED on every run by harness/vf/py2mini.py from the source of the imported beanquery objects
   (inspect.getsource + ast).  Do not edit.  One PyMini term per translated function; `refs` names the opaque
   callables the bodies mention (XConst (PRef k)). *)
From Coq Require Import String ZArith List.
Import ListNotations.
From Verif Require Import Base.PyValue Model.PyMini.
Open Scope string_scope.
Open Scope Z_scope.

(* beanquery.compiler.get_target_name *)
Definition get_target_name : fdef :=
  {| f_params := ["target"];
     f_body := [(SIf (XCompare (XAttr (XName "target") "name") [(CIsNot, (XConst PNone))]) [(SReturn (Some (XAttr (XName "target") "name")))] []); (SIf (XPrim "isinstance:beanquery.parser.ast.Column" [(XAttr (XName "target") "expression")]) [(SReturn (Some (XAttr (XAttr (XName "target") "expression") "name")))] []); (SReturn (Some (XCallMethod (XAttr (XAttr (XName "target") "expression") "text") "strip" [])))];
     f_gen := false |}.

Definition refs : list (nat * string) :=
  [].
