(* GENERATED on every run by harness/vf/py2mini.py from the source of the imported beanquery objects
   (inspect.getsource + ast).  Do not edit.  One PyMini term per translated function; `refs` names the opaque
   callables the bodies mention (XConst (PRef k)). *)
From Coq Require Import String ZArith List.
Import ListNotations.
From Verif Require Import Base.PyValue Model.PyMini.
Open Scope string_scope.
Open Scope Z_scope.

(* beanquery.parser.BQLSemantics.set_context *)
Definition sem_set_context : fdef :=
  {| f_params := ["self"; "ctx"];
     f_body := [(SAssign (TSelf "_ctx") (XName "ctx"))];
     f_gen := false |}.

(* beanquery.parser.BQLSemantics.null *)
Definition sem_null : fdef :=
  {| f_params := ["self"; "value"];
     f_body := [(SReturn (Some (XConst (PRef 0))))];
     f_gen := false |}.

(* beanquery.parser.BQLSemantics.integer *)
Definition sem_integer : fdef :=
  {| f_params := ["self"; "value"];
     f_body := [(SReturn (Some (XPrim "builtins.int" [(XName "value")])))];
     f_gen := false |}.

(* beanquery.parser.BQLSemantics.decimal *)
Definition sem_decimal : fdef :=
  {| f_params := ["self"; "value"];
     f_body := [(SReturn (Some (XPrim "decimal.Decimal" [(XName "value")])))];
     f_gen := false |}.

(* beanquery.parser.BQLSemantics.date *)
Definition sem_date : fdef :=
  {| f_params := ["self"; "value"];
     f_body := [(STry [(SReturn (Some (XCallMethod (XPrim "datetime.datetime.strptime" [(XName "value"); (XConst (PV (VStr [37; 89; 45; 37; 109; 45; 37; 100])))]) "date" [])))] [5] [(SAssign (TName "exc") (XPrim "caught:builtins.ValueError" [(XName "value")])); (SReturn (Some (XPrim "raise" [(XPrim "new:tatsu.exceptions.FailedSemantics" [(XPrim "builtins.str" [(XName "exc")])])])))])];
     f_gen := false |}.

(* beanquery.parser.BQLSemantics.string *)
Definition sem_string : fdef :=
  {| f_params := ["self"; "value"];
     f_body := [(SReturn (Some (XSlice (XName "value") (Some (XConst (PInt 1))) (Some (XConst (PInt (-1)))))))];
     f_gen := false |}.

(* beanquery.parser.BQLSemantics.boolean *)
Definition sem_boolean : fdef :=
  {| f_params := ["self"; "value"];
     f_body := [(SReturn (Some (XCompare (XName "value") [(CEq, (XConst (PV (VStr [84; 82; 85; 69]))))])))];
     f_gen := false |}.

(* beanquery.parser.BQLSemantics.identifier *)
Definition sem_identifier : fdef :=
  {| f_params := ["self"; "value"];
     f_body := [(SReturn (Some (XCallMethod (XName "value") "lower" [])))];
     f_gen := false |}.

(* beanquery.parser.BQLSemantics.asterisk *)
Definition sem_asterisk : fdef :=
  {| f_params := ["self"; "value"];
     f_body := [(SReturn (Some (XPrim "new:beanquery.parser.ast.Asterisk" [])))];
     f_gen := false |}.

(* beanquery.parser.BQLSemantics.list *)
Definition sem_list : fdef :=
  {| f_params := ["self"; "value"];
     f_body := [(SReturn (Some (XListComp (XIfExp (XCompare (XName "item") [(CIs, (XConst (PRef 0)))]) (XConst PNone) (XName "item")) "item" (XName "value") None)))];
     f_gen := false |}.

(* beanquery.parser.BQLSemantics.ordering *)
Definition sem_ordering : fdef :=
  {| f_params := ["self"; "value"];
     f_body := [(SReturn (Some (XPrim "enum:beanquery.parser.ast.Ordering" [(XBoolOp false [(XName "value"); (XConst (PV (VStr [65; 83; 67])))])])))];
     f_gen := false |}.

(* beanquery.parser.BQLSemantics._default *)
Definition sem_default : fdef :=
  {| f_params := ["self"; "value"; "typename"];
     f_body := [(SIf (XCompare (XName "typename") [(CIsNot, (XConst PNone))]) [(SAssign (TName "func") (XPrim "builtins.getattr" [(XConst (PRef 1)); (XName "typename")])); (SReturn (Some (XPrim "apply:**" [(XName "func"); (XPrim "builtins.dict" [(XListComp (XTuple [(XCallMethod (XIndex (XName "$t") (XConst (PInt 0))) "rstrip" [(XConst (PV (VStr [95])))]); (XIfExp (XCompare (XIndex (XName "$t") (XConst (PInt 1))) [(CIs, (XConst (PRef 0)))]) (XConst PNone) (XIndex (XName "$t") (XConst (PInt 1))))]) "$t" (XCallMethod (XName "value") "items" []) None)])])))] []); (SReturn (Some (XName "value")))];
     f_gen := false |}.
Definition sem_default_defaults : list expr := [(XConst PNone)].

(* beanquery.parser.parse *)
Definition parser_parse : fdef :=
  {| f_params := ["text"];
     f_body := [(STry [(SReturn (Some (XCallMethod (XPrim "new:beanquery.parser.parser.BQLParser" []) "parse:semantics" [(XName "text"); (XPrim "new:beanquery.parser.BQLSemantics" [])])))] [30] [(SAssign (TName "exc") (XPrim "caught:tatsu.exceptions.ParseError" [(XName "text")])); (SAssign (TName "line") (XIfExp (XAttr (XAttr (XName "exc") "tokenizer") "text") (XAttr (XCallMethod (XAttr (XName "exc") "tokenizer") "line_info" [(XAttr (XName "exc") "pos")]) "line") (XConst (PInt 0)))); (SAssign (TName "parseinfo") (XPrim "new:tatsu.infos.ParseInfo" [(XAttr (XName "exc") "tokenizer"); (XAttr (XName "exc") "item"); (XAttr (XName "exc") "pos"); (XPrim "builtins.min" [(XBin OAdd (XAttr (XName "exc") "pos") (XConst (PInt 1))); (XLen (XAttr (XAttr (XName "exc") "tokenizer") "text"))]); (XName "line"); (XList [])])); (SReturn (Some (XPrim "raise" [(XPrim "new:beanquery.parser.ParseError" [(XName "parseinfo")])])))])];
     f_gen := false |}.

(* beanquery.parser.ParseError.__init__ *)
Definition parse_error_init : fdef :=
  {| f_params := ["self"; "parseinfo"];
     f_body := [(SExpr (XPrim "super.__init__" [(XName "self"); (XConst (PV (VStr [115; 121; 110; 116; 97; 120; 32; 101; 114; 114; 111; 114])))])); (SAssign (TSelf "parseinfo") (XName "parseinfo"))];
     f_gen := false |}.

Definition refs : list (nat * string) :=
  [(0%nat, "beanquery.parser._NULL"); (1%nat, "beanquery.parser.ast")].

(* DATA read from the live objects (see harness/vf/src_semantics.py) *)
Definition semantics_methods : list string :=
  ["set_context"; "null"; "integer"; "decimal"; "date"; "string"; "boolean"; "identifier"; "asterisk"; "list"; "ordering"; "_default"].
Definition semantics_bases : list string :=
  ["beanquery.parser.BQLSemantics"; "builtins.object"].
Definition ordering_members : list (string * Z) :=
  [("ASC", 0); ("DESC", 1)].
Definition module_state : list (string * string) :=
  [("_NULL", "builtins.object")].
