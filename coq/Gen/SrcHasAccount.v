(* GENERATED on every run by harness/vf/py2mini.py from the source of the imported beanquery objects
   (inspect.getsource + ast).  Do not edit.  One PyMini term per translated function; `refs` names the opaque
   callables the bodies mention (XConst (PRef k)). *)
From Coq Require Import String ZArith List.
Import ListNotations.
From Verif Require Import Base.PyValue Model.PyMini.
Open Scope string_scope.
Open Scope Z_scope.

(* beanquery.query_env.has_account (BQL has_account) *)
Definition envh_has_account : fdef :=
  {| f_params := ["context"; "pattern"];
     f_body := [(SAssign (TName "search") (XAttr (XPrim "re.compile" [(XName "pattern"); (XConst (PInt 2))]) "search")); (SReturn (Some (XPrim "builtins.any" [(XListComp (XPrim "apply" [(XName "search"); (XName "account")]) "account" (XPrim "beancount.core.getters.get_entry_accounts" [(XAttr (XName "context") "entry")]) None)])))];
     f_gen := false |}.

Definition refs : list (nat * string) :=
  [].
