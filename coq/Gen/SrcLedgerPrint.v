(* GENERATED on every run by harness/vf/py2mini.py from the source of the imported beanquery objects
   (inspect.getsource + ast).  Do not edit.  One PyMini term per translated function; `refs` names the opaque
   callables the bodies mention (XConst (PRef k)). *)
From Coq Require Import String ZArith List.
Import ListNotations.
From Verif Require Import Base.PyValue Model.PyMini.
Open Scope string_scope.
Open Scope Z_scope.

(* beanquery.query_execute.execute_print: from `entries = []` to the end of `for row in c_print.table:` (+ return entries); receiver: c_print; parameters: c_print *)
Definition src_print_selection : fdef :=
  {| f_params := ["c_print"];
     f_body := [(SAssign (TName "entries") (XList [])); (SAssign (TName "expr") (XAttr (XName "c_print") "where")); (SFor "row" (XAttr (XName "c_print") "table") [(SIf (XBoolOp false [(XCompare (XName "expr") [(CIs, (XConst PNone))]); (XCall (XName "expr") [(XName "row")] None)]) [(SExpr (XMethod (TName "entries") "append" [(XAttr (XName "row") "entry")]))] [])]); (SReturn (Some (XName "entries")))];
     f_gen := false |}.

(* beanquery.compiler.transform_balances: after cooked_select = parser.parse(...); parameters: balances, cooked_select *)
Definition src_transform_balances : fdef :=
  {| f_params := ["balances"; "cooked_select"];
     f_body := [(SReturn (Some (XPrim "beanquery.parser.ast.Select" [(XAttr (XName "cooked_select") "targets"); (XAttr (XName "balances") "from_clause"); (XAttr (XName "balances") "where_clause"); (XAttr (XName "cooked_select") "group_by"); (XAttr (XName "cooked_select") "order_by"); (XConst PNone); (XConst PNone); (XConst PNone)])))];
     f_gen := false |}.

(* beanquery.compiler.transform_journal: after cooked_select = parser.parse(...); parameters: journal, cooked_select *)
Definition src_transform_journal : fdef :=
  {| f_params := ["journal"; "cooked_select"];
     f_body := [(SAssign (TName "where_clause") (XIfExp (XAttr (XName "journal") "account") (XPrim "beanquery.parser.ast.Match" [(XPrim "beanquery.parser.ast.Column" [(XConst (PV (VStr [97; 99; 99; 111; 117; 110; 116])))]); (XPrim "beanquery.parser.ast.Constant" [(XAttr (XName "journal") "account")])]) (XConst PNone))); (SReturn (Some (XPrim "beanquery.parser.ast.Select" [(XAttr (XName "cooked_select") "targets"); (XAttr (XName "journal") "from_clause"); (XName "where_clause"); (XConst PNone); (XConst PNone); (XConst PNone); (XConst PNone); (XConst PNone)])))];
     f_gen := false |}.

Definition refs : list (nat * string) :=
  [].

(* dataclasses.fields of the beanquery.parser.ast classes constructed by the translated code *)
Definition ast_decls : list (string * list string) :=
  [("beanquery.parser.ast.Select", ["targets"; "from_clause"; "where_clause"; "group_by"; "order_by"; "pivot_by"; "limit"; "distinct"]); ("beanquery.parser.ast.Match", ["left"; "right"]); ("beanquery.parser.ast.Column", ["name"]); ("beanquery.parser.ast.Constant", ["value"])].
