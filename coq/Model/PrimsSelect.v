(* Primitive semantics and value encodings for the translator-based tie of the STATEMENT-LEVEL decision logic of the
   compiler (groups `select`, `from`, `targets` of harness/vf/src_compiler.py: Gen/SrcSelect.v = Compiler._select,
   Gen/SrcFrom.v = Compiler._compile_from, Gen/SrcTargets.v = Compiler._compile_targets / _inop).  Definitions only;
   proofs are in Proofs/SrcSelect.v, SrcFrom.v, SrcTargets.v.  [prim_select] extends Model/PrimsCompiler.prim_compiler
   (same encodings: a compiled node is a reference [nref i] into the heap [tbl], an EvalTarget / a parser AST node is a
   tagged record) by what these three methods additionally touch.  Part of the trusted base of the C05/C08/C13/C07
   `_source_` theorems about them:

   * STATE THREADING (translator rule K12).  `self.table` is the only attribute the methods reachable from
     Compiler._compile assign (recomputed from the live class on every run and emitted as [threaded_state] next to the
     generated terms; the proofs check it is ["table"]).  A call `x = self.m(a)` of a method that may assign it reads
     `self.table, x = self.m(self.table, a)`: the opaque callable receives the table and returns the table it leaves
     behind next to its value.  The theorems quantify over the table left behind.
   * a TABLE is an arbitrary value; what the code asks of it: hasattr(t, 'update') = [updatable t] and
     t.update(open=o, close=c, clear=x) = [upd t o c x] (both parameters: uninterpreted), t.wildcard_columns and
     context.tables.get(name) through the record / dict encodings of PrimsApi.
   * a COMPILED QUERY is the record EvalQuery(table, c_targets, c_where, group_indexes, having_index, order_spec, limit,
     distinct) with the fields of the dataclass in declaration order; EvalPivot(query, pivots) likewise.
   * a SET is the list of its distinct elements in first-occurrence order (PrimsApi.dedupe); "set_eq" is mutual
     inclusion, "set.difference" keeps the order of the left operand.
   * str.format / str.join build message texts: the uninterpreted oracle [msg].
   * raise: CompilationError texts of these methods are mapped to 1000 + Compile.cerr_code of the model's error
     constructor ([lead_table_select], then PrimsCompiler.exc_code). *)
From Coq Require Import String Ascii ZArith List Bool.
Import ListNotations.
From Verif Require Import Base.PyValue Model.Eval Model.PyMini Model.PrimsApi Model.PrimsCompiler.
From Verif Require Model.Compile.
Open Scope string_scope.
Open Scope list_scope.
Open Scope Z_scope.

Definition EQ : string := "beanquery.query_compile.EvalQuery".
Definition EP : string := "beanquery.query_compile.EvalPivot".
Definition SELECT : string := "beanquery.parser.ast.Select".
Definition TABLE : string := "beanquery.parser.ast.Table".
Definition FROM : string := "beanquery.parser.ast.From".
Definition ASTERISK : string := "beanquery.parser.ast.Asterisk".
Definition TARGET : string := "beanquery.parser.ast.Target".

Definition NotImplementedError : Z := 95.

Definition lead_table_select : list (string * Compile.cerr) :=
  [("aggregates are not allowed in WHERE clause", Compile.EAggInWhere);
   ("aggregates are not allowed in ORDER BY of a non-aggregate query", Compile.EOrderAggNonAgg);
   ("all non-aggregates must be covered by GROUP-BY clause in aggregate query: the following targets are missing: ",
    Compile.ENotCovered);
   ("PIVOT BY is not supported in a subquery", Compile.ESubqueryPivot);
   ("table """, Compile.ETableNotFound);
   ("aggregates are not allowed in FROM clause", Compile.EAggInFrom);
   ("CLOSE date must follow OPEN date", Compile.EOpenAfterClose);
   ("FROM expressions and OPEN, CLOSE, CLEAR qualifiers are not supported for this table", Compile.EFromNotSupported);
   ("subquery has too many columns", Compile.ESubqueryColumns)].

Definition exc_code_select (cls lead : list Z) : Z :=
  if zeqb cls (zs "beanquery.compiler.CompilationError") then
    match find (fun p => zeqb lead (zs (fst p))) lead_table_select with
    | Some p => CompErr (snd p)
    | None => exc_code cls lead
    end
  else if zeqb cls (zs "builtins.NotImplementedError") then NotImplementedError
  else exc_code cls lead.

(* ------------------------------------------------------------------ encodings *)
Definition enc_nat (j : nat) : pv := PInt (Z.of_nat j).
Definition enc_nats (l : list nat) : pv := PList (map enc_nat l).
Definition enc_bdir (d : bool) : pv := PInt (if d then 1 else 0).      (* ast.Ordering: ASC = 0, DESC = 1 *)
Definition enc_ospec (l : list (nat * bool)) : pv := PList (map (fun p => PTuple [enc_nat (fst p); enc_bdir (snd p)]) l).
Definition enc_targets (pts : list ptarget) : pv := PList (map enc_target pts).

Definition enc_query (tb : pv) (pts : list ptarget) (cw : option nat) (gi : option (list nat)) (hi : option nat)
           (os : option (list (nat * bool))) (lim dist : pv) : pv :=
  record (zs EQ) [("table", tb); ("c_targets", enc_targets pts); ("c_where", popt nref cw);
                  ("group_indexes", popt enc_nats gi); ("having_index", popt enc_nat hi);
                  ("order_spec", popt enc_ospec os); ("limit", lim); ("distinct", dist)].
Definition enc_pivot (q : pv) (a b : nat) : pv := record (zs EP) [("query", q); ("pivots", enc_nats [a; b])].

Definition set_incl (a b : list pv) : bool := forallb (fun x => existsb (key_eqb x) b) a.

Section Prims.
Variable tbl : nat -> Compile.cnode.
Variable kids : nat -> list nat.
Variable mro : string -> list string.
Variable msg : string -> list pv -> pv.
Variable updatable : pv -> bool.
Variable upd : pv -> pv -> pv -> pv -> pv.

Definition prim_select (name : string) (args : list pv) : res pv :=
  if String.eqb name "raise" then
    match args with [PV (VStr cls); PV (VStr lead); _] => Exc (exc_code_select cls lead) | _ => Stuck end
  else if String.eqb name "builtins.set" then
    match args with [PList l] => Ok (PList (dedupe [] l)) | _ => Stuck end
  else if String.eqb name "set_eq" then
    match args with [PList a; PList b] => Ok (PBool (set_incl a b && set_incl b a)) | _ => Stuck end
  else if String.eqb name "set.difference" then
    match args with
    | [PList a; PList b] => Ok (PList (filter (fun x => negb (existsb (key_eqb x) b)) a))
    | _ => Stuck
    end
  else if String.eqb name "call:format" || String.eqb name "call:join" then Ok (msg name args)
  else if String.eqb name EQ then
    match args with
    | [t; ts; w; g; h; o; l; d] =>
        Ok (record (zs EQ) [("table", t); ("c_targets", ts); ("c_where", w); ("group_indexes", g); ("having_index", h);
                            ("order_spec", o); ("limit", l); ("distinct", d)])
    | _ => Exc TypeError
    end
  else if String.eqb name EP then
    match args with [q; p] => Ok (record (zs EP) [("query", q); ("pivots", p)]) | _ => Exc TypeError end
  else if String.eqb name TARGET then
    match args with [e; n] => Ok (record (zs TARGET) [("expression", e); ("name", n)]) | _ => Exc TypeError end
  else if String.eqb name COLUMN then
    match args with [n] => Ok (record (zs COLUMN) [("name", n)]) | _ => Exc TypeError end
  else if String.eqb name "builtins.hasattr" then
    match args with
    | [o; PV (VStr a)] => if zeqb a (zs "update") then Ok (PBool (updatable o)) else Stuck
    | _ => Stuck
    end
  else if String.eqb name "method:update:open,close,clear" then
    match args with [t; o; c; x] => Ok (PTuple [t; upd t o c x]) | _ => Stuck end
  else prim_compiler tbl kids mro msg name args.

End Prims.
