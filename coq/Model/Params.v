(* Model of query parameters (compiler.py:48-72, 617-619), of constant folding
   (compiler.py:499-503, 531-534, 575-578) and of execution histories on one
   connection (cursor.py execute / executemany, Connection.parse). *)
From Coq Require Import ZArith List Bool.
Import ListNotations.
From Verif Require Import Base.Out Base.StableSort Base.PyValue Base.Decimal Model.Eval.
Open Scope Z_scope.

(* ---- placeholders ---- *)
Inductive pname :=
| PEmpty                    (* %s : name '' *)
| PNamed (s : list Z)       (* %(name)s *)
| PNum (i : nat).           (* a positional placeholder renumbered by an earlier compilation (old design) *)

Record ph := { ph_pos : Z; ph_name : pname }.   (* in AST walk order; ph_pos = parseinfo.pos *)

Inductive params :=
| PNone
| PSeq (l : list value)
| PMap (l : list (list Z * value)).

Inductive perr := ETypeError | EMissing | ECount | EMixed.

Definition name_truthy (n : pname) : bool :=
  match n with PEmpty => false | PNamed s => match s with [] => false | _ => true end | PNum O => false | PNum _ => true end.

Fixpoint str_eqb (a b : list Z) : bool :=
  match a, b with
  | [], [] => true
  | x :: a', y :: b' => (x =? y) && str_eqb a' b'
  | _, _ => false
  end.

Fixpoint lookup (k : list Z) (m : list (list Z * value)) : option value :=
  match m with [] => None | (k', v) :: t => if str_eqb k k' then Some v else lookup k t end.

(* sorted(placeholders, key=pos) then enumerate: the index given to each placeholder *)
Definition by_pos : ph -> ph -> bool := on ph_pos Z.leb.
Fixpoint index_in (p : Z) (sorted : list ph) : nat :=
  match sorted with
  | [] => 0
  | q :: t => if ph_pos q =? p then 0 else S (index_in p t)
  end.
Definition number_of (phs : list ph) (p : ph) : nat := index_in (ph_pos p) (isort by_pos phs).

(* one compilation: returns the placeholders as left on the shared AST and either the
   value bound to every placeholder (walk order) or the error raised.
   [mutating] = the code before the repair (names overwritten with their number). *)
Definition bind (mutating : bool) (phs : list ph) (p : params) : list ph * (list value + perr) :=
  match phs with
  | [] => (phs, inl [])
  | _ =>
      let names := map ph_name phs in
      if forallb name_truthy names then
        match p with
        | PMap m =>
            if forallb (fun n => match n with PNamed s => match lookup s m with Some _ => true | None => false end
                                         | _ => false end) names
            then (phs, inl (map (fun n => match n with PNamed s => match lookup s m with Some v => v | None => VNull end
                                                  | _ => VNull end) names))
            else (phs, inr EMissing)
        | _ => (phs, inr ETypeError)
        end
      else if negb (existsb name_truthy names) then
        match p with
        | PSeq l =>
            if Nat.eqb (length phs) (length l)
            then ((if mutating then map (fun q => {| ph_pos := ph_pos q; ph_name := PNum (number_of phs q) |}) phs else phs),
                  inl (map (fun q => nth (number_of phs q) l VNull) phs))
            else (phs, inr ECount)
        | _ => (phs, inr ETypeError)
        end
      else (phs, inr EMixed)
  end.

(* ---- histories on one connection ---- *)
Inductive hop :=
| HParse (phs : list ph)                 (* conn.parse(text): a new parsed statement, stored *)
| HExecAst (id : nat) (p : params)       (* cursor.execute(parsed, params) *)
| HExecText (phs : list ph) (p : params) (* cursor.execute(text, params): parsed afresh *)
| HExecMany (phs : list ph) (ps : list params). (* executemany: parse once, execute for every p *)

Definition outcome := (list value + perr)%type.

Fixpoint exec_many (mutating : bool) (phs : list ph) (ps : list params) : list outcome :=
  match ps with
  | [] => []
  | p :: t => let '(phs', r) := bind mutating phs p in r :: exec_many mutating phs' t
  end.

Fixpoint set_nth {A} (l : list A) (n : nat) (x : A) : list A :=
  match l, n with
  | [], _ => []
  | _ :: t, O => x :: t
  | y :: t, S n => y :: set_nth t n x
  end.

Fixpoint run_history (mutating : bool) (store : list (list ph)) (h : list hop) : list (list outcome) :=
  match h with
  | [] => []
  | HParse phs :: t => [] :: run_history mutating (store ++ [phs]) t
  | HExecAst id p :: t =>
      match nth_error store id with
      | None => [] :: run_history mutating store t
      | Some phs => let '(phs', r) := bind mutating phs p in [r] :: run_history mutating (set_nth store id phs') t
      end
  | HExecText phs p :: t => [snd (bind mutating phs p)] :: run_history mutating store t
  | HExecMany phs ps :: t => exec_many mutating phs ps :: run_history mutating store t
  end.

(* what a FRESH connection returns for the same statement and parameters *)
Definition fresh (phs : list ph) (p : params) : outcome := snd (bind false phs p).

Fixpoint expected_history (store : list (list ph)) (h : list hop) : list (list outcome) :=
  match h with
  | [] => []
  | HParse phs :: t => [] :: expected_history (store ++ [phs]) t
  | HExecAst id p :: t =>
      match nth_error store id with
      | None => [] :: expected_history store t
      | Some phs => [fresh phs p] :: expected_history store t
      end
  | HExecText phs p :: t => [fresh phs p] :: expected_history store t
  | HExecMany phs ps :: t => map (fresh phs) ps :: expected_history store t
  end.

(* ---- constant folding ---- *)
Definition is_const (e : enode) : bool := match e with EConst _ => true | _ => false end.

(* the compiler folds: unary operators on a constant, binary operators on two constants,
   pure functions whose operands are all constants (all modelled [func]s are pure) *)
Fixpoint fold (e : enode) : enode :=
  match e with
  | EUnary op a =>
      let a' := fold a in
      if is_const a' then EConst (eval [] [] (EUnary op a')) else EUnary op a'
  | EBinary op a b =>
      let a' := fold a in let b' := fold b in
      if is_const a' && is_const b' then EConst (eval [] [] (EBinary op a' b')) else EBinary op a' b'
  | EFunc f args =>
      let args' := map fold args in
      if forallb is_const args' then EConst (eval [] [] (EFunc f args')) else EFunc f args'
  | EBetween a lo hi => EBetween (fold a) (fold lo) (fold hi)
  | EAnd args => EAnd (map fold args)
  | EOr args => EOr (map fold args)
  | ECoalesce args => ECoalesce (map fold args)
  | EIn n a items => EIn n (fold a) items
  | _ => e
  end.

(* ---- serialisation ---- *)
Definition o_outcome (o : outcome) : out :=
  match o with
  | inl vs => OL [ON 0; OL (map o_value vs)]
  | inr ETypeError => OL [ON 1]
  | inr EMissing => OL [ON 2]
  | inr ECount => OL [ON 3]
  | inr EMixed => OL [ON 4]
  end.
Definition history_out (mutating : bool) (h : list hop) : out :=
  OL (map (fun l => OL (map o_outcome l)) (run_history mutating [] h)).
