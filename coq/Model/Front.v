(* C06 model, part 7 (Front.v): from statement TEXT to result rows inside Coq.

   [to_cstmt] translates the AST of the parser model (Model/Ast.v, after [stmt_erase]) to the input AST of the
   compiler model (Model/Compile.v), exactly as harness/vf/c05.py serialises the ASTs of the real parser:
   class names as operator strings, Constant values as PyValue values (Decimal = sign / coefficient / exponent,
   date = proleptic Gregorian ordinal), names as Coq strings.  Two components of the compiler's AST are not
   part of the parser model's AST and are RECONSTRUCTED:
   - Placeholder.parseinfo.pos (used only to order the positional parameters): the number of placeholders to
     the left in text order -- any strictly increasing numbering gives the same binding;
   - the source text of a target expression (the column name of a target that is neither `AS name` nor a bare
     column): the canonical print of the expression, tokens separated by one blank.  It differs from the text
     the user wrote in spacing, letter case and redundant parentheses, so it gives the same name to two
     targets exactly when they are the same expression.
   [to_cstmt] is partial: redundant concrete syntax ([EParen]/[EUPlus], absent after [erase]), names or
   subscript keys outside printable ASCII / containing a backslash, and dates outside the calendar give None.

   run_text = lex >>= parse >>= to_cstmt >>= Link.run_stmt. *)
From Coq Require Import String Ascii ZArith NArith List Bool.
Import ListNotations.
From Verif Require Import Base.PyValue Base.Out.
From Verif Require Import Model.Ast Model.Lexer Model.Parser Model.Printer.
From Verif Require Model.Compile Model.Link Model.Dates.
Module C := Verif.Model.Compile.
Module L := Verif.Model.Link.
Local Open Scope string_scope.
Local Open Scope Z_scope.
Local Open Scope list_scope.

(* ------------------------------------------------------------------ strings *)
Definition plain_char (c : Z) : bool := (32 <=? c) && (c <=? 126) && negb (c =? 92).
Definition ascii_of_Z (c : Z) : ascii := ascii_of_nat (Z.to_nat c).
Fixpoint string_of (s : str) : string :=
  match s with [] => EmptyString | c :: r => String (ascii_of_Z c) (string_of r) end.
(* names, subscript keys: printable ASCII without backslash, as they are *)
Definition enc_name (s : str) : option string := if forallb plain_char s then Some (string_of s) else None.

(* any text, as harness/vf/c05.py writes it: other characters as \uXXXX; *)
Definition hex_digit (d : Z) : Z := if d <? 10 then 48 + d else 87 + d.
Fixpoint hex_fuel (fuel : nat) (n : Z) (acc : list Z) : list Z :=
  match fuel with
  | O => acc
  | S f => if n <? 16 then hex_digit n :: acc else hex_fuel f (n / 16) (hex_digit (n mod 16) :: acc)
  end.
Definition hex4 (n : Z) : list Z :=
  let h := hex_fuel 8 n [] in repeat 48 (4 - length h) ++ h.
Fixpoint enc_text (s : str) : string :=
  match s with
  | [] => EmptyString
  | c :: r => if plain_char c then String (ascii_of_Z c) (enc_text r)
              else String.append (string_of (92 :: 117 :: hex4 c ++ [59])%list) (enc_text r)
  end.

(* canonical text of a token list: canonical spellings separated by one blank *)
Fixpoint join_blank (l : list str) : str :=
  match l with
  | [] => []
  | [s] => s
  | s :: r => s ++ 32 :: join_blank r
  end.
Definition text_of_tokens (ts : list token) : string := enc_text (join_blank (map render_tok ts)).

(* ------------------------------------------------------------------ literals *)
Definition ord_of (y m d : N) : option Z :=
  if Dates.valid_ymd (Z.of_N y) (Z.of_N m) (Z.of_N d)
  then Some (Dates.ymd2ord (Z.of_N y) (Z.of_N m) (Z.of_N d)) else None.
Definition value_of_lit (l : lit) : option value :=
  match l with
  | LNull => Some VNull
  | LBool b => Some (VBool b)
  | LInt n => Some (VInt (Z.of_N n))
  | LDec m sc => Some (VDec (mkdec false (Z.of_N m) (- Z.of_nat sc)))
  | LDate y m d => match ord_of y m d with Some o => Some (VDate o) | None => None end
  | LStr s => Some (VStr s)
  end.
Fixpoint values_of_lits (ls : list lit) : option (list value) :=
  match ls with
  | [] => Some []
  | l :: r => match value_of_lit l, values_of_lits r with Some v, Some vs => Some (v :: vs) | _, _ => None end
  end.

Definition arith_name (op : arith) : string :=
  match op with Add => "Add" | Sub => "Sub" | Mul => "Mul" | Div => "Div" | Mod => "Mod" end.
Definition cmp_name (op : cmp) : string :=
  match op with
  | Lt => "Less" | Le => "LessEq" | Gt => "Greater" | Ge => "GreaterEq" | Eq => "Equal" | Ne => "NotEqual"
  | In => "In" | NotIn => "NotIn" | Match => "Match" | NotMatch => "NotMatch"
  end.

(* ------------------------------------------------------------------ placeholders to the left *)
Definition osum {A} (f : A -> nat) (o : option A) : nat := match o with Some a => f a | None => 0%nat end.

Fixpoint nplace (e : expr) : nat :=
  match e with
  | EConst _ | EList _ | EColumn _ | EFuncStar _ => 0
  | EPlace _ => 1
  | EFunc _ args => lsize nplace args
  | EAttr a _ | ESubscript a _ | ENeg a | EIsNull a | EIsNotNull a | ENot a | EParen a | EUPlus a => nplace a
  | EArith _ a b | ECmp _ a b => nplace a + nplace b
  | EBetween a b c => nplace a + nplace b + nplace c
  | EAnd l | EOr l => lsize nplace l
  | ESelect _ t f w g o _ _ =>
      osum (lsize (fun p => nplace (fst p))) t + osum (from_size nplace) f + osum nplace w
      + osum (fun p => lsize (ssize nplace) (fst p) + osum nplace (snd p)) g
      + lsize (fun p => ssize nplace (fst p)) o
  end%nat.

Definition date_ord (d : date) : option Z := let '(y, m, dd) := d in ord_of y m dd.

(* From(...) qualifiers -> fromkind *)
Definition fk_of (o : option date) (c : option (option date)) (cl : bool) : option C.fromkind :=
  match (match o with Some d => match date_ord d with Some z => Some (Some z) | None => None end | None => Some None end),
        (match c with
         | Some (Some d) => match date_ord d with Some z => Some (Some (Some z)) | None => None end
         | Some None => Some (Some None)
         | None => Some None
         end) with
  | Some o', Some c' => Some (C.FKExpr o' c' cl)
  | _, _ => None
  end.

Definition pcol_of (c : N + str) : option C.pcol :=
  match c with
  | inl n => Some (C.PIdx (Z.of_N n))
  | inr s => match enc_name s with Some n => Some (C.PName n) | None => None end
  end.

(* map with the running count of placeholders to the left *)
Definition mapk {A B : Type} (f : nat -> A -> option B) (cnt : A -> nat) : nat -> list A -> option (list B) :=
  fix go (k : nat) (l : list A) : option (list B) :=
    match l with
    | [] => Some []
    | x :: t => match f k x, go (k + cnt x)%nat t with
                | Some a, Some r => Some (a :: r)
                | _, _ => None
                end
    end.

Definition oname (o : option str) : option (option string) :=
  match o with Some n => match enc_name n with Some s => Some (Some s) | None => None end | None => Some None end.
Definition otr (f : expr -> option C.expr) (o : option expr) : option (option C.expr) :=
  match o with Some x => match f x with Some cx => Some (Some cx) | None => None end | None => Some None end.
Definition str_sum (f : expr -> option C.expr) (c : N + expr) : option (Z + C.expr) :=
  match c with
  | inl n => Some (inl (Z.of_N n))
  | inr x => match f x with Some cx => Some (inr cx) | None => None end
  end.
Definition pivot_of (p : option ((N + str) * (N + str))) : option (option (C.pcol * C.pcol)) :=
  match p with
  | None => Some None
  | Some (c1, c2) => match pcol_of c1, pcol_of c2 with Some a, Some b => Some (Some (a, b)) | _, _ => None end
  end.

(* [tr k e]: the compiler AST of e; k = number of placeholders to the left of e in the statement *)
Fixpoint tr (k : nat) (e : expr) {struct e} : option C.expr :=
  let un (op : string) (a : expr) := match tr k a with Some x => Some (C.EUnary op x) | None => None end in
  match e with
  | EConst l => match value_of_lit l with Some v => Some (C.EConstant (C.CScalar v)) | None => None end
  | EList ls => match values_of_lits ls with Some vs => Some (C.EConstant (C.CListV vs)) | None => None end
  | EColumn n => match enc_name n with Some s => Some (C.EColumn s) | None => None end
  | EFunc n args => match enc_name n, mapk (fun k x => tr k x) nplace k args with Some s, Some l => Some (C.EFunction s l) | _, _ => None end
  | EFuncStar n => match enc_name n with Some s => Some (C.EFunction s [C.EAsterisk]) | None => None end
  | EPlace n => match enc_name n with Some s => Some (C.EPlaceholder s (Z.of_nat k)) | None => None end
  | EAttr a n => match tr k a, enc_name n with Some x, Some s => Some (C.EAttribute x s) | _, _ => None end
  | ESubscript a key => match tr k a, enc_name key with Some x, Some s => Some (C.ESubscript x s) | _, _ => None end
  | ENeg a => un "Neg" a
  | ENot a => un "Not" a
  | EIsNull a => un "IsNull" a
  | EIsNotNull a => un "IsNotNull" a
  | EArith op a b => match tr k a, tr (k + nplace a)%nat b with
                     | Some x, Some y => Some (C.EBinary (arith_name op) x y) | _, _ => None end
  | ECmp op a b => match tr k a, tr (k + nplace a)%nat b with
                   | Some x, Some y => Some (C.EBinary (cmp_name op) x y) | _, _ => None end
  | EBetween a lo hi => match tr k a, tr (k + nplace a)%nat lo, tr (k + nplace a + nplace lo)%nat hi with
                        | Some x, Some y, Some z => Some (C.EBetween x y z) | _, _, _ => None end
  | EAnd l => match mapk (fun k x => tr k x) nplace k l with Some r => Some (C.EAnd r) | None => None end
  | EOr l => match mapk (fun k x => tr k x) nplace k l with Some r => Some (C.EOr r) | None => None end
  | ESelect d t f w g o p lim =>
      let kt := (k + osum (lsize (fun p => nplace (fst p))) t)%nat in
      let kf := (kt + osum (from_size nplace) f)%nat in
      let kw := (kf + osum nplace w)%nat in
      let kg := (kw + osum (fun p => lsize (ssize nplace) (fst p) + osum nplace (snd p)) g)%nat in
      let targets :=
        match t with
        | None => Some None
        | Some tl =>
            match mapk (fun k (x : expr * option str) =>
                          match x with
                          | (xe, nm) =>
                              match tr k xe, oname nm with
                              | Some cx, Some cn => Some (cx, cn, text_of_tokens (pp 1 xe))
                              | _, _ => None
                              end
                          end) (fun x => nplace (fst x)) k tl with
            | Some l => Some (Some l)
            | None => None
            end
        end in
      let from :=
        match f with
        | None => Some (C.FKNone, None)
        | Some (FTable n) => match enc_name n with Some s => Some (C.FKTable s, None) | None => None end
        | Some (FSub s) => match tr kt s with Some cs => Some (C.FKSelect, Some cs) | None => None end
        | Some (FFrom x op c cl) =>
            match fk_of op c cl, otr (fun y => tr kt y) x with
            | Some fk, Some fe => Some (fk, fe)
            | _, _ => None
            end
        end in
      let group :=
        match g with
        | None => Some None
        | Some (gl, h) =>
            match mapk (fun k (c : N + expr) =>
                          match c with
                          | inl n => Some (inl (Z.of_N n))
                          | inr y => match tr k y with Some cy => Some (inr cy) | None => None end
                          end) (ssize nplace) kw gl,
                  otr (fun y => tr (kw + lsize (ssize nplace) gl)%nat y) h with
            | Some cl, Some ch => Some (Some (cl, ch))
            | _, _ => None
            end
        end in
      let order :=
        mapk (fun k (x : (N + expr) * bool) =>
                match x with
                | (inl n, dsc) => Some (inl (Z.of_N n), dsc)
                | (inr y, dsc) => match tr k y with Some cy => Some (inr cy, dsc) | None => None end
                end)
             (fun x => ssize nplace (fst x)) kg o in
      match targets, from, otr (fun y => tr kf y) w, group, order, pivot_of p with
      | Some ct, Some (fk, fe), Some cw, Some cg, Some co, Some cp =>
          Some (C.ESelect ct fk fe cw cg co cp (omap Z.of_N lim) d)
      | _, _, _, _, _, _ => None
      end
  | EParen _ | EUPlus _ => None
  end.

(* the `from` rule of BALANCES / JOURNAL / PRINT; k placeholders to the left *)
Definition from_of (k : nat) (f : option (fromc expr)) : option (C.fromkind * option C.expr) :=
  match f with
  | None => Some (C.FKNone, None)
  | Some (FFrom x op c cl) =>
      match fk_of op c cl, otr (tr k) x with
      | Some fk, Some fe => Some (fk, fe)
      | _, _ => None
      end
  | Some _ => None
  end.

Definition to_cstmt (s : stmt) : option C.stmt :=
  match s with
  | SSelect e => match e with
                 | ESelect _ _ _ _ _ _ _ _ => match tr 0 e with Some c => Some (C.SSelect c) | None => None end
                 | _ => None
                 end
  | SBalances sf f w =>
      match oname sf, from_of 0 f, otr (tr (osum (from_size nplace) f)) w with
      | Some csf, Some (fk, fe), Some cw => Some (C.SBalances csf fk fe cw)
      | _, _, _ => None
      end
  | SJournal a sf f =>
      match oname sf, from_of 0 f with
      | Some csf, Some (fk, fe) => Some (C.SJournal (omap (fun s => VStr s) a) csf fk fe)
      | _, _ => None
      end
  | SPrint f => match from_of 0 f with Some (fk, fe) => Some (C.SPrint fk fe) | None => None end
  end.

(* ------------------------------------------------------------------ text -> rows *)
Definition run_text (sch : C.schema) (p : C.params) (dat : L.data) (text : str) : option (list row + C.cerr) :=
  match parse_text text with
  | None => None
  | Some s => match to_cstmt s with
              | None => None
              | Some c => L.run_stmt sch p dat c
              end
  end.

(* for the correspondence: 4 = the text does not parse, 5 = the statement is not translatable,
   otherwise Link.run_out (0 rows + datatypes, 1 compiler error, 2 raises, 3 not lowerable) *)
Definition run_text_out (user : C.schema) (dat : L.data) (p : C.params) (text : str) : out :=
  match parse_text text with
  | None => OL [ON 4]
  | Some s => match to_cstmt s with
              | None => OL [ON 5]
              | Some c => L.run_out user dat p c
              end
  end.
