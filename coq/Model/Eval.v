(* Model of the compiled expression tree (query_compile.EvalNode subclasses) and
   of its evaluation: one constructor per node class, [eval] follows each
   __call__ (left-to-right evaluation, early return of None, EvalOr's mutable r). *)
From Coq Require Import ZArith QArith List Bool.
Import ListNotations.
From Verif Require Import Base.Out Base.StableSort Base.PyValue Base.Decimal.
(* the scalar library modelled for C18 (not imported: its decimal operations have the names of Base.Decimal's) *)
From Verif Require Model.Dates Model.StrFuncs.
Open Scope Z_scope.

(* error kinds *)
Definition TypeError : Z := 1.

Inductive unop := UNot | UNeg | UIsNull | UIsNotNull.

Inductive binop :=
| BAdd | BSub | BMul | BDiv | BDivInt | BMod
| BEq | BNe | BLt | BLe | BGt | BGe
| BMatch | BNotMatch
| BAddDateInt | BAddIntDate | BSubDateInt | BSubDateDate.

(* a few total, NULL-strict scalar functions (query_env.function wrapper) *)
Inductive func :=
| FAbs | FNeg | FSafediv | FLength | FUpper | FLower | FBool | FIntOfDec | FDecOfInt | FSubstr
(* the C18 library (Model/Dates.v, Model/StrFuncs.v), one constructor per Python function x arity *)
| FYear | FMonth | FDay | FYearmonth | FQuarter | FWeekday            (* date -> int / date / str *)
| FDateAdd | FDateDiff | FDateTrunc | FDatePart | FDateBin             (* date_add date_diff date_trunc date_part date_bin(str, ..) *)
| FDateYmd | FDate                                                     (* date(y, m, d), date(x) *)
| FStr | FInt | FDecimal                                               (* str(x), int(x), decimal(x) *)
| FSplitcomp | FMaxwidth                                               (* splitcomp(s, delim, i), maxwidth(s, n) *)
| FRoot | FRoot1 | FParent | FLeaf                                     (* root(a, n), root(a), parent(a), leaf(a) *)
| FRoundInt | FRoundInt1 | FRoundDec | FRoundDec1.                     (* round(int, n), round(int), round(Decimal, n), round(Decimal) *)

Inductive enode :=
| EConst (v : value)
| ECol (i : nat)
| EAgg (h : nat)                       (* EvalAggregator.__call__: the finalised value parked on the node *)
| EUnary (op : unop) (e : enode)
| EBinary (op : binop) (l r : enode)
| EBetween (e lo hi : enode)
| EAnd (args : list enode)
| EOr (args : list enode)
| ECoalesce (args : list enode)
| EFunc (f : func) (args : list enode)
| EIn (negate : bool) (e : enode) (items : option (list value)).
       (* right operand: literal list, or an IN-subquery's column (None when it returned no row) *)

Definition is_null (v : value) : bool := match v with VNull => true | _ => false end.

(* Python bool(v) *)
Definition truthy (v : value) : bool :=
  match v with
  | VNull => false
  | VBool b => b
  | VInt z => negb (z =? 0)
  | VDec d => negb (dcoef d =? 0)
  | VStr s => match s with [] => false | _ => true end
  | VDate _ => true
  | VErr _ => false
  end.

Inductive num := NI (z : Z) | ND (d : dec).
Definition as_num (v : value) : option num :=
  match v with
  | VInt z => Some (NI z)
  | VBool b => Some (NI (if b then 1 else 0))
  | VDec d => Some (ND d)
  | _ => None
  end.
Definition to_dec (n : num) : dec := match n with NI z => dec_of_Z z | ND d => d end.
Definition num_is_zero (n : num) : bool := match n with NI z => z =? 0 | ND d => dcoef d =? 0 end.

Definition arith (fi : Z -> Z -> Z) (fd : dec -> dec -> dec) (x y : value) : value :=
  match as_num x, as_num y with
  | Some (NI a), Some (NI b) => VInt (fi a b)
  | Some a, Some b => VDec (fd (to_dec a) (to_dec b))
  | _, _ => VErr TypeError
  end.

(* ASCII case folding for the literal-pattern model of re.search(..., IGNORECASE) *)
Definition lower_cp (c : Z) : Z := if (65 <=? c) && (c <=? 90) then c + 32 else c.
Definition upper_cp (c : Z) : Z := if (97 <=? c) && (c <=? 122) then c - 32 else c.
Fixpoint prefix_ci (p s : list Z) : bool :=
  match p, s with
  | [], _ => true
  | _ :: _, [] => false
  | a :: p', b :: s' => (lower_cp a =? lower_cp b) && prefix_ci p' s'
  end.
Fixpoint search_ci (p s : list Z) : bool :=
  prefix_ci p s || match s with [] => false | _ :: s' => search_ci p s' end.

Definition un (op : unop) (v : value) : value :=
  match op with
  | UNot => VBool (negb (truthy v))                 (* operator.not_, also on None *)
  | UIsNull => VBool (is_null v)
  | UIsNotNull => VBool (negb (is_null v))
  | UNeg =>                                          (* EvalUnaryOpSafe *)
      match v with
      | VNull => VNull
      | _ => match as_num v with
             | Some (NI z) => VInt (- z)
             | Some (ND d) => VDec (dec_neg d)
             | None => VErr TypeError
             end
      end
  end.

Definition bin (op : binop) (x y : value) : value :=
  match op with
  | BAdd => arith Z.add dec_add x y
  | BSub => arith Z.sub dec_sub x y
  | BMul => arith Z.mul dec_mul x y
  | BDiv | BDivInt =>
      match as_num x, as_num y with
      | Some a, Some b => if num_is_zero b then VNull else VDec (dec_div (to_dec a) (to_dec b))
      | _, _ => VErr TypeError
      end
  | BMod =>
      match as_num x, as_num y with
      | Some a, Some b =>
          if num_is_zero b then VNull
          else match a, b with
               | NI p, NI q => VInt (p mod q)
               | _, _ => VDec (dec_mod (to_dec a) (to_dec b))
               end
      | _, _ => VErr TypeError
      end
  | BEq => VBool (val_eq x y)
  | BNe => VBool (negb (val_eq x y))
  | BLt => VBool (negb (val_le y x))
  | BLe => VBool (val_le x y)
  | BGt => VBool (negb (val_le x y))
  | BGe => VBool (val_le y x)
  | BMatch => match x, y with VStr s, VStr p => VBool (search_ci p s) | _, _ => VErr TypeError end
  | BNotMatch => match x, y with VStr s, VStr p => VBool (negb (search_ci p s)) | _, _ => VErr TypeError end
  | BAddDateInt => match x, y with VDate o, VInt n => VDate (o + n) | _, _ => VErr TypeError end
  | BAddIntDate => match x, y with VInt n, VDate o => VDate (o + n) | _, _ => VErr TypeError end
  | BSubDateInt => match x, y with VDate o, VInt n => VDate (o - n) | _, _ => VErr TypeError end
  | BSubDateDate => match x, y with VDate a, VDate b => VInt (a - b) | _, _ => VErr TypeError end
  end.

(* Python s[a:b] *)
Definition clipi (len n : Z) : Z := if n <? 0 then Z.max 0 (len + n) else Z.min n len.
Definition py_substr (s : list Z) (a b : Z) : list Z :=
  let len := Z.of_nat (length s) in
  let a' := clipi len a in let b' := clipi len b in
  firstn (Z.to_nat (b' - a')) (skipn (Z.to_nat a') s).

(* Results of the C18 library: its exception kinds (Dates.v: 1 ValueError, 2 OverflowError, 3 IndexError,
   4 ZeroDivisionError, 5 TypeError, 6 InvalidOperation, 9 fuel) are kept apart from this file's kinds
   by an offset; a special Decimal (Infinity / NaN), which [value] cannot hold, is the kind [Unmodelled]. *)
Definition LibError : Z := 100.
Definition Unmodelled : Z := 99.
Definition lib (v : value) : value := match v with VErr k => VErr (LibError + k) | _ => v end.
Definition lib_x (x : StrFuncs.xval) : value :=
  match x with StrFuncs.XV v => lib v | StrFuncs.XSpec _ _ => VErr Unmodelled end.

Definition apply_func (f : func) (vs : list value) : value :=
  match f, vs with
  | FAbs, [VDec d] => VDec (dec_abs d)
  | FNeg, [VDec d] => VDec (dec_neg d)
  | FSafediv, [VDec a; b] =>
      match as_num b with
      | Some nb => if num_is_zero nb then VDec (mkdec false 0 0) else VDec (dec_div a (to_dec nb))
      | None => VErr TypeError
      end
  | FLength, [VStr s] => VInt (Z.of_nat (length s))
  | FUpper, [VStr s] => VStr (map upper_cp s)
  | FLower, [VStr s] => VStr (map lower_cp s)
  | FBool, [v] => VBool (truthy v)
  | FIntOfDec, [VDec d] => VInt (dec_to_Z d)
  | FDecOfInt, [VInt z] => VDec (dec_of_Z z)
  | FSubstr, [VStr s; VInt a; VInt b] => VStr (py_substr s a b)
  (* the C18 library: every clause calls the model function the C18 theorems are stated over *)
  | FYear, [VDate o] => lib (Dates.f_year o)
  | FMonth, [VDate o] => lib (Dates.f_month o)
  | FDay, [VDate o] => lib (Dates.f_day o)
  | FYearmonth, [VDate o] => lib (Dates.f_yearmonth o)
  | FQuarter, [VDate o] => lib (Dates.f_quarter o)
  | FWeekday, [VDate o] => lib (Dates.f_weekday o)
  | FDateAdd, [VDate o; VInt n] => lib (Dates.date_add o n)
  | FDateDiff, [VDate x; VDate y] => lib (Dates.date_diff x y)
  | FDateTrunc, [VStr fld; VDate o] => lib (Dates.date_trunc fld o)
  | FDatePart, [VStr fld; VDate o] => lib (Dates.date_part fld o)
  | FDateBin, [VStr stride; VDate source; VDate origin] => lib (Dates.date_bin stride source origin)
  | FDateYmd, [VInt y; VInt m; VInt d] => lib (StrFuncs.cast_date3 y m d)
  | FDate, [v] => lib_x (StrFuncs.cast_date (StrFuncs.XV v))
  | FStr, [v] => lib_x (StrFuncs.cast_str (StrFuncs.XV v))
  | FInt, [v] => lib_x (StrFuncs.cast_int (StrFuncs.XV v))
  | FDecimal, [v] => lib_x (StrFuncs.cast_decimal (StrFuncs.XV v))
  | FSplitcomp, [VStr s; VStr delim; VInt i] => lib (StrFuncs.f_splitcomp s delim i)
  | FMaxwidth, [VStr s; VInt n] => lib (StrFuncs.f_maxwidth s n)
  | FRoot, [VStr a; VInt n] => lib (StrFuncs.f_root a n)
  | FRoot1, [VStr a] => lib (StrFuncs.f_root a 1)
  | FParent, [VStr a] => lib (StrFuncs.f_parent a)
  | FLeaf, [VStr a] => lib (StrFuncs.f_leaf a)
  | FRoundInt, [VInt z; VInt n] => lib (StrFuncs.f_round_int z n)
  | FRoundInt1, [VInt z] => lib (StrFuncs.f_round_int z 0)
  | FRoundDec, [VDec d; VInt n] => lib (StrFuncs.f_round_dec d n)
  | FRoundDec1, [VDec d] => lib (StrFuncs.f_round_dec d 0)
  | _, _ => VErr TypeError
  end.

Section Eval.
Variable r : row.          (* the context row *)
Variable st : list value.  (* finalised aggregate values, by handle *)

Fixpoint eval (e : enode) : value :=
  match e with
  | EConst v => v
  | ECol i => cell i r
  | EAgg h => nth h st VNull
  | EUnary op a => un op (eval a)
  | EBinary op a b =>
      let x := eval a in
      if is_null x then VNull
      else let y := eval b in
           if is_null y then VNull else bin op x y
  | EBetween a lo hi =>
      let x := eval a in
      if is_null x then VNull
      else let l := eval lo in
           if is_null l then VNull
           else let h := eval hi in
                if is_null h then VNull else VBool (val_le l x && val_le x h)
  | EAnd args =>
      (fix go (l : list enode) : value :=
         match l with
         | [] => VBool true
         | a :: t => let v := eval a in
                     if is_null v then VNull else if truthy v then go t else VBool false
         end) args
  | EOr args =>
      (fix go (acc : value) (l : list enode) : value :=
         match l with
         | [] => acc
         | a :: t => let v := eval a in
                     if truthy v then VBool true else go (if is_null v then VNull else acc) t
         end) (VBool false) args
  | ECoalesce args =>
      (fix go (l : list enode) : value :=
         match l with
         | [] => VNull
         | a :: t => let v := eval a in if is_null v then go t else v
         end) args
  | EFunc f args =>
      let vs := map eval args in
      if existsb is_null vs then VNull else apply_func f vs
  | EIn negate a items =>
      let x := eval a in
      if is_null x then VNull
      else match items with
           | None => VNull
           | Some l => VBool (xorb negate (existsb (val_eq x) l))
           end
  end.
End Eval.
