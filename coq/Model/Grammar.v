(* C06: the structure of beanquery/parser/bql.ebnf that Model/Parser.v was written against,
   as TatSu's grammar model presents it (rule name, parameters, @name flag, left-recursion flag,
   expression tree; directives and reserved keywords).  This file is maintained BY HAND together
   with Model/Parser.v; coq/Gen/Grammar.v is regenerated from the repository on every run and
   Proofs/ParserProofs.v proves the two equal, so any edit of the grammar breaks that obligation
   until the parser model has been revisited. *)
From Coq Require Import String List.
Import ListNotations.
Open Scope string_scope.

Inductive gx :=
| GTok (s : string) | GPat (s : string) | GRef (s : string)
| GSeq (l : list gx) | GChoice (l : list gx)
| GOpt (x : gx) | GClos (x : gx) | GPClos (x : gx)
| GGather (positive : bool) (sep x : gx) | GJoin (positive : bool) (sep x : gx)
| GNamed (n : string) (x : gx) | GNamedL (n : string) (x : gx) | GOver (x : gx) | GOverL (x : gx)
| GCut | GConst (s : string) | GLook (x : gx) | GNLook (x : gx) | GVoid | GEof | GGroup (x : gx)
| GEmptyClos | GOther (s : string).

(* name, parameters, @name, left recursive, expression *)
Definition rule_t := (string * list string * bool * bool * gx)%type.
(* directives, @@keyword list, rules *)
Definition grammar_t := (list (string * string) * list string * list rule_t)%type.

Definition grammar : grammar_t :=
([("comments", "(\/\*([^*]|[\r\n]|(\*+([^*\/]|[\r\n])))*\*+\/)"); ("eol_comments", "\;[^\n]*?$"); ("grammar", "BQL"); ("ignorecase", "True"); ("namechars", "_"); ("parseinfo", "True")],
 ["AND"; "AS"; "ASC"; "BY"; "DESC"; "DISTINCT"; "FALSE"; "FROM"; "GROUP"; "HAVING"; "IN"; "IS"; "LIMIT"; "NOT"; "OR"; "ORDER"; "PIVOT"; "SELECT"; "TRUE"; "WHERE"; "BALANCES"; "JOURNAL"; "PRINT"],
 [
  ("bql", [], false, false,
   GSeq [GOver (GRef "statement"); GOpt (GTok ";"); GEof]);
  ("statement", [], false, false,
   GChoice [GRef "select"; GRef "balances"; GRef "journal"; GRef "print"]);
  ("select", ["Select"], false, false,
   GSeq [GTok "SELECT"; GOpt (GSeq [GTok "DISTINCT"; GNamed "distinct" (GConst "True")]); GNamed "targets" (GGroup (GChoice [GGather true (GTok ",") (GRef "target"); GRef "asterisk"])); GOpt (GSeq [GTok "FROM"; GNamed "from_clause" (GGroup (GChoice [GRef "table"; GRef "subselect"; GRef "from"]))]); GOpt (GSeq [GTok "WHERE"; GNamed "where_clause" (GRef "expression")]); GOpt (GSeq [GTok "GROUP"; GTok "BY"; GNamed "group_by" (GRef "groupby")]); GOpt (GSeq [GTok "ORDER"; GTok "BY"; GNamed "order_by" (GGather true (GTok ",") (GRef "order"))]); GOpt (GSeq [GTok "PIVOT"; GTok "BY"; GNamed "pivot_by" (GRef "pivotby")]); GOpt (GSeq [GTok "LIMIT"; GNamed "limit" (GRef "integer")])]);
  ("subselect", [], false, false,
   GSeq [GTok "("; GOver (GRef "select"); GTok ")"]);
  ("from", ["From"], false, false,
   GChoice [GSeq [GTok "OPEN"; GCut; GTok "ON"; GNamed "open" (GRef "date"); GOpt (GSeq [GTok "CLOSE"; GGroup (GChoice [GSeq [GTok "ON"; GNamed "close" (GRef "date")]; GSeq [GEmptyClos; GNamed "close" (GConst "True")]])]); GOpt (GSeq [GTok "CLEAR"; GNamed "clear" (GConst "True")])]; GSeq [GTok "CLOSE"; GCut; GGroup (GChoice [GSeq [GTok "ON"; GNamed "close" (GRef "date")]; GSeq [GEmptyClos; GNamed "close" (GConst "True")]]); GOpt (GSeq [GTok "CLEAR"; GNamed "clear" (GConst "True")])]; GSeq [GTok "CLEAR"; GCut; GNamed "clear" (GConst "True")]; GSeq [GNamed "expression" (GRef "expression"); GOpt (GSeq [GTok "OPEN"; GTok "ON"; GNamed "open" (GRef "date")]); GOpt (GSeq [GTok "CLOSE"; GGroup (GChoice [GSeq [GTok "ON"; GNamed "close" (GRef "date")]; GSeq [GEmptyClos; GNamed "close" (GConst "True")]])]); GOpt (GSeq [GTok "CLEAR"; GNamed "clear" (GConst "True")])]]);
  ("table", ["Table"], false, false,
   GNamed "name" (GPat "#([a-zA-Z_][a-zA-Z0-9_]*)?"));
  ("groupby", ["GroupBy"], false, false,
   GSeq [GNamed "columns" (GGather true (GTok ",") (GGroup (GChoice [GRef "integer"; GRef "expression"]))); GOpt (GSeq [GTok "HAVING"; GNamed "having" (GRef "expression")])]);
  ("order", ["OrderBy"], false, false,
   GSeq [GNamed "column" (GGroup (GChoice [GRef "integer"; GRef "expression"])); GNamed "ordering" (GRef "ordering")]);
  ("ordering", [], false, false,
   GOpt (GChoice [GTok "DESC"; GTok "ASC"]));
  ("pivotby", ["PivotBy"], false, false,
   GSeq [GNamedL "columns" (GGroup (GChoice [GRef "integer"; GRef "column"])); GTok ","; GNamedL "columns" (GGroup (GChoice [GRef "integer"; GRef "column"]))]);
  ("target", ["Target"], false, false,
   GSeq [GNamed "expression" (GRef "expression"); GOpt (GSeq [GTok "AS"; GNamed "name" (GRef "identifier")])]);
  ("expression", [], false, false,
   GChoice [GRef "disjunction"; GRef "conjunction"]);
  ("disjunction", [], false, false,
   GChoice [GRef "or"; GRef "conjunction"]);
  ("or", ["Or::BoolOp"], false, false,
   GSeq [GNamedL "args" (GRef "conjunction"); GPClos (GSeq [GTok "OR"; GNamedL "args" (GRef "conjunction")])]);
  ("conjunction", [], false, false,
   GChoice [GRef "and"; GRef "inversion"]);
  ("and", ["And::BoolOp"], false, false,
   GSeq [GNamedL "args" (GRef "inversion"); GPClos (GSeq [GTok "AND"; GNamedL "args" (GRef "inversion")])]);
  ("inversion", [], false, false,
   GChoice [GRef "not"; GRef "comparison"]);
  ("not", ["Not::UnaryOp"], false, false,
   GSeq [GTok "NOT"; GNamed "operand" (GRef "inversion")]);
  ("comparison", [], false, false,
   GChoice [GRef "lt"; GRef "lte"; GRef "gt"; GRef "gte"; GRef "eq"; GRef "neq"; GRef "in"; GRef "notin"; GRef "match"; GRef "notmatch"; GRef "isnull"; GRef "isnotnull"; GRef "between"; GRef "sum"]);
  ("lt", ["Less::BinaryOp"], false, false,
   GSeq [GNamed "left" (GRef "sum"); GTok "<"; GNamed "right" (GRef "sum")]);
  ("lte", ["LessEq::BinaryOp"], false, false,
   GSeq [GNamed "left" (GRef "sum"); GTok "<="; GNamed "right" (GRef "sum")]);
  ("gt", ["Greater::BinaryOp"], false, false,
   GSeq [GNamed "left" (GRef "sum"); GTok ">"; GNamed "right" (GRef "sum")]);
  ("gte", ["GreaterEq::BinaryOp"], false, false,
   GSeq [GNamed "left" (GRef "sum"); GTok ">="; GNamed "right" (GRef "sum")]);
  ("eq", ["Equal::BinaryOp"], false, false,
   GSeq [GNamed "left" (GRef "sum"); GTok "="; GNamed "right" (GRef "sum")]);
  ("neq", ["NotEqual::BinaryOp"], false, false,
   GSeq [GNamed "left" (GRef "sum"); GTok "!="; GNamed "right" (GRef "sum")]);
  ("in", ["In::BinaryOp"], false, false,
   GSeq [GNamed "left" (GRef "sum"); GTok "IN"; GNamed "right" (GRef "sum")]);
  ("notin", ["NotIn::BinaryOp"], false, false,
   GSeq [GNamed "left" (GRef "sum"); GTok "NOT"; GTok "IN"; GNamed "right" (GRef "sum")]);
  ("match", ["Match::BinaryOp"], false, false,
   GSeq [GNamed "left" (GRef "sum"); GTok "~"; GNamed "right" (GRef "sum")]);
  ("notmatch", ["NotMatch::BinaryOp"], false, false,
   GSeq [GNamed "left" (GRef "sum"); GTok "!~"; GNamed "right" (GRef "sum")]);
  ("isnull", ["IsNull::UnaryOp"], false, false,
   GSeq [GNamed "operand" (GRef "sum"); GTok "IS"; GTok "NULL"]);
  ("isnotnull", ["IsNotNull::UnaryOp"], false, false,
   GSeq [GNamed "operand" (GRef "sum"); GTok "IS"; GTok "NOT"; GTok "NULL"]);
  ("between", ["Between"], false, false,
   GSeq [GNamed "operand" (GRef "sum"); GTok "BETWEEN"; GNamed "lower" (GRef "sum"); GTok "AND"; GNamed "upper" (GRef "sum")]);
  ("sum", [], false, true,
   GChoice [GRef "add"; GRef "sub"; GRef "term"]);
  ("add", ["Add::BinaryOp"], false, false,
   GSeq [GNamed "left" (GRef "sum"); GTok "+"; GCut; GNamed "right" (GRef "term")]);
  ("sub", ["Sub::BinaryOp"], false, false,
   GSeq [GNamed "left" (GRef "sum"); GTok "-"; GCut; GNamed "right" (GRef "term")]);
  ("term", [], false, true,
   GChoice [GRef "mul"; GRef "div"; GRef "mod"; GRef "factor"]);
  ("mul", ["Mul::BinaryOp"], false, false,
   GSeq [GNamed "left" (GRef "term"); GTok "*"; GCut; GNamed "right" (GRef "factor")]);
  ("div", ["Div::BinaryOp"], false, false,
   GSeq [GNamed "left" (GRef "term"); GTok "/"; GCut; GNamed "right" (GRef "factor")]);
  ("mod", ["Mod::BinaryOp"], false, false,
   GSeq [GNamed "left" (GRef "term"); GTok "%"; GCut; GNamed "right" (GRef "factor")]);
  ("factor", [], false, false,
   GChoice [GRef "unary"; GSeq [GTok "("; GOver (GRef "expression"); GTok ")"]]);
  ("unary", [], false, false,
   GChoice [GRef "uplus"; GRef "uminus"; GRef "primary"]);
  ("uplus", [], false, false,
   GSeq [GTok "+"; GOver (GRef "atom")]);
  ("uminus", ["Neg::UnaryOp"], false, false,
   GSeq [GTok "-"; GNamed "operand" (GRef "factor")]);
  ("primary", [], false, true,
   GChoice [GRef "attribute"; GRef "subscript"; GRef "atom"]);
  ("attribute", ["Attribute"], false, false,
   GSeq [GNamed "operand" (GRef "primary"); GTok "."; GNamed "name" (GRef "identifier")]);
  ("subscript", ["Subscript"], false, false,
   GSeq [GNamed "operand" (GRef "primary"); GTok "["; GNamed "key" (GRef "string"); GTok "]"]);
  ("atom", [], false, false,
   GChoice [GRef "select"; GRef "function"; GRef "constant"; GRef "column"; GRef "placeholder"]);
  ("placeholder", ["Placeholder"], false, false,
   GChoice [GSeq [GTok "%s"; GNamed "name" (GConst "")]; GSeq [GTok "%("; GNamed "name" (GRef "identifier"); GTok ")s"]]);
  ("function", ["Function"], false, false,
   GChoice [GSeq [GNamed "fname" (GRef "identifier"); GTok "("; GNamed "operands" (GGather false (GTok ",") (GRef "expression")); GTok ")"]; GSeq [GNamed "fname" (GRef "identifier"); GTok "("; GNamedL "operands" (GRef "asterisk"); GTok ")"]]);
  ("column", ["Column"], false, false,
   GNamed "name" (GRef "identifier"));
  ("literal", [], false, false,
   GChoice [GRef "date"; GRef "decimal"; GRef "integer"; GRef "string"; GRef "null"; GRef "boolean"]);
  ("constant", ["Constant"], false, false,
   GNamed "value" (GGroup (GChoice [GRef "literal"; GRef "list"])));
  ("list", [], false, false,
   GSeq [GTok "("; GLook (GGroup (GSeq [GRef "literal"; GTok ","])); GOver (GGather true (GTok ",") (GGroup (GChoice [GRef "literal"; GVoid]))); GTok ")"]);
  ("identifier", [], true, false,
   GPat "[a-zA-Z_][a-zA-Z0-9_]*");
  ("asterisk", [], false, false,
   GTok "*");
  ("string", [], false, false,
   GPat "(\""[^\""]*\""|\'[^\']*\')");
  ("boolean", [], false, false,
   GChoice [GTok "TRUE"; GTok "FALSE"]);
  ("null", [], false, false,
   GTok "NULL");
  ("integer", [], false, false,
   GPat "\d+");
  ("decimal", [], false, false,
   GPat "([0-9]+\.[0-9]*|[0-9]*\.[0-9]+)");
  ("date", [], false, false,
   GPat "(\d{4}-\d{2}-\d{2})");
  ("balances", ["Balances"], false, false,
   GSeq [GTok "BALANCES"; GOpt (GSeq [GTok "AT"; GNamed "summary_func" (GRef "identifier")]); GOpt (GSeq [GTok "FROM"; GNamed "from_clause" (GRef "from")]); GOpt (GSeq [GTok "WHERE"; GNamed "where_clause" (GRef "expression")])]);
  ("journal", ["Journal"], false, false,
   GSeq [GTok "JOURNAL"; GOpt (GNamed "account" (GRef "string")); GOpt (GSeq [GTok "AT"; GNamed "summary_func" (GRef "identifier")]); GOpt (GSeq [GTok "FROM"; GNamed "from_clause" (GRef "from")])]);
  ("print", ["Print"], false, false,
   GSeq [GTok "PRINT"; GOpt (GSeq [GTok "FROM"; GNamed "from_clause" (GRef "from")])])
 ]).
