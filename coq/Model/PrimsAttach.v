(* Primitive semantics of group `attach` (C09, bld-shell3): beanquery.Connection.__init__ / attach (Gen/SrcAttach.v).
   Definitions only; proofs in Proofs/SrcAttach.v.

   Trusted here (on top of Model/PrimsApi.v): an attribute of an OPAQUE object (urlparse(dsn).scheme, the attach
   function of the imported source module) is the uninterpreted value [msg "attr:<name>" [object]] (an error value is a
   raised exception); the bound method self.attach is the callable held in the field "attach" of the object. *)
From Coq Require Import String Ascii ZArith List Bool.
Import ListNotations.
From Verif Require Import Base.PyValue Model.Eval Model.PyMini Model.PrimsApi.
Open Scope string_scope.
Open Scope list_scope.
Open Scope Z_scope.

Section Prims.
Variable msg : string -> list pv -> pv.

Definition attach_ext (name : string) (args : list pv) : res pv :=
  match strip_prefix "attr:" name with
  | Some _ => match args with [PRef _] => opaque_method msg name args | _ => Stuck end
  | None => Stuck
  end.

Definition attach_lib : strlib :=
  {| sl_strip := fun s => s; sl_lower := fun s => s; sl_parseline := fun _ => None;
     sl_getattr := fun _ => None; sl_ext := attach_ext |}.

Definition prim_attach : string -> list pv -> res pv := prim_api attach_lib msg.
End Prims.

(* the attributes of a connection right after __init__'s assignments *)
Definition new_connection (attach null_table : pv) : env :=
  [("attach", attach); ("tables", pdict [(PStr "", null_table)]); ("options", pdict []); ("errors", PList [])].
