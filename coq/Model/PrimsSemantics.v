(* Primitive semantics and value encodings of group `semantics` (C06, bld-sem): the methods of BQLSemantics,
   parser.parse and ParseError.__init__ translated by harness/vf/src_semantics.py into Gen/SrcSemantics.v.
   Definitions only; proofs in Proofs/SrcSemantics.v.

   TRUSTED here (everything else - which characters an action cuts, which constructor it calls, which fallback it
   takes, which text reaches the parser, how the error location is clamped - is what the translated source says):

   * the LEXICAL CLASSES below are the patterns of bql.ebnf for the literal rules, written with Model/Lexer.v's
     character classes and scanners (is_digit, span, lex_date, until_quote, is_alpha, is_word);
   * a library conversion applied to a text OF ITS CLASS is the existing model function the lexer / PEG models use:
       int(s)                         = Lexer.digits_val s                      (class integer; anything else: Stuck)
       decimal.Decimal(s)             = PegActions.dec_of s as a Base.PyValue dec: coefficient = all the digits,
                                        exponent = - number of fraction digits, no rounding, no context
       datetime.strptime(s, "%Y-%m-%d") on the class date = Model/Dates.v's mk_date of the three digit groups:
                                        the calendar date, else ValueError;  .date() of that datetime is the date
       s.lower() on ASCII text        = map Lexer.lower s;   s.rstrip(c) = [rstrip_z c s];   s[1:-1] is PyMini's slice
   * objects: `C(args)` for a class C is the record ("$new", C, args); getattr(<module ast>, name) is the class
     ("$class", "beanquery.parser.ast." ++ name) and calling it with `**d` is ("$new:**", class, items of d);
     E[name] for the enum ast.Ordering is the member of that name (KeyError otherwise); `raise X` in tail position
     makes the outcome ("$raised", X) (rule S6 of the translator);
   * TatSu: `BQLParser().parse(text, semantics=BQLSemantics())` on a NEWLY built parser and a NEWLY built semantics
     object is the oracle [tatsu text] (accept with a node / reject with the failing item and position); on any other
     receiver the call is Stuck (not modelled: nothing is known about a parser object that lives across calls).  The
     exception a rejected parse raises carries the tokenizer, whose [text] is the text the parser was given, the item
     and the position; tokenizer.line_info(pos).line and str(exception) are uninterpreted ([msg]);
   * "caught:<E>" (rule S5): the exception the body of a try statement raises is a function of the locals it reads. *)
From Coq Require Import String Ascii ZArith NArith List Bool.
Import ListNotations.
From Verif Require Import Base.PyValue Model.Eval Model.PyMini Model.PrimsApi.
From Verif Require Model.Ast Model.Lexer Model.Peg Model.PegActions Model.Dates.
Open Scope string_scope.
Open Scope list_scope.
Open Scope Z_scope.

Notation node := Peg.node.
Definition is_nil {A} (l : list A) : bool := match l with [] => true | _ => false end.

(* ------------------------------------------------------------------ lexical classes (bql.ebnf, literal rules) *)
(* integer = /\d+/ *)
Definition integer_class (s : list Z) : bool := negb (is_nil s) && forallb Lexer.is_digit s.
(* decimal = /([0-9]+\.[0-9]*|[0-9]*\.[0-9]+)/ *)
Definition decimal_class (s : list Z) : bool :=
  let (ds, r) := Lexer.span Lexer.is_digit s in
  match r with
  | c :: r1 => (c =? 46) && (let (fs, r2) := Lexer.span Lexer.is_digit r1 in
                             is_nil r2 && (negb (is_nil ds) || negb (is_nil fs)))
  | [] => false
  end.
(* date = /(\d{4}-\d{2}-\d{2})/ *)
Definition date_class (s : list Z) : bool :=
  match Lexer.lex_date s with Some (_, _, _, []) => true | _ => false end.
(* string = a double quote, any characters but a double quote, a double quote - or the same with single quotes *)
Definition string_class (s : list Z) : bool :=
  match s with
  | q :: r => ((q =? 34) || (q =? 39)) && match Lexer.until_quote q r with Some (_, []) => true | _ => false end
  | [] => false
  end.
(* identifier = /[a-zA-Z_][a-zA-Z0-9_]*/ *)
Definition identifier_class (s : list Z) : bool :=
  match s with c :: _ => Lexer.is_alpha c && forallb Lexer.is_word s | [] => false end.

Definition is_ascii (s : list Z) : bool := forallb (fun c => (0 <=? c) && (c <? 128)) s.

(* s.rstrip(c) *)
Fixpoint rstrip_z (c : Z) (s : list Z) : list Z :=
  match s with
  | [] => []
  | a :: r => match rstrip_z c r with
              | [] => if a =? c then [] else [a]
              | r' => a :: r'
              end
  end.

(* ------------------------------------------------------------------ objects *)
Definition new_obj (cls : string) (args : list pv) : pv := PTuple [PStr "$new"; PStr cls; PList args].
Definition ast_prefix : string := "beanquery.parser.ast.".
Definition class_val (name : list Z) : pv := PTuple [PStr "$class"; PV (VStr (zs ast_prefix ++ name))].
Definition kw_obj (cls : pv) (items : list pv) : pv := PTuple [PStr "$new:**"; cls; PList items].
Definition raised (x : pv) : pv := PTuple [PStr "$raised"; x].
Definition ordering_cls : string := "beanquery.parser.ast.Ordering".
Definition ord_member (desc : bool) : pv := PTuple [PStr ordering_cls; PStr (if desc then "DESC" else "ASC")].
Definition ast_tag : string := "tatsu.ast.AST".
Definition datetime_val (o : Z) : pv := PTuple [PStr "datetime.datetime"; PV (VDate o)].

Definition parser_cls : string := "beanquery.parser.parser.BQLParser".
Definition semantics_cls : string := "beanquery.parser.BQLSemantics".
Definition parse_error_cls : string := "beanquery.parser.ParseError".
Definition parseinfo_cls : string := "tatsu.infos.ParseInfo".
Definition failed_semantics_cls : string := "tatsu.exceptions.FailedSemantics".

Definition TatsuParseError : Z := 30.

(* the tokenizer of a parse of [text], and the exception a rejected parse raises *)
Definition tokenizer_of (text : list Z) : pv := record (zs "tatsu.buffering.Buffer") [("text", PV (VStr text))].
Definition parse_exc (text : list Z) (item : pv) (pos : Z) : pv :=
  record (zs "tatsu.exceptions.FailedParse") [("tokenizer", tokenizer_of text); ("item", item); ("pos", PInt pos)].
Definition value_error (args : list pv) : pv := PTuple [PStr "$exc"; PStr "builtins.ValueError"; PList args].

Inductive tres := TAccept (n : pv) | TReject (item : pv) (pos : Z).

(* ------------------------------------------------------------------ nodes of Model/Peg.v as values *)
Section Sem.
Variable kN : nat.      (* the opaque object beanquery.parser._NULL in the generated refs table *)
Variable kA : nat.      (* the module beanquery.parser.ast *)
Variable msg : string -> list pv -> pv.
Variable tatsu : list Z -> tres.

Fixpoint enc (n : node) : pv :=
  match n with
  | Peg.NNone => PNone
  | Peg.NStr s => PV (VStr s)
  | Peg.NTrue => PBool true
  | Peg.NList l | Peg.NClos l => PList (map enc l)
  | Peg.NDict fs => PTuple [PStr ast_tag; PList (map (fun kv => match kv with (k, v) => PTuple [PStr k; enc v] end) fs)]
  | Peg.NObj ty fs =>
      kw_obj (class_val (zs ty)) (map (fun kv => match kv with (k, v) => PTuple [PStr k; enc v] end) fs)
  | Peg.NInt k => PInt (Z.of_N k)
  | Peg.NDec m sc => PV (VDec (mkdec false (Z.of_N m) (- Z.of_nat sc)))
  | Peg.NDate y m d => PV (VDate (Dates.ymd2ord (Z.of_N y) (Z.of_N m) (Z.of_N d)))
  | Peg.NBool b => PBool b
  | Peg.NNullMark => PRef kN
  | Peg.NAsterisk => new_obj "beanquery.parser.ast.Asterisk" []
  | Peg.NOrd b => ord_member b
  end.

Definition item_key (p : pv) : option (list Z) :=
  match p with PTuple [PV (VStr k); _] => Some k | _ => None end.
(* the items of a dict display / comprehension: keys are str and pairwise different *)
Fixpoint keys_ok (seen : list (list Z)) (items : list pv) : bool :=
  match items with
  | [] => true
  | p :: t => match item_key p with
              | Some k => negb (existsb (zeqb k) seen) && keys_ok (k :: seen) t
              | None => false
              end
  end.

Definition prim_sem (name : string) (args : list pv) : res pv :=
  match strip_prefix "attr:" name with
  | Some a => match args with [o] => get_attr a o | _ => Stuck end
  | None =>
  match strip_prefix "new:" name with
  | Some cls => Ok (new_obj cls args)
  | None =>
  if String.eqb name "builtins.int" then
    match args with
    | [PV (VStr s)] => if integer_class s then Ok (PInt (Z.of_N (Lexer.digits_val s))) else Stuck
    | _ => Stuck
    end
  else if String.eqb name "decimal.Decimal" then
    match args with
    | [PV (VStr s)] => if decimal_class s then Ok (enc (PegActions.dec_of s)) else Stuck
    | _ => Stuck
    end
  else if String.eqb name "datetime.datetime.strptime" then
    match args with
    | [PV (VStr s); PV (VStr fmt)] =>
        if zeqb fmt (zs "%Y-%m-%d") then
          match Lexer.lex_date s with
          | Some (y, m, d, []) =>
              match Dates.mk_date (Z.of_N y) (Z.of_N m) (Z.of_N d) with
              | VDate o => Ok (datetime_val o)
              | _ => Exc ValueError
              end
          | _ => Stuck
          end
        else Stuck
    | _ => Stuck
    end
  else if String.eqb name "call:date" then
    match args with
    | [PTuple [PV (VStr tag); PV (VDate o)]] => if zeqb tag (zs "datetime.datetime") then Ok (PV (VDate o)) else Stuck
    | _ => Stuck
    end
  else if String.eqb name "caught:builtins.ValueError" then Ok (value_error args)
  else if String.eqb name "builtins.str" then Ok (msg "str" args)
  else if String.eqb name "raise" then
    match args with [x] => Ok (raised x) | _ => Stuck end
  else if String.eqb name "call:lower" then
    match args with
    | [PV (VStr s)] => if is_ascii s then Ok (PV (VStr (map Lexer.lower s))) else Stuck
    | _ => Stuck
    end
  else if String.eqb name "call:rstrip" then
    match args with
    | [PV (VStr s); PV (VStr [c])] => Ok (PV (VStr (rstrip_z c s)))
    | _ => Stuck
    end
  else if String.eqb name ("enum:" ++ ordering_cls) then
    match args with
    | [PV (VStr s)] => if zeqb s (zs "ASC") then Ok (ord_member false)
                       else if zeqb s (zs "DESC") then Ok (ord_member true) else Exc KeyError
    | _ => Stuck
    end
  else if String.eqb name "builtins.getattr" then
    match args with
    | [PRef k; PV (VStr n)] => if Nat.eqb k kA then Ok (class_val n) else Stuck
    | _ => Stuck
    end
  else if String.eqb name "call:items" then
    match args with
    | [PTuple [PV (VStr tag); PList items]] =>
        if zeqb tag (zs ast_tag) || zeqb tag (zs dict_tag) then Ok (PList items) else Stuck
    | _ => Stuck
    end
  else if String.eqb name "builtins.dict" then
    match args with
    | [PList items] => if keys_ok [] items then Ok (PTuple [PStr dict_tag; PList items]) else Stuck
    | _ => Stuck
    end
  else if String.eqb name "apply:**" then
    match args with
    | [PTuple [PV (VStr tag); cls]; PTuple [PV (VStr dtag); PList items]] =>
        if zeqb tag (zs "$class") && zeqb dtag (zs dict_tag)
        then Ok (kw_obj (PTuple [PV (VStr tag); cls]) items) else Stuck
    | _ => Stuck
    end
  else if String.eqb name "call:parse:semantics" then
    match args with
    | [p; PV (VStr text); sm] =>
        if pv_eqb p (new_obj parser_cls []) && pv_eqb sm (new_obj semantics_cls []) then
          match tatsu text with TAccept n => Ok n | TReject _ _ => Exc TatsuParseError end
        else Stuck
    | _ => Stuck
    end
  else if String.eqb name "caught:tatsu.exceptions.ParseError" then
    match args with
    | [PV (VStr text)] =>
        match tatsu text with TReject item pos => Ok (parse_exc text item pos) | TAccept _ => Stuck end
    | _ => Stuck
    end
  else if String.eqb name "call:line_info" then
    match args with
    | [tok; PV (VInt pos)] => Ok (record (zs "tatsu.infos.LineInfo") [("line", msg "line_info.line" args)])
    | _ => Stuck
    end
  else if String.eqb name "builtins.min" then
    match args with [PV (VInt a); PV (VInt b)] => Ok (PInt (Z.min a b)) | _ => Stuck end
  else if String.eqb name "super.__init__" then Ok PNone
  else Stuck
  end end.

End Sem.

(* the number a generated refs table gives to a name (0 when absent: the proofs check presence) *)
Definition ref_or0 (refs : list (nat * string)) (name : string) : nat :=
  match ref_of refs name with Some k => k | None => 0%nat end.
