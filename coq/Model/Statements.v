(* C14: BALANCES / JOURNAL / PRINT.

   Model of beanquery/compiler.py [transform_balances], [transform_journal]
   (the rewriting of the two statements into SELECT ASTs), of [_print] /
   [_compile_from] and of query_execute.py [execute_print].

   The code builds the SELECT by splicing the summary function into a query
   TEXT with str.format and parsing that text.  The model does the same: the
   template texts are kept as text, [format] splices, and a small lexer/parser
   for exactly the sub-language the templates use (SELECT, function calls,
   columns, integers, strings, parentheses, `~`, OR, GROUP BY, ORDER BY) turns
   the text into an AST.  It is self-contained on purpose (its own small AST):
   it does not depend on the full parser model.

   Two versions of [transform_journal] are modelled:
   - [transform_journal]: the code after /repo commit 7579a2f, which builds the
     WHERE clause as AST (Match(Column account, Constant pattern));
   - [transform_journal_text_splice]: the code before it, which spliced the
     account pattern into the template inside double quotes (defect D24); kept
     to state and prove the refutation and its exact extent.

   No proofs here. *)
From Coq Require Import String Ascii ZArith List Bool.
Import ListNotations.
From Verif Require Import Base.Out Base.PyValue.
Open Scope list_scope.
Open Scope Z_scope.

(* ---------------------------------------------------------------- strings *)

Definition str := list Z.   (* code points *)

Fixpoint s2z (s : string) : str :=
  match s with
  | EmptyString => []
  | String a r => Z.of_nat (nat_of_ascii a) :: s2z r
  end.

Fixpoint str_eqb (a b : str) : bool :=
  match a, b with
  | [], [] => true
  | x :: a', y :: b' => (x =? y) && str_eqb a' b'
  | _, _ => false
  end.

Definition is_upper (c : Z) : bool := (65 <=? c) && (c <=? 90).
Definition is_lower (c : Z) : bool := (97 <=? c) && (c <=? 122).
Definition is_digit (c : Z) : bool := (48 <=? c) && (c <=? 57).
Definition is_idstart (c : Z) : bool := is_upper c || is_lower c || (c =? 95).
Definition is_idchar (c : Z) : bool := is_idstart c || is_digit c.
(* Python's \s on the ASCII range: space \t \n \v \f \r *)
Definition is_space (c : Z) : bool := (c =? 32) || ((9 <=? c) && (c <=? 13)).

Definition lower_c (c : Z) : Z := if is_upper c then c + 32 else c.
Definition upper_c (c : Z) : Z := if is_lower c then c - 32 else c.
Definition lower (s : str) : str := map lower_c s.
Definition upper (s : str) : str := map upper_c s.

Definition dquote : Z := 34.
Definition squote : Z := 39.

(* -------------------------------------------------------------------- AST *)
(* beanquery/parser/ast.py, the part BALANCES / JOURNAL / PRINT touch.  Node
   equality in Python ignores parseinfo (compare=False); so does this AST. *)

Inductive binop := Match | NotMatch | Equal | NotEqual | Greater | GreaterEq | Less | LessEq
                 | In_ | NotIn | Add | Sub | Mul | Div | Mod.
Inductive unop := Not | IsNull | IsNotNull | Neg.
Inductive boolop := And | Or.

Inductive expr :=
| Column (name : str)
| Constant (v : value)
| Function (fname : str) (operands : list expr)
| BinaryOp (op : binop) (l r : expr)
| UnaryOp (op : unop) (e : expr)
| BoolOp (op : boolop) (args : list expr)
| Placeholder (name : str).   (* %s has the empty name, %(x)s the name x *)

(* CLOSE is None, True (no date) or a date *)
Inductive closev := CloseTrue | CloseOn (d : Z).

(* f_clear / s_distinct: Python None or True; false stands for None *)
Record from_ := mkFrom { f_expression : option expr; f_open : option Z;
                         f_close : option closev; f_clear : bool }.
Record target := mkTarget { t_expression : expr; t_name : option str }.
Record groupby := mkGroupBy { g_columns : list expr; g_having : option expr }.
Inductive ordering := ASC | DESC.
Record orderby := mkOrderBy { o_column : expr; o_ordering : ordering }.

Record select := mkSelect {
  s_targets : list target; s_from : option from_; s_where : option expr;
  s_group_by : option groupby; s_order_by : option (list orderby);
  s_pivot_by : option (list expr); s_limit : option Z; s_distinct : bool }.

Record balances := mkBalances { b_summary_func : option str; b_from : option from_;
                                b_where : option expr }.
Record journal := mkJournal { j_account : option str; j_summary_func : option str;
                              j_from : option from_ }.
Record print_ := mkPrint { p_from : option from_ }.

(* result of a transformation: the Select, or beanquery.ParseError *)
Inductive tresult := TOk (s : select) | TParseError.

(* ------------------------------------------------------------------ lexer *)
(* TatSu is scannerless; on the template sub-language that is equivalent to
   this tokenizer: whitespace skipped between tokens, identifiers
   /[a-zA-Z_][a-zA-Z0-9_]*/ (a keyword, compared case-insensitively, is not an
   identifier: @name + @@ignorecase), integers /\d+/, strings
   (a double quote, characters other than a double quote, a double quote; or the same
   with single quotes) whose value is the text between the quotes. *)

Definition keywords : list str := map s2z
  ["AND"; "AS"; "ASC"; "BY"; "DESC"; "DISTINCT"; "FALSE"; "FROM"; "GROUP"; "HAVING"; "IN"; "IS";
   "LIMIT"; "NOT"; "OR"; "ORDER"; "PIVOT"; "SELECT"; "TRUE"; "WHERE"; "BALANCES"; "JOURNAL";
   "PRINT"]%string.

Definition is_keyword (s : str) : bool := existsb (str_eqb (upper s)) keywords.

(* what the grammar rule `identifier` accepts *)
Definition is_identifier (s : str) : bool :=
  match s with
  | [] => false
  | c :: r => is_idstart c && forallb is_idchar r && negb (is_keyword s)
  end.

Inductive token :=
| TKw (k : str)        (* keyword, upper-cased *)
| TId (s : str)        (* identifier, lower-cased (BQLSemantics.identifier) *)
| TInt (z : Z)
| TStr (s : str)
| TLP | TRP | TComma | TTilde.

Inductive lstate :=
| LNone
| LId (r : str)              (* reversed characters read so far *)
| LNum (r : str)
| LStr (q : Z) (r : str).    (* inside a string opened by quote q *)

Definition flush_id (r : str) : token :=
  let s := rev r in if is_keyword s then TKw (upper s) else TId (lower s).

Definition digits_val (s : str) : Z := fold_left (fun a c => 10 * a + (c - 48)) s 0.
Definition flush_num (r : str) : token := TInt (digits_val (rev r)).

(* first character of a token *)
Definition lstart (c : Z) : option (list token * lstate) :=
  if is_space c then Some ([], LNone)
  else if is_idstart c then Some ([], LId [c])
  else if is_digit c then Some ([], LNum [c])
  else if (c =? dquote) || (c =? squote) then Some ([], LStr c [])
  else if c =? 40 then Some ([TLP], LNone)
  else if c =? 41 then Some ([TRP], LNone)
  else if c =? 44 then Some ([TComma], LNone)
  else if c =? 126 then Some ([TTilde], LNone)
  else None.

Definition lstep (st : lstate) (c : Z) : option (list token * lstate) :=
  match st with
  | LNone => lstart c
  | LId r => if is_idchar c then Some ([], LId (c :: r))
             else match lstart c with
                  | Some (ts, st') => Some (flush_id r :: ts, st')
                  | None => None
                  end
  | LNum r => if is_digit c then Some ([], LNum (c :: r))
              else match lstart c with
                   | Some (ts, st') => Some (flush_num r :: ts, st')
                   | None => None
                   end
  | LStr q r => if c =? q then Some ([TStr (rev r)], LNone) else Some ([], LStr q (c :: r))
  end.

Fixpoint lex_run (st : lstate) (s : str) : option (list token * lstate) :=
  match s with
  | [] => Some ([], st)
  | c :: s' =>
      match lstep st c with
      | None => None
      | Some (ts, st') =>
          match lex_run st' s' with
          | None => None
          | Some (ts', st'') => Some (ts ++ ts', st'')
          end
      end
  end.

Definition lfinish (st : lstate) : option (list token) :=
  match st with
  | LNone => Some []
  | LId r => Some [flush_id r]
  | LNum r => Some [flush_num r]
  | LStr _ _ => None            (* unterminated string *)
  end.

Definition lex (s : str) : option (list token) :=
  match lex_run LNone s with
  | None => None
  | Some (ts, st) => match lfinish st with None => None | Some e => Some (ts ++ e) end
  end.

(* ----------------------------------------------------------------- parser *)
(* expression := cmp { OR cmp }            (Or(args) is n-ary, as in the grammar)
   cmp        := atom [ '~' atom ]
   atom       := INT | STRING | '(' expression ')' | IDENT '(' [expression {',' expression}] ')' | IDENT
   A parenthesised expression leaves no node in the AST. *)

Definition kw_is (k : str) (name : string) : bool := str_eqb k (s2z name).

Fixpoint p_expr (n : nat) (ts : list token) {struct n} : option (expr * list token) :=
  match n with
  | O => None
  | S n =>
      match p_cmp n ts with
      | Some (e, r) => p_or n [e] r
      | None => None
      end
  end
with p_or (n : nat) (acc : list expr) (ts : list token) {struct n} : option (expr * list token) :=
  match n with
  | O => None
  | S n =>
      let done := Some (match acc with [e] => e | _ => BoolOp Or acc end, ts) in
      match ts with
      | TKw k :: r =>
          if kw_is k "OR" then
            match p_cmp n r with
            | Some (e, r') => p_or n (acc ++ [e]) r'
            | None => None
            end
          else done
      | _ => done
      end
  end
with p_cmp (n : nat) (ts : list token) {struct n} : option (expr * list token) :=
  match n with
  | O => None
  | S n =>
      match p_atom n ts with
      | Some (l, TTilde :: r) =>
          match p_atom n r with
          | Some (e, r') => Some (BinaryOp Match l e, r')
          | None => None
          end
      | other => other
      end
  end
with p_atom (n : nat) (ts : list token) {struct n} : option (expr * list token) :=
  match n with
  | O => None
  | S n =>
      match ts with
      | TInt z :: r => Some (Constant (VInt z), r)
      | TStr s :: r => Some (Constant (VStr s), r)
      | TLP :: r =>
          match p_expr n r with
          | Some (e, TRP :: r') => Some (e, r')
          | _ => None
          end
      | TId f :: TLP :: TRP :: r => Some (Function f [], r)
      | TId f :: TLP :: r =>
          match p_args n r with
          | Some (args, r') => Some (Function f args, r')
          | None => None
          end
      | TId c :: r => Some (Column c, r)
      | _ => None
      end
  end
with p_args (n : nat) (ts : list token) {struct n} : option (list expr * list token) :=
  (* expression {',' expression} ')' *)
  match n with
  | O => None
  | S n =>
      match p_expr n ts with
      | Some (e, TComma :: r) =>
          match p_args n r with
          | Some (es, r') => Some (e :: es, r')
          | None => None
          end
      | Some (e, TRP :: r) => Some ([e], r)
      | _ => None
      end
  end.

(* expression {',' expression} *)
Fixpoint p_list (n : nat) (ts : list token) : option (list expr * list token) :=
  match n with
  | O => None
  | S n' =>
      match p_expr n ts with
      | Some (e, TComma :: r) =>
          match p_list n' r with
          | Some (es, r') => Some (e :: es, r')
          | None => None
          end
      | Some (e, r) => Some ([e], r)
      | None => None
      end
  end.

(* order := expression [ASC|DESC] ; the `ordering` rule defaults to ASC *)
Fixpoint p_orders (n : nat) (ts : list token) : option (list orderby * list token) :=
  match n with
  | O => None
  | S n' =>
      match p_expr n ts with
      | None => None
      | Some (e, r) =>
          let '(o, r1) := match r with
                          | TKw k :: r' => if kw_is k "DESC" then (DESC, r')
                                           else if kw_is k "ASC" then (ASC, r') else (ASC, r)
                          | _ => (ASC, r)
                          end in
          match r1 with
          | TComma :: r2 =>
              match p_orders n' r2 with
              | Some (os, r3) => Some (mkOrderBy e o :: os, r3)
              | None => None
              end
          | _ => Some ([mkOrderBy e o], r1)
          end
      end
  end.

Definition fuel_of (ts : list token) : nat := 4 * length ts + 8.

(* select := SELECT targets [WHERE expression] [GROUP BY list] [ORDER BY orders] $
   (no FROM / HAVING / PIVOT / LIMIT / DISTINCT / AS in the templates) *)
Definition p_select (ts : list token) : option select :=
  let n := fuel_of ts in
  match ts with
  | TKw k :: r =>
      if negb (kw_is k "SELECT") then None else
      match p_list n r with
      | None => None
      | Some (tg, r1) =>
          let w := match r1 with
                   | TKw k1 :: r2 => if kw_is k1 "WHERE"
                                     then match p_expr n r2 with
                                          | Some (e, r3) => Some (Some e, r3)
                                          | None => None
                                          end
                                     else Some (None, r1)
                   | _ => Some (None, r1)
                   end in
          match w with
          | None => None
          | Some (wh, r3) =>
              let g := match r3 with
                       | TKw k1 :: TKw k2 :: r4 =>
                           if kw_is k1 "GROUP" && kw_is k2 "BY"
                           then match p_list n r4 with
                                | Some (cs, r5) => Some (Some (mkGroupBy cs None), r5)
                                | None => None
                                end
                           else Some (None, r3)
                       | _ => Some (None, r3)
                       end in
              match g with
              | None => None
              | Some (gb, r5) =>
                  let o := match r5 with
                           | TKw k1 :: TKw k2 :: r6 =>
                               if kw_is k1 "ORDER" && kw_is k2 "BY"
                               then match p_orders n r6 with
                                    | Some (os, r7) => Some (Some os, r7)
                                    | None => None
                                    end
                               else Some (None, r5)
                           | _ => Some (None, r5)
                           end in
                  match o with
                  | Some (ob, []) =>
                      Some (mkSelect (map (fun e => mkTarget e None) tg) None wh gb ob None None false)
                  | _ => None
                  end
              end
          end
      end
  | _ => None
  end.

(* parser.parse on the template sub-language *)
Definition parse_template (text : str) : option select :=
  match lex text with
  | None => None
  | Some ts => p_select ts
  end.

(* -------------------------------------------------------------- templates *)
(* str.format: literal text and replacement fields ({} has the empty name) *)
Inductive seg := Lit (s : str) | Field (name : str).

Definition format (t : list seg) (env : str -> str) : str :=
  concat (map (fun s => match s with Lit x => x | Field n => env n end) t).

Definition nl : string := String (ascii_of_nat 10) EmptyString.

(* compiler.py transform_balances: one positional field *)
Definition balances_template : list seg :=
  [ Lit (s2z (nl ++ nl ++ "      SELECT account, SUM("));
    Field [];
    Lit (s2z ("(position))" ++ nl ++
              "      GROUP BY account, ACCOUNT_SORTKEY(account)" ++ nl ++
              "      ORDER BY ACCOUNT_SORTKEY(account)" ++ nl ++ nl ++ "    ")) ]%string.

(* compiler.py transform_journal (after 7579a2f): field summary_func twice *)
Definition journal_template : list seg :=
  [ Lit (s2z (nl ++ nl ++ "        SELECT" ++ nl ++
              "           date," ++ nl ++
              "           flag," ++ nl ++
              "           MAXWIDTH(payee, 48)," ++ nl ++
              "           MAXWIDTH(narration, 80)," ++ nl ++
              "           account," ++ nl ++ "           "));
    Field (s2z "summary_func");
    Lit (s2z ("(position)," ++ nl ++ "           "));
    Field (s2z "summary_func");
    Lit (s2z ("(balance)" ++ nl ++ nl ++ "    ")) ]%string.

(* transform_journal before 7579a2f: additional field where *)
Definition journal_template_legacy : list seg :=
  [ Lit (s2z (nl ++ nl ++ "        SELECT" ++ nl ++
              "           date," ++ nl ++
              "           flag," ++ nl ++
              "           MAXWIDTH(payee, 48)," ++ nl ++
              "           MAXWIDTH(narration, 80)," ++ nl ++
              "           account," ++ nl ++ "           "));
    Field (s2z "summary_func");
    Lit (s2z ("(position)," ++ nl ++ "           "));
    Field (s2z "summary_func");
    Lit (s2z ("(balance)" ++ nl ++ "        "));
    Field (s2z "where");
    Lit (s2z (nl ++ nl ++ "    ")) ]%string.

(* `x or ''` *)
Definition or_empty (o : option str) : str := match o with Some s => s | None => [] end.

(* Python truthiness of an optional string: `if journal.account` *)
Definition nonempty (o : option str) : bool :=
  match o with Some (_ :: _) => true | _ => false end.

(* ------------------------------------------------------- transformations *)

Definition transform_balances (b : balances) : tresult :=
  match parse_template (format balances_template (fun _ => or_empty (b_summary_func b))) with
  | None => TParseError
  | Some cooked =>
      TOk (mkSelect (s_targets cooked) (b_from b) (b_where b)
                    (s_group_by cooked) (s_order_by cooked) None None false)
  end.

Definition account_match (pattern : str) : expr :=
  BinaryOp Match (Column (s2z "account")) (Constant (VStr pattern)).

Definition transform_journal (j : journal) : tresult :=
  match parse_template (format journal_template (fun _ => or_empty (j_summary_func j))) with
  | None => TParseError
  | Some cooked =>
      let where_clause := if nonempty (j_account j)
                          then Some (account_match (or_empty (j_account j))) else None in
      TOk (mkSelect (s_targets cooked) (j_from j) where_clause None None None None false)
  end.

(* the keyword arguments of the old str.format call *)
Definition legacy_env (where_text summary : str) (n : str) : str :=
  if str_eqb n (s2z "where") then where_text else summary.

(* before the fix: the text WHERE account ~ DQUOTE {} DQUOTE, formatted with journal.account,
   was spliced into the template as text *)
Definition transform_journal_text_splice (j : journal) : tresult :=
  let where_text := if nonempty (j_account j)
                    then s2z "WHERE account ~ """ ++ or_empty (j_account j) ++ [dquote]
                    else [] in
  match parse_template (format journal_template_legacy
                          (legacy_env where_text (or_empty (j_summary_func j)))) with
  | None => TParseError
  | Some cooked =>
      TOk (mkSelect (s_targets cooked) (j_from j) (s_where cooked) None None None None false)
  end.

(* ------------------------------------------------ the expected expansions *)
(* The SELECT statements of the property text, as ASTs. *)

Definition col (name : string) : expr := Column (s2z name).
Definition fn (name : string) (args : list expr) : expr := Function (s2z name) args.

(* [f of] e : f is spliced in front of a parenthesised e *)
Definition summary_of (f : option str) (e : expr) : expr :=
  match f with
  | Some (c :: r) => Function (lower (c :: r)) [e]
  | _ => e
  end.

Definition expected_balances (f : option str) (fr : option from_) (wh : option expr) : select :=
  mkSelect [ mkTarget (col "account") None;
             mkTarget (fn "sum" [summary_of f (col "position")]) None ]
           fr wh
           (Some (mkGroupBy [col "account"; fn "account_sortkey" [col "account"]] None))
           (Some [mkOrderBy (fn "account_sortkey" [col "account"]) ASC])
           None None false.

Definition expected_journal (account : option str) (f : option str) (fr : option from_) : select :=
  mkSelect [ mkTarget (col "date") None;
             mkTarget (col "flag") None;
             mkTarget (fn "maxwidth" [col "payee"; Constant (VInt 48)]) None;
             mkTarget (fn "maxwidth" [col "narration"; Constant (VInt 80)]) None;
             mkTarget (col "account") None;
             mkTarget (summary_of f (col "position")) None;
             mkTarget (summary_of f (col "balance")) None ]
           fr
           (match account with
            | Some (c :: r) => Some (account_match (c :: r))
            | _ => None       (* JOURNAL without account, or with the empty string *)
            end)
           None None None None false.

(* ------------------------------------------------------------------ PRINT *)
(* Python truthiness of a value (`if expr is None or expr(row)`) *)
Definition truthy (v : value) : bool :=
  match v with
  | VNull => false
  | VBool b => b
  | VInt z => negb (z =? 0)
  | VDec d => negb (dcoef d =? 0)
  | VStr s => match s with [] => false | _ => true end
  | VDate _ => true
  | VErr _ => false     (* never consulted: see execute_print *)
  end.

Inductive presult (E : Type) := POk (entries : list E) | PRaise (k : Z).
Arguments POk {E}. Arguments PRaise {E}.

(* query_execute.execute_print, the selection loop:
     for row in c_print.table: if expr is None or expr(row): entries.append(row.entry)
   [w] is the compiled FROM expression applied to a row (VErr k = it raised);
   the entries are then handed to beancount's printer.print_entries in this order. *)
Fixpoint execute_print {E : Type} (w : option (E -> value)) (table : list E) : presult E :=
  match table with
  | [] => POk []
  | e :: t =>
      let keep := match w with
                  | None => inl true
                  | Some f => match f e with VErr k => inr k | v => inl (truthy v) end
                  end in
      match keep with
      | inr k => PRaise k
      | inl b =>
          match execute_print w t with
          | PRaise k => PRaise k
          | POk es => POk (if b then e :: es else es)
          end
      end
  end.

(* compiler._print + _compile_from for a From node, then execute_print.
   [compile_expr]: None = CompilationError (unknown column, aggregate in FROM ...);
   [update o c cl entries]: the entries table after OPEN / CLOSE / CLEAR
   (BeanTable.update + prepare; beancount.ops.summarize, property C13). *)
Inductive print_result (E : Type) := PrOk (entries : list E) | PrCompilationError | PrRaise (k : Z).
Arguments PrOk {E}. Arguments PrCompilationError {E}. Arguments PrRaise {E}.

Definition close_before_open (f : from_) : bool :=
  match f_open f, f_close f with
  | Some o, Some (CloseOn c) => c <? o       (* node.open > node.close *)
  | _, _ => false                            (* CLOSE without a date: no check (9c21b78) *)
  end.

Definition run_print {E : Type}
    (compile_expr : expr -> option (E -> value))
    (update : option Z -> option closev -> bool -> list E -> list E)
    (entries : list E) (p : print_) : print_result E :=
  let fin r := match r with POk es => PrOk es | PRaise k => PrRaise k end in
  match p_from p with
  | None => fin (execute_print None entries)
  | Some f =>
      let c := match f_expression f with
               | None => Some None
               | Some e => match compile_expr e with Some g => Some (Some g) | None => None end
               end in
      match c with
      | None => PrCompilationError
      | Some w =>
          if close_before_open f then PrCompilationError
          else fin (execute_print w (update (f_open f) (f_close f) (f_clear f) entries))
      end
  end.

(* BALANCES row order: ORDER BY account_sortkey(account); the key is
   beancount.core.account_types.get_account_sort_key:
   (index of the account's root in (assets, liabilities, equity, income, expenses), account name) *)
Definition sortkey_le (a b : Z * str) : bool :=
  if fst a <? fst b then true else if fst b <? fst a then false else list_le (snd a) (snd b).

(* ---------------------------------------------------------- serialisation *)

Definition o_binop (b : binop) : out :=
  ON (match b with Match => 0 | NotMatch => 1 | Equal => 2 | NotEqual => 3 | Greater => 4
      | GreaterEq => 5 | Less => 6 | LessEq => 7 | In_ => 8 | NotIn => 9 | Add => 10 | Sub => 11
      | Mul => 12 | Div => 13 | Mod => 14 end).
Definition o_unop (u : unop) : out :=
  ON (match u with Not => 0 | IsNull => 1 | IsNotNull => 2 | Neg => 3 end).
Definition o_boolop (b : boolop) : out := ON (match b with And => 0 | Or => 1 end).

Fixpoint o_expr (e : expr) : out :=
  match e with
  | Column n => OL [ON 0; o_str n]
  | Constant v => OL [ON 1; o_value v]
  | Function f args => OL [ON 2; o_str f; OL (map o_expr args)]
  | BinaryOp op l r => OL [ON 3; o_binop op; o_expr l; o_expr r]
  | UnaryOp op x => OL [ON 4; o_unop op; o_expr x]
  | BoolOp op args => OL [ON 5; o_boolop op; OL (map o_expr args)]
  | Placeholder n => OL [ON 6; o_str n]
  end.

Definition o_close (c : closev) : out :=
  match c with CloseTrue => OL [ON 0] | CloseOn d => OL [ON 1; ON d] end.
Definition o_from (f : from_) : out :=
  OL [o_option o_expr (f_expression f); o_option ON (f_open f); o_option o_close (f_close f);
      o_bool (f_clear f)].
Definition o_target (t : target) : out := OL [o_expr (t_expression t); o_option o_str (t_name t)].
Definition o_groupby (g : groupby) : out :=
  OL [o_list o_expr (g_columns g); o_option o_expr (g_having g)].
Definition o_orderby (o : orderby) : out :=
  OL [o_expr (o_column o); ON (match o_ordering o with ASC => 0 | DESC => 1 end)].
Definition o_select (s : select) : out :=
  OL [o_list o_target (s_targets s); o_option o_from (s_from s); o_option o_expr (s_where s);
      o_option o_groupby (s_group_by s); o_option (o_list o_orderby) (s_order_by s);
      o_option (o_list o_expr) (s_pivot_by s); o_option ON (s_limit s); o_bool (s_distinct s)].
Definition o_tresult (r : tresult) : out :=
  match r with TOk s => OL [ON 0; o_select s] | TParseError => OL [ON 1] end.

(* execute_print over a table given by the values of the FROM expression per
   entry (None = no expression): the indexes of the selected entries *)
Definition print_indexes (w : option (list value)) (n : nat) : presult nat :=
  match w with
  | None => execute_print None (seq 0 n)
  | Some vs => execute_print (Some (fun i => nth i vs VNull)) (seq 0 (length vs))
  end.
Definition o_presult (r : presult nat) : out :=
  match r with POk l => OL [ON 0; o_list o_nat l] | PRaise k => OL [ON 1; ON k] end.

(* relational check used on the implementation's BALANCES rows: the sort keys
   (account type index, account name) of consecutive rows are non-decreasing *)
Fixpoint sorted_keys (l : list (Z * str)) : bool :=
  match l with
  | a :: ((b :: _) as t) => sortkey_le a b && sorted_keys t
  | _ => true
  end.
