(* C04: the datatype the compiler fixes on every compiled node at construction
   (EvalNode.dtype) for the node kinds of Model/Eval.v, and "value v is an
   instance of datatype t".

   The output type of every operator / function node is NOT written here: it is
   looked up in Model.RegistrySnapshot (the registries as introspected from the
   code; Proofs/RegistryTie.v re-checks on every run that the live registries
   still equal the snapshot) with the two lookup disciplines of the code:
     - types.function_lookup (functions, unary operators): itertools.product of
       types._bases of the operand dtypes, signatures outer loop, overloads inner
       loop, first match; `any` compares equal to every type;
     - Compiler._binaryop / _between: the first overload whose __intypes__ equal the
       operand dtypes exactly (no MRO walk, so bool operands do not reach the int
       overloads).
   Not modelled: the implicit cast inserted by _binaryop when exactly one operand
   has dtype object (such expressions are untyped here: type_of = None), types
   outside [ty] (collections, Amount, Position, Inventory, relativedelta, ...);
   those are covered by the implementation-only sweeps of harness/vf/c04.py. *)
From Coq Require Import String ZArith List Bool.
Import ListNotations.
From Verif Require Import Base.Out Base.PyValue Base.Decimal Model.Eval Model.Exec.
From Verif Require Model.RegistrySnapshot.
Module R := Model.RegistrySnapshot.
Open Scope string_scope.

Inductive ty := TInt | TDec | TStr | TDate | TBool | TObject | TNone.

Definition ty_eqb (a b : ty) : bool :=
  match a, b with
  | TInt, TInt | TDec, TDec | TStr, TStr | TDate, TDate | TBool, TBool | TObject, TObject | TNone, TNone => true
  | _, _ => false
  end.

(* names as harness/vf/gen_registry.py prints them *)
Definition ty_name (t : ty) : string :=
  match t with
  | TInt => "int" | TDec => "Decimal" | TStr => "str" | TDate => "date" | TBool => "bool"
  | TObject => "object" | TNone => "NoneType"
  end.
Definition all_ty : list ty := [TInt; TDec; TStr; TDate; TBool; TObject; TNone].
Definition ty_of_name (s : string) : option ty := find (fun t => String.eqb (ty_name t) s) all_ty.

(* ---- values and datatypes ----
   [has_type] is exact: a bool value is only accepted under bool (and object),
   which is stronger than Python's isinstance (bool is a subclass of int);
   [py_isinstance] is the property's wording, implied by [has_type]. NULL
   inhabits every datatype, object admits every value, an exception has no type. *)
Definition has_type (v : value) (t : ty) : bool :=
  match v, t with
  | VNull, _ => true
  | VErr _, _ => false
  | _, TObject => true
  | VBool _, TBool => true
  | VInt _, TInt => true
  | VDec _, TDec => true
  | VStr _, TStr => true
  | VDate _, TDate => true
  | _, _ => false
  end.

Definition py_isinstance (v : value) (t : ty) : bool :=
  match v, t with
  | VBool _, TInt => true
  | _, _ => has_type v t
  end.

(* type(value) of a constant: EvalConstant.__init__ *)
Definition type_of_value (v : value) : option ty :=
  match v with
  | VNull => Some TNone | VBool _ => Some TBool | VInt _ => Some TInt | VDec _ => Some TDec
  | VStr _ => Some TStr | VDate _ => Some TDate | VErr _ => None
  end.

(* ---- registry lookup ---- *)
Definition ov_name (o : R.overload) : string := let '(n, _, _, _, _) := o in n.
Definition ov_in (o : R.overload) : list string := let '(_, i, _, _, _) := o in i.
Definition ov_out (o : R.overload) : string := let '(_, _, t, _, _) := o in t.

Fixpoint assoc {A} (k : string) (l : list (string * A)) : option A :=
  match l with
  | [] => None
  | (k', v) :: t => if String.eqb k k' then Some v else assoc k t
  end.

(* func.__intypes__ == list(signature): element-wise ==, AnyType.__eq__ is true on every type
   (isinstance(other, type)), not on the Asterisk marker of count( * ) *)
Fixpoint sig_match (decl actual : list string) : bool :=
  match decl, actual with
  | [], [] => true
  | d :: decl', a :: actual' =>
      ((String.eqb d "any" && negb (String.eqb a "*")) || String.eqb d a) && sig_match decl' actual'
  | _, _ => false
  end.

(* itertools.product: the leftmost operand varies slowest *)
Fixpoint product (l : list (list string)) : list (list string) :=
  match l with
  | [] => [[]]
  | h :: t => flat_map (fun x => map (cons x) (product t)) h
  end.

Fixpoint first_some {A B} (f : A -> option B) (l : list A) : option B :=
  match l with
  | [] => None
  | a :: t => match f a with Some b => Some b | None => first_some f t end
  end.

(* types._bases *)
Definition bases_of (t : ty) : list string :=
  match t with
  | TNone => ["object"]
  | _ => match find (fun e => String.eqb (fst (fst (fst (fst e)))) (ty_name t)) R.types with
         | Some e => snd (fst (fst (fst e)))
         | None => []
         end
  end.

Definition lookup_sigs (reg : list (string * list R.overload)) (name : string) (bases : list (list string)) : option R.overload :=
  match assoc name reg with
  | None => None
  | Some ovs => first_some (fun sg => find (fun o => sig_match (ov_in o) sg) ovs) (product bases)
  end.

(* types.function_lookup(registry, name, operands) *)
Definition function_lookup (reg : list (string * list R.overload)) (name : string) (ts : list ty) : option R.overload :=
  lookup_sigs reg name (map bases_of ts).

(* for op in OPERATORS[node]: if op.__intypes__ == [left.dtype, right.dtype] *)
Definition exact_lookup (reg : list (string * list R.overload)) (name : string) (ts : list ty) : option R.overload :=
  lookup_sigs reg name (map (fun t => [ty_name t]) ts).

Definition out_ty (o : option R.overload) : option ty :=
  match o with Some ov => ty_of_name (ov_out ov) | None => None end.

(* ---- which registry entry each modelled constructor stands for ---- *)
Definition unop_name (op : unop) : string :=
  match op with UNot => "Not" | UNeg => "Neg" | UIsNull => "IsNull" | UIsNotNull => "IsNotNull" end.

Definition binop_name (op : binop) : string :=
  match op with
  | BAdd | BAddDateInt | BAddIntDate => "Add"
  | BSub | BSubDateInt | BSubDateDate => "Sub"
  | BMul => "Mul" | BDiv | BDivInt => "Div" | BMod => "Mod"
  | BEq => "Equal" | BNe => "NotEqual" | BLt => "Less" | BLe => "LessEq" | BGt => "Greater" | BGe => "GreaterEq"
  | BMatch => "Match" | BNotMatch => "NotMatch"
  end.

Definition is_num (t : ty) : bool := match t with TInt | TDec => true | _ => false end.

(* operand dtypes of the overloads each Python function behind a constructor is registered for
   (add_/sub_/mul_/mod_/div_ vs div_int vs add_date_int ...) *)
Definition binop_dom (op : binop) (a b : ty) : bool :=
  match op with
  | BAdd | BSub | BMul | BMod => is_num a && is_num b
  | BDiv => is_num a && is_num b && negb (ty_eqb a TInt && ty_eqb b TInt)
  | BDivInt => ty_eqb a TInt && ty_eqb b TInt
  | BEq | BNe | BLt | BLe | BGt | BGe => true
  | BMatch | BNotMatch => ty_eqb a TStr && ty_eqb b TStr
  | BAddDateInt | BSubDateInt => ty_eqb a TDate && ty_eqb b TInt
  | BAddIntDate => ty_eqb a TInt && ty_eqb b TDate
  | BSubDateDate => ty_eqb a TDate && ty_eqb b TDate
  end.

Definition func_name (f : func) : string :=
  match f with
  | FAbs => "abs" | FNeg => "neg" | FSafediv => "safediv" | FLength => "length" | FUpper => "upper" | FLower => "lower"
  | FBool => "bool" | FIntOfDec => "int" | FDecOfInt => "decimal" | FSubstr => "substr"
  | FYear => "year" | FMonth => "month" | FDay => "day" | FYearmonth => "yearmonth" | FQuarter => "quarter"
  | FWeekday => "weekday" | FDateAdd => "date_add" | FDateDiff => "date_diff" | FDateTrunc => "date_trunc"
  | FDatePart => "date_part" | FDateBin => "date_bin" | FDateYmd | FDate => "date"
  | FStr => "str" | FInt => "int" | FDecimal => "decimal" | FSplitcomp => "splitcomp" | FMaxwidth => "maxwidth"
  | FRoot | FRoot1 => "root" | FParent => "parent" | FLeaf => "leaf"
  | FRoundInt | FRoundInt1 | FRoundDec | FRoundDec1 => "round"
  end.

(* argument dtypes for which Eval.apply_func implements the overload (the compiler also lets a bool
   argument reach an int parameter through the MRO; Eval models that only for safediv's divisor) *)
Definition func_dom (f : func) (ts : list ty) : bool :=
  match f, ts with
  | FAbs, [TDec] | FNeg, [TDec] => true
  | FSafediv, [TDec; (TInt | TDec | TBool)] => true
  | FLength, [TStr] | FUpper, [TStr] | FLower, [TStr] => true
  | FBool, [_] => true
  | FIntOfDec, [TDec] => true
  | FDecOfInt, [TInt] => true
  | FSubstr, [TStr; TInt; TInt] => true
  (* the C18 library: the overloads whose model is TOTAL on every value of the declared types (result: NULL or a
     value of the announced type).  The library functions that can raise on well-typed arguments (date_add:
     OverflowError; yearmonth / date_trunc: datetime.date(...) on an ordinal outside date.min..date.max, which the
     untyped [VDate o] admits; date_bin; splitcomp: IndexError / ValueError; maxwidth: ValueError; round(Decimal):
     InvalidOperation; decimal(str | object): Infinity / NaN are not [value]s) are reachable by Eval.eval but stay
     untyped: Eval.eval does not propagate exceptions (an exception VALUE compared with = gives FALSE), so typing
     them would let the lowering accept statements whose exception the model could mask. *)
  | FYear, [TDate] | FMonth, [TDate] | FDay, [TDate] | FQuarter, [TDate] | FWeekday, [TDate] => true
  | FDateDiff, [TDate; TDate] => true
  | FDatePart, [TStr; TDate] => true
  | FDateYmd, [TInt; TInt; TInt] => true
  | FDate, [_] => true                                     (* date(date), date(str), date(object) <- every other dtype *)
  | FStr, [_] => true                                      (* str(any) *)
  | FInt, [(TStr | TBool | TInt | TDate | TObject | TNone)] => true      (* int(Decimal) is FIntOfDec *)
  | FDecimal, [(TBool | TDec)] => true                     (* decimal(int) is FDecOfInt *)
  | FRoot, [TStr; TInt] | FRoot1, [TStr] | FParent, [TStr] | FLeaf, [TStr] => true
  | FRoundInt, [TInt; TInt] | FRoundInt1, [TInt] => true
  | _, _ => false
  end.

(* the registered signature the constructor stands for: the lookup must land on it *)
Definition func_sig (f : func) (ts : list ty) : list string :=
  match f with
  | FAbs | FNeg | FIntOfDec => ["Decimal"]
  | FSafediv => match ts with [_; TDec] => ["Decimal"; "Decimal"] | _ => ["Decimal"; "int"] end
  | FLength | FUpper | FLower => ["str"]
  | FBool => ["any"]
  | FDecOfInt => ["int"]
  | FSubstr => ["str"; "int"; "int"]
  | FYear | FMonth | FDay | FYearmonth | FQuarter | FWeekday => ["date"]
  | FDateAdd => ["date"; "int"]
  | FDateDiff => ["date"; "date"]
  | FDateTrunc | FDatePart => ["str"; "date"]
  | FDateBin => ["str"; "date"; "date"]
  | FDateYmd => ["int"; "int"; "int"]
  | FDate => match ts with [TStr] => ["str"] | [TDate] => ["date"] | _ => ["object"] end
  | FStr => ["any"]
  | FInt => match ts with [TStr] => ["str"] | [TBool] => ["bool"] | [TInt] => ["int"] | _ => ["object"] end
  | FDecimal => match ts with [TBool] => ["bool"] | [TDec] => ["Decimal"] | [TStr] => ["str"] | _ => ["object"] end
  | FSplitcomp => ["str"; "str"; "int"]
  | FMaxwidth => ["str"; "int"]
  | FRoot => ["str"; "int"]
  | FRoot1 | FParent | FLeaf => ["str"]
  | FRoundInt => ["int"; "int"]
  | FRoundInt1 => ["int"]
  | FRoundDec => ["Decimal"; "int"]
  | FRoundDec1 => ["Decimal"]
  end.

Fixpoint list_eqb (a b : list string) : bool :=
  match a, b with
  | [], [] => true
  | x :: a', y :: b' => String.eqb x y && list_eqb a' b'
  | _, _ => false
  end.

Definition unop_out (op : unop) (a : ty) : option ty :=
  out_ty (function_lookup R.operators (unop_name op) [a]).

Definition binop_out (op : binop) (a b : ty) : option ty :=
  if binop_dom op a b then out_ty (exact_lookup R.operators (binop_name op) [a; b]) else None.

Definition between_out (a lo hi : ty) : option ty :=
  out_ty (exact_lookup R.operators "Between" [a; lo; hi]).

Definition func_out (f : func) (ts : list ty) : option ty :=
  if func_dom f ts then
    match function_lookup R.functions (func_name f) ts with
    | Some ov => if list_eqb (ov_in ov) (func_sig f ts) then ty_of_name (ov_out ov) else None
    | None => None
    end
  else None.

(* Compiler._inop: op = OPERATORS[type(node)][0], operand dtypes are not looked at *)
Definition in_out (negate : bool) : option ty :=
  match assoc (if negate then "NotIn" else "In") R.operators with
  | Some (ov :: _) => ty_of_name (ov_out ov)
  | _ => None
  end.

Fixpoint all_some {A} (l : list (option A)) : option (list A) :=
  match l with
  | [] => Some []
  | None :: _ => None
  | Some a :: t => match all_some t with Some r => Some (a :: r) | None => None end
  end.

(* ---- dtype of a compiled node; None = the compiler raises CompilationError (or the node is outside the model) ---- *)
Section TypeOf.
Variable cols : list ty.     (* dtype of the table's columns *)
Variable aggs : list ty.     (* dtype of the aggregate nodes, by handle *)

Fixpoint type_of (e : enode) : option ty :=
  match e with
  | EConst v => type_of_value v
  | ECol i => nth_error cols i
  | EAgg h => nth_error aggs h
  | EUnary op a => match type_of a with Some t => unop_out op t | None => None end
  | EBinary op a b =>
      match type_of a, type_of b with
      | Some ta, Some tb => binop_out op ta tb
      | _, _ => None
      end
  | EBetween a lo hi =>
      match type_of a, type_of lo, type_of hi with
      | Some ta, Some tl, Some th => between_out ta tl th
      | _, _, _ => None
      end
  | EAnd args | EOr args =>
      match all_some (map type_of args) with Some _ => Some TBool | None => None end
  | ECoalesce args =>
      match all_some (map type_of args) with
      | Some (t :: ts) => if forallb (ty_eqb t) ts then Some t else None
      | _ => None                      (* coalesce() without arguments: IndexError in EvalCoalesce, see C05 *)
      end
  | EFunc f args =>
      match all_some (map type_of args) with Some ts => func_out f ts | None => None end
  | EIn negate a _ =>
      match type_of a with Some _ => in_out negate | None => None end
  end.
End TypeOf.

(* table contents that conform to the declared column types *)
Definition conforms (ts : list ty) (vs : list value) : Prop :=
  forall i t, nth_error ts i = Some t -> has_type (nth i vs VNull) t = true.

(* ---- aggregates: EvalAggregator.__init__ (dtype or operands[0].dtype), initialize (store = dtype()) ---- *)
Definition zero_of (t : ty) : option value :=
  match t with
  | TInt => Some (VInt 0)                    (* int() *)
  | TDec => Some (VDec (mkdec false 0 0))    (* Decimal() *)
  | _ => None
  end.

Definition value_eqb (a b : value) : bool :=
  match a, b with
  | VInt x, VInt y => Z.eqb x y
  | VDec x, VDec y => Bool.eqb (dneg x) (dneg y) && Z.eqb (dcoef x) (dcoef y) && Z.eqb (dexp x) (dexp y)
  | _, _ => false
  end.

Definition agg_type (cols : list ty) (a : agg) : option ty :=
  match afun a with
  | ACountStar => out_ty (lookup_sigs R.functions "count" [["*"]])
  | f =>
      match type_of cols [] (aarg a) with
      | None => None
      | Some t =>
          match f with
          | ACount => out_ty (function_lookup R.functions "count" [t])
          | ASum z =>
              (* SumInt announces int, SumDecimal its operand's dtype (Decimal); the model's start value must be dtype() *)
              match out_ty (function_lookup R.functions "sum" [t]) with
              | Some o => match zero_of o with
                          | Some z0 => if value_eqb z z0 then Some o else None
                          | None => None
                          end
              | None => None
              end
          | AFirst => match function_lookup R.functions "first" [t] with Some _ => Some t | None => None end
          | ALast => match function_lookup R.functions "last" [t] with Some _ => Some t | None => None end
          | AMin => match function_lookup R.functions "min" [t] with Some _ => Some t | None => None end
          | AMax => match function_lookup R.functions "max" [t] with Some _ => Some t | None => None end
          | ACountStar => None
          end
      end
  end.

(* the behaviour before fix 26ccdff: SumInt announced operands[0].dtype, so sum(<bool>) announced bool
   and started from bool() = False *)
Definition agg_type_sum_old (cols : list ty) (e : enode) : option ty := type_of cols [] e.

(* ---- cursor description: tuple(Column(target.name, target.c_expr.dtype) for target in c_targets if target.name is not None) ---- *)
Definition target := (enode * option (list Z))%type.     (* c_expr, name (None = hidden target) *)

Fixpoint description (cols aggs : list ty) (ts : list target) : option (list (list Z * ty)) :=
  match ts with
  | [] => Some []
  | (e, name) :: rest =>
      match type_of cols aggs e, description cols aggs rest with
      | Some t, Some d => Some (match name with Some n => (n, t) :: d | None => d end)
      | _, _ => None
      end
  end.

(* result_indexes / the projection applied to every row *)
Fixpoint visible {A} (ts : list target) (xs : list A) : list A :=
  match ts, xs with
  | (_, name) :: rest, x :: xs' => match name with Some _ => x :: visible rest xs' | None => visible rest xs' end
  | _, _ => []
  end.

(* ---- serialisation for the correspondence run ---- *)
Definition ty_code (t : ty) : Z :=
  (match t with TInt => 1 | TDec => 2 | TStr => 3 | TDate => 4 | TBool => 5 | TObject => 6 | TNone => 7 end)%Z.
Definition ty_of_code (z : Z) : ty :=
  (if z =? 1 then TInt else if z =? 2 then TDec else if z =? 3 then TStr else if z =? 4 then TDate
   else if z =? 5 then TBool else if z =? 6 then TObject else TNone)%Z.
Definition o_ty (o : option ty) : out := match o with None => OL [] | Some t => OL [ON (ty_code t)] end.

(* dtype of each target and, per row, whether every cell inhabits it *)
Definition typing_out (cols : list ty) (targets : list enode) (rows : list row) : out :=
  OL [OL (map (fun e => o_ty (type_of cols [] e)) targets);
      OL (map (fun r => OL (map (fun e => match type_of cols [] e with
                                          | Some t => o_bool (has_type (eval r [] e) t)
                                          | None => ON 2
                                          end) targets)) rows)].

Definition agg_typing_out (cols : list ty) (a : agg) (rows : list row) : out :=
  let v := fold_left (fun cur r => agg_update a r cur) rows (agg_init a) in
  OL [o_ty (agg_type cols a);
      match agg_type cols a with Some t => o_bool (has_type v t) | None => ON 2 end;
      o_value v].

Definition description_out (cols : list ty) (ts : list target) : out :=
  match description cols [] ts with
  | None => OL []
  | Some d => OL [OL (map (fun nt => OL [o_str (fst nt); ON (ty_code (snd nt))]) d)]
  end.

(* result_indexes = [index for index, c_target in enumerate(c_targets) if c_target.name] *)
Fixpoint vis_from (k : nat) (ts : list target) : list nat :=
  match ts with
  | [] => []
  | (_, Some _) :: t => k :: vis_from (S k) t
  | (_, None) :: t => vis_from (S k) t
  end.

(* ================= the implicit cast of Compiler._binaryop =================
   while True: exact match on [left.dtype, right.dtype]; if none and exactly one operand has dtype object, wrap it
   in the cast function named types.MAP[dtype of the other operand] (int is promoted to Decimal) and retry; the
   wrapped operand is no longer object, so the loop runs at most twice. *)
Definition is_obj (t : ty) : bool := ty_eqb t TObject.
Definition cast_target (t : ty) : ty := match t with TInt => TDec | _ => t end.
Definition cast_fname (t : ty) : option string := assoc (ty_name t) R.cast_names.      (* types.MAP.get(target) *)
(* dtype of the cast node: the declared output of function_lookup(FUNCTIONS, name, [operand]) *)
Definition cast_out (target src : ty) : option ty :=
  match cast_fname target with
  | Some n => out_ty (function_lookup R.functions n [src])
  | None => None
  end.

(* (cast on the left operand, cast on the right operand, dtype of the operator node); a cast is named by its target *)
Definition binop_c (op : binop) (a b : ty) : option (option ty * option ty * ty) :=
  match binop_out op a b with
  | Some t => Some (None, None, t)
  | None =>
      if is_obj a && negb (is_obj b) then
        let tg := cast_target b in
        match cast_out tg a with
        | Some a' => match binop_out op a' b with Some t => Some (Some tg, None, t) | None => None end
        | None => None
        end
      else if is_obj b && negb (is_obj a) then
        let tg := cast_target a in
        match cast_out tg b with
        | Some b' => match binop_out op a b' with Some t => Some (None, Some tg, t) | None => None end
        | None => None
        end
      else None
  end.

Section TypeOfC.
Variable cols : list ty.
Variable aggs : list ty.

(* as type_of, binary operators with the implicit cast *)
Fixpoint type_of_c (e : enode) : option ty :=
  match e with
  | EConst v => type_of_value v
  | ECol i => nth_error cols i
  | EAgg h => nth_error aggs h
  | EUnary op a => match type_of_c a with Some t => unop_out op t | None => None end
  | EBinary op a b =>
      match type_of_c a, type_of_c b with
      | Some ta, Some tb => match binop_c op ta tb with Some (_, _, t) => Some t | None => None end
      | _, _ => None
      end
  | EBetween a lo hi =>
      match type_of_c a, type_of_c lo, type_of_c hi with
      | Some ta, Some tl, Some th => between_out ta tl th
      | _, _, _ => None
      end
  | EAnd args | EOr args =>
      match all_some (map type_of_c args) with Some _ => Some TBool | None => None end
  | ECoalesce args =>
      match all_some (map type_of_c args) with
      | Some (t :: ts) => if forallb (ty_eqb t) ts then Some t else None
      | _ => None
      end
  | EFunc f args =>
      match all_some (map type_of_c args) with Some ts => func_out f ts | None => None end
  | EIn negate a _ =>
      match type_of_c a with Some _ => in_out negate | None => None end
  end.

Definition binop_casts (op : binop) (ta tb : option ty) : option ty * option ty :=
  match ta, tb with
  | Some a, Some b => match binop_c op a b with Some (ca, cb, _) => (ca, cb) | None => (None, None) end
  | _, _ => (None, None)
  end.

(* evaluation of the COMPILED tree: Eval.eval with the cast nodes the compiler inserted.
   [castf target v] = the cast function named types.MAP[target] applied to a non-NULL argument
   (query_env int_/decimal_/date_/str_/bool_); the @function wrapper returns NULL on a NULL argument. *)
Variable castf : ty -> value -> value.
Variable r : row.
Variable st : list value.

Definition apply_cast (c : option ty) (v : value) : value :=
  match c with None => v | Some t => if is_null v then VNull else castf t v end.

Definition bin_c (op : binop) (ca cb : option ty) (x y : value) : value :=
  let x' := apply_cast ca x in
  if is_null x' then VNull
  else let y' := apply_cast cb y in
       if is_null y' then VNull else bin op x' y'.

Fixpoint eval_c (e : enode) : value :=
  match e with
  | EConst v => v
  | ECol i => cell i r
  | EAgg h => nth h st VNull
  | EUnary op a => un op (eval_c a)
  | EBinary op a b =>
      let '(ca, cb) := binop_casts op (type_of_c a) (type_of_c b) in
      bin_c op ca cb (eval_c a) (eval_c b)
  | EBetween a lo hi =>
      let x := eval_c a in
      if is_null x then VNull
      else let l := eval_c lo in
           if is_null l then VNull
           else let h := eval_c hi in
                if is_null h then VNull else VBool (val_le l x && val_le x h)
  | EAnd args =>
      (fix go (l : list enode) : value :=
         match l with
         | [] => VBool true
         | a :: t => let v := eval_c a in
                     if is_null v then VNull else if truthy v then go t else VBool false
         end) args
  | EOr args =>
      (fix go (acc : value) (l : list enode) : value :=
         match l with
         | [] => acc
         | a :: t => let v := eval_c a in
                     if truthy v then VBool true else go (if is_null v then VNull else acc) t
         end) (VBool false) args
  | ECoalesce args =>
      (fix go (l : list enode) : value :=
         match l with
         | [] => VNull
         | a :: t => let v := eval_c a in if is_null v then go t else v
         end) args
  | EFunc f args =>
      let vs := map eval_c args in
      if existsb is_null vs then VNull else apply_func f vs
  | EIn negate a items =>
      let x := eval_c a in
      if is_null x then VNull
      else match items with
           | None => VNull
           | Some l => VBool (xorb negate (existsb (val_eq x) l))
           end
  end.
End TypeOfC.

(* the contract of the cast functions the theorem relies on (checked on the implementation by sweep 1 for every
   cast overload x argument type, and modelled by C18 in Model/StrFuncs.v) *)
Definition cast_contract (castf : ty -> value -> value) : Prop :=
  forall tg v, (forall k, v <> VErr k) -> has_type (castf tg v) tg = true.
