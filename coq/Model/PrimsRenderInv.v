(* Primitive semantics for the translated InventoryRenderer.format, expanded layout (group `renderinv`, Gen/SrcRenderInv.v;
   bld-render6).  An InventoryRenderer owns PositionRenderer objects in the dict `self.renderers`.
   * An owned PositionRenderer is the tuple of its field values  PTuple (67 :: maxwidth; prepared; units_renderer; cost_renderer)
     and calling its `format` IS interpreting the translation of PositionRenderer.format (Gen/SrcRender.v
     render_position_format) on those fields under PositionRenderer's own primitives (PrimsRenderPos.prims_pos) - the layering
     of PrimsRenderPos / PrimsNumberify.
   * `self.renderers` is an association list  PList [PTuple [key; owned renderer]; ...]; "ddict.get" reads the value stored
     under a key (first match, keys compared with val_eq); a MISSING key is Stuck: the defaultdict factory is not modelled.
   * An Inventory is PrimsRender's  PTuple [45; PList positions]  (enc_rcell (CInv l)); get_positions() answers the list.
   * TRUSTED: "sorted:key=positionsortkey" - sorted(positions, key=InventoryRenderer.positionsortkey) - is the stable sort
     Render.sort_pos (insertion sort by Render.pos_le: currency, then number descending, then cost: none first, cost
     currency, cost number descending).  The key function itself is tied (C16_source_inventory_sortkey); that Python's
     ordering of those key tuples is pos_le is part of the trusted base (Render.posn has no cost date / label, so on
     positions that differ in them only the model does not distinguish what Python would order).
   Everything else: prims_pos.  Part of the trusted base of C16_source_inventory_format_*. *)
From Coq Require Import String ZArith List Bool.
Import ListNotations.
From Verif Require Import Base.PyValue Model.Eval Model.PyMini Model.Render Model.PrimsRender Gen.SrcRender Model.PrimsRenderPos.
Open Scope string_scope.
Open Scope list_scope.
Open Scope Z_scope.

Definition posr_names : list string := ["maxwidth"; "prepared"; "units_renderer"; "cost_renderer"].
Definition posr_obj (e : env) : pv := PTuple (PInt 67 :: map snd e).
Definition posr_flds (v : pv) : option env :=
  match v with PTuple (PV (VInt 67) :: vals) => Some (combine posr_names vals) | _ => None end.

Definition key_eqb (a b : pv) : bool := match a, b with PV x, PV y => val_eq x y | _, _ => false end.
Fixpoint ddict_get (k : pv) (l : list pv) : option pv :=
  match l with
  | PTuple [k'; v] :: t => if key_eqb k k' then Some v else ddict_get k t
  | _ => None
  end.

Definition enc_inv (l : list posn) : pv := PTuple [PInt 45; PList (map enc_posn l)].

Section Inv.
Variable call_ref : nat -> list pv -> pv.
Variable numfmt : list (dec * str) -> dec -> str -> str.
Notation PP := (prims_pos call_ref numfmt).

Definition prims_inv (name : string) (args : list pv) : res pv :=
  if String.eqb name "call:format" then
    match args with
    | [r; v] =>
        match posr_flds r with
        | Some flds => bind (call_method call_ref PP render_position_format flds [v]) (fun p => Ok (snd p))
        | None => PP name args
        end
    | _ => PP name args
    end
  else if String.eqb name "call:get_positions" then
    match args with [PTuple [PV (VInt 45); PList l]] => Ok (PList l) | _ => Stuck end
  else if String.eqb name "sorted:key=positionsortkey" then
    match args with
    | [PList l] => match n_map_opt dec_posn l with Some ps => Ok (PList (map enc_posn (sort_pos ps))) | None => Stuck end
    | _ => Stuck
    end
  else if String.eqb name "ddict.get" then
    match args with
    | [PList l; k] => match ddict_get k l with Some v => Ok v | None => Stuck end
    | _ => Stuck
    end
  else PP name args.
End Inv.

(* ---- InventoryRenderer.update, its first loop (render_inv_update_loop): prims_inv plus
   * "ddict.getdefault" [dict; k]: the value under k, or for a missing key [fresh] - what the defaultdict factory
     `lambda: PositionRenderer(ctx)` returns (a parameter; the theorems instantiate it with the object
     C16_source_position_init proves PositionRenderer.__init__ builds);
   * "dict.set" [dict; k; v]: the item store - an existing key keeps its place, a new key goes last (ddict_set);
   * "method:update" on an owned PositionRenderer: interpreting the translated PositionRenderer.update on its fields under
     prims_pos; answers the changed object and the result. *)
Fixpoint ddict_set (l : list pv) (k v : pv) : list pv :=
  match l with
  | PTuple [k'; v'] :: t => if key_eqb k k' then PTuple [k'; v] :: t else PTuple [k'; v'] :: ddict_set t k v
  | _ => [PTuple [k; v]]
  end.

Section InvU.
Variable call_ref : nat -> list pv -> pv.
Variable numfmt : list (dec * str) -> dec -> str -> str.
Variable fresh : pv.
Notation PP := (prims_pos call_ref numfmt).

Definition prims_invu (name : string) (args : list pv) : res pv :=
  if String.eqb name "ddict.getdefault" then
    match args with
    | [PList l; k] => Ok (match ddict_get k l with Some v => v | None => fresh end)
    | _ => Stuck
    end
  else if String.eqb name "dict.set" then
    match args with [PList l; k; v] => Ok (PList (ddict_set l k v)) | _ => Stuck end
  else if String.eqb name "method:update" then
    match args with
    | [r; v] =>
        match posr_flds r with
        | Some flds => bind (call_method call_ref PP render_position_update flds [v])
                            (fun p => Ok (PTuple [posr_obj (fst p); snd p]))
        | None => PP name args
        end
    | _ => PP name args
    end
  else prims_inv call_ref numfmt name args.
End InvU.

(* ---- InventoryRenderer.prepare under expand (render_inv_prepare_expand): prims_invu plus "method:prepare" on an owned
   PositionRenderer = interpreting the translated PositionRenderer.prepare (without its last statement) and then
   ColumnRenderer.prepare on its fields under prims_pos; answers the prepared object and the width. *)
Section InvP.
Variable call_ref : nat -> list pv -> pv.
Variable numfmt : list (dec * str) -> dec -> str -> str.
Variable fresh : pv.
Notation PP := (prims_pos call_ref numfmt).

Definition prims_invp (name : string) (args : list pv) : res pv :=
  if String.eqb name "method:prepare" then
    match args with
    | [r] =>
        match posr_flds r with
        | Some flds => bind (bind (call_method call_ref PP render_position_prepare_head flds [])
                                  (fun p => call_method call_ref PP render_base_prepare (fst p) []))
                            (fun p => Ok (PTuple [posr_obj (fst p); snd p]))
        | None => PP name args
        end
    | _ => PP name args
    end
  else prims_invu call_ref numfmt fresh name args.
End InvP.

