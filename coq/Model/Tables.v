(* C11 -- model of the Beancount tables of beanquery: the row iterators of
   query_env.EntriesTable / PostingsTable (reused Row context, rowid += 1), the
   typed directive tables, accounts and commodities tables of sources/beancount.py,
   one accessor per column, and the metadata lookup functions as the compiler
   rewrites them (compiler.py: meta / entry_meta / any_meta -> getitem forms) or as
   query_env.py defines them (open_meta, commodity_meta, open_date, close_date).
   Python exceptions are [CErr k]: 1 KeyError, 2 ValueError/TypeError (format),
   3 AttributeError.  Definitions only; proofs are in Proofs/TablesProofs.v. *)
From Coq Require Import String ZArith List Bool.
Import ListNotations.
From Verif Require Import Base.Out Base.PyValue Base.StableSort Base.Decimal Model.Dates Model.Ledger.
Open Scope list_scope.
Open Scope Z_scope.

(* ---------- result cells ---------- *)
Inductive cell :=
| CNull
| CErr (k : Z)
| CStr (s : str)
| CInt (z : Z)
| CDate (o : Z)
| CDec (d : dec)
| CBool (b : bool)
| CSet (l : list str)                        (* set / frozenset of str: order irrelevant *)
| CStrList (l : list str)                    (* list of str, in order *)
| CAmount (a : amount)
| CPosition (u : amount) (c : option cost)   (* position.Position(units, cost) *)
| CMeta (m : metadata)                       (* a metadata dict, insertion order *)
| CTol (l : list (str * dec))
| CDirective (d : directive)                 (* a whole directive namedtuple *)
| CBalance (l : list (amount * option cost)).  (* the positions added to the running balance, in order *)

Definition KEYERROR := 1.
Definition FORMATERROR := 2.
Definition ATTRERROR := 3.

Definition cell_of_mvalue (v : mvalue) : cell :=
  match v with
  | MNone => CNull | MStr s => CStr s | MInt z => CInt z | MDec d => CDec d | MDate o => CDate o
  | MBool b => CBool b | MAmount a => CAmount a | MTol l => CTol l
  end.

Definition opt_cell {A} (f : A -> cell) (o : option A) : cell :=
  match o with None => CNull | Some a => f a end.

(* m[key] : KeyError when absent *)
Definition meta_item (m : metadata) (k : str) : cell :=
  match dict_get m k with Some v => cell_of_mvalue v | None => CErr KEYERROR end.
(* m.get(key) : None when absent *)
Definition meta_get (m : metadata) (k : str) : cell :=
  match dict_get m k with Some v => cell_of_mvalue v | None => CNull end.

Definition K_filename : str := s2z "filename".
Definition K_lineno : str := s2z "lineno".

(* ---------- small string functions ---------- *)
Fixpoint join (sep : str) (l : list str) : str :=
  match l with
  | [] => []
  | [x] => x
  | x :: t => x ++ sep ++ join sep t
  end.

(* filter(None, [payee, narration]): drops None and '' *)
Definition truthy (o : option str) : list str :=
  match o with Some (c :: s) => [c :: s] | _ => [] end.

Definition description_of (payee narration : option str) : str :=
  join (s2z " | ") (truthy payee ++ truthy narration).

Fixpoint mem_str (x : str) (l : list str) : bool :=
  match l with [] => false | y :: t => str_eqb y x || mem_str x t end.
Fixpoint dedup (l : list str) : list str :=
  match l with
  | [] => []
  | x :: t => if mem_str x t then dedup t else x :: dedup t
  end.
(* sorted(set(l)) on str: code point order *)
Definition sorted_set (l : list str) : list str := isort list_le (dedup l).

Definition kind_name (k : dkind) : str :=
  s2z (match k with
       | KTransaction => "transaction" | KOpen => "open" | KClose => "close" | KCommodity => "commodity"
       | KPad => "pad" | KBalance => "balance" | KNote => "note" | KEvent => "event" | KQuery => "query"
       | KPrice => "price" | KDocument => "document" | KCustom => "custom"
       end)%string.

(* ---------- entries table (query_env.EntriesTable) ---------- *)
Record erow := mkerow { er_rowid : Z; er_entry : directive }.

(* for entry in entries: context.entry = entry; context.rowid += 1; yield context *)
Fixpoint entries_loop (es : list directive) (rowid : Z) : list erow :=
  match es with
  | [] => []
  | e :: es' => let rowid' := rowid + 1 in mkerow rowid' e :: entries_loop es' rowid'
  end.
Definition entries_iter (l : ledger) : list erow := entries_loop l 0.

Definition txn_only (e : directive) (c : cell) : cell := if is_transaction e then c else CNull.

Definition e_flag (e : directive) : option str :=
  match e with Transaction _ _ _ f _ _ _ _ _ => f | _ => None end.
Definition e_payee (e : directive) : option str :=
  match e with Transaction _ _ _ _ p _ _ _ _ => p | _ => None end.
Definition e_narration (e : directive) : option str :=
  match e with Transaction _ _ _ _ _ n _ _ _ => n | _ => None end.
Definition e_tags (e : directive) : list str :=
  match e with Transaction _ _ _ _ _ _ t _ _ => t | _ => [] end.
Definition e_links (e : directive) : list str :=
  match e with Transaction _ _ _ _ _ _ _ k _ => k | _ => [] end.

Definition ecol_id (r : erow) : cell := CStr (d_id (er_entry r)).
Definition ecol_type (r : erow) : cell := CStr (kind_name (d_kind (er_entry r))).
Definition ecol_filename (r : erow) : cell := meta_item (d_meta (er_entry r)) K_filename.
Definition ecol_lineno (r : erow) : cell := meta_item (d_meta (er_entry r)) K_lineno.
Definition ecol_date (r : erow) : cell := CDate (d_date (er_entry r)).
Definition ecol_year (r : erow) : cell := CInt (year_of (d_date (er_entry r))).
Definition ecol_month (r : erow) : cell := CInt (month_of (d_date (er_entry r))).
Definition ecol_day (r : erow) : cell := CInt (day_of (d_date (er_entry r))).
Definition ecol_flag (r : erow) : cell := txn_only (er_entry r) (opt_cell CStr (e_flag (er_entry r))).
Definition ecol_payee (r : erow) : cell := txn_only (er_entry r) (opt_cell CStr (e_payee (er_entry r))).
Definition ecol_narration (r : erow) : cell := txn_only (er_entry r) (opt_cell CStr (e_narration (er_entry r))).
Definition ecol_description (r : erow) : cell :=
  txn_only (er_entry r) (CStr (description_of (e_payee (er_entry r)) (e_narration (er_entry r)))).
Definition ecol_tags (r : erow) : cell := txn_only (er_entry r) (CSet (e_tags (er_entry r))).
Definition ecol_links (r : erow) : cell := txn_only (er_entry r) (CSet (e_links (er_entry r))).
Definition ecol_meta (r : erow) : cell := CMeta (d_meta (er_entry r)).

Definition column (R : Type) := (string * string * (R -> cell))%type.

Definition entries_columns : list (column erow) :=
  [("id", "str", ecol_id); ("type", "str", ecol_type); ("filename", "str", ecol_filename);
   ("lineno", "int", ecol_lineno); ("date", "date", ecol_date); ("year", "int", ecol_year);
   ("month", "int", ecol_month); ("day", "int", ecol_day); ("flag", "str", ecol_flag);
   ("payee", "str", ecol_payee); ("narration", "str", ecol_narration);
   ("description", "str", ecol_description); ("tags", "set", ecol_tags); ("links", "set", ecol_links);
   ("meta", "dict", ecol_meta)]%string.

(* ---------- postings table (query_env.PostingsTable) ---------- *)
(* The Row context as the column functions see it when the row is yielded:
   rowid, entry, posting (an object: identified by its index in entry.postings),
   and the postings yielded so far including this one (what context.balance has
   accumulated when the balance column is evaluated on every row). *)
Record prow := mkprow {
  pr_rowid : Z;
  pr_entry : directive;
  pr_index : nat;
  pr_posting : posting;
  pr_seen : list posting
}.

(* for posting in entry.postings: context.rowid += 1; context.posting = posting; yield context *)
Fixpoint post_loop (e : directive) (ps : list posting) (j : nat) (rowid : Z) (seen : list posting) : list prow :=
  match ps with
  | [] => []
  | p :: ps' =>
      let rowid' := rowid + 1 in
      let seen' := seen ++ [p] in
      mkprow rowid' e j p seen' :: post_loop e ps' (S j) rowid' seen'
  end.

(* for entry in entries: if isinstance(entry, Transaction): context.entry = entry; <inner loop> *)
Fixpoint postings_loop (es : list directive) (rowid : Z) (seen : list posting) : list prow :=
  match es with
  | [] => []
  | e :: es' =>
      if is_transaction e then
        post_loop e (d_postings e) 0 rowid seen
        ++ postings_loop es' (rowid + Z.of_nat (length (d_postings e))) (seen ++ d_postings e)
      else postings_loop es' rowid seen
  end.
Definition postings_iter (l : ledger) : list prow := postings_loop l 0 [].

Definition as_erow (r : prow) : erow := mkerow (pr_rowid r) (pr_entry r).

(* posting.meta is None -> NULL, else meta[key] *)
Definition pmeta_item (r : prow) (k : str) : cell :=
  match p_meta (pr_posting r) with None => CNull | Some m => meta_item m k end.

Definition pcol_filename (r : prow) : cell := pmeta_item r K_filename.
Definition pcol_lineno (r : prow) : cell := pmeta_item r K_lineno.
(* '{:s}:{:d}:'.format(meta['filename'], meta['lineno']) *)
Definition pcol_location (r : prow) : cell :=
  match p_meta (pr_posting r) with
  | None => CNull
  | Some m =>
      match dict_get m K_filename, dict_get m K_lineno with
      | Some (MStr f), Some (MInt n) => CStr (f ++ [58] ++ str_of_int n ++ [58])
      | None, _ | _, None => CErr KEYERROR
      | _, _ => CErr FORMATERROR
      end
  end.
(* the redefinitions "dropping the entry type check" *)
Definition pcol_flag (r : prow) : cell := opt_cell CStr (e_flag (pr_entry r)).
Definition pcol_payee (r : prow) : cell := opt_cell CStr (e_payee (pr_entry r)).
Definition pcol_narration (r : prow) : cell := opt_cell CStr (e_narration (pr_entry r)).
Definition pcol_description (r : prow) : cell :=
  CStr (description_of (e_payee (pr_entry r)) (e_narration (pr_entry r))).
Definition pcol_tags (r : prow) : cell := CSet (e_tags (pr_entry r)).
Definition pcol_links (r : prow) : cell := CSet (e_links (pr_entry r)).
Definition pcol_meta (r : prow) : cell := opt_cell CMeta (p_meta (pr_posting r)).
Definition pcol_posting_flag (r : prow) : cell := opt_cell CStr (p_flag (pr_posting r)).
Definition pcol_account (r : prow) : cell := CStr (p_account (pr_posting r)).

(* accounts of the postings of the transaction that are not this posting object *)
Fixpoint others {A} (l : list A) (j : nat) : list A :=
  match l, j with
  | [], _ => []
  | _ :: t, O => t
  | x :: t, S j' => x :: others t j'
  end.
Definition sibling_accounts (r : prow) : list str :=
  map p_account (others (d_postings (pr_entry r)) (pr_index r)).
Definition pcol_other_accounts (r : prow) : cell := CStrList (sorted_set (sibling_accounts r)).

Definition pcol_number (r : prow) : cell := CDec (a_num (p_units (pr_posting r))).
Definition pcol_currency (r : prow) : cell := CStr (a_cur (p_units (pr_posting r))).
Definition pcol_cost_number (r : prow) : cell := opt_cell (fun c => CDec (c_num c)) (p_cost (pr_posting r)).
Definition pcol_cost_currency (r : prow) : cell := opt_cell (fun c => CStr (c_cur c)) (p_cost (pr_posting r)).
Definition pcol_cost_date (r : prow) : cell := opt_cell (fun c => opt_cell CDate (c_date c)) (p_cost (pr_posting r)).
(* cost.label if cost else '' *)
Definition pcol_cost_label (r : prow) : cell :=
  match p_cost (pr_posting r) with None => CStr [] | Some c => opt_cell CStr (c_label c) end.
Definition pcol_position (r : prow) : cell := CPosition (p_units (pr_posting r)) (p_cost (pr_posting r)).
Definition pcol_price (r : prow) : cell := opt_cell CAmount (p_price (pr_posting r)).

(* beancount.core.convert.get_weight *)
Definition weight_of (p : posting) : amount :=
  match p_cost p with
  | Some c => mkamount (dec_mul (c_num c) (a_num (p_units p))) (c_cur c)
  | None =>
      match p_price p with
      | Some pr => mkamount (dec_mul (a_num pr) (a_num (p_units p))) (a_cur pr)
      | None => p_units p
      end
  end.
Definition pcol_weight (r : prow) : cell := CAmount (weight_of (pr_posting r)).
Definition pcol_balance (r : prow) : cell := CBalance (map (fun p => (p_units p, p_cost p)) (pr_seen r)).
Definition pcol_entry (r : prow) : cell := CDirective (pr_entry r).

Definition via_entry (f : erow -> cell) (r : prow) : cell := f (as_erow r).

Definition postings_columns : list (column prow) :=
  [("id", "str", via_entry ecol_id); ("type", "str", via_entry ecol_type); ("filename", "str", pcol_filename);
   ("lineno", "int", pcol_lineno); ("date", "date", via_entry ecol_date); ("year", "int", via_entry ecol_year);
   ("month", "int", via_entry ecol_month); ("day", "int", via_entry ecol_day); ("flag", "str", pcol_flag);
   ("payee", "str", pcol_payee); ("narration", "str", pcol_narration);
   ("description", "str", pcol_description); ("tags", "set", pcol_tags); ("links", "set", pcol_links);
   ("meta", "dict", pcol_meta); ("location", "str", pcol_location); ("posting_flag", "str", pcol_posting_flag);
   ("account", "str", pcol_account); ("other_accounts", "set", pcol_other_accounts);
   ("number", "Decimal", pcol_number); ("currency", "str", pcol_currency);
   ("cost_number", "Decimal", pcol_cost_number); ("cost_currency", "str", pcol_cost_currency);
   ("cost_date", "date", pcol_cost_date); ("cost_label", "str", pcol_cost_label);
   ("position", "beancount.core.position.Position", pcol_position);
   ("price", "beancount.core.amount.Amount", pcol_price);
   ("weight", "beancount.core.amount.Amount", pcol_weight);
   ("balance", "beancount.core.inventory.Inventory", pcol_balance);
   ("entry", "beancount.core.data.Transaction", pcol_entry)]%string.

(* ---------- typed directive tables (sources/beancount.py Table.__iter__) ---------- *)
(* for entry in self.entries: if isinstance(entry, datatype): yield entry *)
Fixpoint typed_iter (k : dkind) (es : list directive) : list directive :=
  match es with
  | [] => []
  | e :: es' => if dkind_eqb (d_kind e) k then e :: typed_iter k es' else typed_iter k es'
  end.

(* GetAttrColumn(name): getattr(entry, name); AttributeError on a directive without the field *)
Definition NOATTR := CErr ATTRERROR.
Definition oset (o : option (list str)) : cell := opt_cell CSet o.
Definition tcol_meta (d : directive) : cell := CMeta (d_meta d).
Definition tcol_date (d : directive) : cell := CDate (d_date d).
Definition tcol_flag (d : directive) : cell :=
  match d with Transaction _ _ _ f _ _ _ _ _ => opt_cell CStr f | _ => NOATTR end.
Definition tcol_payee (d : directive) : cell :=
  match d with Transaction _ _ _ _ p _ _ _ _ => opt_cell CStr p | _ => NOATTR end.
Definition tcol_narration (d : directive) : cell :=
  match d with Transaction _ _ _ _ _ n _ _ _ => opt_cell CStr n | _ => NOATTR end.
Definition tcol_tags (d : directive) : cell :=
  match d with
  | Transaction _ _ _ _ _ _ t _ _ => CSet t
  | Note _ _ _ _ _ t _ | Document _ _ _ _ _ t _ => oset t
  | _ => NOATTR
  end.
Definition tcol_links (d : directive) : cell :=
  match d with
  | Transaction _ _ _ _ _ _ _ k _ => CSet k
  | Note _ _ _ _ _ _ k | Document _ _ _ _ _ _ k => oset k
  | _ => NOATTR
  end.
Definition tcol_currency (d : directive) : cell :=
  match d with Price _ _ _ c _ | Commodity _ _ _ c => CStr c | _ => NOATTR end.
Definition tcol_amount (d : directive) : cell :=
  match d with Price _ _ _ _ a | Balance _ _ _ _ a _ _ => CAmount a | _ => NOATTR end.
Definition tcol_account (d : directive) : cell :=
  match d with
  | Open _ _ _ a _ _ | Close _ _ _ a | Pad _ _ _ a _ | Balance _ _ _ a _ _ _ | Note _ _ _ a _ _ _
  | Document _ _ _ a _ _ _ => CStr a
  | _ => NOATTR
  end.
Definition tcol_tolerance (d : directive) : cell :=
  match d with Balance _ _ _ _ _ t _ => opt_cell CDec t | _ => NOATTR end.
Definition tcol_diff_amount (d : directive) : cell :=
  match d with Balance _ _ _ _ _ _ x => opt_cell CAmount x | _ => NOATTR end.
Definition tcol_comment (d : directive) : cell :=
  match d with Note _ _ _ _ c _ _ => CStr c | _ => NOATTR end.
Definition tcol_type (d : directive) : cell :=
  match d with Event _ _ _ t _ | Custom _ _ _ t => CStr t | _ => NOATTR end.
Definition tcol_description (d : directive) : cell :=
  match d with Event _ _ _ _ x => CStr x | _ => NOATTR end.
Definition tcol_filename (d : directive) : cell :=
  match d with Document _ _ _ _ f _ _ => CStr f | _ => NOATTR end.

Definition MD := "beanquery.sources.beancount.Metadata"%string.
Definition AM := "beancount.core.amount.Amount"%string.

Definition transactions_columns : list (column directive) :=
  [("meta", MD, tcol_meta); ("date", "date", tcol_date); ("flag", "str", tcol_flag); ("payee", "str", tcol_payee);
   ("narration", "str", tcol_narration); ("tags", "frozenset", tcol_tags); ("links", "frozenset", tcol_links)]%string.
Definition prices_columns : list (column directive) :=
  [("meta", MD, tcol_meta); ("date", "date", tcol_date); ("currency", "str", tcol_currency);
   ("amount", AM, tcol_amount)]%string.
Definition balances_columns : list (column directive) :=
  [("meta", MD, tcol_meta); ("date", "date", tcol_date); ("account", "str", tcol_account); ("amount", AM, tcol_amount);
   ("tolerance", "Decimal", tcol_tolerance); ("discrepancy", AM, tcol_diff_amount)]%string.
Definition notes_columns : list (column directive) :=
  [("meta", MD, tcol_meta); ("date", "date", tcol_date); ("account", "str", tcol_account);
   ("comment", "str", tcol_comment); ("tags", "frozenset", tcol_tags); ("links", "frozenset", tcol_links)]%string.
Definition events_columns : list (column directive) :=
  [("meta", MD, tcol_meta); ("date", "date", tcol_date); ("type", "str", tcol_type);
   ("description", "str", tcol_description)]%string.
Definition documents_columns : list (column directive) :=
  [("meta", MD, tcol_meta); ("date", "date", tcol_date); ("account", "str", tcol_account);
   ("filename", "str", tcol_filename); ("tags", "frozenset", tcol_tags); ("links", "frozenset", tcol_links)]%string.

(* ---------- accounts table ---------- *)
(* beancount.core.getters.get_account_open_close: a dict account -> [open, close] in
   first-appearance order; of duplicated Open (Close) directives the one with the
   earliest date is kept, the first of them on equal dates. *)
Record arow := mkarow { ar_account : str; ar_open : option directive; ar_close : option directive }.

Definition pick (prev : option directive) (e : directive) : directive :=
  match prev with
  | None => e
  | Some p => if d_date p <=? d_date e then p else e
  end.

Fixpoint oc_update (m : list arow) (a : str) (is_open : bool) (e : directive) : list arow :=
  match m with
  | [] => [if is_open then mkarow a (Some e) None else mkarow a None (Some e)]
  | r :: t =>
      if str_eqb (ar_account r) a then
        (if is_open then mkarow (ar_account r) (Some (pick (ar_open r) e)) (ar_close r)
         else mkarow (ar_account r) (ar_open r) (Some (pick (ar_close r) e))) :: t
      else r :: oc_update t a is_open e
  end.

Definition oc_step (m : list arow) (e : directive) : list arow :=
  match d_kind e with
  | KOpen => oc_update m (d_account e) true e
  | KClose => oc_update m (d_account e) false e
  | _ => m
  end.
Definition accounts_iter (l : ledger) : list arow := fold_left oc_step l [].

Definition acol_account (r : arow) : cell := CStr (ar_account r).
Definition acol_open (r : arow) : cell := opt_cell CDirective (ar_open r).
Definition acol_close (r : arow) : cell := opt_cell CDirective (ar_close r).
Definition accounts_columns : list (column arow) :=
  [("account", "str", acol_account); ("open", "beanquery.sources.beancount.Open", acol_open);
   ("close", "beanquery.sources.beancount.Close", acol_close)]%string.

(* ---------- commodities table ---------- *)
(* getters.get_commodity_directives: {entry.currency: entry for entry in entries if Commodity}:
   keys in first-appearance order, the value is the LAST directive of that currency. *)
Definition d_currency (d : directive) : str :=
  match d with Commodity _ _ _ c | Price _ _ _ c _ => c | _ => [] end.

Fixpoint dict_set (m : list (str * directive)) (k : str) (v : directive) : list (str * directive) :=
  match m with
  | [] => [(k, v)]
  | (k', v') :: t => if str_eqb k' k then (k', v) :: t else (k', v') :: dict_set t k v
  end.
Definition com_step (m : list (str * directive)) (e : directive) : list (str * directive) :=
  match d_kind e with KCommodity => dict_set m (d_currency e) e | _ => m end.
Definition commodities_dict (l : ledger) : list (str * directive) := fold_left com_step l [].
Definition commodities_iter (l : ledger) : list directive := map snd (commodities_dict l).

Definition commodities_columns : list (column directive) :=
  [("meta", MD, tcol_meta); ("date", "date", tcol_date); ("name", "str", tcol_currency)]%string.

(* ---------- metadata lookups ---------- *)
(* meta(k) -> getitem(meta, k) : GetItem2 *)
Definition f_meta (r : prow) (k : str) : cell :=
  match p_meta (pr_posting r) with None => CNull | Some m => meta_get m k end.
(* entry_meta(k) -> getitem(entry.meta, k) *)
Definition f_entry_meta (r : prow) (k : str) : cell := meta_get (d_meta (pr_entry r)) k.
(* any_meta(k) -> getitem(meta, k, getitem(entry.meta, k)) : GetItem3 = obj.get(key, default), NULL when obj is None *)
Definition f_any_meta (r : prow) (k : str) : cell :=
  match p_meta (pr_posting r) with
  | None => CNull
  | Some m => match dict_get m k with Some v => cell_of_mvalue v | None => meta_get (d_meta (pr_entry r)) k end
  end.
(* meta(k) on the entries table and on the typed tables: the table's own meta column *)
Definition f_dmeta (d : directive) (k : str) : cell := meta_get (d_meta d) k.

Definition find_account (l : ledger) (a : str) : option arow :=
  find (fun r => str_eqb (ar_account r) a) (accounts_iter l).
Definition open_of (l : ledger) (a : str) : option directive :=
  match find_account l a with Some r => ar_open r | None => None end.
Definition close_of (l : ledger) (a : str) : option directive :=
  match find_account l a with Some r => ar_close r | None => None end.

Definition f_open_date (l : ledger) (a : str) : cell := opt_cell (fun d => CDate (d_date d)) (open_of l a).
Definition f_close_date (l : ledger) (a : str) : cell := opt_cell (fun d => CDate (d_date d)) (close_of l a).
Definition f_open_meta (l : ledger) (a : str) (k : str) : cell := opt_cell (fun d => meta_get (d_meta d) k) (open_of l a).
Definition f_open_meta1 (l : ledger) (a : str) : cell := opt_cell (fun d => CMeta (d_meta d)) (open_of l a).
Definition f_commodity_meta (l : ledger) (c : str) (k : str) : cell :=
  opt_cell (fun d => meta_get (d_meta d) k) (dict_get (commodities_dict l) c).
Definition f_commodity_meta1 (l : ledger) (c : str) : cell :=
  opt_cell (fun d => CMeta (d_meta d)) (dict_get (commodities_dict l) c).

(* ---------- the schema of the model, compared with the introspected one ---------- *)
Definition sig_of {R} (cols : list (column R)) : list (string * string) :=
  map (fun c => (fst (fst c), snd (fst c))) cols.

Definition model_schema : list (string * list (string * string)) :=
  [("entries", sig_of entries_columns); ("postings", sig_of postings_columns);
   ("transactions", sig_of transactions_columns); ("prices", sig_of prices_columns);
   ("balances", sig_of balances_columns); ("notes", sig_of notes_columns); ("events", sig_of events_columns);
   ("documents", sig_of documents_columns); ("accounts", sig_of accounts_columns);
   ("commodities", sig_of commodities_columns)]%string.

(* does a cell belong to the announced datatype of its column (NULL belongs to every type) *)
Definition is_kind (k : dkind) (c : cell) : bool :=
  match c with CDirective d => dkind_eqb (d_kind d) k | _ => false end.
Definition cell_has_type (ty : string) (c : cell) : bool :=
  match c with
  | CNull => true
  | CErr _ => false
  | _ =>
    if String.eqb ty "str" then match c with CStr _ => true | _ => false end
    else if String.eqb ty "int" then match c with CInt _ => true | _ => false end
    else if String.eqb ty "date" then match c with CDate _ => true | _ => false end
    else if String.eqb ty "Decimal" then match c with CDec _ => true | _ => false end
    else if String.eqb ty "set" then match c with CSet _ => true | _ => false end
    else if String.eqb ty "frozenset" then match c with CSet _ => true | _ => false end
    else if String.eqb ty "dict" then match c with CMeta _ => true | _ => false end
    else if String.eqb ty MD then match c with CMeta _ => true | _ => false end
    else if String.eqb ty AM then match c with CAmount _ => true | _ => false end
    else if String.eqb ty "beancount.core.position.Position" then match c with CPosition _ _ => true | _ => false end
    else if String.eqb ty "beancount.core.inventory.Inventory" then match c with CBalance _ => true | _ => false end
    else if String.eqb ty "beancount.core.data.Transaction" then is_kind KTransaction c
    else if String.eqb ty "beanquery.sources.beancount.Open" then is_kind KOpen c
    else if String.eqb ty "beanquery.sources.beancount.Close" then is_kind KClose c
    else false
  end%string.

(* ---------- serialisation for the correspondence run ---------- *)
Definition o_strs (l : list str) : out := OL (map o_str l).
Definition o_amount (a : amount) : out := OL [o_dec (a_num a); o_str (a_cur a)].
Definition o_cost (c : cost) : out :=
  OL [o_dec (c_num c); o_str (c_cur c); o_option ON (c_date c); o_option o_str (c_label c)].
Definition o_tol (l : list (str * dec)) : out := OL (map (fun kv => OL [o_str (fst kv); o_dec (snd kv)]) l).
Definition o_mvalue (v : mvalue) : out :=
  match v with
  | MNone => OL [ON 0] | MStr s => OL [ON 2; o_str s] | MInt z => OL [ON 3; ON z] | MDate o => OL [ON 4; ON o]
  | MDec d => OL [ON 5; o_dec d] | MBool b => OL [ON 6; o_bool b] | MAmount a => OL [ON 9; o_amount a]
  | MTol l => OL [ON 12; o_tol l]
  end.
Definition o_meta (m : metadata) : out := OL (map (fun kv => OL [o_str (fst kv); o_mvalue (snd kv)]) m).
Definition o_posting (p : posting) : out :=
  OL [o_str (p_account p); o_amount (p_units p); o_option o_cost (p_cost p); o_option o_amount (p_price p);
      o_option o_str (p_flag p); o_option o_meta (p_meta p)].
Definition o_ostrs (o : option (list str)) : out := o_option o_strs o.
Definition o_directive (d : directive) : out :=
  match d with
  | Transaction i m t f p n tg lk ps =>
      OL [ON 0; o_str i; o_meta m; ON t; o_option o_str f; o_option o_str p; o_option o_str n; o_strs tg; o_strs lk;
          OL (map o_posting ps)]
  | Open i m t a cs b => OL [ON 1; o_str i; o_meta m; ON t; o_str a; o_ostrs cs; o_option o_str b]
  | Close i m t a => OL [ON 2; o_str i; o_meta m; ON t; o_str a]
  | Commodity i m t c => OL [ON 3; o_str i; o_meta m; ON t; o_str c]
  | Pad i m t a s => OL [ON 4; o_str i; o_meta m; ON t; o_str a; o_str s]
  | Balance i m t a x tol df =>
      OL [ON 5; o_str i; o_meta m; ON t; o_str a; o_amount x; o_option o_dec tol; o_option o_amount df]
  | Note i m t a c tg lk => OL [ON 6; o_str i; o_meta m; ON t; o_str a; o_str c; o_ostrs tg; o_ostrs lk]
  | Event i m t ty ds => OL [ON 7; o_str i; o_meta m; ON t; o_str ty; o_str ds]
  | Query i m t n q => OL [ON 8; o_str i; o_meta m; ON t; o_str n; o_str q]
  | Price i m t c a => OL [ON 9; o_str i; o_meta m; ON t; o_str c; o_amount a]
  | Document i m t a f tg lk => OL [ON 10; o_str i; o_meta m; ON t; o_str a; o_str f; o_ostrs tg; o_ostrs lk]
  | Custom i m t ty => OL [ON 11; o_str i; o_meta m; ON t; o_str ty]
  end.
Definition o_cell (c : cell) : out :=
  match c with
  | CNull => OL [ON 0]
  | CErr k => OL [ON 1; ON k]
  | CStr s => OL [ON 2; o_str s]
  | CInt z => OL [ON 3; ON z]
  | CDate o => OL [ON 4; ON o]
  | CDec d => OL [ON 5; o_dec d]
  | CBool b => OL [ON 6; o_bool b]
  | CSet l => OL [ON 7; o_strs l]
  | CStrList l => OL [ON 8; o_strs l]
  | CAmount a => OL [ON 9; o_amount a]
  | CPosition u c => OL [ON 10; o_amount u; o_option o_cost c]
  | CMeta m => OL [ON 11; o_meta m]
  | CTol l => OL [ON 12; o_tol l]
  | CDirective d => OL [ON 13; o_directive d]
  | CBalance l => OL [ON 14; OL (map (fun uc => OL [o_amount (fst uc); o_option o_cost (snd uc)]) l)]
  end.

Definition table_out {R} (rows : list R) (cols : list (column R)) : out :=
  OL (map (fun r => OL (map (fun c => o_cell (snd c r)) cols)) rows).

(* every table, in the order of [model_schema] *)
Definition tables_out (l : ledger) : out :=
  OL [table_out (entries_iter l) entries_columns; table_out (postings_iter l) postings_columns;
      table_out (typed_iter KTransaction l) transactions_columns; table_out (typed_iter KPrice l) prices_columns;
      table_out (typed_iter KBalance l) balances_columns; table_out (typed_iter KNote l) notes_columns;
      table_out (typed_iter KEvent l) events_columns; table_out (typed_iter KDocument l) documents_columns;
      table_out (accounts_iter l) accounts_columns; table_out (commodities_iter l) commodities_columns].

(* the metadata function family, for a list of keys:
   postings rows: per key [meta; entry_meta; any_meta; open_meta(account,k); commodity_meta(currency,k)],
                  then [open_date(account); close_date(account); open_meta(account); commodity_meta(currency)]
   entries rows and transactions rows: per key [meta(k)]
   accounts rows: per key [open_meta(account,k)], then [open_date; close_date]
   commodities rows: per key [commodity_meta(name,k)] *)
Definition metas_out (l : ledger) (keys : list str) : out :=
  OL [OL (map (fun r =>
              let a := p_account (pr_posting r) in
              let c := a_cur (p_units (pr_posting r)) in
              OL (flat_map (fun k => [o_cell (f_meta r k); o_cell (f_entry_meta r k); o_cell (f_any_meta r k);
                                      o_cell (f_open_meta l a k); o_cell (f_commodity_meta l c k)]) keys
                  ++ [o_cell (f_open_date l a); o_cell (f_close_date l a); o_cell (f_open_meta1 l a);
                      o_cell (f_commodity_meta1 l c)]))
           (postings_iter l));
      OL (map (fun r => OL (map (fun k => o_cell (f_dmeta (er_entry r) k)) keys)) (entries_iter l));
      OL (map (fun d => OL (map (fun k => o_cell (f_dmeta d k)) keys)) (typed_iter KTransaction l));
      OL (map (fun r => OL (map (fun k => o_cell (f_open_meta l (ar_account r) k)) keys
                            ++ [o_cell (f_open_date l (ar_account r)); o_cell (f_close_date l (ar_account r))]))
           (accounts_iter l));
      OL (map (fun d => OL (map (fun k => o_cell (f_commodity_meta l (d_currency d) k)) keys)) (commodities_iter l))].

Definition run_out (l : ledger) (keys : list str) : out := OL [tables_out l; metas_out l keys].

(* ORDER BY a column that is not selected, on a typed table (both of type str):
   the rows stably sorted by [key], projected on [proj] *)
Definition cell_str (c : cell) : str := match c with CStr s => s | _ => [] end.
Definition order_proj (rows : list directive) (key proj : directive -> cell) : list cell :=
  map proj (isort (fun a b => list_le (cell_str (key a)) (cell_str (key b))) rows).
Definition orders_out (l : ledger) : out :=
  OL [OL (map o_cell (order_proj (typed_iter KNote l) tcol_comment tcol_account));
      OL (map o_cell (order_proj (typed_iter KNote l) tcol_account tcol_comment));
      OL (map o_cell (order_proj (typed_iter KEvent l) tcol_description tcol_type));
      OL (map o_cell (order_proj (typed_iter KDocument l) tcol_filename tcol_account));
      OL (map o_cell (order_proj (typed_iter KBalance l) tcol_account tcol_date))].

Definition run_all_out (l : ledger) (keys : list str) : out := OL [tables_out l; metas_out l keys; orders_out l].

(* ---------- compact output: one 48-bit hash per column ---------- *)
(* The correspondence run compares, per (table, column), a hash of the whole column
   (computed the same way over the implementation's cells); a column holding a Python
   exception is reported as such; a differing hash is then re-examined cell by cell
   with [run_all_out].  balance is always sent in full (it is summed into an
   Inventory on the harness side). *)
Definition MASK := 281474976710655.   (* 2^48 - 1 *)
Definition mix (acc t : Z) : Z := Z.land (Z.shiftl acc 5 + acc + t) MASK.
Fixpoint hash_out (o : out) (acc : Z) : Z :=
  match o with
  | ON z => mix acc (z + z)
  | OL l => mix ((fix go (l : list out) (a : Z) : Z :=
                    match l with [] => a | x :: t => go t (hash_out x a) end) l (mix acc 2000007)) 2000067
  end.

Fixpoint first_err (cs : list cell) : option Z :=
  match cs with [] => None | CErr k :: _ => Some k | _ :: t => first_err t end.
Definition col_summary (cs : list cell) : out :=
  match first_err cs with
  | Some k => OL [ON 1; ON k]
  | None => OL [ON 0; ON (hash_out (OL (map o_cell cs)) 0)]
  end.
Definition col_full (cs : list cell) : out :=
  match first_err cs with
  | Some k => OL [ON 1; ON k]
  | None => OL [ON 2; OL (map o_cell cs)]
  end.

Definition table_hashed {R} (rows : list R) (cols : list (column R)) : out :=
  OL (map (fun c => if String.eqb (fst (fst c)) "balance" then col_full (map (snd c) rows)
                    else col_summary (map (snd c) rows)) cols).

Definition tables_hashed (l : ledger) : out :=
  OL [table_hashed (entries_iter l) entries_columns; table_hashed (postings_iter l) postings_columns;
      table_hashed (typed_iter KTransaction l) transactions_columns; table_hashed (typed_iter KPrice l) prices_columns;
      table_hashed (typed_iter KBalance l) balances_columns; table_hashed (typed_iter KNote l) notes_columns;
      table_hashed (typed_iter KEvent l) events_columns; table_hashed (typed_iter KDocument l) documents_columns;
      table_hashed (accounts_iter l) accounts_columns; table_hashed (commodities_iter l) commodities_columns].

(* the same targets as [metas_out], as functions of the row, one summary per target *)
Definition pmeta_targets (l : ledger) (keys : list str) : list (prow -> cell) :=
  flat_map (fun k => [(fun r => f_meta r k); (fun r => f_entry_meta r k); (fun r => f_any_meta r k);
                      (fun r => f_open_meta l (p_account (pr_posting r)) k);
                      (fun r => f_commodity_meta l (a_cur (p_units (pr_posting r))) k)]) keys
  ++ [(fun r => f_open_date l (p_account (pr_posting r))); (fun r => f_close_date l (p_account (pr_posting r)));
      (fun r => f_open_meta1 l (p_account (pr_posting r))); (fun r => f_commodity_meta1 l (a_cur (p_units (pr_posting r))))].

Definition targets_hashed {R} (rows : list R) (ts : list (R -> cell)) : out :=
  OL (map (fun t => col_summary (map t rows)) ts).

Definition metas_hashed (l : ledger) (keys : list str) : out :=
  OL [targets_hashed (postings_iter l) (pmeta_targets l keys);
      targets_hashed (entries_iter l) (map (fun k r => f_dmeta (er_entry r) k) keys);
      targets_hashed (typed_iter KTransaction l) (map (fun k d => f_dmeta d k) keys);
      targets_hashed (accounts_iter l)
        (map (fun k r => f_open_meta l (ar_account r) k) keys
         ++ [(fun r => f_open_date l (ar_account r)); (fun r => f_close_date l (ar_account r))]);
      targets_hashed (commodities_iter l) (map (fun k d => f_commodity_meta l (d_currency d) k) keys)].

Definition orders_hashed (l : ledger) : out :=
  OL [col_summary (order_proj (typed_iter KNote l) tcol_comment tcol_account);
      col_summary (order_proj (typed_iter KNote l) tcol_account tcol_comment);
      col_summary (order_proj (typed_iter KEvent l) tcol_description tcol_type);
      col_summary (order_proj (typed_iter KDocument l) tcol_filename tcol_account);
      col_summary (order_proj (typed_iter KBalance l) tcol_account tcol_date)].

Definition run_hashed_out (l : ledger) (keys : list str) : out :=
  OL [tables_hashed l; metas_hashed l keys; orders_hashed l].
