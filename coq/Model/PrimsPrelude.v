(* Primitive semantics and encodings of group `prelude` (C07, bld-misc): the statements of execute_select in front of the
   row loops (Gen/SrcPrelude.v).  Definitions only; proofs in Proofs/SrcPrelude.v.

   Trusted here: a compiled query and its targets are tagged records (Model/PrimsApi.v [record] / [get_attr]: reading an
   attribute is a lookup); a target's evaluator `c_expr` is an opaque callable [PRef k] whose attribute `dtype` is
   [dtype_of k]; tuple(<items>) is the tuple of the items; set(<ints>) is the list of the distinct members in
   first-occurrence order (only membership is ever asked of it: `index in group_indexes`); enumerate numbers from 0. *)
From Coq Require Import String Ascii ZArith List Bool.
Import ListNotations.
From Verif Require Import Base.PyValue Model.Eval Model.PyMini Model.PrimsApi.
From Verif Require Model.Naming.
Open Scope string_scope.
Open Scope list_scope.
Open Scope Z_scope.

Definition target_tag : list Z := zs "beanquery.query_compile.EvalTarget".
Definition evalquery_tag : list Z := zs "beanquery.query_compile.EvalQuery".

Definition enc_name (o : option Naming.str) : pv := match o with Some n => PV (VStr n) | None => PNone end.
Definition enc_target (k : nat) (t : Naming.ctarget) : pv :=
  record target_tag [("name", enc_name (Naming.c_name t)); ("c_expr", PRef k)].
Definition enc_targets (kts : list (nat * Naming.ctarget)) : list pv :=
  map (fun kt => enc_target (fst kt) (snd kt)) kts.
Definition enc_group (g : option (list Z)) : pv := match g with Some l => PList (map PInt l) | None => PNone end.
Definition enc_evalquery (kts : list (nat * Naming.ctarget)) (g : option (list Z)) (order_spec c_where : pv) : pv :=
  record evalquery_tag [("c_targets", PList (enc_targets kts)); ("group_indexes", enc_group g);
                        ("order_spec", order_spec); ("c_where", c_where)].

Definition prim_prelude (dtype_of : nat -> pv) (name : string) (args : list pv) : res pv :=
  if String.eqb name "attr:dtype" then
    match args with [PRef k] => Ok (dtype_of k) | _ => Stuck end
  else match strip_prefix "attr:" name with
  | Some a => match args with [o] => get_attr a o | _ => Stuck end
  | None =>
    if String.eqb name "builtins.tuple" then
      match args with [PList l] | [PTuple l] => Ok (PTuple l) | _ => Stuck end
    else if String.eqb name "builtins.set" then
      match args with [PList l] | [PTuple l] => Ok (PList (dedupe [] l)) | _ => Stuck end
    else if String.eqb name "builtins.enumerate" then
      match args with [PList l] | [PTuple l] => Ok (PList (enum_from 0 l)) | _ => Stuck end
    else Stuck
  end.

(* the model's projection positions as Python ints *)
Definition enc_indexes (l : list nat) : pv := PList (map (fun i => PInt (Z.of_nat i)) l).

(* the hypothesis of the tie: no visible target is named by the empty string *)
Definition name_nonempty (t : Naming.ctarget) : bool :=
  match Naming.c_name t with Some [] => false | _ => true end.
