(* C18 -- model of the date functions of beanquery/query_env.py (date_trunc, date_part,
   year/month/day/yearmonth/quarter/weekday, date_add, date_diff, date +/- int, interval,
   date +/- interval, date_bin) and of the parts of CPython's datetime / dateutil.relativedelta
   they call.  Dates are proleptic Gregorian ordinals (date.toordinal()), exactly as CPython's
   Lib/_pydatetime.py computes them (_ymd2ord, _ord2ymd, _isoweek1monday, isocalendar).
   Python exceptions are [VErr k]:  1 ValueError, 2 OverflowError, 3 IndexError,
   4 ZeroDivisionError, 5 AttributeError/TypeError, 6 decimal.InvalidOperation, 9 model fuel exhausted. *)
From Coq Require Import String Ascii ZArith List Bool.
Import ListNotations.
From Verif Require Import Base.Out Base.PyValue.
Open Scope Z_scope.

(* ---------- small string helpers (code-point lists) ---------- *)
Fixpoint s2z (s : string) : list Z :=
  match s with EmptyString => [] | String a r => Z.of_N (N_of_ascii a) :: s2z r end.

Fixpoint zeqb (a b : list Z) : bool :=
  match a, b with
  | [], [] => true
  | x :: a', y :: b' => (x =? y) && zeqb a' b'
  | _, _ => false
  end.

(* decimal digits of n >= 0, most significant first ("0" for 0) *)
Fixpoint digits_fuel (fuel : nat) (n : Z) (acc : list Z) : list Z :=
  match fuel with
  | O => acc
  | S f => let acc' := (48 + n mod 10) :: acc in
           if n <? 10 then acc' else digits_fuel f (n / 10) acc'
  end.
Definition nat_digits (n : Z) : list Z := digits_fuel (S (Z.to_nat (Z.log2 n))) n [].
Definition str_of_int (z : Z) : list Z := if z <? 0 then 45 :: nat_digits (- z) else nat_digits z.
Fixpoint zeros (n : nat) : list Z := match n with O => [] | S k => 48 :: zeros k end.
(* '{:0Wd}'.format(n) for n >= 0 *)
Definition pad0 (w : nat) (n : Z) : list Z :=
  let ds := nat_digits n in zeros (w - length ds) ++ ds.

(* ---------- CPython calendar arithmetic ---------- *)
Definition is_leap (y : Z) : bool :=
  (y mod 4 =? 0) && (negb (y mod 100 =? 0) || (y mod 400 =? 0)).

Definition days_before_year (y : Z) : Z :=
  let y1 := y - 1 in y1 * 365 + y1 / 4 - y1 / 100 + y1 / 400.

Definition dim_table (m : Z) : Z :=
  if m =? 2 then 28 else if (m =? 4) || (m =? 6) || (m =? 9) || (m =? 11) then 30 else 31.
Definition days_in_month (y m : Z) : Z :=
  if (m =? 2) && is_leap y then 29 else dim_table m.

(* _DAYS_BEFORE_MONTH *)
Definition dbm_table (m : Z) : Z :=
  nth (Z.to_nat m) [0; 0; 31; 59; 90; 120; 151; 181; 212; 243; 273; 304; 334] 0.
Definition days_before_month (y m : Z) : Z :=
  dbm_table m + (if (2 <? m) && is_leap y then 1 else 0).

Definition ymd2ord (y m d : Z) : Z := days_before_year y + days_before_month y m + d.

Definition DI400Y := 146097.
Definition DI100Y := 36524.
Definition DI4Y := 1461.

(* _ord2ymd, statement by statement *)
Definition ord2ymd (n0 : Z) : Z * Z * Z :=
  let n := n0 - 1 in
  let n400 := n / DI400Y in let n := n mod DI400Y in
  let year := n400 * 400 + 1 in
  let n100 := n / DI100Y in let n := n mod DI100Y in
  let n4 := n / DI4Y in let n := n mod DI4Y in
  let n1 := n / 365 in let n := n mod 365 in
  let year := year + n100 * 100 + n4 * 4 + n1 in
  if (n1 =? 4) || (n100 =? 4) then (year - 1, 12, 31) else
  let leap := (n1 =? 3) && (negb (n4 =? 24) || (n100 =? 3)) in
  let month := Z.shiftr (n + 50) 5 in
  let preceding := dbm_table month + (if (2 <? month) && leap then 1 else 0) in
  if n <? preceding then
    let month := month - 1 in
    let preceding := preceding - (dim_table month + (if (month =? 2) && leap then 1 else 0)) in
    (year, month, n - preceding + 1)
  else (year, month, n - preceding + 1).

Definition MAXORD := 3652059.   (* date.max.toordinal() *)
Definition valid_ord (o : Z) : bool := (1 <=? o) && (o <=? MAXORD).
Definition valid_ymd (y m d : Z) : bool :=
  (1 <=? y) && (y <=? 9999) && (1 <=? m) && (m <=? 12) && (1 <=? d) && (d <=? days_in_month y m).

(* datetime.date(y, m, d): ValueError outside the calendar *)
Definition mk_date (y m d : Z) : value :=
  if valid_ymd y m d then VDate (ymd2ord y m d) else VErr 1.

(* date + timedelta(days=n): OverflowError outside date.min..date.max *)
Definition add_days (o n : Z) : value :=
  let r := o + n in if valid_ord r then VDate r else VErr 2.

Definition year_of (o : Z) : Z := fst (fst (ord2ymd o)).
Definition month_of (o : Z) : Z := snd (fst (ord2ymd o)).
Definition day_of (o : Z) : Z := snd (ord2ymd o).

Definition weekday (o : Z) : Z := (o + 6) mod 7.            (* date.weekday(): Monday = 0 *)
Definition isoweekday (o : Z) : Z := weekday o + 1.

Definition isoweek1monday (y : Z) : Z :=
  let firstday := ymd2ord y 1 1 in
  let firstweekday := (firstday + 6) mod 7 in
  let week1monday := firstday - firstweekday in
  if 3 <? firstweekday then week1monday + 7 else week1monday.

(* date.isocalendar() -> (iso year, iso week), given the year of the date *)
Definition isocal_y (year o : Z) : Z * Z :=
  let w1 := isoweek1monday year in
  let week := (o - w1) / 7 in
  if week <? 0 then
    let year := year - 1 in
    let w1 := isoweek1monday year in
    (year, (o - w1) / 7 + 1)
  else if (52 <=? week) && (isoweek1monday (year + 1) <=? o) then (year + 1, 1)
  else (year, week + 1).
Definition isocalendar (o : Z) : Z * Z := isocal_y (year_of o) o.

(* ---------- simple extractors (query_env.py: year month day yearmonth quarter weekday) ---------- *)
Definition f_year (o : Z) : value := VInt (year_of o).
Definition f_month (o : Z) : value := VInt (month_of o).
Definition f_day (o : Z) : value := VInt (day_of o).
Definition f_yearmonth (o : Z) : value := mk_date (year_of o) (month_of o) 1.
(* '{:04d}-Q{:1d}'.format(x.year, (x.month - 1) // 3 + 1) *)
Definition f_quarter (o : Z) : value :=
  VStr (pad0 4 (year_of o) ++ s2z "-Q" ++ nat_digits ((month_of o - 1) / 3 + 1)).
Definition day_names : list string := ["Mon"; "Tue"; "Wed"; "Thu"; "Fri"; "Sat"; "Sun"]%string.
(* x.strftime('%a') in the C locale *)
Definition f_weekday (o : Z) : value := VStr (s2z (nth (Z.to_nat (weekday o)) day_names ""%string)).

(* ---------- date_trunc ---------- *)
Inductive tunit := UWeek | UMonth | UQuarter | UYear | UDecade | UCentury | UMillennium.
Definition all_tunits := [UWeek; UMonth; UQuarter; UYear; UDecade; UCentury; UMillennium].
Definition tunit_name (u : tunit) : string :=
  match u with
  | UWeek => "week" | UMonth => "month" | UQuarter => "quarter" | UYear => "year"
  | UDecade => "decade" | UCentury => "century" | UMillennium => "millennium"
  end.
Definition tunit_of (f : list Z) : option tunit :=
  find (fun u => zeqb f (s2z (tunit_name u))) all_tunits.

Definition trunc_ymd (u : tunit) (t : Z * Z * Z) (o : Z) : value :=
  let '(y, m, d) := t in
  match u with
  | UWeek => add_days o (- weekday o)          (* x - relativedelta(weekday=MO(-1)) *)
  | UMonth => mk_date y m 1
  | UQuarter => mk_date y (m - (m - 1) mod 3) 1
  | UYear => mk_date y 1 1
  | UDecade => mk_date (y - y mod 10) 1 1
  | UCentury => mk_date (y - (y - 1) mod 100) 1 1
  | UMillennium => mk_date (y - (y - 1) mod 1000) 1 1
  end.
Definition trunc_u (u : tunit) (o : Z) : value := trunc_ymd u (ord2ymd o) o.

Definition trunc_opt (u : option tunit) (o : Z) : value :=
  match u with Some u => trunc_u u o | None => VNull end.
Definition date_trunc (field : list Z) (o : Z) : value := trunc_opt (tunit_of field) o.

(* ---------- date_part ---------- *)
Inductive punit := PWeekday | PIsoweekday | PWeek | PMonth | PQuarter | PYear | PIsoyear
                 | PDecade | PCentury | PMillennium | PEpoch.
Definition punit_names : list (string * punit) :=
  [("weekday", PWeekday); ("dow", PWeekday); ("isoweekday", PIsoweekday); ("isodow", PIsoweekday);
   ("week", PWeek); ("month", PMonth); ("quarter", PQuarter); ("year", PYear); ("isoyear", PIsoyear);
   ("decade", PDecade); ("century", PCentury); ("millennium", PMillennium); ("epoch", PEpoch)]%string.
Definition punit_of (f : list Z) : option punit :=
  option_map snd (find (fun p => zeqb f (s2z (fst p))) punit_names).

Definition EPOCH_ORD := 719163.   (* date(1970, 1, 1).toordinal() *)

Definition part_ymd (p : punit) (t : Z * Z * Z) (o : Z) : Z :=
  let '(y, m, d) := t in
  match p with
  | PWeekday => weekday o
  | PIsoweekday => isoweekday o
  | PWeek => snd (isocal_y y o)
  | PMonth => m
  | PQuarter => (m - 1) / 3 + 1
  | PYear => y
  | PIsoyear => fst (isocal_y y o)
  | PDecade => y / 10
  | PCentury => (y - 1) / 100 + 1
  | PMillennium => (y - 1) / 1000 + 1
  | PEpoch => (o - EPOCH_ORD) * 86400
  end.
Definition part_u (p : punit) (o : Z) : Z := part_ymd p (ord2ymd o) o.

Definition part_opt (p : option punit) (o : Z) : value :=
  match p with Some p => VInt (part_u p o) | None => VNull end.
Definition date_part (field : list Z) (o : Z) : value := part_opt (punit_of field) o.

(* ---------- date_add, date_diff, date +/- int, date - date ---------- *)
Definition date_add (o n : Z) : value := add_days o n.
Definition date_diff (x y : Z) : value := VInt (x - y).
Definition date_plus_int (o n : Z) : value := add_days o n.
Definition date_minus_int (o n : Z) : value := add_days o (- n).
Definition date_minus_date (x y : Z) : value := VInt (x - y).

(* ---------- dateutil.relativedelta(years=, months=, days=) ---------- *)
Record rdelta := mkrd { rd_years : Z; rd_months : Z; rd_days : Z }.

(* relativedelta.__init__ -> _fix(): |months| > 11 is carried into years *)
Definition rd_make (years months days : Z) : rdelta :=
  if 11 <? Z.abs months then
    let s := Z.sgn months in
    let a := Z.abs months in
    mkrd (years + (a / 12) * s) ((a mod 12) * s) days
  else mkrd years months days.

Definition rd_neg (r : rdelta) : rdelta := mkrd (- rd_years r) (- rd_months r) (- rd_days r).

(* relativedelta.__radd__(date) *)
Definition rd_add_ymd (t : Z * Z * Z) (r : rdelta) : value :=
  let '(y, m, d) := t in
  let year := y + rd_years r in
  let month := m + rd_months r in
  let '(year, month) :=
    if 12 <? month then (year + 1, month - 12)
    else if month <? 1 then (year - 1, month + 12) else (year, month) in
  if (year <? 1) || (9999 <? year) then VErr 1 else     (* dt.replace(year=...) ValueError *)
  let day := Z.min (days_in_month year month) d in
  add_days (ymd2ord year month day) (rd_days r).
Definition rd_add (o : Z) (r : rdelta) : value := rd_add_ymd (ord2ymd o) r.

Definition date_plus_rd (o : Z) (r : rdelta) : value := rd_add o r.
Definition date_minus_rd (o : Z) (r : rdelta) : value := rd_add o (rd_neg r).   (* __rsub__ *)

(* ---------- interval(str): re.fullmatch(r'([-+]?[0-9]+)\s+(day|month|year)s?', x) ---------- *)
Definition is_digit (c : Z) : bool := (48 <=? c) && (c <=? 57).
Definition is_space (c : Z) : bool := (c =? 32) || ((9 <=? c) && (c <=? 13)) || ((28 <=? c) && (c <=? 31)).

Fixpoint span (p : Z -> bool) (l : list Z) : list Z * list Z :=
  match l with
  | [] => ([], [])
  | c :: t => if p c then let '(a, b) := span p t in (c :: a, b) else ([], l)
  end.

Definition digits_val (ds : list Z) : Z := fold_left (fun a c => a * 10 + (c - 48)) ds 0.

Inductive iunit := IDay | IMonth | IYear.

Definition parse_interval (s : list Z) : option (iunit * Z) :=
  let '(neg, s1) := match s with
                    | 45 :: t => (true, t)
                    | 43 :: t => (false, t)
                    | _ => (false, s)
                    end in
  let '(ds, s2) := span is_digit s1 in
  let '(ws, s3) := span is_space s2 in
  match ds, ws with
  | [], _ | _, [] => None
  | _, _ =>
    let n := if neg then - digits_val ds else digits_val ds in
    if zeqb s3 (s2z "day") || zeqb s3 (s2z "days") then Some (IDay, n)
    else if zeqb s3 (s2z "month") || zeqb s3 (s2z "months") then Some (IMonth, n)
    else if zeqb s3 (s2z "year") || zeqb s3 (s2z "years") then Some (IYear, n)
    else None
  end.

Definition interval (s : list Z) : option rdelta :=
  match parse_interval s with
  | None => None
  | Some (IDay, n) => Some (rd_make 0 0 n)
  | Some (IMonth, n) => Some (rd_make 0 n 0)
  | Some (IYear, n) => Some (rd_make n 0 0)
  end.

(* BQL: d + interval(s), interval(s) + d, d - interval(s); NULL operands give NULL *)
Definition date_plus_interval (o : Z) (s : list Z) : value :=
  match interval s with None => VNull | Some r => date_plus_rd o r end.
Definition date_minus_interval (o : Z) (s : list Z) : value :=
  match interval s with None => VNull | Some r => date_minus_rd o r end.

(* ---------- date_bin ---------- *)
(* forward loop:  d = n = origin; while True: n += stride; if n > source: return d; d = n
   ([strict] = true is the comparison `n > source`, false is `n >= source`) *)
Fixpoint bin_fwd (strict : bool) (step : Z -> value) (fuel : nat) (d source : Z) : value :=
  match fuel with
  | O => VErr 9
  | S f =>
    match step d with
    | VDate n => if (if strict then source <? n else source <=? n) then VDate d
                 else bin_fwd strict step f n source
    | e => e
    end
  end.

(* backward loop:  n = origin; while True: n -= stride; if n <= source: return n *)
Fixpoint bin_bwd (step : Z -> value) (fuel : nat) (n source : Z) : value :=
  match fuel with
  | O => VErr 9
  | S f =>
    match step n with
    | VDate n' => if n' <=? source then VDate n' else bin_bwd step f n' source
    | e => e
    end
  end.

Definition date_bin_gen (strict : bool) (r : rdelta) (source origin : Z) : value :=
  if negb (rd_months r =? 0) || negb (rd_years r =? 0) then
    match rd_add origin r with
    | VDate o1 =>
      if o1 <=? origin then VNull else
      if origin <=? source
      then bin_fwd strict (fun n => rd_add n r) (Z.to_nat (source - origin + 1)) origin source
      else bin_bwd (fun n => rd_add n (rd_neg r)) (Z.to_nat (origin - source + 1)) origin source
    | e => e
    end
  else
    let k := rd_days r in
    if k <? 0 then VNull else
    if k =? 0 then VErr 4 else
    (* diff = (source - origin) seconds; result = origin + (diff - diff % seconds) *)
    VDate (origin + ((source - origin) / k) * k).

(* the code as it stands after the D6 repair (`if n > source`) *)
Definition date_bin_rd := date_bin_gen true.
(* the code before the repair (`if n >= source`) *)
Definition date_bin_rd_old := date_bin_gen false.

(* date_bin(str, date, date): stride = interval(stride); if stride is None: return None;
   return date_bin(stride, source, origin) *)
Definition date_bin (stride : list Z) (source origin : Z) : value :=
  match interval stride with None => VNull | Some r => date_bin_rd r source origin end.

(* range of the exhaustive statements: 1900-01-01 .. 2100-12-31 *)
Definition LO := 693596.
Definition HI := 767009.
Definition NDATES : positive := 73414.
