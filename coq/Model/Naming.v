(* Model of result shape and naming: compiler.get_target_name, wildcard expansion
   (compiler._compile_targets), and the description / row projection of
   query_execute.execute_select (result_types, result_indexes). *)
From Coq Require Import ZArith List Bool.
Import ListNotations.
From Verif Require Import Base.Out Base.PyValue.
Open Scope Z_scope.

Definition str := list Z.

(* characters removed by str.strip() (ASCII range) *)
Definition is_ws (c : Z) : bool :=
  (c =? 32) || ((9 <=? c) && (c <=? 13)) || ((28 <=? c) && (c <=? 31)).

Fixpoint lstrip (s : str) : str :=
  match s with [] => [] | c :: t => if is_ws c then lstrip t else s end.
Definition strip (s : str) : str := rev (lstrip (rev (lstrip s))).

(* a parsed target: AS name, whether the expression is a bare Column (its name), the expression's source slice *)
Record ptarget := { p_alias : option str; p_column : option str; p_text : str }.

Definition target_name (t : ptarget) : str :=
  match p_alias t with
  | Some a => a
  | None => match p_column t with Some c => c | None => strip (p_text t) end
  end.

(* a compiled target: name (None = hidden helper) and datatype tag *)
Record ctarget := { c_name : option str; c_type : Z }.

Definition description (ts : list ctarget) : list (str * Z) :=
  flat_map (fun t => match c_name t with Some n => [(n, c_type t)] | None => [] end) ts.

Definition result_indexes (ts : list ctarget) : list nat :=
  flat_map (fun it : nat * ctarget => match c_name (snd it) with Some _ => [fst it] | None => [] end)
           (combine (seq 0 (length ts)) ts).

(* SELECT *: one bare-column target per wildcard column, in the table's order *)
Definition expand_wildcard (wildcard : list str) : list ptarget :=
  map (fun n => {| p_alias := None; p_column := Some n; p_text := n |}) wildcard.

Definition name_out (alias col : option str) (text : str) : out :=
  o_str (target_name {| p_alias := alias; p_column := col; p_text := text |}).
