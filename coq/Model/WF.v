(* Declarative well-formedness of a statement: the judgement  [Den sch pv e tbl r]  "over table tbl, expression e
   denotes the compiled result r".  One rule per AST constructor; the premises are conditions, not an order of checks:
   every sub-expression denotes something, an overload exists for the operand types (the per-node conditions
   build_unary / build_binary / build_between / build_function / compile_attribute ... = Ok, each characterised as
   "an overload exists" in Proofs/CompileProofs.v), the aggregate rules hold, and a GROUP BY / ORDER BY reference
   denotes a target by position | a target by name | the first target whose compiled node is equal (node_eqb) |
   a new hidden target.  No proofs here. *)
From Coq Require Import String ZArith List Bool.
Import ListNotations.
From Verif Require Import Base.Out Base.PyValue Model.Compile.
Open Scope string_scope.
Open Scope list_scope.

Section Clauses.
(* the judgement on sub-expressions, abstract here so that the clause rules below are ordinary (non-mutual) inductives *)
Variable D : expr -> table -> cres -> Prop.
Variable sch : schema.
Definition DN (tbl : table) (e : expr) (n : cnode) : Prop := D e tbl (RNode n).

(* OPEN not after CLOSE *)
Definition open_close_ok (op : option Z) (cl : option (option Z)) : bool :=
  match op, cl with Some o, Some (Some c) => negb (c <? o)%Z | _, _ => true end.

(* FROM: no clause | an existing table | a subquery without PIVOT BY | an aggregate-free expression with
   OPEN <= CLOSE over a table that supports the qualifiers *)
Inductive FromDen (tbl : table) : fromkind -> option expr -> table -> option cnode -> Prop :=
| FDNone : forall fe, FromDen tbl FKNone fe tbl None
| FDTable : forall n fe t, find_table sch n = Some t -> FromDen tbl (FKTable n) fe t None
| FDSelect : forall sub q, D sub tbl (RQuery q) -> cq_pivots q = None ->
             FromDen tbl FKSelect (Some sub) (subquery_table q) None
| FDQualifiers : forall op cl clr, open_close_ok op cl = true -> t_updatable tbl = true ->
                 FromDen tbl (FKExpr op cl clr) None tbl None
| FDExpr : forall op cl clr x n, DN tbl x n -> has_agg n = false -> open_close_ok op cl = true ->
           t_updatable tbl = true -> FromDen tbl (FKExpr op cl clr) (Some x) tbl (Some n).

(* targets: every expression denotes a node that obeys the aggregate rules; its name by the name rule *)
Inductive TargetsDen (tb : table) : list (expr * option string * string) -> list ctarget -> Prop :=
| TDNil : TargetsDen tb [] []
| TDCons : forall x alias text rest n cs,
    DN tb x n -> check_aggregates n = None -> TargetsDen tb rest cs ->
    TargetsDen tb ((x, alias, text) :: rest) (mk_target n (Some (target_name x alias text)) (has_agg n) :: cs).

Inductive TargetsClause (tb : table) : option (list (expr * option string * string)) -> list ctarget -> Prop :=
| TCList : forall l cs, TargetsDen tb l cs -> TargetsClause tb (Some l) cs
| TCWildcard : forall cs, wildcard_targets tb = Ok cs -> TargetsClause tb None cs.   (* every wildcard column exists *)

Definition key_by_name (x : expr) (name_map : list (string * nat)) : option nat :=
  match key_name x with Some n => assoc_last n name_map | None => None end.

(* what a GROUP BY / ORDER BY reference denotes, given the targets so far: (targets after it, index) *)
Inductive KeyDen (tb : table) (bound : nat) (name_map : list (string * nat)) (chk : cnode -> option cerr)
          (new_agg : cnode -> bool) : (Z + expr) -> list ctarget -> list ctarget -> nat -> Prop :=
| KPosition : forall z ts i, nat_index z bound = Some i -> KeyDen tb bound name_map chk new_agg (inl z) ts ts i
| KName : forall x ts i, key_by_name x name_map = Some i -> KeyDen tb bound name_map chk new_agg (inr x) ts ts i
| KEqualTarget : forall x n ts i,
    key_by_name x name_map = None -> DN tb x n -> chk n = None ->
    index_of n (map ct_expr ts) 0 = Some i ->            (* the FIRST target whose node equals n *)
    KeyDen tb bound name_map chk new_agg (inr x) ts ts i
| KNewHidden : forall x n ts,
    key_by_name x name_map = None -> DN tb x n -> chk n = None ->
    index_of n (map ct_expr ts) 0 = None ->
    KeyDen tb bound name_map chk new_agg (inr x) ts (ts ++ [mk_target n None (new_agg n)]) (length ts).

Definition group_chk (n : cnode) : option cerr := if has_agg n then Some EGroupAgg else None.

(* GROUP BY keys left to right: each denotes a non-aggregate target of hashable type *)
Inductive GroupDen (tb : table) (bound : nat) (name_map : list (string * nat))
  : list (Z + expr) -> list ctarget -> list nat -> list ctarget -> list nat -> Prop :=
| GDNil : forall ts gi, GroupDen tb bound name_map [] ts gi ts gi
| GDCons : forall c rest ts gi ts1 i t ts' gi',
    KeyDen tb bound name_map group_chk (fun _ => false) c ts ts1 i ->
    nth_error ts1 i = Some t -> has_agg (ct_expr t) = false -> hashable (dtype (ct_expr t)) = true ->
    GroupDen tb bound name_map rest ts1 (gi ++ [i]) ts' gi' ->
    GroupDen tb bound name_map (c :: rest) ts gi ts' gi'.

Inductive OrderDen (tb : table) (bound : nat) (name_map : list (string * nat))
  : list ((Z + expr) * bool) -> list ctarget -> list (nat * bool) -> list ctarget -> list (nat * bool) -> Prop :=
| ODNil : forall ts spec, OrderDen tb bound name_map [] ts spec ts spec
| ODCons : forall c d rest ts spec ts1 i ts' spec',
    KeyDen tb bound name_map check_aggregates has_agg c ts ts1 i ->
    OrderDen tb bound name_map rest ts1 (spec ++ [(i, d)]) ts' spec' ->
    OrderDen tb bound name_map ((c, d) :: rest) ts spec ts' spec'.

Inductive WhereDen (tb : table) : option expr -> option cnode -> Prop :=
| WDNone : WhereDen tb None None
| WDSome : forall x n, DN tb x n -> has_agg n = false -> WhereDen tb (Some x) (Some n).

(* GROUP BY ... [HAVING aggregate expression]; without the clause: implicit grouping by the non-aggregate targets *)
Inductive GroupClauseDen (tb : table) (c_targets : list ctarget)
  : option (list (Z + expr) * option expr) -> list ctarget -> option (list nat) -> option nat -> Prop :=
| GCImplicit : forall ts g h, compile_group_by c_targets None = Ok (ts, g, h) ->
               GroupClauseDen tb c_targets None ts g h
| GCKeys : forall cols ts gi,
    GroupDen tb (length c_targets) (names_of c_targets) cols c_targets [] ts gi ->
    GroupClauseDen tb c_targets (Some (cols, None)) ts (Some gi) None
| GCHaving : forall cols hx ts gi n,
    GroupDen tb (length c_targets) (names_of c_targets) cols c_targets [] ts gi ->
    DN tb hx n -> check_aggregates n = None -> has_agg n = true ->
    GroupClauseDen tb c_targets (Some (cols, Some hx)) (ts ++ [mk_target n None true]) (Some gi) (Some (length ts)).

Inductive OrderClauseDen (tb : table) (ts1 : list ctarget)
  : list ((Z + expr) * bool) -> list ctarget -> option (list (nat * bool)) -> Prop :=
| OCNone : OrderClauseDen tb ts1 [] ts1 None
| OCKeys : forall c rest ts2 spec,
    OrderDen tb (length (visible ts1)) (names_of ts1) (c :: rest) ts1 [] ts2 spec ->
    OrderClauseDen tb ts1 (c :: rest) ts2 (Some spec).

Definition where_node (c_from c_where : option cnode) : option cnode :=
  match c_from, c_where with
  | Some f, Some w => Some (NAnd [f; w])
  | Some f, None => Some f
  | None, w => w
  end.

(* the non-aggregate targets are exactly the group indexes *)
Definition covered (ts : list ctarget) (g : option (list nat)) : Prop :=
  forall gi, g = Some gi -> forall i, In i gi <-> In i (nonagg_indexes ts).

(* a SELECT from its WHERE clause on *)
Inductive TailDen (tb : table) (c_from : option cnode) (c_targets : list ctarget)
          (wh : option expr) (grp : option (list (Z + expr) * option expr)) (ord : list ((Z + expr) * bool))
          (piv : option (pcol * pcol)) (lim : option Z) (dist : bool) : cquery -> Prop :=
| TailRule : forall c_where ts1 g h ts2 o pivots,
    WhereDen tb wh c_where ->
    GroupClauseDen tb c_targets grp ts1 g h ->
    OrderClauseDen tb ts1 ord ts2 o ->
    (g = None -> existsb ct_agg (skipn (length ts1) ts2) = false) ->      (* no aggregate ORDER BY key without grouping *)
    covered ts2 g ->
    compile_pivot_by ts2 g piv = Ok pivots ->
    TailDen tb c_from c_targets wh grp ord piv lim dist
            (mk_query tb ts2 (where_node c_from c_where) g h o lim dist pivots).
End Clauses.

Section Judgement.
Variable sch : schema.
Variable pv : pvals.

Inductive Den : expr -> table -> cres -> Prop :=
| DColumn : forall tbl name n, compile_column tbl name = Ok n -> Den (EColumn name) tbl (RNode n)
| DAnd : forall tbl args ns, Forall2 (fun x n => Den x tbl (RNode n)) args ns -> Den (EAnd args) tbl (RNode (NAnd ns))
| DOr : forall tbl args ns, Forall2 (fun x n => Den x tbl (RNode n)) args ns -> Den (EOr args) tbl (RNode (NOr ns))
| DFunction : forall tbl f args ops n,
    Forall2 (fun x n => Den x tbl (RNode n)) args ops -> build_function tbl f ops = Ok n ->
    Den (EFunction f args) tbl (RNode n)
| DSubscript : forall tbl x k n, Den x tbl (RNode n) -> isdict (dtype n) = true ->
               Den (ESubscript x k) tbl (RNode (NGetItem n k))
| DAttribute : forall tbl x name n g, Den x tbl (RNode n) -> compile_attribute n name = Ok g ->
               Den (EAttribute x name) tbl (RNode g)
| DUnary : forall tbl op x n u, Den x tbl (RNode n) -> build_unary op n = Ok u -> Den (EUnary op x) tbl (RNode u)
| DBetween : forall tbl a lo hi x l h b,
    Den a tbl (RNode x) -> Den lo tbl (RNode l) -> Den hi tbl (RNode h) -> build_between x l h = Ok b ->
    Den (EBetween a lo hi) tbl (RNode b)
| DBinary : forall tbl op l r x y b,
    is_in_op op = false -> Den l tbl (RNode x) -> Den r tbl (RNode y) -> build_binary op x y = Ok b ->
    Den (EBinary op l r) tbl (RNode b)
| DIn : forall tbl op l r x y n,                   (* no condition on the operand types: see C05_in_operand_types_refuted *)
    is_in_op op = true -> Den l tbl (RNode x) -> Den r tbl y -> build_in_any op x y = Ok n ->
    Den (EBinary op l r) tbl (RNode n)
| DConstant : forall tbl v, Den (EConstant v) tbl (RNode (NConst v (type_of_cval v "object")))
| DPlaceholder : forall tbl name pos n, compile_placeholder pv name pos = Ok n -> Den (EPlaceholder name pos) tbl (RNode n)
| DAsterisk : forall tbl, Den EAsterisk tbl (RNode (NConst (CScalar VNull) "*"))
| DSelect : forall tbl targets fk fe wh grp ord piv lim dist tb c_from c_targets q,
    FromDen Den sch tbl fk fe tb c_from ->
    TargetsClause Den tb targets c_targets ->
    TailDen Den tb c_from c_targets wh grp ord piv lim dist q ->
    Den (ESelect targets fk fe wh grp ord piv lim dist) tbl (RQuery q).
End Judgement.

(* a SELECT statement is well-formed: its parameters fit its placeholders, subqueries stand only where they are
   supported, and over the default table it denotes a query *)
Definition WF (sch : schema) (p : params) (st : stmt) : Prop :=
  match st with
  | SSelect e =>
      exists pv q, bind_params p (stmt_placeholders st) = Ok pv
                   /\ stmt_subqueries_ok st = true
                   /\ Den sch pv e (default_table sch "postings") (RQuery q)
  | _ => False
  end.
