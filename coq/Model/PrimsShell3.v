(* Primitive semantics and encodings of group `shell3` (C19, bld-shell3): the whole of BQLShell.do_run
   (Gen/SrcShell3.v).  Definitions only; proofs in Proofs/SrcShell3.v.

   Trusted here (on top of Model/PrimsApi.v, PrimsShell.v, PrimsShell2.v):
   * self.queries (a dict name -> Query directive, names unique) is encoded as the LIST of its items, in insertion
     order, each a pair (name, directive record with query_string and date): so `if self.queries` is false exactly for
     the empty dict (PyMini's truth of a list); `.items()` is the TUPLE of the same pairs (a different shape, so that
     sorted() can tell the dict from its items view);
   * sorted(dict) = the names in Shell.sort_q's order, sorted(dict.items()) = the pairs in that order (names are
     unique, so tuples compare by name only): Model/Shell.v's own model of sorted();
   * dict.get(name) = the directive of that name or None;
   * s.rstrip(chars) = Shell.rstrip_by (membership in chars); sep.join(list of str) = [join_sep];
   * shlex.split = Shell.shlex_split (ValueError otherwise), `x, *rest = l`: as in PrimsShell2.v. *)
From Coq Require Import String Ascii ZArith List Bool.
Import ListNotations.
From Verif Require Import Base.PyValue Model.Eval Model.PyMini Model.PrimsApi Model.PrimsShell Model.PrimsShell2.
From Verif Require Model.Shell.
Open Scope string_scope.
Open Scope list_scope.
Open Scope Z_scope.

Definition enc_qitem (q : Shell.query_directive) : pv := PTuple [PS (Shell.q_name q); enc_qdir q].
Definition enc_qitems (qs : list Shell.query_directive) : list pv := map enc_qitem qs.

Definition dec_qitem (v : pv) : option Shell.query_directive :=
  match v with
  | PTuple [PV (VStr n); PTuple [PV (VStr tag); PList [PTuple [_; PV (VStr t)]; PTuple [_; PV (VInt d)]]]] =>
      if zeqb tag qdir_tag then Some {| Shell.q_name := n; Shell.q_text := t; Shell.q_date := d |} else None
  | _ => None
  end.
Fixpoint dec_qitems (l : list pv) : option (list Shell.query_directive) :=
  match l with
  | [] => Some []
  | v :: t => match dec_qitem v, dec_qitems t with Some q, Some r => Some (q :: r) | _, _ => None end
  end.

Fixpoint join_sep (sep : list Z) (l : list (list Z)) : list Z :=
  match l with
  | [] => []
  | [x] => x
  | x :: t => x ++ sep ++ join_sep sep t
  end.
Fixpoint dec_strs (l : list pv) : option (list (list Z)) :=
  match l with
  | [] => Some []
  | PV (VStr s) :: t => match dec_strs t with Some r => Some (s :: r) | None => None end
  | _ => None
  end.

Section Prims.
Variable call_ref : nat -> list pv -> pv.
Variable msg : string -> list pv -> pv.

Definition no_adapter : fdef := {| f_params := []; f_body := []; f_gen := false |}.

Definition prim_shell3 (name : string) (args : list pv) : res pv :=
  if String.eqb name "call:rstrip" then
    match args with
    | [PV (VStr a); PV (VStr cs)] => Ok (PS (Shell.rstrip_by (fun c => Shell.has c cs) a))
    | _ => Stuck
    end
  else if String.eqb name "builtins.sorted" then
    match args with
    | [PList l] => match dec_qitems l with
                   | Some qs => Ok (PList (map (fun q => PS (Shell.q_name q)) (Shell.sort_q qs)))
                   | None => Stuck
                   end
    | [PTuple l] => match dec_qitems l with
                    | Some qs => Ok (PList (enc_qitems (Shell.sort_q qs)))
                    | None => Stuck
                    end
    | _ => Stuck
    end
  else if String.eqb name "call:items" then
    match args with [PList l] => Ok (PTuple l) | _ => Stuck end
  else if String.eqb name "call:join" then
    match args with
    | [PV (VStr sep); PList l] => match dec_strs l with Some ss => Ok (PS (join_sep sep ss)) | None => Stuck end
    | _ => Stuck
    end
  else if String.eqb name "call:get" then
    match args with
    | [PList l; k] => Ok (match assoc k l with Some v => v | None => PNone end)
    | _ => Stuck
    end
  else prim_shell2 call_ref msg no_adapter no_adapter name args.
End Prims.

(* the shell object as far as do_run reads it *)
Definition run3_flds (qs : list Shell.query_directive) (evs : list pv) : env :=
  [("queries", PList (enc_qitems qs)); ("$events", PList evs)].
