(* C18 -- entry points used by the correspondence runner (harness/vf/c18.py): one function per
   group of BQL targets, mapping one argument tuple to the list of model results, in the order of
   the SELECT targets of that group. *)
From Coq Require Import String ZArith List Bool.
Import ListNotations.
From Verif Require Import Base.Out Base.PyValue Model.Dates Model.StrFuncs.
Open Scope Z_scope.
Open Scope list_scope.

Definition ov (l : list value) : out := OL (map o_value l).

(* G1: date_trunc(f, d) for f in tf, date_part(f, d) for f in pf, year month day yearmonth quarter
   weekday, str(d), date(str(d)) *)
Definition g_dates (tf pf : list (list Z)) : Z -> out :=
  (* the dispatch on the field name does not depend on the date: date_trunc f o = trunc_opt (tunit_of f) o *)
  let tus := map tunit_of tf in
  let pus := map punit_of pf in
  fun o =>
  (* trunc_u u o = trunc_ymd u (ord2ymd o) o and part_u p o = part_ymd p (ord2ymd o) o by definition:
     ord2ymd is computed once per date *)
  let t := ord2ymd o in
  OL (map (fun u => o_value (match u with Some u => trunc_ymd u t o | None => VNull end)) tus
      ++ map (fun p => o_value (match p with Some p => VInt (part_ymd p t o) | None => VNull end)) pus
      ++ map o_value [f_year o; f_month o; f_day o; f_yearmonth o; f_quarter o; f_weekday o]
      ++ [o_xval (cast_str (XV (VDate o))); o_xval (cast_date (cast_str (XV (VDate o))))]).

(* G2: date_add(d, n), date_diff(d, e), d + n, n + d, d - n, d - e *)
Definition g_arith (a : Z * Z * Z) : out :=
  let '(d, e, n) := a in
  ov [date_add d n; date_diff d e; date_plus_int d n; date_plus_int d n; date_minus_int d n;
      date_minus_date d e].

(* G3: d + interval(s), interval(s) + d, d - interval(s) *)
Definition g_interval (a : Z * list Z) : out :=
  let '(d, s) := a in
  ov [date_plus_interval d s; date_plus_interval d s; date_minus_interval d s].

(* G4: date_bin(s, d, o) *)
Definition g_bin (a : list Z * Z * Z) : out :=
  let '(s, d, o) := a in ov [date_bin s d o].

(* G5: root(a, n), root(a), parent(a), leaf(a), account_sortkey(a), possign(x, a) *)
Definition g_acct (types : list (list Z)) (r : list Z * Z * dec) : out :=
  let '(a, n, x) := r in
  ov [f_root a n; f_root a 1; f_parent a; f_leaf a; f_account_sortkey types a; f_possign types x a].

(* G6a: substr(s, i, j), upper(s), lower(s), length(s), maxwidth(s, i) *)
Definition g_substr (r : list Z * Z * Z) : out :=
  let '(s, i, j) := r in ov [f_substr s i j; f_upper s; f_lower s; f_length s; f_maxwidth s i].

(* G6b: splitcomp(s, delim, i) *)
Definition g_split (r : list Z * list Z * Z) : out :=
  let '(s, dl, i) := r in ov [f_splitcomp s dl i].

(* G6c: maxwidth(s, n) *)
Definition g_maxw (r : list Z * Z) : out := let '(s, n) := r in ov [f_maxwidth s n].

(* G6d: grep(p, s), grepn(p, s, n), subst(p, r, s) with literal patterns *)
Definition g_regex (a : list Z * list Z * Z * list Z) : out :=
  let '(p, s, n, r) := a in ov [f_grep_lit p s; f_grepn_lit p s n; f_subst_lit p r s].

(* G6e: joinstr(vs), findfirst(p, vs) *)
Definition g_set (a : list Z * list (list Z)) : out :=
  let '(p, vs) := a in ov [f_joinstr vs; f_findfirst_lit p vs].

(* G7a: abs(x), neg(x), -x, round(x), round(x, n) *)
Definition g_dec1 (a : dec * Z) : out :=
  let '(x, n) := a in ov [f_abs x; f_neg x; f_neg x; f_round_dec x 0; f_round_dec x n].

(* G7b: safediv(x, y), safediv(x, i) *)
Definition g_div (a : dec * dec * Z) : out :=
  let '(x, y, i) := a in ov [f_safediv x y; f_safediv_int x i].

(* G7c: round(z), round(z, n), -z *)
Definition g_int (a : Z * Z) : out :=
  let '(z, n) := a in ov [f_round_int z 0; f_round_int z n; f_neg_int z].

(* G8: bool(x), int(x), decimal(x), str(x), date(x) *)
Definition g_cast (x : xval) : out :=
  OL (map o_xval [cast_bool x; cast_int x; cast_decimal x; cast_str x; cast_date x]).
(* the same with the pre-repair int() *)
Definition g_cast_old (x : xval) : out :=
  OL (map o_xval [cast_bool x; cast_int_gen false x; cast_decimal x; cast_str x; cast_date x]).

(* G8b: date(y, m, d) *)
Definition g_date3 (a : Z * Z * Z) : out := let '(y, m, d) := a in ov [cast_date3 y m d].

(* G9: parse_date(s, '%Y-%m-%d') (strptime; ValueError is not caught there) and parse_date(s) on ISO dates *)
Definition g_pdate (s : list Z) : out :=
  ov [match parse_date s with VDate o => VDate o | _ => VErr 1 end].
