(* C12 - model of the `balance` column of the postings table (query_env.py:
   Row, PostingsTable.__iter__, balance) and of the non-aggregated row loop of
   query_execute.execute_select, as far as the running balance is concerned.

   The balance column is STATEFUL and LAZY: the row context carries a running
   Inventory; the first reference to `balance` in a row adds the row's posting
   to it and memoises a copy under the rowid; further references in the same
   row return the memo.  Rows in which nothing references `balance` do not
   advance it.

   An expression evaluated on a row is abstracted as a [prog]: a computation
   that may reference `balance` any number of times and may decide adaptively
   (on the values it gets) whether to reference it again - this covers target
   lists with k references, WHERE clauses, and short-circuiting AND/OR. *)
From Coq Require Import ZArith List Bool.
From Verif Require Import Base.Out Model.Inventory.
Import ListNotations.
Open Scope Z_scope.

(* ---- the Row context (after fix 960d829: the memo lives on the Row) ---- *)
Record rowst := mkrow {
  rowid : Z;                          (* Row.rowid *)
  rbal : inventory;                   (* Row.balance: the running Inventory *)
  memo : option (Z * inventory)       (* Row.balance_rowid / Row.balance_value *)
}.

(* Row.__init__ *)
Definition row_init : rowst := mkrow 0 [] None.

(* PostingsTable.__iter__: context.rowid += 1; context.posting = posting; yield context *)
Definition next_row (st : rowst) : rowst := mkrow (rowid st + 1) (rbal st) (memo st).

Definition memo_hit (st : rowst) : option inventory :=
  match memo st with
  | Some (id, v) => if id =? rowid st then Some v else None
  | None => None
  end.

(* def balance(context):
     if context.balance_rowid != context.rowid:
         context.balance.add_position(context.posting)
         context.balance_value = copy.copy(context.balance)
         context.balance_rowid = context.rowid
     return context.balance_value *)
Definition balance_col (st : rowst) (posting : position) : rowst * inventory :=
  match memo_hit st with
  | Some v => (st, v)
  | None =>
      let b := add_position (rbal st) posting in
      (mkrow (rowid st) b (Some (rowid st, b)), b)
  end.

(* ---- expressions referencing balance ---- *)
Inductive prog (A : Type) : Type :=
| Ret (a : A)
| Ref (k : inventory -> prog A).
Arguments Ret {A} a.
Arguments Ref {A} k.

Fixpoint bind {A B} (p : prog A) (f : A -> prog B) : prog B :=
  match p with
  | Ret a => f a
  | Ref k => Ref (fun v => bind (k v) f)
  end.

(* evaluation on the current row *)
Fixpoint run {A} (p : prog A) (st : rowst) (posting : position) : rowst * A :=
  match p with
  | Ret a => (st, a)
  | Ref k => let (st', v) := balance_col st posting in run (k v) st' posting
  end.

(* specification-level evaluation: every reference yields [v]; the flag tells
   whether balance was referenced at all *)
Fixpoint pure_run {A} (p : prog A) (v : inventory) : A * bool :=
  match p with
  | Ret a => (a, false)
  | Ref k => (fst (pure_run (k v) v), true)
  end.

(* a target list that references balance n times and returns all the values *)
Fixpoint refs (n : nat) : prog (list inventory) :=
  match n with
  | O => Ret []
  | S m => Ref (fun v => bind (refs m) (fun l => Ret (v :: l)))
  end.

(* ---- the row loop (execute_select, non-aggregated branch):
     for context in query.table:
         if c_where is None or c_where(context):
             values = [c_expr(context) for c_expr in c_target_exprs]
             rows.append(values) ---- *)
Section Exec.
  Variable R : Type.                      (* a posting row *)
  Variable posting_of : R -> position.
  Variable T : Type.                      (* a result row *)
  Variable c_where : option (R -> prog bool).
  Variable c_targets : R -> prog T.

  Fixpoint scan (st : rowst) (rows : list R) : list T :=
    match rows with
    | [] => []
    | r :: t =>
        let st1 := next_row st in
        let '(st2, ok) := match c_where with
                          | None => (st1, true)
                          | Some w => run (w r) st1 (posting_of r)
                          end in
        if ok then
          let '(st3, vals) := run (c_targets r) st2 (posting_of r) in
          vals :: scan st3 t
        else scan st2 t
    end.

  Definition execute (rows : list R) : list T := scan row_init rows.

  (* the law the loop obeys, without any state but the running balance *)
  Fixpoint scan_spec (bal : inventory) (rows : list R) : list T :=
    match rows with
    | [] => []
    | r :: t =>
        let v := add_position bal (posting_of r) in
        let '(ok, tw) := match c_where with
                         | None => (true, false)
                         | Some w => pure_run (w r) v
                         end in
        if ok then
          let '(vals, tg) := pure_run (c_targets r) v in
          vals :: scan_spec (if orb tw tg then v else bal) t
        else scan_spec (if tw then v else bal) t
    end.
End Exec.

(* running sums: k-th element = sum of the first k+1 positions *)
Fixpoint prefix_sums (bal : inventory) (l : list position) : list inventory :=
  match l with
  | [] => []
  | p :: t => let v := add_position bal p in v :: prefix_sums v t
  end.

(* ---- concrete expressions for the correspondence ---- *)
Definition is_empty (inv : inventory) : bool := match inv with [] => true | _ => false end.

(* WHERE clauses: [WMask] is any condition not consulting balance (its truth
   value per posting is computed by the harness from the ledger);
   EvalAnd / EvalOr short-circuit left to right (no NULLs occur here) *)
Inductive wexpr := WMask | WEmptyBal | WNot (e : wexpr) | WAnd (a b : wexpr) | WOr (a b : wexpr).

Fixpoint weval (e : wexpr) (mask : bool) : prog bool :=
  match e with
  | WMask => Ret mask
  | WEmptyBal => Ref (fun v => Ret (is_empty v))
  | WNot e => bind (weval e mask) (fun b => Ret (negb b))
  | WAnd a b => bind (weval a mask) (fun x => if x then weval b mask else Ret false)
  | WOr a b => bind (weval a mask) (fun x => if x then Ret true else weval b mask)
  end.

(* result cells *)
Inductive cell := CInv (i : inventory) | CBool (b : bool).

(* targets.  [TOther] is any column not consulting balance.  Two LAZY shapes, whose
   per-row [flag] is computed by the harness from the ledger:
   [TFlagAndEmpty] = `<flag> AND empty(balance)` (EvalAnd stops at a false flag);
   [TFirstBal] = first(balance) in an aggregate query: First.update evaluates its
   operand only while the group's store is empty, flag = "first selected row of its group". *)
Inductive titem := TBalance | TUnitsBal | TCostBal (one : Z) | TOther | TFlagAndEmpty | TFirstBal.

Fixpoint teval (flag : bool) (l : list titem) : prog (list cell) :=
  match l with
  | [] => Ret []
  | TOther :: t => teval flag t
  | TBalance :: t => Ref (fun v => bind (teval flag t) (fun r => Ret (CInv v :: r)))
  | TUnitsBal :: t => Ref (fun v => bind (teval flag t) (fun r => Ret (CInv (inventory_units v) :: r)))
  | TCostBal one :: t => Ref (fun v => bind (teval flag t) (fun r => Ret (CInv (inventory_cost one v) :: r)))
  | TFlagAndEmpty :: t =>
      if flag then Ref (fun v => bind (teval flag t) (fun r => Ret (CBool (is_empty v) :: r)))
      else bind (teval flag t) (fun r => Ret (CBool false :: r))
  | TFirstBal :: t =>
      if flag then Ref (fun v => bind (teval flag t) (fun r => Ret (CInv v :: r)))
      else teval flag t
  end.

(* posting, (truth value of the balance-free condition, lazy-target flag) *)
Definition prow := (position * (bool * bool))%type.

Definition run_query (w : option wexpr) (targets : list titem) (rows : list prow) : list (list cell) :=
  execute prow fst (list cell)
          (match w with None => None | Some e => Some (fun r : prow => weval e (fst (snd r))) end)
          (fun r => teval (snd (snd r)) targets) rows.

Definition o_cell (c : cell) : out :=
  match c with CInv i => OL [ON 0; o_inv i] | CBool b => OL [ON 1; o_bool b] end.

Definition o_query (w : option wexpr) (targets : list titem) (rows : list prow) : out :=
  OL (map (fun r => OL (map o_cell r)) (run_query w targets rows)).

(* ---- the design before the fix: ONE process-wide entry in front of the column
   (functools.lru_cache(maxsize=1) keyed by the Row object, whose hash is the
   rowid and whose equality is identity).  Kept to exhibit why it was wrong. ---- *)
Definition shared_cache := option ((Z * Z) * inventory).   (* ((row object, rowid), value) *)

Definition balance_col_shared (c : shared_cache) (obj : Z) (st : rowst) (posting : position)
  : shared_cache * rowst * inventory :=
  let miss := let b := add_position (rbal st) posting in
              (Some ((obj, rowid st), b), mkrow (rowid st) b None, b) in
  match c with
  | Some ((o, id), v) => if (o =? obj) && (id =? rowid st) then (c, st, v) else miss
  | None => miss
  end.
