(* Primitive semantics and value encodings for the translator-based tie of the decision cores of the compiler
   (groups `lookup` and `compiler` of harness/vf/src_compiler.py: Gen/SrcLookup.v from beanquery/types.py,
   Gen/SrcCompiler.v from beanquery/compiler.py).  Definitions only; proofs are in Proofs/SrcLookup.v and
   Proofs/SrcCompiler.v.  Part of the trusted base of the C05_source_* theorems: how the Python objects the translated
   code touches are ENCODED as [pv], and what each attribute read / library call / method the code makes on them is
   taken to return ([prim_compiler]).  The control flow - which reference is tried first, which range is checked
   against what, which check raises which error in which order, what is appended where - is what the translated source
   says and is proved equal to Model/Compile.v.

   ENCODINGS
   * a BQL datatype (a Python class, types.Any, types.Asterisk) is the string the registry snapshot gives it
     (harness/vf/gen_registry.tname): [PStr "int"], "Decimal", "NoneType", "object", "any", "*", ...
     "type:<t>" [] is that value (translator rule K10), "is:<t>" [x] is identity with it, "attr:__mro__" reads the
     parameter [mro] (the method resolution order; the table of the live classes is emitted next to the generated terms
     and compared with the snapshot's bases in Proofs/SrcLookup.v).
   * a COMPILED NODE (an EvalNode instance) is a reference [nref i] into a heap [tbl : nat -> Compile.cnode] - Python
     objects are references too; every statement about a node is about [tbl i].  What the code reads of a node:
       attr:dtype -> Compile.dtype;   childnodes() -> the references [kids i] (a parameter; the theorems that use it
       assume  map tbl (kids i) = Compile.children (tbl i));   isinstance(_, EvalAggregator / EvalColumn /
       EvalConstant) -> the node's constructor;   l.index(x) -> the first position whose node is equal to x in the
       sense of EvalNode.__eq__ (= Compile.node_eqb, the element on the left), ValueError when there is none.
   * an EvalTarget namedtuple, a parser AST node (ast.Column, ast.OrderBy, ast.GroupBy, ast.PivotBy), a registered
     overload (a class with __intypes__) are tagged records (PrimsApi.record): class name and attributes.
   * a dict is PrimsApi's: items in insertion order, a later item shadows an earlier one.
   * raise E(msg): the kind is a function of the class and of the leading constant text of the message ([exc_code]):
     CompilationError texts are mapped to 1000 + Compile.cerr_code of the model's error constructor.  Message texts
     (f-strings) are an uninterpreted oracle [msg]. *)
From Coq Require Import String Ascii ZArith List Bool.
Import ListNotations.
From Verif Require Import Base.PyValue Model.Eval Model.PyMini Model.PrimsApi.
From Verif Require Model.Compile.
Open Scope string_scope.
Open Scope list_scope.
Open Scope Z_scope.

(* ------------------------------------------------------------------ strings back from code points *)
Fixpoint unzs (l : list Z) : string :=
  match l with
  | [] => EmptyString
  | z :: t => String (Ascii.ascii_of_N (Z.to_N z)) (unzs t)
  end.

Definition as_str (v : pv) : option string := match v with PV (VStr s) => Some (unzs s) | _ => None end.

Fixpoint as_strs (l : list pv) : option (list string) :=
  match l with
  | [] => Some []
  | x :: t => match as_str x, as_strs t with Some s, Some r => Some (s :: r) | _, _ => None end
  end.

Definition as_items (v : pv) : option (list pv) := match v with PList l | PTuple l => Some l | _ => None end.

(* ------------------------------------------------------------------ node references *)
Definition node_tag : string := "$node".
Definition nref (i : nat) : pv := PTuple [PStr node_tag; PInt (Z.of_nat i)].
Definition as_nref (v : pv) : option nat :=
  match v with
  | PTuple [PV (VStr t); PV (VInt z)] => if zeqb t (zs node_tag) && (0 <=? z) then Some (Z.to_nat z) else None
  | _ => None
  end.

(* ------------------------------------------------------------------ records of the compiler *)
Definition ET : string := "beanquery.query_compile.EvalTarget".
Definition COLUMN : string := "beanquery.parser.ast.Column".
Definition ORDERBY : string := "beanquery.parser.ast.OrderBy".
Definition GROUPBY : string := "beanquery.parser.ast.GroupBy".
Definition PIVOTBY : string := "beanquery.parser.ast.PivotBy".
Definition OVERLOAD : string := "$overload".

Definition popt {A} (f : A -> pv) (o : option A) : pv := match o with Some a => f a | None => PNone end.

(* a target whose expression is node i of the heap *)
Definition ptarget := (nat * option string * bool)%type.
Definition enc_target (t : ptarget) : pv :=
  match t with
  | (i, n, a) => record (zs ET) [("c_expr", nref i); ("name", popt PStr n); ("is_aggregate", PBool a)]
  end.
Definition enc_column (n : string) : pv := record (zs COLUMN) [("name", PStr n)].

(* one registered overload: the class with its declared input types; "$index" is its position in the registry's list
   (what identifies the chosen class to the model) *)
Definition enc_overload (i : nat) (o : Compile.overload) : pv :=
  record (zs OVERLOAD) [("__intypes__", PList (map PStr (Compile.ov_ins o))); ("$index", PInt (Z.of_nat i));
                        ("$out", PStr (Compile.ov_out o))].
Fixpoint enc_overloads (i : nat) (l : list Compile.overload) : list pv :=
  match l with [] => [] | o :: t => enc_overload i o :: enc_overloads (S i) t end.
(* FUNCTIONS / OPERATORS: name -> list of classes.  Python dict keys are unique; the model's [assoc] takes the first
   binding of a name: the items are listed so that the binding [assoc] finds is the one the dict holds *)
Definition enc_registry (reg : list (string * list Compile.overload)) : pv :=
  pdict (rev (map (fun kv => (PStr (fst kv), PList (enc_overloads 0 (snd kv)))) reg)).

(* ------------------------------------------------------------------ exceptions *)
Definition CompErr (e : Compile.cerr) : Z := 1000 + Compile.cerr_code e.
Definition AssertionError : Z := 97.
Definition RuntimeError : Z := 96.
Definition OtherCompilationError : Z := 998.

Definition lead_table : list (string * Compile.cerr) :=
  [("invalid ORDER-BY column index ", Compile.EOrderIndex);
   ("invalid GROUP-BY column index ", Compile.EGroupIndex);
   ("GROUP-BY expressions may not be aggregates: """, Compile.EGroupAgg);
   ("GROUP-BY expressions may not reference aggregates: """, Compile.EGroupRefAgg);
   ("GROUP-BY a non-hashable type is not supported: """, Compile.EGroupUnhashable);
   ("the HAVING clause must be an aggregate expression", Compile.EHavingNotAgg);
   ("invalid PIVOT BY column index ", Compile.EPivotIndex);
   ("PIVOT BY column ", Compile.EPivotName);
   ("the two PIVOT BY columns cannot be the same column", Compile.EPivotSame);
   ("the second PIVOT BY column must be a GROUP BY column", Compile.EPivotNotGrouped);
   ("mixed aggregates and non-aggregates are not allowed", Compile.EMixedAgg);
   ("aggregates of aggregates are not allowed", Compile.EAggOfAgg);
   ("operator """, Compile.EUnaryOp)].

Definition exc_code (cls lead : list Z) : Z :=
  if zeqb cls (zs "beanquery.compiler.CompilationError") then
    match find (fun p => zeqb lead (zs (fst p))) lead_table with
    | Some p => CompErr (snd p)
    | None => OtherCompilationError
    end
  else if zeqb cls (zs "builtins.AssertionError") then AssertionError
  else if zeqb cls (zs "builtins.RuntimeError") then RuntimeError
  else exc_kind cls lead.

(* ------------------------------------------------------------------ collections *)
Fixpoint pvproduct (ls : list (list pv)) : list (list pv) :=
  match ls with
  | [] => [[]]
  | l :: rest => flat_map (fun x => map (cons x) (pvproduct rest)) l
  end.

Fixpoint all_items (l : list pv) : option (list (list pv)) :=
  match l with
  | [] => Some []
  | x :: t => match as_items x, all_items t with Some a, Some r => Some (a :: r) | _, _ => None end
  end.

Fixpoint sum_ints (l : list pv) : option Z :=
  match l with
  | [] => Some 0
  | PV (VInt z) :: t => match sum_ints t with Some r => Some (z + r) | None => None end
  | _ => None
  end.

Section Prims.
Variable tbl : nat -> Compile.cnode.
Variable kids : nat -> list nat.
Variable mro : string -> list string.
Variable msg : string -> list pv -> pv.

Definition node_isinstance (cls : string) (n : Compile.cnode) : bool :=
  if String.eqb cls "beanquery.query_compile.EvalAggregator" then Compile.is_agg_node n
  else if String.eqb cls "beanquery.query_compile.EvalColumn" then match n with Compile.NCol _ _ => true | _ => false end
  else if String.eqb cls "beanquery.query_compile.EvalConstant" then Compile.is_const n
  else false.

(* list.index(x) on a list of node references *)
Fixpoint node_index (x : nat) (l : list pv) (j : Z) : res pv :=
  match l with
  | [] => Exc ValueError
  | e :: t => match as_nref e with
              | Some i => if Compile.node_eqb (tbl i) (tbl x) then Ok (PInt j) else node_index x t (j + 1)
              | None => Stuck
              end
  end.

Definition dict_get (d k dflt : pv) : res pv :=
  match d with
  | PTuple [PV (VStr tag); PList fs] =>
      if zeqb tag (zs dict_tag) then Ok (match assoc k (rev fs) with Some v => v | None => dflt end) else Stuck
  | _ => Stuck
  end.

Definition prim_compiler (name : string) (args : list pv) : res pv :=
  match strip_prefix "attr:" name with
  | Some a =>
      match args with
      | [o] =>
          match as_nref o with
          | Some i => if String.eqb a "dtype" then Ok (PStr (Compile.dtype (tbl i))) else Exc AttributeError
          | None =>
              match o with
              | PV (VStr t) => if String.eqb a "__mro__" then Ok (PTuple (map PStr (mro (unzs t)))) else Stuck
              | _ => get_attr a o
              end
          end
      | _ => Stuck
      end
  | None =>
  match strip_prefix "isinstance:" name with
  | Some cs =>
      match args with
      | [v] => match as_nref v with
               | Some i => Ok (PBool (node_isinstance cs (tbl i)))
               | None => Ok (PBool (isinstance v cs))
               end
      | _ => Stuck
      end
  | None =>
  match strip_prefix "type:" name with
  | Some t => match args with [] => Ok (PStr t) | _ => Stuck end
  | None =>
  match strip_prefix "is:" name with
  | Some t => match args with
              | [PV (VStr s)] => Ok (PBool (zeqb s (zs t)))
              | [_] => Ok (PBool false)
              | _ => Stuck
              end
  | None =>
  if String.eqb name "issubclass:collections.abc.Hashable" then
    match args with [PV (VStr t)] => Ok (PBool (Compile.hashable (unzs t))) | _ => Stuck end
  else if String.eqb name "raise" then
    match args with [PV (VStr cls); PV (VStr lead); _] => Exc (exc_code cls lead) | _ => Stuck end
  else if String.eqb name "fstring" then Ok (msg name args)
  else if String.eqb name "sig_eq" then
    match args with
    | [PList a; PList b] =>
        match as_strs a, as_strs b with
        | Some ins, Some sg => Ok (PBool (Compile.sig_match ins sg))
        | _, _ => Stuck
        end
    | _ => Stuck
    end
  else if String.eqb name "list_eq" then
    match args with [PList a; PList b] => Ok (PBool (pv_eqb (PList a) (PList b))) | _ => Stuck end
  else if String.eqb name "itertools.product:*" then
    match args with
    | [PList ls] => match all_items ls with Some lls => Ok (PList (map PTuple (pvproduct lls))) | None => Stuck end
    | _ => Stuck
    end
  else if String.eqb name "builtins.list" then
    match args with [PList l] | [PTuple l] => Ok (PList l) | _ => Stuck end
  else if String.eqb name "builtins.bool" then
    match args with [v] => bind (pv_truthy v) (fun b => Ok (PBool b)) | _ => Stuck end
  else if String.eqb name "builtins.sum" then
    match args with [PList l] => match sum_ints l with Some z => Ok (PInt z) | None => Stuck end | _ => Stuck end
  else if String.eqb name "builtins.all" then
    match args with [PList l] => bind (all_truthy l) (fun b => Ok (PBool b)) | _ => Stuck end
  else if String.eqb name "builtins.any" then
    match args with [PList l] => bind (any_truthy l) (fun b => Ok (PBool b)) | _ => Stuck end
  else if String.eqb name "builtins.dict" then
    match args with [PList items] => Ok (PTuple [PStr dict_tag; PList items]) | _ => Stuck end
  else if String.eqb name "builtins.enumerate" then
    match args with [PList l] => Ok (PList (enum_from 0 l)) | _ => Stuck end
  else if String.eqb name "getitem" then
    match args with [PList l; PV (VInt i)] | [PTuple l; PV (VInt i)] => index_at l i | _ => Stuck end
  else if String.eqb name "call:get" then
    match args with [d; k; dflt] => dict_get d k dflt | [d; k] => dict_get d k PNone | _ => Stuck end
  else if String.eqb name "call:index" then
    match args with
    | [PList l; x] => match as_nref x with Some i => node_index i l 0 | None => Stuck end
    | _ => Stuck
    end
  else if String.eqb name "call:childnodes" then
    match args with
    | [x] => match as_nref x with Some i => Ok (PList (map nref (kids i))) | None => Stuck end
    | _ => Stuck
    end
  else if String.eqb name ET then
    match args with
    | [e; n; a] => Ok (record (zs ET) [("c_expr", e); ("name", n); ("is_aggregate", a)])
    | _ => Exc TypeError
    end
  else Stuck
  end end end end.

End Prims.
