(* Primitive semantics and value encodings for the translator-based tie of the EXPRESSION-level typing path of the
   compiler (group `exprs` of harness/vf/src_exprs.py: Gen/SrcExprs.v = Compiler._unaryop / _between / _inop /
   _binaryop / _function).  Definitions only; proofs are in Proofs/SrcExprs.v.  [prim_exprs] extends
   Model/PrimsSelect.prim_select (same encodings: a compiled node is a reference [nref i] into the heap [tbl], parser
   AST nodes and EvalQuery / EvalPivot are tagged records, `self.table` is threaded through the calls on self).  Part of
   the trusted base of the C04_source_* theorems about these methods:

   * THE SECOND ENCODING OF THE REGISTRY.  A registered overload - a CLASS of FUNCTIONS / OPERATORS - is the record
     [enc_class]: PrimsCompiler.enc_overload's fields (`__intypes__`, its position "$index" in the registry's list, its
     declared output type "$out") plus the registry it lives in ("$op": OPERATORS or FUNCTIONS) and the name it is
     registered under ("$name").  The registries themselves ([enc_operators], [enc_functions]: what the globals
     OPERATORS / FUNCTIONS evaluate to, translator rule X2) are built from the tables of Model/RegistrySnapshot.v, which
     Proofs/RegistryTie.v ties to the live registries on every run.  OPERATORS is keyed by the AST class: a parser
     node is a record tagged [ast_cls op], `type(node)` is that tag.
   * CALLING a class (translator rule X1, the primitive "apply") CONSTRUCTS a node and returns its address: the heap
     allocator is the parameter [mk : cnode -> nat]; the theorems assume  tbl (mk n) = n  for the nodes a method
     constructs.  An operator class applied to node references yields  NOp name index operands out;  a function class
     applied to (context, operands) yields  NFunc name index operands dt agg,  dt being the declared output type -
     except for the aggregators that pass no dtype (EvalAggregator.__init__: `dtype or operands[0].dtype`,
     Compile.agg_dtype_of_operand, checked against the live classes by c05's harness).  The declared types are read
     from the registry tables at (registry, name, index), not from the record.
   * CALLING a node on None (`function(None)`, the constant-folding step) yields the folded value [foldval j]: an
     opaque value that remembers which node it is the value of.  EvalConstant(foldval j, dt) constructs
     NConst (CFold name index (constant operands)) dt - Compile.v's reading of a folded constant;
     EvalCoalesce(operands) constructs NCoalesce operands (dtype of the first).
   * `function.pure` on a function node is the `pure` flag of its class in the registry table.
   * EvalQuery.columns (a property) = the targets that have a name.
   * types.MAP.get(t) = the cast function's name in RegistrySnapshot.cast_names (tied like the registries).
   * text building (type(node).__name__, .lower(), ', '.join, str.format, f-strings) is the uninterpreted oracle [msg].
   * raise: the CompilationErrors of these methods are told apart by the TEMPLATE of their message (translator rule X6:
     the constant parts of the f-string with `{}` for every interpolation) and mapped to 1000 + Compile.cerr_code of
     the model's error constructor ([lead_table_exprs]); then PrimsSelect.exc_code_select.
   * "unroll:exhausted" (translator rule X4, the continue of the last unrolled pass of a `while True`) has NO meaning
     here: it evaluates to Stuck, and the theorems show it is never reached. *)
From Coq Require Import String Ascii ZArith List Bool.
Import ListNotations.
From Verif Require Import Base.PyValue Model.Eval Model.PyMini Model.PrimsApi Model.PrimsCompiler Model.PrimsSelect.
From Verif Require Model.Compile.
Open Scope string_scope.
Open Scope list_scope.
Open Scope Z_scope.

Module R := Compile.R.

Definition FUNCTION : string := "beanquery.parser.ast.Function".
Definition ATTRIBUTE : string := "beanquery.parser.ast.Attribute".
Definition FOLD : string := "$fold".

Definition ast_cls (op : string) : string := "beanquery.parser.ast." ++ op.

Definition lead_table_exprs : list (string * Compile.cerr) :=
  [("operator ""{}({})"" not supported", Compile.EUnaryOp);
   ("operator ""{} BETWEEN {} AND {}"" not supported", Compile.EBetweenOp);
   ("operator ""{}({}, {})"" not supported", Compile.EBinaryOp);
   ("coalesce() function requires at least one argument", Compile.ECoalesceEmpty);
   ("coalesce() function arguments cannot be ""*""", Compile.ECoalesceStar);
   ("coalesce() function arguments must have uniform type, found: {}", Compile.ECoalesceTypes);
   ("no function matches ""{}"" name and argument types", Compile.ENoFunction)].

Definition exc_code_exprs (cls lead : list Z) : Z :=
  if zeqb cls (zs "beanquery.compiler.CompilationError") then
    match find (fun p => zeqb lead (zs (fst p))) lead_table_exprs with
    | Some p => CompErr (snd p)
    | None => exc_code_select cls lead
    end
  else exc_code_select cls lead.

(* ------------------------------------------------------------------ the second encoding of the registry *)
Definition enc_class (isop : bool) (name : string) (i : nat) (o : Compile.overload) : pv :=
  record (zs OVERLOAD) [("__intypes__", PList (map PStr (Compile.ov_ins o))); ("$index", PInt (Z.of_nat i));
                        ("$out", PStr (Compile.ov_out o)); ("$op", PBool isop); ("$name", PStr name)].
Fixpoint enc_classes (isop : bool) (name : string) (i : nat) (l : list Compile.overload) : list pv :=
  match l with [] => [] | o :: t => enc_class isop name i o :: enc_classes isop name (S i) t end.

(* items listed so that the binding Compile.assoc finds is the one the dict holds (as PrimsCompiler.enc_registry) *)
Definition enc_opreg (reg : list (string * list Compile.overload)) : pv :=
  pdict (rev (map (fun kv => (PStr (ast_cls (fst kv)), PList (enc_classes true (fst kv) 0 (snd kv)))) reg)).
Definition enc_funreg (reg : list (string * list Compile.overload)) : pv :=
  pdict (rev (map (fun kv => (PStr (fst kv), PList (enc_classes false (fst kv) 0 (snd kv)))) reg)).
Definition enc_operators : pv := enc_opreg R.operators.
Definition enc_functions : pv := enc_funreg R.functions.

(* what "apply" reads of a class: which registry, which name, which position *)
Definition as_class (v : pv) : option (bool * string * nat) :=
  match get_attr "$op" v, get_attr "$name" v, get_attr "$index" v with
  | Ok (PV (VBool b)), Ok (PV (VStr n)), Ok (PV (VInt z)) =>
      match v with
      | PTuple [PV (VStr tag); _] => if zeqb tag (zs OVERLOAD) && (0 <=? z) then Some (b, unzs n, Z.to_nat z) else None
      | _ => None
      end
  | _, _, _ => None
  end.

Definition class_overload (isop : bool) (name : string) (i : nat) : option Compile.overload :=
  nth_error (Compile.overloads (if isop then R.operators else R.functions) name) i.

Fixpoint as_nrefs (l : list pv) : option (list nat) :=
  match l with
  | [] => Some []
  | x :: t => match as_nref x, as_nrefs t with Some i, Some r => Some (i :: r) | _, _ => None end
  end.

Definition foldval (j : nat) : pv := PTuple [PStr FOLD; PInt (Z.of_nat j)].
Definition as_foldval (v : pv) : option nat :=
  match v with
  | PTuple [PV (VStr t); PV (VInt z)] => if zeqb t (zs FOLD) && (0 <=? z) then Some (Z.to_nat z) else None
  | _ => None
  end.

(* the value EvalConstant holds after folding node n *)
Definition fold_of (n : Compile.cnode) : Compile.cval :=
  match n with
  | Compile.NOp op i args _ => Compile.CFold op i (map Compile.const_val args)
  | Compile.NFunc f i args _ _ => Compile.CFold f i (map Compile.const_val args)
  | _ => Compile.CScalar VNull
  end.

Definition node_pure (n : Compile.cnode) : bool :=
  match n with
  | Compile.NFunc f i _ _ _ => match class_overload false f i with Some o => Compile.ov_pure o | None => false end
  | _ => false
  end.

(* EvalFunction / EvalAggregator constructed by the class at (name, i) *)
Definition func_node (name : string) (i : nat) (o : Compile.overload) (ops : list Compile.cnode) : Compile.cnode :=
  let dt := if Compile.agg_dtype_of_operand name o
            then match ops with x :: _ => Compile.dtype x | [] => Compile.ov_out o end else Compile.ov_out o in
  Compile.NFunc name i ops dt (Compile.ov_agg o).

(* f(None): exactly one argument, and it is None *)
Definition is_none_call (rest : list pv) : bool := match rest with [v] => pv_is_none v | _ => false end.

Definition has_name (t : pv) : bool :=
  match get_attr "name" t with Ok (PV VNull) => false | Ok _ => true | _ => false end.

Section Prims.
Variable tbl : nat -> Compile.cnode.
Variable kids : nat -> list nat.
Variable mro : string -> list string.
Variable msg : string -> list pv -> pv.
Variable updatable : pv -> bool.
Variable upd : pv -> pv -> pv -> pv -> pv.
Variable mk : Compile.cnode -> nat.

Definition apply_class (c : pv) (args : list pv) : res pv :=
  match as_class c with
  | Some (true, name, i) =>
      match class_overload true name i, as_nrefs args with
      | Some o, Some ops => Ok (nref (mk (Compile.NOp name i (map tbl ops) (Compile.ov_out o))))
      | _, _ => Stuck
      end
  | Some (false, name, i) =>
      match class_overload false name i, args with
      | Some o, [_; PList l] =>
          match as_nrefs l with
          | Some ops => Ok (nref (mk (func_node name i o (map tbl ops))))
          | None => Stuck
          end
      | _, _ => Stuck
      end
  | None => Stuck
  end.

Definition prim_exprs (name : string) (args : list pv) : res pv :=
  if String.eqb name "raise" then
    match args with [PV (VStr cls); PV (VStr lead); _] => Exc (exc_code_exprs cls lead) | _ => Stuck end
  else if String.eqb name "global:beanquery.query_compile.OPERATORS" then
    match args with [] => Ok enc_operators | _ => Stuck end
  else if String.eqb name "global:beanquery.query_compile.FUNCTIONS" then
    match args with [] => Ok enc_functions | _ => Stuck end
  else if String.eqb name "builtins.type" then
    match args with [PTuple [PV (VStr tag); PList _]] => Ok (PV (VStr tag)) | _ => Stuck end
  else if String.eqb name "getitem" then
    match args with [o; k] => getitem o k | _ => Stuck end
  else if String.eqb name "static_get:beanquery.types.MAP" then
    match args with
    | [PV (VStr t)] => Ok (match Compile.assoc (unzs t) R.cast_names with Some n => PStr n | None => PNone end)
    | _ => Stuck
    end
  else if String.eqb name "apply" then
    match args with
    | f :: rest =>
        if is_none_call rest then match as_nref f with Some j => Ok (foldval j) | None => Stuck end
        else apply_class f rest
    | _ => Stuck
    end
  else if String.eqb name "beanquery.query_compile.EvalConstant" then
    match args with
    | [v; PV (VStr dt)] =>
        match as_foldval v with
        | Some j => Ok (nref (mk (Compile.NConst (fold_of (tbl j)) (unzs dt))))
        | None => Stuck
        end
    | _ => Stuck
    end
  else if String.eqb name "beanquery.query_compile.EvalCoalesce" then
    match args with
    | [PList l] =>
        match as_nrefs l with
        | Some (i :: r) => Ok (nref (mk (Compile.NCoalesce (map tbl (i :: r)) (Compile.dtype (tbl i)))))
        | _ => Stuck
        end
    | _ => Stuck
    end
  else if String.eqb name "attr:pure" then
    match args with
    | [o] => match as_nref o with Some j => Ok (PBool (node_pure (tbl j))) | None => Stuck end
    | _ => Stuck
    end
  else if String.eqb name "attr:columns" then
    match args with
    | [q] => match get_attr "c_targets" q with
             | Ok (PList ts) => Ok (PList (filter has_name ts))
             | _ => Stuck
             end
    | _ => Stuck
    end
  else if String.eqb name "attr:__name__" || String.eqb name "call:lower" then Ok (msg name args)
  else if String.eqb name FUNCTION then
    match args with [f; ops] => Ok (record (zs FUNCTION) [("fname", f); ("operands", ops)]) | _ => Exc TypeError end
  else if String.eqb name ATTRIBUTE then
    match args with [o; n] => Ok (record (zs ATTRIBUTE) [("operand", o); ("name", n)]) | _ => Exc TypeError end
  else if String.eqb name "beanquery.parser.ast.Column:parseinfo" then
    match args with [n; p] => Ok (record (zs COLUMN) [("name", n); ("parseinfo", p)]) | _ => Exc TypeError end
  else prim_select tbl kids mro msg updatable upd name args.

End Prims.
