(* C12 -- primitive semantics for the translated BQL functions over inventories that group `envledger` translates
   without a model of its own: only(currency, inventory), empty(inventory), filter_currency(inventory, currency)
   (Gen/SrcEnvLedger.v envlx_only_inventory / envlx_empty_inventory / envlx_filter_currency_inventory, generated on
   every run from beanquery/query_env.py).  Definitions only; proofs in Proofs/SrcInvFuncs.v.  TRUSTED: what the
   Beancount library calls are assumed to do, taken from Model/Inventory.v.

   Encodings: PrimsLedger.Inv's enc_inv; an Amount is PrimsAggInv.enc_amt (PTuple [number; currency]).  ITERATING an
   Inventory (`for pos in inv`) yields its positions in dict order; in the encoding the items of the list enc_inv are the
   entries PTuple [currency; cost; number], so a Position that came out of an inventory is that entry:
     "attr:units"      on an entry         the Amount (number, currency)
     "attr:currency"   on an Amount        its currency
     Inventory(iterable of such positions) Model/Inventory.from_entries: add_position one by one into an empty one;
     Inventory()                           the empty inventory
     "call:get_currency_units" [inv; c]    Model/Inventory.get_currency_units
     "call:is_empty" [inv]                 Model/Inventory.is_empty
   Currencies are interned integers (as everywhere in Model/Inventory.v).  Anything else is Stuck. *)
From Coq Require Import String ZArith List Bool.
Import ListNotations.
From Verif Require Import Base.PyValue Model.Eval Model.PyMini Model.PrimsLedger Model.PrimsAggInv.
From Verif Require Model.Inventory.
Open Scope string_scope.
Open Scope list_scope.
Open Scope Z_scope.

Definition prim_invfuncs (name : string) (args : list pv) : res pv :=
  if String.eqb name "call:get_currency_units" then
    match args with
    | [i; PV (VInt c)] =>
        match Inv.dec_inv i with Some i' => Ok (enc_amt (Inventory.get_currency_units i' c)) | None => Stuck end
    | _ => Stuck
    end
  else if String.eqb name "call:is_empty" then
    match args with
    | [i] => match Inv.dec_inv i with Some i' => Ok (PBool (Inventory.is_empty i')) | None => Stuck end
    | _ => Stuck
    end
  else if String.eqb name "beancount.core.inventory.Inventory" then
    match args with
    | [] => Ok (Inv.enc_inv [])
    | [PList items] =>
        match Inv.dec_entries items with Some l => Ok (Inv.enc_inv (Inventory.from_entries l)) | None => Stuck end
    | _ => Stuck
    end
  else if String.eqb name "attr:units" then
    match args with
    | [e] => match Inv.dec_entry e with Some ((c, _), n) => Ok (enc_amt (n, c)) | None => Stuck end
    | _ => Stuck
    end
  else if String.eqb name "attr:currency" then
    match args with
    | [a] => match dec_amt a with Some (_, c) => Ok (PInt c) | None => Stuck end
    | _ => Stuck
    end
  else Stuck.
