(* Primitive semantics and encodings of group `shell2` (C19, bld-misc): BQLShell.on_Select, the `render` adapters of
   beanquery/render/text.py and csv.py, and the named-query part of BQLShell.do_run (Gen/SrcShell2.v).  Definitions
   only; proofs in Proofs/SrcShell2.v.

   Trusted here (on top of Model/PrimsApi.v and Model/PrimsShell.v):
   * the connection (self.context) is a record with an `options` dict holding 'dcontext'; context.execute, the cursor's
     description / fetchall and dcontext.build() are uninterpreted ([msg]; an error value is a raised exception);
   * `with self.output as out`: out is the uninterpreted value msg "with:enter" [self.output]; what __exit__ does (flush,
     pager) is outside the model;
   * FORMATS.get(name): the function object of FORMATS[name] - references [k_text] / [k_csv] for the two keys of the
     live dict (Gen/SrcShell2.formats_keys, proved equal to Model/Shell.formats) - or None;
   * calling such a function with (desc, rows, out, dcontext=.., **mapping) ("apply:dcontext,**") is interpreting ITS
     translated body with the keyword-only parameter `dcontext` bound by NAME (the adapter's fourth parameter must be
     called dcontext) and the mapping as its ** parameter; no key of the mapping (the Settings field names) is a
     parameter name of the adapters (checked by the translator);
   * name, *rest = l: ValueError for an empty l; self.queries is a dict from name to the Query directive (a record with
     query_string and date), dict.get returns None for a missing key. *)
From Coq Require Import String Ascii ZArith List Bool.
Import ListNotations.
From Verif Require Import Base.PyValue Model.Eval Model.PyMini Model.PrimsApi Model.PrimsShell.
From Verif Require Model.Shell.
Open Scope string_scope.
Open Scope list_scope.
Open Scope Z_scope.

Definition k_text : nat := 60%nat.
Definition k_csv : nat := 61%nat.

Definition ctx_tag : list Z := zs "beanquery.Connection".
Definition enc_ctx (dctx : pv) : pv := record ctx_tag [("options", pdict [(PStr "dcontext", dctx)])].

Definition qdir_tag : list Z := zs "beancount.core.data.Query".
Definition enc_qdir (q : Shell.query_directive) : pv :=
  record qdir_tag [("query_string", PS (Shell.q_text q)); ("date", PInt (Shell.q_date q))].
Definition enc_queries (qs : list Shell.query_directive) : pv :=
  pdict (map (fun q => (PS (Shell.q_name q), enc_qdir q)) qs).

Definition formats_get (f : list Z) : pv :=
  if zeqb f (zs "text") then PRef k_text else if zeqb f (zs "csv") then PRef k_csv else PNone.

Section Prims.
Variable call_ref : nat -> list pv -> pv.
Variable msg : string -> list pv -> pv.
Variables (text_adapter csv_adapter : fdef).      (* the translated FORMATS['text'] / FORMATS['csv'] *)

Definition shell2_lib : strlib :=
  {| sl_strip := Shell.strip; sl_lower := Shell.lower; sl_parseline := Shell.cmd_parseline;
     sl_getattr := fun _ => None; sl_ext := shell_ext |}.

Definition no_prims : string -> list pv -> res pv := fun _ _ => Stuck.

Definition apply_adapter (f : fdef) (args : list pv) : res pv :=
  match f_params f with
  | [_; _; _; kw; _] => if String.eqb kw "dcontext" then call_function call_ref no_prims f args else Stuck
  | _ => Stuck
  end.

Definition prim_shell2 (name : string) (args : list pv) : res pv :=
  if String.eqb name "attr:description" || String.eqb name "call:fetchall" || String.eqb name "call:build" then
    opaque_method msg name args
  else if String.eqb name "with:enter" then Ok (msg name args)
  else if String.eqb name "get:beanquery.shell.FORMATS" then
    match args with [PV (VStr f)] => Ok (formats_get f) | _ => Stuck end
  else if String.eqb name "apply:dcontext,**" then
    match args with
    | [PRef k; d; r; out; dctx; kw] =>
        if Nat.eqb k k_text then apply_adapter text_adapter [d; r; out; dctx; kw]
        else if Nat.eqb k k_csv then apply_adapter csv_adapter [d; r; out; dctx; kw]
        else Stuck
    | _ => Stuck
    end
  else if String.eqb name "unpack_star:1" then
    match args with
    | [PList (x :: r)] => Ok (PTuple [x; PList r])
    | [PList []] => Exc ValueError
    | _ => Stuck
    end
  else if String.eqb name "call:get" then
    match args with
    | [PTuple [PV (VStr tag); PList fs]; k] =>
        if zeqb tag (zs dict_tag) then Ok (match assoc k fs with Some v => v | None => PNone end) else Stuck
    | _ => Stuck
    end
  else prim_api shell2_lib msg name args.
End Prims.

(* the shell object as far as on_Select / do_run read it *)
Definition sel_flds (ctx : pv) (st : Shell.state) (outp : pv) : env :=
  [("context", ctx); ("settings", enc_state st); ("output", outp)].
Definition run_flds (qs : list Shell.query_directive) (evs : list pv) : env :=
  [("queries", enc_queries qs); ("$events", PList evs)].

Definition todict (st : Shell.state) : pv := PTuple [PStr dict_tag; PList (enc_fields st)].
