(* C18 -- semantics of the primitives the translated scalar functions of beanquery/query_env.py call
   (group `env` of the translator-based tie: harness/vf/src_env.py -> Gen/SrcEnv.v, Proofs/SrcEnv.v).

   ONE function [prim_env : string -> list pv -> res pv], built from the existing C18 models of the Python library:
   Model/Dates.v (datetime.date attributes / constructor / isocalendar / strftime('%a') / timedelta arithmetic),
   Model/StrFuncs.v (str.split / upper / lower / join, re.search / re.match / re.sub on literal patterns, sorted(), textwrap.shorten,
   beancount.core.account, decimal arithmetic, int() / Decimal() / str() / bool() / strptime of every value).
   This is the TRUSTED part (what the library does); what Proofs/SrcEnv.v verifies on every run is how each beanquery
   function composes these calls: which call, argument order, the +1 / -1, which branch, which exceptions are caught.

   Encoding of the Python objects that are not BQL values as tagged tuples: timedelta, integral float, dateutil's
   weekday and relativedelta(weekday=..), datetime at midnight, re.Match of a literal pattern, the special Decimals
   (Infinity / NaN / sNaN, StrFuncs.xval's XSpec).  A set of strings is the list of its items in iteration order; the
   ledger's account types are a tuple of five strings.

   Exceptions: the C18 models number them as in Model/Dates.v (1 ValueError, 2 OverflowError, 3 IndexError,
   4 ZeroDivisionError, 5 TypeError, 6 decimal.InvalidOperation); [lift] renumbers them to PyMini's kinds. *)
From Coq Require Import String Ascii ZArith List Bool.
Import ListNotations.
From Verif Require Import Base.Out Base.StableSort Base.PyValue Model.PyMini Model.Dates Model.StrFuncs Gen.SrcEnv.
Open Scope string_scope.
Open Scope list_scope.
Open Scope Z_scope.

(* ------------------------------------------------------------------ encodings *)
Definition pstr (s : list Z) : pv := PV (VStr s).
Definition tagged (t : string) (l : list pv) : pv := PTuple (pstr (s2z t) :: l).
Definition p_timedelta (days : Z) : pv := tagged "timedelta" [PInt days].
Definition p_float (z : Z) : pv := tagged "float" [PInt z].                       (* an integral float *)
Definition p_weekday (n k : Z) : pv := tagged "weekday" [PInt n; PInt k].         (* dateutil weekday(n, k): MO = 0 *)
Definition p_rd_weekday (n k : Z) : pv := tagged "relativedelta" [p_weekday n k]. (* relativedelta(weekday=..) *)
Definition p_datetime (o : Z) : pv := tagged "datetime" [PV (VDate o)].           (* datetime at midnight *)
Definition p_match (g0 : list Z) : pv := tagged "match" [pstr g0].                (* re.Match: group(0) *)
Definition p_special (neg : bool) (k : Z) : pv := tagged "Decimal" [PBool neg; PInt k].

Definition is_tag (t : string) (s : list Z) : bool := zeqb s (s2z t).

(* StrFuncs.xval (a BQL value or a special Decimal) <-> pv *)
Definition pv_of_x (x : xval) : pv := match x with XV v => PV v | XSpec n k => p_special n k end.
Definition x_of_pv (v : pv) : option xval :=
  match v with
  | PV v => Some (XV v)
  | PTuple [PV (VStr t); PV (VBool n); PV (VInt k)] => if is_tag "Decimal" t then Some (XSpec n k) else None
  | _ => None
  end.

Definition pstrs (l : list (list Z)) : list pv := map pstr l.
Fixpoint strs_of (l : list pv) : option (list (list Z)) :=
  match l with
  | [] => Some []
  | PV (VStr s) :: t => option_map (cons s) (strs_of t)
  | _ => None
  end.
(* the ledger's account types (assets, liabilities, equity, income, expenses) *)
Definition p_types (types : list (list Z)) : pv := PTuple (pstrs types).

(* a model result as the outcome of a Python call *)
Definition py_kind (k : Z) : option Z :=
  if k =? 1 then Some ValueError else if k =? 2 then Some OverflowError else if k =? 3 then Some IndexError
  else if k =? 4 then Some ZeroDivisionError else if k =? 5 then Some Eval.TypeError
  else if k =? 6 then Some InvalidOperation else None.
Definition lift (v : value) : res pv :=
  match v with
  | VErr k => match py_kind k with Some e => Exc e | None => Stuck end
  | _ => Ok (PV v)
  end.
Definition lift_x (x : xval) : res pv := match x with XV v => lift v | XSpec _ _ => Ok (pv_of_x x) end.

(* ------------------------------------------------------------------ builtins on every value *)
(* int(x) *)
Definition py_int (x : xval) : res pv :=
  match x with
  | XV VNull | XV (VDate _) => Exc Eval.TypeError
  | XV (VBool b) => Ok (PInt (if b then 1 else 0))
  | XV (VInt z) => Ok (PInt z)
  | XV (VDec d) => Ok (PInt (dec_to_int d))
  | XV (VStr s) => match parse_int s with Some z => Ok (PInt z) | None => Exc ValueError end
  | XV (VErr _) => Stuck
  | XSpec _ k => if k =? 1 then Exc OverflowError else Exc ValueError     (* cannot convert Infinity / NaN *)
  end.

(* decimal.Decimal(x) *)
Definition py_decimal (x : xval) : res pv :=
  match x with
  | XV VNull | XV (VDate _) => Exc Eval.TypeError
  | XV (VBool b) => Ok (PV (VDec (mkdec false (if b then 1 else 0) 0)))
  | XV (VInt z) => Ok (PV (VDec (dec_of_int z)))
  | XV (VDec d) => Ok (PV (VDec d))
  | XV (VStr s) => match parse_decimal s with Some v => Ok (pv_of_x v) | None => Exc InvalidOperation end
  | XV (VErr _) => Stuck
  | XSpec n k => Ok (p_special n k)
  end.

(* str(x): str(True) is 'True' (StrFuncs.cast_str is BQL's str(), which prints TRUE) *)
Definition py_str (x : xval) : res pv :=
  match x with
  | XV VNull => Ok (pstr (s2z "None"))
  | XV (VBool b) => Ok (pstr (s2z (if b then "True" else "False")))
  | XV (VErr _) => Stuck
  | _ => Ok (pv_of_x (cast_str x))
  end.

Definition py_bool (x : xval) : res pv :=
  match x with
  | XV (VErr _) => Stuck
  | XV VNull => Ok (PBool false)            (* bool(None); StrFuncs.cast_bool is BQL's NULL-strict bool() *)
  | _ => Ok (pv_of_x (cast_bool x))
  end.

(* ------------------------------------------------------------------ str.format, the fragment
   '{}' and '{:[0]<width>d}' with positional arguments in order *)
Fixpoint spaces (n : nat) : list Z := match n with O => [] | S k => 32 :: spaces k end.
Definition fmt_field (spec : list Z) (a : pv) : res (list Z) :=
  match spec with
  | [] => match a with
          | PV (VInt z) => Ok (str_of_int z)
          | PV (VStr s) => Ok s
          | _ => Stuck
          end
  | c :: rest =>
      if negb (c =? 58) then Stuck else
      let '(zero, rest) := match rest with 48 :: r => (true, r) | _ => (false, rest) end in
      let '(ws, rest) := span is_digit rest in
      let w := Z.to_nat (digits_val ws) in
      match rest, a with
      | [100], PV (VInt z) =>
          if zero then Ok (if z <? 0 then 45 :: pad0 (w - 1) (- z) else pad0 w z)      (* sign-aware zero padding *)
          else let ds := str_of_int z in Ok (spaces (w - length ds) ++ ds)
      | [100], PV (VStr _) => Exc ValueError       (* Unknown format code 'd' for object of type 'str' *)
      | _, _ => Stuck
      end
  end.
(* [spec]: None outside a replacement field, Some (reversed characters read so far) inside one *)
Fixpoint fmt_go (s : list Z) (args : list pv) (spec : option (list Z)) : res (list Z) :=
  match s with
  | [] => match spec with None => Ok [] | Some _ => Exc ValueError end
  | c :: t =>
      match spec with
      | None => if c =? 123 then fmt_go t args (Some [])
                else if c =? 125 then Stuck
                else do r <- fmt_go t args None; Ok (c :: r)
      | Some sp =>
          if c =? 125 then
            match args with
            | a :: args' => do x <- fmt_field (rev sp) a; do r <- fmt_go t args' None; Ok (x ++ r)
            | [] => Exc IndexError
            end
          else fmt_go t args (Some (c :: sp))
      end
  end.
Definition py_format (fmt : list Z) (args : list pv) : res pv := do r <- fmt_go fmt args None; Ok (pstr r).

(* ------------------------------------------------------------------ dateutil: date - relativedelta(weekday=wd(n, k))
   relativedelta.__rsub__ = (-self).__radd__, __neg__ keeps the weekday;  __radd__:
     weekday, nth = self.weekday.weekday, self.weekday.n or 1
     jumpdays = (abs(nth) - 1) * 7
     if nth > 0: jumpdays += (7 - ret.weekday() + weekday) % 7
     else: jumpdays += (ret.weekday() - weekday) % 7; jumpdays *= -1
     ret += timedelta(days=jumpdays) *)
Definition rd_weekday_jump (o n k : Z) : Z :=
  let nth := if k =? 0 then 1 else k in
  let j := (Z.abs nth - 1) * 7 in
  if 0 <? nth then j + (7 - weekday o + n) mod 7 else - (j + (weekday o - n) mod 7).

(* ------------------------------------------------------------------ the primitives *)
Definition class_name (k : nat) : string :=
  match find (fun p => Nat.eqb (fst p) k) Gen.SrcEnv.refs with Some p => snd p | None => "" end.

Definition prim_attr (a : string) (args : list pv) : res pv :=
  match args with
  | [PV (VDate o)] =>
      if String.eqb a "year" then Ok (PInt (year_of o))
      else if String.eqb a "month" then Ok (PInt (month_of o))
      else if String.eqb a "day" then Ok (PInt (day_of o))
      else Exc AttributeError
  | [PTuple [PV (VStr t); PV (VInt n)]] =>
      if is_tag "timedelta" t && String.eqb a "days" then Ok (PInt n) else Stuck
  | _ => Stuck
  end.

Definition prim_call (m : string) (args : list pv) : res pv :=
  match args with
  | [PV (VDate o)] =>
      if String.eqb m "weekday" then Ok (PInt (weekday o))
      else if String.eqb m "isoweekday" then Ok (PInt (isoweekday o))
      else if String.eqb m "isocalendar"
      then Ok (PTuple [PInt (fst (isocalendar o)); PInt (snd (isocalendar o)); PInt (isoweekday o)])
      else Stuck
  | [PV (VDate o); PV (VStr f)] =>
      if String.eqb m "strftime" && is_tag "%a" f then Ok (PV (f_weekday o)) else Stuck
  | [PTuple [PV (VStr t); PV (VInt n)]] =>
      if is_tag "timedelta" t && String.eqb m "total_seconds" then Ok (p_float (n * 86400)) else Stuck
  | [PTuple [PV (VStr t); PV (VDate o)]] =>
      if is_tag "datetime" t && String.eqb m "date" then Ok (PV (VDate o)) else Stuck
  | [PTuple [PV (VStr t); PV (VStr g)]; PV (VInt n)] =>
      if is_tag "match" t && String.eqb m "group"
      then (if n =? 0 then Ok (pstr g) else Exc IndexError)           (* a literal pattern has no group *)
      else Stuck
  | [PV (VStr s)] =>
      if String.eqb m "upper" then Ok (PV (f_upper s))
      else if String.eqb m "lower" then Ok (PV (f_lower s))
      else if String.eqb m "format" then py_format s []
      else Stuck
  | PV (VStr s) :: ((PV (VStr d) :: nil) as rest) =>
      if String.eqb m "split"
      then match d with [] => Exc ValueError | _ => Ok (PList (pstrs (split d s))) end
      else if String.eqb m "format" then py_format s rest
      else Stuck
  | [PV (VStr sep); PList l] =>
      if String.eqb m "join"
      then match strs_of l with Some vs => Ok (pstr (join sep vs)) | None => Exc Eval.TypeError end
      else Stuck
  | PV (VStr s) :: rest => if String.eqb m "format" then py_format s rest else Stuck
  | _ => Stuck
  end.

Definition prim_binop (op : string) (args : list pv) : res pv :=
  match args with
  | [PV (VDate a); PV (VDate b)] =>
      if String.eqb op "sub" then Ok (p_timedelta (a - b)) else Exc Eval.TypeError
  | [PV (VDate o); PTuple [PV (VStr t); PV (VInt n)]] =>
      if negb (is_tag "timedelta" t) then Stuck
      else if String.eqb op "add" then lift (add_days o n)
      else if String.eqb op "sub" then lift (add_days o (- n))
      else Exc Eval.TypeError
  | [PV (VDate o); PTuple [PV (VStr t); PTuple [PV (VStr t'); PV (VInt n); PV (VInt k)]]] =>
      if negb (is_tag "relativedelta" t && is_tag "weekday" t') then Stuck
      else if String.eqb op "sub" then lift (add_days o (rd_weekday_jump o n k))
      else Stuck
  | [PV (VDec x); PV (VDec y)] =>
      if String.eqb op "truediv"
      then (if StrFuncs.dec_is_zero y
            then Exc (if StrFuncs.dec_is_zero x then InvalidOperation else ZeroDivisionError)
            else Ok (PV (VDec (StrFuncs.dec_div x y))))
      else Stuck
  | [PV (VDec x); PV (VInt y)] =>
      if String.eqb op "truediv"
      then (if y =? 0
            then Exc (if StrFuncs.dec_is_zero x then InvalidOperation else ZeroDivisionError)
            else Ok (PV (VDec (StrFuncs.dec_div x (dec_of_int y)))))
      else Stuck
  | _ => Stuck
  end.

Definition prim_fn (name : string) (args : list pv) : res pv :=
  if String.eqb name "builtins.int" then
    match args with
    | [PTuple [PV (VStr t); PV (VInt z)]] => if is_tag "float" t then Ok (PInt z) else Stuck
    | [v] => match x_of_pv v with Some x => py_int x | None => Stuck end
    | _ => Stuck
    end
  else if String.eqb name "decimal.Decimal" then
    match args with [v] => match x_of_pv v with Some x => py_decimal x | None => Stuck end | _ => Stuck end
  else if String.eqb name "builtins.str" then
    match args with [v] => match x_of_pv v with Some x => py_str x | None => Stuck end | _ => Stuck end
  else if String.eqb name "builtins.bool" then
    match args with [v] => match x_of_pv v with Some x => py_bool x | None => Stuck end | _ => Stuck end
  else if String.eqb name "builtins.abs" then
    match args with
    | [PV (VDec d)] => Ok (PV (f_abs d))
    | [PV (VInt z)] => Ok (PInt (Z.abs z))
    | _ => Stuck
    end
  else if String.eqb name "builtins.round" then
    match args with
    | [PV (VDec d); PV (VInt n)] => lift (f_round_dec d n)
    | [PV (VInt z); PV (VInt n)] => lift (f_round_int z n)
    | _ => Stuck
    end
  else if String.eqb name "builtins.isinstance" then
    match args with
    | [v; PRef k] =>
        let c := class_name k in
        if String.eqb c "datetime.date" then Ok (PBool (match v with PV (VDate _) => true | _ => false end))
        else if String.eqb c "builtins.str" then Ok (PBool (match v with PV (VStr _) => true | _ => false end))
        else Stuck
    | _ => Stuck
    end
  else if String.eqb name "datetime.date" then
    match args with
    | [PV (VInt y); PV (VInt m); PV (VInt d)] =>
        if fits_int y && fits_int m && fits_int d then lift (mk_date y m d)
        else Exc OverflowError                     (* Python int too large to convert to C int *)
    | _ => Exc Eval.TypeError
    end
  else if String.eqb name "datetime.timedelta:days" then
    match args with [PV (VInt n)] => Ok (p_timedelta n) | _ => Stuck end
  else if String.eqb name "datetime.datetime.strptime" then
    match args with
    | [PV (VStr s); PV (VStr f)] =>
        if is_tag "%Y-%m-%d" f
        then match parse_date s with VDate o => Ok (p_datetime o) | _ => Exc ValueError end
        else Stuck
    | _ => Stuck
    end
  else if String.eqb name "re.search" then           (* literal patterns *)
    match args with
    | [PV (VStr p); PV (VStr s)] => Ok (if find_sub p s then p_match p else PNone)
    | _ => Stuck
    end
  else if String.eqb name "re.match" then            (* literal patterns: a match at the start *)
    match args with
    | [PV (VStr p); PV (VStr s)] => Ok (if prefix_of p s then p_match p else PNone)
    | _ => Stuck
    end
  else if String.eqb name "builtins.sorted" then     (* of a set of strings *)
    match args with
    | [PList l] | [PTuple l] =>
        match strs_of l with Some vs => Ok (PList (pstrs (isort list_le vs))) | None => Stuck end
    | _ => Stuck
    end
  else if String.eqb name "re.sub" then              (* literal patterns and replacements *)
    match args with
    | [PV (VStr p); PV (VStr r); PV (VStr s)] => Ok (PV (f_subst_lit p r s))
    | _ => Stuck
    end
  else if String.eqb name "textwrap.shorten:width" then
    match args with [PV (VStr s); PV (VInt n)] => lift (f_maxwidth s n) | _ => Stuck end
  else if String.eqb name "beancount.core.account.root" then
    match args with [PV (VInt n); PV (VStr a)] => Ok (PV (f_root a n)) | _ => Stuck end
  else if String.eqb name "beancount.core.account.parent" then
    match args with [PV (VStr a)] => Ok (PV (f_parent a)) | _ => Stuck end
  else if String.eqb name "beancount.core.account.leaf" then
    match args with [PV (VStr a)] => Ok (PV (f_leaf a)) | _ => Stuck end
  else if String.eqb name "beancount.core.account_types.get_account_sign" then
    match args with
    | [PV (VStr a); PTuple ts] =>
        match strs_of ts with Some types => Ok (PInt (account_sign types a)) | None => Stuck end
    | _ => Stuck
    end
  else if String.eqb name "beancount.core.account_types.get_account_sort_key" then
    match args with
    | [PTuple ts; PV (VStr a)] =>
        match strs_of ts with
        | Some types => match index_of (acc_type a) types 0 with
                        | Some i => Ok (PTuple [PInt i; pstr a])
                        | None => Exc ValueError                  (* tuple.index *)
                        end
        | None => Stuck
        end
    | _ => Stuck
    end
  else if String.eqb name "dateutil._common.weekday" then
    match args with [PV (VInt n); PV (VInt k)] => Ok (p_weekday n k) | _ => Stuck end
  else if String.eqb name "dateutil.relativedelta.relativedelta:weekday" then
    match args with
    | [PTuple [PV (VStr t); PV (VInt n); PV (VInt k)]] => if is_tag "weekday" t then Ok (p_rd_weekday n k) else Stuck
    | _ => Stuck
    end
  else if String.eqb name "neg" then
    match args with [PV (VDec d)] => Ok (PV (f_neg d)) | _ => Exc Eval.TypeError end
  else Stuck.

Definition prim_env (name : string) (args : list pv) : res pv :=
  if String.prefix "attr:" name then prim_attr (String.substring 5 (String.length name - 5) name) args
  else if String.prefix "call:" name then prim_call (String.substring 5 (String.length name - 5) name) args
  else if String.prefix "binop:" name then prim_binop (String.substring 6 (String.length name - 6) name) args
  else prim_fn name args.
