(* Primitive semantics for the translated column renderers of query_render.py (group `render`, Gen/SrcRender.v): how
   the cell values of Model/Render.v are laid out as PyMini values and what the library calls the translated methods
   make are ASSUMED to do.  Part of the trusted base of the C16 `*_source_*` theorems.

   Encoding:  bool / int / Decimal / str   the PyMini scalars
              datetime.date(y, m, d)       PTuple [40; y; m; d]
              any other object             PTuple [41; its str()]
              Decimal.as_tuple()           PTuple [50; sign; PTuple digits; exponent]
   Primitives, from Render.v's own string functions:
     max(a, b) on ints; str(x) = Render.py_str; date.strftime('%Y-%m-%d') = Render.date_str (this format only);
     s.rjust(n) / s.ljust(n) = Render.rjust / ljust; in an f-string `{x:>n}` = rjust n (str x), `{x:<n}` = ljust n (str x)
     (str and Decimal operands: Decimal.__format__ with an alignment-only spec pads str(value)); a negative width in a format
     spec is outside the model (Python raises ValueError): Stuck (rjust/ljust accept it: no padding); "fstr" concatenates the parts. *)
From Coq Require Import String ZArith List Bool.
Import ListNotations.
From Verif Require Import Base.PyValue Model.Eval Model.PyMini Model.Render.
Open Scope string_scope.
Open Scope list_scope.
Open Scope Z_scope.

Definition enc_rcell (c : cellv) : pv :=
  match c with
  | CBool b => PBool b
  | CInt z => PInt z
  | CDec d => PV (VDec d)
  | CStr s => PV (VStr s)
  | CDate y m d => PTuple [PInt 40; PInt y; PInt m; PInt d]
  | COther s => PTuple [PInt 41; PV (VStr s)]
  | _ => PNone
  end.

Definition dec_rcell (v : pv) : option cellv :=
  match v with
  | PV (VBool b) => Some (CBool b)
  | PV (VInt z) => Some (CInt z)
  | PV (VDec d) => Some (CDec d)
  | PV (VStr s) => Some (CStr s)
  | PTuple [PV (VInt 40); PV (VInt y); PV (VInt m); PV (VInt d)] => Some (CDate y m d)
  | PTuple [PV (VInt 41); PV (VStr s)] => Some (COther s)
  | _ => None
  end.

Definition enc_tuple (d : dec) : pv :=
  PTuple [PInt 50; PInt (if dneg d then 1 else 0); PTuple (map (fun c => PInt (c - 48)) (dec_digits d)); PInt (dexp d)].

Definition strftime_ymd : list Z := [37; 89; 45; 37; 109; 45; 37; 100].       (* '%Y-%m-%d' *)

Fixpoint all_strs (l : list pv) : option (list Z) :=
  match l with
  | [] => Some []
  | PV (VStr s) :: t => match all_strs t with Some r => Some (s ++ r) | None => None end
  | _ => None
  end.

Fixpoint str_eqb (a b : list Z) : bool :=
  match a, b with
  | [], [] => true
  | x :: a', y :: b' => (x =? y) && str_eqb a' b'
  | _, _ => false
  end.

Definition pad (strict left : bool) (v w : pv) : res pv :=
  match w with
  | PV (VInt n) =>
      if strict && (n <? 0) then Stuck
      else match v with
           | PV (VStr s) => Ok (PV (VStr (if left then ljust (Z.to_nat n) s else rjust (Z.to_nat n) s)))
           | PV (VDec d) => Ok (PV (VStr (if left then ljust (Z.to_nat n) (dec_str d) else rjust (Z.to_nat n) (dec_str d))))
           | _ => Stuck
           end
  | _ => Stuck
  end.

Definition prims_render (name : string) (args : list pv) : res pv :=
  if String.eqb name "builtins.max" then
    match args with [PV (VInt a); PV (VInt b)] => Ok (PInt (Z.max a b)) | _ => Stuck end
  else if String.eqb name "builtins.str" then
    match args with [v] => match dec_rcell v with Some c => Ok (PV (VStr (py_str c))) | None => Stuck end | _ => Stuck end
  else if String.eqb name "call:strftime" then
    match args with
    | [PTuple [PV (VInt 40); PV (VInt y); PV (VInt m); PV (VInt d)]; PV (VStr fmt)] =>
        if str_eqb fmt strftime_ymd then Ok (PV (VStr (date_str y m d))) else Stuck
    | _ => Stuck
    end
  else if String.eqb name "call:as_tuple" then
    match args with [PV (VDec d)] => Ok (enc_tuple d) | _ => Stuck end
  else if String.eqb name "attr:sign" then
    match args with [PTuple [PV (VInt 50); s; _; _]] => Ok s | _ => Stuck end
  else if String.eqb name "attr:digits" then
    match args with [PTuple [PV (VInt 50); _; ds; _]] => Ok ds | _ => Stuck end
  else if String.eqb name "attr:exponent" then
    match args with [PTuple [PV (VInt 50); _; _; e]] => Ok e | _ => Stuck end
  else if String.eqb name "call:rjust" then
    match args with [PV (VStr s); w] => pad false false (PV (VStr s)) w | _ => Stuck end
  else if String.eqb name "call:ljust" then
    match args with [PV (VStr s); w] => pad false true (PV (VStr s)) w | _ => Stuck end
  else if String.eqb name "format:>" then
    match args with [v; w] => pad true false v w | _ => Stuck end
  else if String.eqb name "format:<" then
    match args with [v; w] => pad true true v w | _ => Stuck end
  else if String.eqb name "fstr" then
    match all_strs args with Some s => Ok (PV (VStr s)) | None => Stuck end
  else Stuck.
