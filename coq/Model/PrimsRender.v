(* Primitive semantics for the translated column renderers of query_render.py (group `render`, Gen/SrcRender.v): how
   the cell values of Model/Render.v are laid out as PyMini values and what the library calls the translated methods
   make are ASSUMED to do.  Part of the trusted base of the C16 `*_source_*` theorems.

   Encoding:  bool / int / Decimal / str   the PyMini scalars
              datetime.date(y, m, d)       PTuple [40; y; m; d]
              any other object             PTuple [41; its str()]
              set of str / Amount / Position / Inventory   PTuple [42; PList strs] / [43; number; currency] /
                                           [44; units; cost or None] / [45; PList positions];  NULL is None
              a rendered cell              a str, or (InventoryRenderer with expand) a PList of str
              RenderContext                PTuple [61; dcontext; expand; listsep; spaced; null]
              a column renderer            PTuple [60; datatype; ctx; PList (the values update() was called with)]
                                           (update appends; prepare() is pure here and answers Render.st_width of
                                           Render.col_prepare over those values; format reads the same state)
              renderer.align               0 = Align.LEFT, 1 = Align.RIGHT (IntRenderer only: Render.align_of)
              Column(name, datatype)       PTuple [63; name; datatype]
              csv.writer(file)             PTuple [62; the text written so far]  (excel dialect: Render.csv_record)
              Decimal.as_tuple()           PTuple [50; sign; PTuple digits; exponent]
   Primitives, from Render.v's own string functions:
     max(a, b) on ints; str(x) = Render.py_str; date.strftime('%Y-%m-%d') = Render.date_str (this format only);
     s.rjust(n) / s.ljust(n) = Render.rjust / ljust; in an f-string `{x:>n}` = rjust n (str x), `{x:<n}` = ljust n (str x)
     (str and Decimal operands: Decimal.__format__ with an alignment-only spec pads str(value)); a negative width in a format
     spec is outside the model (Python raises ValueError): Stuck (rjust/ljust accept it: no padding); "fstr" concatenates the parts.
   render_text (bld-render3): s.rjust(n, c) for a one-character fill = [rjust_fill] (Render.rjust with the fill character in place of
     the space: rjust_fill_space); s.center(n) = Render.center (CPython's rounding rule); sep.join(list of str) = Render.join;
     template.format(x) for a template with exactly ONE replacement field written `{}` and no other brace = [fmt1] (the
     field replaced by x; any other template: Stuck); zip of three sequences = [zip3]; file.write(s) on the file-as-its-content
     value appends s (and answers len(s)); an Align member is its int value (translator rule T9; "attr:align").
   Amount / Position renderers (bld-render3, [prims_amt]): beancount's DisplayContext is abstract, exactly as in Render.v:
     the column's DisplayContext() builder  PTuple [64; PList of the (number, currency) pairs update() was called with]
     (update appends); .build(Align.DOT = 2, Precision.MAXIMUM = 2) is the formatter PTuple [65; the same pairs], and
     applying it to (number, currency) is Render's [numfmt pairs number currency]; .ccontexts iterates over '__default__'
     then the distinct currencies in first-update order; Decimal() is 0; the ledger's display context is
     PTuple [67; its quantize method]; value.number / .currency / .units / .cost read the encoded Amount / Position;
     `{x}` in an f-string, x a str, is x. *)
From Coq Require Import String ZArith List Bool.
Import ListNotations.
From Verif Require Import Base.PyValue Model.Eval Model.PyMini Model.Render.
Open Scope string_scope.
Open Scope list_scope.
Open Scope Z_scope.

Fixpoint n_map_opt {A B} (f : A -> option B) (l : list A) : option (list B) :=
  match l with
  | [] => Some []
  | a :: t => match f a, n_map_opt f t with Some b, Some bs => Some (b :: bs) | _, _ => None end
  end.

Definition enc_s (s : str) : pv := PV (VStr s).
Definition enc_amt (a : amt) : pv := PTuple [PInt 43; PV (VDec (fst a)); PV (VStr (snd a))].
Definition enc_posn (p : posn) : pv :=
  PTuple [PInt 44; enc_amt (p_units p); match p_cost p with None => PNone | Some c => enc_amt c end].

Definition enc_rcell (c : cellv) : pv :=
  match c with
  | CNull => PNone
  | CBool b => PBool b
  | CInt z => PInt z
  | CDec d => PV (VDec d)
  | CStr s => PV (VStr s)
  | CDate y m d => PTuple [PInt 40; PInt y; PInt m; PInt d]
  | COther s => PTuple [PInt 41; PV (VStr s)]
  | CSet l => PTuple [PInt 42; PList (map enc_s l)]
  | CAmt a => enc_amt a
  | CPos p => enc_posn p
  | CInv l => PTuple [PInt 45; PList (map enc_posn l)]
  end.

Definition dec_s (v : pv) : option str := match v with PV (VStr s) => Some s | _ => None end.
Definition dec_amt (v : pv) : option amt :=
  match v with PTuple [PV (VInt 43); PV (VDec d); PV (VStr s)] => Some (d, s) | _ => None end.
Definition dec_posn (v : pv) : option posn :=
  match v with
  | PTuple [PV (VInt 44); a; c] =>
      match dec_amt a with
      | Some a' => match c with
                   | PV VNull => Some (mkpos a' None)
                   | _ => match dec_amt c with Some c' => Some (mkpos a' (Some c')) | None => None end
                   end
      | None => None
      end
  | _ => None
  end.

Definition dec_rcell (v : pv) : option cellv :=
  match v with
  | PV VNull => Some CNull
  | PV (VBool b) => Some (CBool b)
  | PV (VInt z) => Some (CInt z)
  | PV (VDec d) => Some (CDec d)
  | PV (VStr s) => Some (CStr s)
  | PTuple [PV (VInt 40); PV (VInt y); PV (VInt m); PV (VInt d)] => Some (CDate y m d)
  | PTuple [PV (VInt 41); PV (VStr s)] => Some (COther s)
  | PTuple [PV (VInt 42); PList l] => option_map CSet (n_map_opt dec_s l)
  | PTuple [PV (VInt 43); _; _] => option_map CAmt (dec_amt v)
  | PTuple [PV (VInt 44); _; _] => option_map CPos (dec_posn v)
  | PTuple [PV (VInt 45); PList l] => option_map CInv (n_map_opt dec_posn l)
  | _ => None
  end.

Definition enc_tuple (d : dec) : pv :=
  PTuple [PInt 50; PInt (if dneg d then 1 else 0); PTuple (map (fun c => PInt (c - 48)) (dec_digits d)); PInt (dexp d)].

Definition strftime_ymd : list Z := [37; 89; 45; 37; 109; 45; 37; 100].       (* '%Y-%m-%d' *)

Fixpoint all_strs (l : list pv) : option (list Z) :=
  match l with
  | [] => Some []
  | PV (VStr s) :: t => match all_strs t with Some r => Some (s ++ r) | None => None end
  | _ => None
  end.

Fixpoint str_eqb (a b : list Z) : bool :=
  match a, b with
  | [], [] => true
  | x :: a', y :: b' => (x =? y) && str_eqb a' b'
  | _, _ => false
  end.

Definition pad (strict left : bool) (v w : pv) : res pv :=
  match w with
  | PV (VInt n) =>
      if strict && (n <? 0) then Stuck
      else match v with
           | PV (VStr s) => Ok (PV (VStr (if left then ljust (Z.to_nat n) s else rjust (Z.to_nat n) s)))
           | PV (VDec d) => Ok (PV (VStr (if left then ljust (Z.to_nat n) (dec_str d) else rjust (Z.to_nat n) (dec_str d))))
           | _ => Stuck
           end
  | _ => Stuck
  end.

(* s.rjust(w, c) *)
Definition rjust_fill (w : nat) (c : Z) (s : str) : str := repeat c (w - length s) ++ s.

(* template.format(x): exactly one field `{}`, no other brace in the template *)
Definition is_brace (c : Z) : bool := (c =? 123) || (c =? 125).
Fixpoint fmt1 (t x : list Z) : option (list Z) :=
  match t with
  | [] => None
  | c :: r =>
      if c =? 123 then
        match r with
        | d :: r' => if (d =? 125) && negb (existsb is_brace r') then Some (x ++ r') else None
        | [] => None
        end
      else if c =? 125 then None
      else option_map (cons c) (fmt1 r x)
  end.

Definition prims_render (name : string) (args : list pv) : res pv :=
  if String.eqb name "builtins.max" then
    match args with [PV (VInt a); PV (VInt b)] => Ok (PInt (Z.max a b)) | _ => Stuck end
  else if String.eqb name "builtins.str" then
    match args with
    | [v] => match dec_rcell v with Some c => if scalar c then Ok (PV (VStr (py_str c))) else Stuck | None => Stuck end
    | _ => Stuck
    end
  else if String.eqb name "call:strftime" then
    match args with
    | [PTuple [PV (VInt 40); PV (VInt y); PV (VInt m); PV (VInt d)]; PV (VStr fmt)] =>
        if str_eqb fmt strftime_ymd then Ok (PV (VStr (date_str y m d))) else Stuck
    | _ => Stuck
    end
  else if String.eqb name "call:as_tuple" then
    match args with [PV (VDec d)] => Ok (enc_tuple d) | _ => Stuck end
  else if String.eqb name "attr:sign" then
    match args with [PTuple [PV (VInt 50); s; _; _]] => Ok s | _ => Stuck end
  else if String.eqb name "attr:digits" then
    match args with [PTuple [PV (VInt 50); _; ds; _]] => Ok ds | _ => Stuck end
  else if String.eqb name "attr:exponent" then
    match args with [PTuple [PV (VInt 50); _; _; e]] => Ok e | _ => Stuck end
  else if String.eqb name "call:rjust" then
    match args with
    | [PV (VStr s); w] => pad false false (PV (VStr s)) w
    | [PV (VStr s); PV (VInt n); PV (VStr [c])] => Ok (PV (VStr (rjust_fill (Z.to_nat n) c s)))
    | _ => Stuck
    end
  else if String.eqb name "call:ljust" then
    match args with [PV (VStr s); w] => pad false true (PV (VStr s)) w | _ => Stuck end
  else if String.eqb name "format:>" then
    match args with [v; w] => pad true false v w | _ => Stuck end
  else if String.eqb name "format:<" then
    match args with [v; w] => pad true true v w | _ => Stuck end
  else if String.eqb name "fstr" then
    match all_strs args with Some s => Ok (PV (VStr s)) | None => Stuck end
  else Stuck.

(* ================================================================== the top-level functions (render_rows, ...) *)
Definition enc_out (c : cell) : pv := match c with One s => enc_s s | Many l => PList (map enc_s l) end.

Definition dtype_code (t : dtype) : Z :=
  match t with TObject => 0 | TBool => 1 | TStr => 2 | TSet => 3 | TDate => 4 | TInt => 5 | TDecimal => 6
          | TAmount => 7 | TPosition => 8 | TInventory => 9 end.
Definition enc_rdtype (t : dtype) : pv := PTuple [PInt 70; PInt (dtype_code t)].
Definition dec_rdtype (v : pv) : option dtype :=
  match v with
  | PTuple [PV (VInt 70); PV (VInt k)] =>
      if k =? 0 then Some TObject else if k =? 1 then Some TBool else if k =? 2 then Some TStr else if k =? 3 then Some TSet
      else if k =? 4 then Some TDate else if k =? 5 then Some TInt else if k =? 6 then Some TDecimal
      else if k =? 7 then Some TAmount else if k =? 8 then Some TPosition else if k =? 9 then Some TInventory else None
  | _ => None
  end.

(* the options a RenderContext carries; boxed / unicode / narrow are not part of it (normalised) *)
Definition ctx_opts (o : opts) : opts := mkopts false false (o_spaced o) (o_expand o) true (o_null o) (o_listsep o).
Definition enc_ctx (dc : pv) (o : opts) : pv :=
  PTuple [PInt 61; dc; PBool (o_expand o); enc_s (o_listsep o); PBool (o_spaced o); enc_s (o_null o)].
Definition dec_ctx (v : pv) : option opts :=
  match v with
  | PTuple [PV (VInt 61); _; PV (VBool ex); PV (VStr sep); PV (VBool sp); PV (VStr nl)] =>
      Some (mkopts false false sp ex true nl sep)
  | _ => None
  end.

Definition robj (t : dtype) (ctx : pv) (vals : list cellv) : pv :=
  PTuple [PInt 60; enc_rdtype t; ctx; PList (map enc_rcell vals)].
Definition dec_robj (v : pv) : option (dtype * opts * list cellv) :=
  match v with
  | PTuple [PV (VInt 60); t; ctx; PList vals] =>
      match dec_rdtype t, dec_ctx ctx, n_map_opt dec_rcell vals with
      | Some t', Some o, Some vs => Some (t', o, vs)
      | _, _, _ => None
      end
  | _ => None
  end.

Definition seq_of (v : pv) : option (list pv) := match v with PList l | PTuple l => Some l | _ => None end.

Fixpoint zip2 (a b : list pv) : list pv :=
  match a, b with x :: a', y :: b' => PTuple [x; y] :: zip2 a' b' | _, _ => [] end.
Fixpoint zip3 (a b c : list pv) : list pv :=
  match a, b, c with x :: a', y :: b', z :: c' => PTuple [x; y; z] :: zip3 a' b' c' | _, _, _ => [] end.

Definition transpose (ls : list (list pv)) : list pv :=
  match ls with
  | [] => []
  | c0 :: _ =>
      let n := fold_right (fun c m => Nat.min (length c) m) (length c0) ls in
      map (fun i => PTuple (map (fun c => nth i c PNone) ls)) (seq 0 n)
  end.

Definition line_of (v : pv) : option (list str) :=
  match seq_of v with Some l => n_map_opt dec_s l | None => None end.

Definition enc_rcolumn (d : str * dtype) : pv := PTuple [PInt 63; enc_s (fst d); enc_rdtype (snd d)].
Definition csv_writer (content : str) : pv := PTuple [PInt 62; enc_s content].

Definition as_int (v : pv) : option Z :=
  match v with PV (VInt z) => Some z | PV (VBool b) => Some (if b then 1 else 0) | _ => None end.
Definition as_boolv (v : pv) : option bool := match v with PV (VBool b) => Some b | _ => None end.

Section Top.
Variable quant : dec -> str -> dec.
Variable numfmt : list (dec * str) -> dec -> str -> str.

Definition prims_top (name : string) (args : list pv) : res pv :=
  if String.eqb name "truth" then
    match args with [v] => bind (pv_truthy v) (fun b => Ok (PBool b)) | _ => Stuck end
  else if String.eqb name "attr:null" then
    match args with [PTuple [PV (VInt 61); _; _; _; _; n]] => Ok n | _ => Stuck end
  else if String.eqb name "attr:spaced" then
    match args with [PTuple [PV (VInt 61); _; _; _; s; _]] => Ok s | _ => Stuck end
  else if String.eqb name "binop:mul" then
    match args with [PList l; PV (VInt n)] => Ok (PList (concat (repeat l (Z.to_nat n)))) | _ => Stuck end
  else if String.eqb name "builtins.zip" then
    match args with
    | [a; b] => match seq_of a, seq_of b with Some x, Some y => Ok (PList (zip2 x y)) | _, _ => Stuck end
    | [a; b; c] =>
        match seq_of a, seq_of b, seq_of c with Some x, Some y, Some z => Ok (PList (zip3 x y z)) | _, _, _ => Stuck end
    | _ => Stuck
    end
  else if String.eqb name "call:format" then
    match args with
    | [r; v] =>
        match dec_robj r, dec_rcell v with
        | Some (t, o, vals), Some c => Ok (enc_out (st_format numfmt o t (col_prepare quant o t vals) c))
        | _, _ =>
            match r, v with              (* not a renderer: template.format(x) on a str *)
            | PV (VStr t), PV (VStr x) => match fmt1 t x with Some y => Ok (PV (VStr y)) | None => Stuck end
            | _, _ => Stuck
            end
        end
    | _ => Stuck
    end
  else if String.eqb name "isinstance:list" then
    match args with [v] => Ok (PBool (match v with PList _ => true | _ => false end)) | _ => Stuck end
  else if String.eqb name "builtins.any" then
    match args with
    | [PList l] => match n_map_opt as_boolv l with Some bs => Ok (PBool (existsb (fun b => b) bs)) | None => Stuck end
    | _ => Stuck
    end
  else if String.eqb name "builtins.max" then
    match args with
    | [PV (VInt a); PV (VInt b)] => Ok (PInt (Z.max a b))
    | [PList l] =>
        match n_map_opt as_int l with
        | Some (z :: zs) => Ok (PInt (fold_left Z.max zs z))
        | Some [] => Exc ValueError
        | None => Stuck
        end
    | _ :: _ :: _ :: _ =>               (* max(x1, .., xn), n >= 3, ints (a bool counts as 0 / 1; all-int results) *)
        match n_map_opt as_int args with
        | Some (z :: zs) => Ok (PInt (fold_left Z.max zs z))
        | _ => Stuck
        end
    | _ => Stuck
    end
  else if String.eqb name "attr:align" then
    match args with
    | [PTuple [PV (VInt 60); t; _; _]] =>
        match dec_rdtype t with Some TInt => Ok (PInt 1) | Some _ => Ok (PInt 0) | None => Stuck end
    | _ => Stuck
    end
  else if String.eqb name "zip*" then
    match args with
    | [PList cs] => match n_map_opt seq_of cs with Some ls => Ok (PList (transpose ls)) | None => Stuck end
    | _ => Stuck
    end
  else if String.eqb name "beanquery.query_render.RenderContext:expand,spaced,listsep,null" then
    match args with [dc; ex; sp; sep; nl] => Ok (PTuple [PInt 61; dc; ex; sep; sp; nl]) | _ => Stuck end
  else if String.eqb name "attr:name" then
    match args with [PTuple [PV (VInt 63); n; _]] => Ok n | _ => Stuck end
  else if String.eqb name "attr:datatype" then
    match args with [PTuple [PV (VInt 63); _; t]] => Ok t | _ => Stuck end
  else if String.eqb name "method:update" then
    match args with
    | [PTuple [PV (VInt 60); t; c; PList vals]; v] => Ok (PTuple [PTuple [PInt 60; t; c; PList (vals ++ [v])]; PNone])
    | _ => Stuck
    end
  else if String.eqb name "call:prepare" then
    match args with
    | [r] => match dec_robj r with
             | Some (t, o, vals) => Ok (PInt (Z.of_nat (st_width numfmt (col_prepare quant o t vals))))
             | None => Stuck
             end
    | _ => Stuck
    end
  else if String.eqb name "_csv.writer" then
    match args with [PV (VStr f)] => Ok (csv_writer f) | _ => Stuck end
  else if String.eqb name "method:writerow" then
    match args with
    | [PTuple [PV (VInt 62); PV (VStr f)]; row] =>
        match line_of row with Some fields => Ok (PTuple [csv_writer (f ++ csv_record fields); PNone]) | None => Stuck end
    | _ => Stuck
    end
  else if String.eqb name "method:writerows" then
    match args with
    | [PTuple [PV (VInt 62); PV (VStr f)]; PList lines] =>
        match n_map_opt line_of lines with
        | Some recs => Ok (PTuple [csv_writer (f ++ flat_map csv_record recs); PNone])
        | None => Stuck
        end
    | _ => Stuck
    end
  else if String.eqb name "call:center" then
    match args with [PV (VStr s); PV (VInt n)] => Ok (PV (VStr (center (Z.to_nat n) s))) | _ => Stuck end
  else if String.eqb name "call:join" then
    match args with
    | [PV (VStr sep); PList l] => match n_map_opt dec_s l with Some ss => Ok (PV (VStr (join sep ss))) | None => Stuck end
    | _ => Stuck
    end
  else if String.eqb name "method:write" then
    match args with
    | [PV (VStr f); PV (VStr x)] => Ok (PTuple [PV (VStr (f ++ x)); PInt (Z.of_nat (length x))])
    | _ => Stuck
    end
  else prims_render name args.
End Top.

(* ================================================================== the Amount / Position renderers *)
Definition s_default : str := [95; 95; 100; 101; 102; 97; 117; 108; 116; 95; 95].      (* '__default__' *)
Definition enc_up (u : dec * str) : pv := PTuple [PV (VDec (fst u)); enc_s (snd u)].
Definition dec_up (v : pv) : option (dec * str) :=
  match v with PTuple [PV (VDec d); PV (VStr c)] => Some (d, c) | _ => None end.
Definition enc_dctx (ups : list (dec * str)) : pv := PTuple [PInt 64; PList (map enc_up ups)].
Definition enc_func (ups : list (dec * str)) : pv := PTuple [PInt 65; PList (map enc_up ups)].
Fixpoint dedupe (seen l : list str) : list str :=
  match l with
  | [] => []
  | x :: t => if existsb (str_eqb x) seen then dedupe seen t else x :: dedupe (x :: seen) t
  end.

Section Amt.
Variable numfmt : list (dec * str) -> dec -> str -> str.

Definition prims_amt (name : string) (args : list pv) : res pv :=
  if String.eqb name "attr:number" then
    match args with [PTuple [PV (VInt 43); n; _]] => Ok n | _ => Stuck end
  else if String.eqb name "attr:currency" then
    match args with [PTuple [PV (VInt 43); _; c]] => Ok c | _ => Stuck end
  else if String.eqb name "attr:units" then
    match args with [PTuple [PV (VInt 44); u; _]] => Ok u | _ => Stuck end
  else if String.eqb name "attr:cost" then
    match args with [PTuple [PV (VInt 44); _; c]] => Ok c | _ => Stuck end
  else if String.eqb name "attr:dcontext" then
    match args with [PTuple [PV (VInt 61); dc; _; _; _; _]] => Ok dc | _ => Stuck end
  else if String.eqb name "attr:quantize" then
    match args with [PTuple [PV (VInt 67); q]] => Ok q | _ => Stuck end
  else if String.eqb name "beancount.core.display_context.DisplayContext" then
    match args with [] => Ok (enc_dctx []) | _ => Stuck end
  else if String.eqb name "decimal.Decimal" then
    match args with [] => Ok (PV (VDec dec_zero)) | _ => Stuck end
  else if String.eqb name "method:update" then
    match args with
    | [PTuple [PV (VInt 64); PList l]; PV (VDec d); PV (VStr c)] =>
        Ok (PTuple [PTuple [PInt 64; PList (l ++ [enc_up (d, c)])]; PNone])
    | _ => Stuck
    end
  else if String.eqb name "call:build" then
    match args with
    | [PTuple [PV (VInt 64); PList l]; PV (VInt 2); PV (VInt 2)] => Ok (PTuple [PInt 65; PList l])
    | _ => Stuck
    end
  else if String.eqb name "attr:ccontexts" then
    match args with
    | [PTuple [PV (VInt 64); PList l]] =>
        match n_map_opt dec_up l with
        | Some ups => Ok (PList (map enc_s (s_default :: dedupe [] (map snd ups))))
        | None => Stuck
        end
    | _ => Stuck
    end
  else if String.eqb name "apply" then
    match args with
    | [PTuple [PV (VInt 65); PList l]; PV (VDec d); PV (VStr c)] =>
        match n_map_opt dec_up l with Some ups => Ok (enc_s (numfmt ups d c)) | None => Stuck end
    | _ => Stuck
    end
  else if String.eqb name "format:plain" then
    match args with [PV (VStr x)] => Ok (PV (VStr x)) | _ => Stuck end
  else prims_render name args.
End Amt.
