(* Beancount ledgers as beanquery sees them: the list of loaded directives
   (beancount.core.data namedtuples) with their metadata dictionaries and, for
   transactions, their postings.  Strings are lists of code points, dates are
   proleptic Gregorian ordinals, numbers are finite decimal.Decimal values
   (Base.PyValue.dec, exact sign/coefficient/exponent).  Definitions only. *)
From Coq Require Import ZArith List Bool.
Import ListNotations.
From Verif Require Import Base.PyValue.
Open Scope Z_scope.

Definition str := list Z.

(* beancount.core.amount.Amount(number, currency) *)
Record amount := mkamount { a_num : dec; a_cur : str }.

(* beancount.core.position.Cost(number, currency, date, label) *)
Record cost := mkcost { c_num : dec; c_cur : str; c_date : option Z; c_label : option str }.

(* Metadata values: every kind the Beancount grammar can produce (string, account,
   currency and tag are str; number is Decimal; date; bool; amount; NONE) plus int
   (lineno, plugin-made values) and the {currency: Decimal} dict the booking code
   stores under __tolerances__. *)
Inductive mvalue :=
| MNone
| MStr (s : str)
| MInt (z : Z)
| MDec (d : dec)
| MDate (o : Z)
| MBool (b : bool)
| MAmount (a : amount)
| MTol (l : list (str * dec)).

(* A Python dict with str keys, in insertion order; keys are pairwise distinct. *)
Definition metadata := list (str * mvalue).

(* beancount.core.data.Posting(account, units, cost, price, flag, meta) *)
Record posting := mkposting {
  p_account : str;
  p_units : amount;
  p_cost : option cost;
  p_price : option amount;
  p_flag : option str;
  p_meta : option metadata      (* None for postings synthesised without metadata *)
}.

(* The hexadecimal digest beancount.core.compare.hash_entry gives the directive
   is carried as data ([d_id]): MD5 is not modelled. *)
Inductive directive :=
| Transaction (id : str) (m : metadata) (date : Z) (flag : option str) (payee : option str)
              (narration : option str) (tags links : list str) (postings : list posting)
| Open (id : str) (m : metadata) (date : Z) (account : str) (currencies : option (list str)) (booking : option str)
| Close (id : str) (m : metadata) (date : Z) (account : str)
| Commodity (id : str) (m : metadata) (date : Z) (currency : str)
| Pad (id : str) (m : metadata) (date : Z) (account source_account : str)
| Balance (id : str) (m : metadata) (date : Z) (account : str) (amt : amount) (tolerance : option dec)
          (diff_amount : option amount)
| Note (id : str) (m : metadata) (date : Z) (account comment : str) (tags links : option (list str))
| Event (id : str) (m : metadata) (date : Z) (type description : str)
| Query (id : str) (m : metadata) (date : Z) (name query_string : str)
| Price (id : str) (m : metadata) (date : Z) (currency : str) (amt : amount)
| Document (id : str) (m : metadata) (date : Z) (account filename : str) (tags links : option (list str))
| Custom (id : str) (m : metadata) (date : Z) (type : str).

Definition ledger := list directive.

Definition d_id (d : directive) : str :=
  match d with
  | Transaction i _ _ _ _ _ _ _ _ | Open i _ _ _ _ _ | Close i _ _ _ | Commodity i _ _ _ | Pad i _ _ _ _
  | Balance i _ _ _ _ _ _ | Note i _ _ _ _ _ _ | Event i _ _ _ _ | Query i _ _ _ _ | Price i _ _ _ _
  | Document i _ _ _ _ _ _ | Custom i _ _ _ => i
  end.

Definition d_meta (d : directive) : metadata :=
  match d with
  | Transaction _ m _ _ _ _ _ _ _ | Open _ m _ _ _ _ | Close _ m _ _ | Commodity _ m _ _ | Pad _ m _ _ _
  | Balance _ m _ _ _ _ _ | Note _ m _ _ _ _ _ | Event _ m _ _ _ | Query _ m _ _ _ | Price _ m _ _ _
  | Document _ m _ _ _ _ _ | Custom _ m _ _ => m
  end.

Definition d_date (d : directive) : Z :=
  match d with
  | Transaction _ _ t _ _ _ _ _ _ | Open _ _ t _ _ _ | Close _ _ t _ | Commodity _ _ t _ | Pad _ _ t _ _
  | Balance _ _ t _ _ _ _ | Note _ _ t _ _ _ _ | Event _ _ t _ _ | Query _ _ t _ _ | Price _ _ t _ _
  | Document _ _ t _ _ _ _ | Custom _ _ t _ => t
  end.

(* type(entry).__name__ as an enumeration *)
Inductive dkind := KTransaction | KOpen | KClose | KCommodity | KPad | KBalance | KNote | KEvent | KQuery
                 | KPrice | KDocument | KCustom.

Definition d_kind (d : directive) : dkind :=
  match d with
  | Transaction _ _ _ _ _ _ _ _ _ => KTransaction | Open _ _ _ _ _ _ => KOpen | Close _ _ _ _ => KClose
  | Commodity _ _ _ _ => KCommodity | Pad _ _ _ _ _ => KPad | Balance _ _ _ _ _ _ _ => KBalance
  | Note _ _ _ _ _ _ _ => KNote | Event _ _ _ _ _ => KEvent | Query _ _ _ _ _ => KQuery
  | Price _ _ _ _ _ => KPrice | Document _ _ _ _ _ _ _ => KDocument | Custom _ _ _ _ => KCustom
  end.

Definition dkind_eqb (a b : dkind) : bool :=
  match a, b with
  | KTransaction, KTransaction | KOpen, KOpen | KClose, KClose | KCommodity, KCommodity | KPad, KPad
  | KBalance, KBalance | KNote, KNote | KEvent, KEvent | KQuery, KQuery | KPrice, KPrice
  | KDocument, KDocument | KCustom, KCustom => true
  | _, _ => false
  end.

(* isinstance(entry, data.Transaction) *)
Definition is_transaction (d : directive) : bool := dkind_eqb (d_kind d) KTransaction.

Definition d_postings (d : directive) : list posting :=
  match d with Transaction _ _ _ _ _ _ _ _ ps => ps | _ => [] end.

Definition d_account (d : directive) : str :=
  match d with
  | Open _ _ _ a _ _ | Close _ _ _ a | Pad _ _ _ a _ | Balance _ _ _ a _ _ _ | Note _ _ _ a _ _ _
  | Document _ _ _ a _ _ _ => a
  | _ => []
  end.

(* string equality on code points *)
Fixpoint str_eqb (a b : str) : bool :=
  match a, b with
  | [], [] => true
  | x :: a', y :: b' => (x =? y) && str_eqb a' b'
  | _, _ => false
  end.

(* dict.get(key): first (= only) binding of the key *)
Fixpoint dict_get {V} (m : list (str * V)) (k : str) : option V :=
  match m with
  | [] => None
  | (k', v) :: t => if str_eqb k' k then Some v else dict_get t k
  end.
