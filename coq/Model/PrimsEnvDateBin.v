(* C18 -- semantics of the primitives the translated `date_bin(relativedelta, date, date)` of beanquery/query_env.py calls
   (group `env2` of the translator-based tie: harness/vf/src_env2.py -> Gen/SrcEnv2.v, Proofs/SrcEnvDateBin.v; bld-env2).

   TRUSTED (what the libraries are assumed to do), built from Model/Dates.v:
   * a dateutil relativedelta with years / months / days only (what `interval()` constructs; Dates.rdelta has no other
     field) is the tagged tuple [p_rdelta r] (the encoding Proofs/SrcEnv.v passes to the opaque date_bin of date_bin_str); its attributes hours / minutes / seconds read 0;
   * date + relativedelta = Dates.rd_add (relativedelta.__radd__: years and months added, the day clipped to the length of
     the month, then the days added; ValueError when the year leaves 1..9999), date - relativedelta = date + (-relativedelta)
     (relativedelta.__rsub__), Dates.rd_neg;
   * date - date is a timedelta, represented by its whole days (PrimsEnv.p_timedelta); total_seconds() of it is days * 86400,
     an integral float represented BY THE INTEGER (exact: |days| * 86400 < 2^53), so that `%`, `-` and `< 0` on it are
     PyMini's integer operations (float % 0 and int % 0 both raise ZeroDivisionError);
   * datetime.timedelta(seconds=n) for an integral n is the timedelta of n // 86400 days (plus a seconds part that
     date +/- timedelta ignores: CPython's date.__add__ reads only .days);
   * date +/- timedelta = Dates.add_days (OverflowError outside date.min .. date.max).
   "while:exhausted" (the translator's marker behind a fuelled `while True`) has NO meaning here: Stuck. *)
From Coq Require Import String Ascii ZArith List Bool.
Import ListNotations.
From Verif Require Import Base.PyValue Model.PyMini Model.Dates Model.PrimsEnv.
Open Scope string_scope.
Open Scope list_scope.
Open Scope Z_scope.

Definition p_rdelta (r : rdelta) : pv := tagged "relativedelta" [PInt (rd_years r); PInt (rd_months r); PInt (rd_days r)].

Definition rd_attr (a : string) (y m d : Z) : res pv :=
  if String.eqb a "years" then Ok (PInt y)
  else if String.eqb a "months" then Ok (PInt m)
  else if String.eqb a "days" then Ok (PInt d)
  else if String.eqb a "hours" || String.eqb a "minutes" || String.eqb a "seconds" then Ok (PInt 0)
  else Stuck.

Definition prim_datebin (name : string) (args : list pv) : res pv :=
  match args with
  | [PTuple [PV (VStr t); PV (VInt y); PV (VInt m); PV (VInt d)]] =>
      if is_tag "relativedelta" t && String.prefix "attr:" name
      then rd_attr (String.substring 5 (String.length name - 5) name) y m d
      else Stuck
  | [PV (VDate o); PTuple [PV (VStr t); PV (VInt y); PV (VInt m); PV (VInt d)]] =>
      if negb (is_tag "relativedelta" t) then Stuck
      else if String.eqb name "binop:add" then lift (rd_add o (mkrd y m d))
      else if String.eqb name "binop:sub" then lift (rd_add o (rd_neg (mkrd y m d)))
      else Stuck
  | [PV (VDate a); PV (VDate b)] =>
      if String.eqb name "binop:sub" then Ok (p_timedelta (a - b)) else Stuck
  | [PTuple [PV (VStr t); PV (VInt n)]] =>
      if is_tag "timedelta" t && String.eqb name "call:total_seconds" then Ok (PInt (n * 86400)) else Stuck
  | [PV (VInt n)] =>
      if String.eqb name "datetime.timedelta:seconds" then Ok (p_timedelta (n / 86400)) else Stuck
  | [PV (VDate o); PTuple [PV (VStr t); PV (VInt n)]] =>
      if negb (is_tag "timedelta" t) then Stuck
      else if String.eqb name "binop:add" then lift (add_days o n)
      else if String.eqb name "binop:sub" then lift (add_days o (- n))
      else Stuck
  | _ => Stuck
  end.
