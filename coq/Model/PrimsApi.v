(* Primitive semantics and value encodings for the translator-based tie of the stateful API code
   (groups cursor / params / naming / shell of harness/vf/gen_src.py).  Definitions only; proofs are in
   Proofs/SrcCursor.v and Proofs/SrcApi.v.

   What is trusted here: how a Python object the translated code touches is ENCODED as a [pv], and what each library
   function / attribute read / method the code calls on such an object is taken to return (the function [prim_api]
   below).  Everything else - the control flow, which branch raises what, which attribute is written when - is what
   the translated source says and is proved equal to the hand-written models. *)
From Coq Require Import String Ascii ZArith List Bool.
Import ListNotations.
From Verif Require Import Base.StableSort Base.PyValue Model.Eval Model.PyMini.
Open Scope string_scope.
Open Scope list_scope.
Open Scope Z_scope.

(* the number a generated file's [refs] table gives to an opaque callable, by its qualified name *)
Fixpoint ref_of (refs : list (nat * string)) (name : string) : option nat :=
  match refs with
  | [] => None
  | (k, n) :: t => if String.eqb n name then Some k else ref_of t name
  end.

(* ------------------------------------------------------------------ strings *)
Fixpoint zs (s : string) : list Z :=
  match s with
  | EmptyString => []
  | String a r => Z.of_N (Ascii.N_of_ascii a) :: zs r
  end.
Definition PStr (s : string) : pv := PV (VStr (zs s)).

Fixpoint zeqb (a b : list Z) : bool :=
  match a, b with
  | [], [] => true
  | x :: a', y :: b' => (x =? y) && zeqb a' b'
  | _, _ => false
  end.

Fixpoint zprefix (p l : list Z) : bool :=
  match p, l with
  | [], _ => true
  | x :: p', y :: l' => (x =? y) && zprefix p' l'
  | _, _ => false
  end.

Fixpoint strip_prefix (p s : string) : option string :=
  match p with
  | EmptyString => Some s
  | String a p' =>
      match s with
      | String b s' => if Ascii.eqb a b then strip_prefix p' s' else None
      | EmptyString => None
      end
  end.

(* "a|b|c" -> [a; b; c] *)
Fixpoint split_bar (acc s : string) : list string :=
  match s with
  | EmptyString => [acc]
  | String c r => if Ascii.eqb c "|"%char then acc :: split_bar EmptyString r
                  else split_bar (acc ++ String c EmptyString) r
  end.

(* ------------------------------------------------------------------ objects
   An object whose attributes the translated code reads is a tagged record: the qualified name of its class and
   its attributes.  A dict is a record tagged builtins.dict whose "attributes" are its items (keys: str or int),
   in insertion order; a later item shadows an earlier one with the same key. *)
Definition record (tag : list Z) (fields : list (string * pv)) : pv :=
  PTuple [PV (VStr tag); PList (map (fun nv => PTuple [PStr (fst nv); snd nv]) fields)].
Definition dict_tag : string := "builtins.dict".
Definition pdict (items : list (pv * pv)) : pv :=
  PTuple [PStr dict_tag; PList (map (fun kv => PTuple [fst kv; snd kv]) items)].

Definition key_eqb (a b : pv) : bool :=
  match a, b with
  | PV (VStr x), PV (VStr y) => zeqb x y
  | PV (VInt x), PV (VInt y) => x =? y
  | _, _ => false
  end.

Fixpoint assoc (k : pv) (l : list pv) : option pv :=
  match l with
  | [] => None
  | PTuple [k'; v] :: t => if key_eqb k k' then Some v else assoc k t
  | _ :: t => assoc k t
  end.

Definition get_attr (a : string) (o : pv) : res pv :=
  match o with
  | PTuple [PV (VStr _); PList fs] =>
      match assoc (PStr a) fs with Some v => Ok v | None => Exc AttributeError end
  | _ => Stuck
  end.

Definition class_of (v : pv) : list Z :=
  match v with
  | PV VNull => zs "builtins.NoneType"
  | PV (VBool _) => zs "builtins.bool"
  | PV (VInt _) => zs "builtins.int"
  | PV (VStr _) => zs "builtins.str"
  | PV _ => []
  | PList _ => zs "builtins.list"
  | PTuple [PV (VStr tag); PList _] => tag
  | PTuple _ => zs "builtins.tuple"
  | _ => []
  end.

(* class c is (a subclass of / registered with) sup: only the facts the translated code relies on *)
Definition is_a (c : list Z) (sup : string) : bool :=
  zeqb c (zs sup)
  || (String.eqb sup "typing.Mapping" && zeqb c (zs dict_tag))
  || (String.eqb sup "typing.Sequence"
      && (zeqb c (zs "builtins.list") || zeqb c (zs "builtins.tuple") || zeqb c (zs "builtins.str")))
  || (String.eqb sup "builtins.int" && zeqb c (zs "builtins.bool")).

Definition isinstance (v : pv) (classes : string) : bool :=
  existsb (is_a (class_of v)) (split_bar EmptyString classes).

(* ------------------------------------------------------------------ exceptions
   raise E(msg): the kind is a function of the class and of the leading constant text of the message (the
   harness, too, tells the three ProgrammingErrors of parameter validation apart by their text) *)
Definition ProgrammingError : Z := 20.
Definition MissingParameter : Z := 21.
Definition ParameterCount : Z := 22.
Definition MixedParameters : Z := 23.
Definition OtherException : Z := 99.

Definition exc_kind (cls lead : list Z) : Z :=
  if zeqb cls (zs "builtins.TypeError") then TypeError
  else if zeqb cls (zs "builtins.ValueError") then ValueError
  else if zeqb cls (zs "builtins.AttributeError") then AttributeError
  else if zeqb cls (zs "beanquery.ProgrammingError") then
    if zeqb lead (zs "query parameter missing: ") then MissingParameter
    else if zeqb lead (zs "the query has ") then ParameterCount
    else if zeqb lead (zs "positional and named parameters cannot be mixed") then MixedParameters
    else ProgrammingError
  else OtherException.

(* ------------------------------------------------------------------ collections *)
Fixpoint dedupe (seen l : list pv) : list pv :=
  match l with
  | [] => []
  | x :: t => if existsb (key_eqb x) seen then dedupe seen t else x :: dedupe (x :: seen) t
  end.

Fixpoint all_truthy (l : list pv) : res bool :=
  match l with
  | [] => Ok true
  | v :: t => bind (pv_truthy v) (fun b => if b then all_truthy t else Ok false)
  end.
Fixpoint any_truthy (l : list pv) : res bool :=
  match l with
  | [] => Ok false
  | v :: t => bind (pv_truthy v) (fun b => if b then Ok true else any_truthy t)
  end.

Fixpoint enum_from (i : Z) (l : list pv) : list pv :=
  match l with
  | [] => []
  | x :: t => PTuple [PInt i; x] :: enum_from (i + 1) t
  end.

Fixpoint int_keys (l : list pv) : option (list Z) :=
  match l with
  | [] => Some []
  | PV (VInt z) :: t => match int_keys t with Some r => Some (z :: r) | None => None end
  | _ => None
  end.

(* sorted(xs, key=...) given the list of keys: Python's sort is stable; Base/StableSort.isort is the stable
   insertion sort the models use *)
Definition sorted_by (xs keys : list pv) : res pv :=
  match int_keys keys with
  | Some ks =>
      if Nat.eqb (length ks) (length xs)
      then Ok (PList (map snd (isort (on (@fst Z pv) Z.leb) (combine ks xs))))
      else Stuck
  | None => Stuck
  end.

Definition getitem (o k : pv) : res pv :=
  match o with
  | PTuple [PV (VStr tag); PList fs] =>
      if zeqb tag (zs dict_tag)
      then match assoc k (rev fs) with Some v => Ok v | None => Exc KeyError end
      else Stuck
  | PList l | PTuple l => match k with PV (VInt i) => index_at l i | _ => Exc TypeError end
  | PV VNull => Exc TypeError                    (* 'NoneType' object is not subscriptable *)
  | _ => Stuck
  end.

(* ------------------------------------------------------------------ the primitives
   [strlib]: what the string / shell library functions compute; each tie instantiates it with the functions of the
   model it is tied to (Model/Naming.strip, Model/Shell.strip/lower/cmd_parseline).
   [msg]: text building (f-strings, ', '.join(sorted(..))) is an uninterpreted oracle: no theorem depends on a
   message's text beyond the leading constant that selects the exception kind.  The same oracle stands for the
   methods of objects other than the receiver (cursor.execute, compiler.compile in the Connection wrappers). *)
Record strlib := {
  sl_strip : list Z -> list Z;
  sl_lower : list Z -> list Z;
  sl_parseline : list Z -> option (list Z * list Z * list Z);   (* cmd.Cmd.parseline *)
  sl_getattr : list Z -> option nat;                            (* getattr(self, name): the bound method, if any *)
  sl_ext : string -> list pv -> res pv;                         (* primitives of one group only (Model/PrimsShell.v) *)
}.
Definition no_ext : string -> list pv -> res pv := fun _ _ => Stuck.

Fixpoint all_strs (l : list pv) : option (list Z) :=
  match l with
  | [] => Some []
  | PV (VStr s) :: t => match all_strs t with Some r => Some (s ++ r) | None => None end
  | _ => None
  end.

(* functional update of an attribute of a record value (value receivers, rule R16) *)
Fixpoint set_field (k v : pv) (fs : list pv) : list pv :=
  match fs with
  | [] => [PTuple [k; v]]
  | PTuple [k'; w] :: t => if key_eqb k k' then PTuple [k'; v] :: t else PTuple [k'; w] :: set_field k v t
  | x :: t => x :: set_field k v t
  end.
Definition set_attr (k o v : pv) : res pv :=
  match o with
  | PTuple [PV (VStr tag); PList fs] => Ok (PTuple [PV (VStr tag); PList (set_field k v fs)])
  | _ => Stuck
  end.
Fixpoint split_dot (acc s : string) : list string :=
  match s with
  | EmptyString => [acc]
  | String c r => if Ascii.eqb c "."%char then acc :: split_dot EmptyString r
                  else split_dot (acc ++ String c EmptyString) r
  end.
Fixpoint set_path (path : list string) (o v : pv) : res pv :=
  match path with
  | [] => Ok v
  | a :: rest =>
      match rest with
      | [] => set_attr (PStr a) o v
      | _ => bind (get_attr a o) (fun sub => bind (set_path rest sub v) (fun sub' => set_attr (PStr a) o sub'))
      end
  end.

Definition opaque_method (msg : string -> list pv -> pv) (name : string) (args : list pv) : res pv :=
  match msg name args with PV (VErr k) => Exc k | v => Ok v end.

Definition prim_api (L : strlib) (msg : string -> list pv -> pv) (name : string) (args : list pv) : res pv :=
  match strip_prefix "attr:" name with
  | Some a => match args with [PRef _] => sl_ext L name args | [o] => get_attr a o | _ => Stuck end
  | None =>
  match strip_prefix "setpath:" name with
  | Some path => match args with [o; v] => set_path (split_dot EmptyString path) o v | _ => Stuck end
  | None =>
  match strip_prefix "isinstance:" name with
  | Some cs => match args with [v] => Ok (PBool (isinstance v cs)) | _ => Stuck end
  | None =>
  if String.eqb name "raise" then
    match args with [PV (VStr cls); PV (VStr lead); _] => Exc (exc_kind cls lead) | _ => Stuck end
  else if String.eqb name "builtins.set" then
    match args with [PList l] => Ok (PList (dedupe [] l)) | _ => Stuck end
  else if String.eqb name "set.difference" then
    match args with
    | [PList a; PList b] => Ok (PList (filter (fun x => negb (existsb (key_eqb x) b)) a))
    | _ => Stuck
    end
  else if String.eqb name "builtins.all" then
    match args with [PList l] => bind (all_truthy l) (fun b => Ok (PBool b)) | _ => Stuck end
  else if String.eqb name "builtins.any" then
    match args with [PList l] => bind (any_truthy l) (fun b => Ok (PBool b)) | _ => Stuck end
  else if String.eqb name "builtins.dict" then
    match args with [PList items] => Ok (PTuple [PStr dict_tag; PList items]) | _ => Stuck end
  else if String.eqb name "builtins.enumerate" then
    match args with [PList l] => Ok (PList (enum_from 0 l)) | _ => Stuck end
  else if String.eqb name "sorted_by" then
    match args with [PList xs; PList keys] => sorted_by xs keys | _ => Stuck end
  else if String.eqb name "getitem" then
    match args with [o; k] => getitem o k | _ => Stuck end
  else if String.eqb name "builtins.id" then
    (* the identity of an AST node is its source position: two nodes of one statement never share it *)
    match args with [o] => bind (get_attr "parseinfo" o) (get_attr "pos") | _ => Stuck end
  else if String.eqb name "call:walk" then
    match args with [q] => get_attr "$walk" q | _ => Stuck end
  else if String.eqb name "call:keys" then
    match args with
    | [PTuple [PV (VStr tag); PList fs]] =>
        if zeqb tag (zs dict_tag)
        then Ok (PList (map (fun kv => match kv with PTuple (k :: _) => k | _ => PNone end) fs)) else Stuck
    | [PV VNull] => Exc AttributeError
    | [PList _] => Exc AttributeError
    | _ => Stuck
    end
  else if String.eqb name "call:strip" then
    match args with [PV (VStr s)] => Ok (PV (VStr (sl_strip L s))) | _ => Stuck end
  else if String.eqb name "call:lower" then
    match args with [PV (VStr s)] => Ok (PV (VStr (sl_lower L s))) | _ => Stuck end
  else if String.eqb name "call:startswith" then
    match args with [PV (VStr s); PV (VStr p)] => Ok (PBool (zprefix p s)) | _ => Stuck end
  else if String.eqb name "binop:add" then
    match args with [PV (VStr a); PV (VStr b)] => Ok (PV (VStr (a ++ b))) | _ => Stuck end
  else if String.eqb name "super.parseline" then
    match args with
    | [_; PV (VStr line)] =>
        match sl_parseline L line with
        | None => Ok (PTuple [PNone; PNone; PV (VStr line)])
        | Some (c, a, l) => Ok (PTuple [PV (VStr c); PV (VStr a); PV (VStr l)])
        end
    | _ => Stuck
    end
  else if String.eqb name "builtins.getattr" then
    match args with
    | [PSelf; PV (VStr n); dflt] => match sl_getattr L n with Some k => Ok (PRef k) | None => Ok dflt end
    | [PTuple [PV (VStr _); PList fs]; PV (VStr n); dflt] =>        (* a value receiver: attributes, then methods *)
        match assoc (PV (VStr n)) fs with
        | Some v => Ok v
        | None => match sl_getattr L n with Some k => Ok (PRef k) | None => Ok dflt end
        end
    | [PTuple [PV (VStr _); PList fs]; PV (VStr n)] =>
        match assoc (PV (VStr n)) fs with Some v => Ok v | None => Exc AttributeError end
    | _ => Stuck
    end
  else if String.eqb name "fstring" then
    (* an f-string whose parts are all str is their concatenation; anything else is uninterpreted text *)
    match all_strs args with Some s => Ok (PV (VStr s)) | None => Ok (msg name args) end
  else if String.eqb name "call:join" || String.eqb name "builtins.sorted" then
    Ok (msg name args)
  else if String.eqb name "call:execute" || String.eqb name "call:compile" then
    (* a method of ANOTHER object (a new Cursor, a new Compiler): uninterpreted; an error value is raised *)
    opaque_method msg name args
  else if String.eqb name "call:parse" then opaque_method msg name args
  else if String.eqb name "exc_text" then Ok (msg name args)
  else if String.eqb name "contains" then
    match args with
    | [PTuple [PV (VStr tag); PList fs]; x] =>
        if zeqb tag (zs dict_tag) then Ok (PBool (match assoc x fs with Some _ => true | None => false end)) else Stuck
    | [PList l; x] => Ok (PBool (existsb (key_eqb x) l))
    | _ => Stuck
    end
  else if String.eqb name "call:todict" then
    match args with [PTuple [PV (VStr _); PList fs]] => Ok (PTuple [PStr dict_tag; PList fs]) | _ => Stuck end
  else if String.eqb name "builtins.setattr" then
    match args with [o; k; v] => set_attr k o v | _ => Stuck end
  else sl_ext L name args
  end end end.
