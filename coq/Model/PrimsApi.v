(* Primitive semantics and value encodings for the translator-based tie of the stateful API code
   (groups cursor / params / naming / shell of harness/vf/gen_src.py).  Definitions only; proofs are in
   Proofs/SrcCursor.v and Proofs/SrcApi.v.

   What is trusted here: how a Python object the translated code touches is ENCODED as a [pv], and what each library
   function / attribute read / method the code calls on such an object is taken to return (the function [prim_api]
   below).  Everything else - the control flow, which branch raises what, which attribute is written when - is what
   the translated source says and is proved equal to the hand-written models. *)
From Coq Require Import String ZArith List Bool.
Import ListNotations.
From Verif Require Import Base.PyValue Model.Eval Model.PyMini.
Open Scope string_scope.
Open Scope list_scope.
Open Scope Z_scope.

(* the number a generated file's [refs] table gives to an opaque callable, by its qualified name *)
Fixpoint ref_of (refs : list (nat * string)) (name : string) : option nat :=
  match refs with
  | [] => None
  | (k, n) :: t => if String.eqb n name then Some k else ref_of t name
  end.
