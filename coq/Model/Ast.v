(* C06 model, part 1: the BQL abstract syntax of beanquery/parser/ast.py.

   Strings are lists of Unicode code points.  One Gallina constructor per
   ast.py node class (binary/comparison operators are grouped by an operator
   tag).  Two extra constructors, [EParen] and [EUPlus], do not exist in
   ast.py: they record *redundant* concrete syntax -- a parenthesised
   expression `( e )` and the grammar's `'+' atom` -- so that the printer can
   emit them and the round-trip theorem can say that the parser drops them
   ([erase]).  An AST of ast.py is an [expr] with [pure e = true]. *)
From Coq Require Import ZArith NArith List Bool.
Import ListNotations.

Definition str := list Z.

Fixpoint str_eqb (a b : str) : bool :=
  match a, b with
  | [], [] => true
  | x :: a', y :: b' => Z.eqb x y && str_eqb a' b'
  | _, _ => false
  end.

(* Literal values: NULL, TRUE/FALSE, int(value), Decimal(value) as
   (coefficient, number of fraction digits), date(y, m, d), str. *)
Inductive lit :=
| LNull
| LBool (b : bool)
| LInt (n : N)
| LDec (m : N) (scale : nat)
| LDate (y m d : N)
| LStr (s : str).

Inductive arith := Add | Sub | Mul | Div | Mod.
Inductive cmp := Lt | Le | Gt | Ge | Eq | Ne | In | NotIn | Match | NotMatch.

Definition date := (N * N * N)%type.

(* Select.from_clause: Table(name) | Select (subselect) | From(expression, open, close, clear);
   close: None | Some None (CLOSE without date = True) | Some (Some d). *)
Inductive fromc (E : Type) :=
| FTable (name : str)
| FSub (sub : E)
| FFrom (e : option E) (o : option date) (c : option (option date)) (clear : bool).
Arguments FTable {E}. Arguments FSub {E}. Arguments FFrom {E}.

Inductive expr :=
| EConst (l : lit)                       (* Constant(value=<scalar>) *)
| EList (ls : list lit)                  (* Constant(value=[...]) *)
| EColumn (name : str)
| EFunc (name : str) (args : list expr)  (* Function(fname, operands) *)
| EFuncStar (name : str)                 (* Function(fname, [Asterisk()]) *)
| EPlace (name : str)                    (* Placeholder(name); '' for %s *)
| EAttr (e : expr) (name : str)
| ESubscript (e : expr) (key : str)
| ENeg (e : expr)
| EArith (op : arith) (l r : expr)
| ECmp (op : cmp) (l r : expr)
| EIsNull (e : expr)
| EIsNotNull (e : expr)
| EBetween (e lo hi : expr)
| ENot (e : expr)
| EAnd (args : list expr)
| EOr (args : list expr)
| ESelect (distinct : bool)
          (targets : option (list (expr * option str)))       (* None = Asterisk() *)
          (from : option (fromc expr))
          (where_ : option expr)
          (group : option (list (N + expr) * option expr))    (* GroupBy(columns, having) *)
          (order : list ((N + expr) * bool))                  (* [] = None; bool: DESC *)
          (pivot : option ((N + str) * (N + str)))
          (limit : option N)
| EParen (e : expr)                      (* concrete syntax only *)
| EUPlus (e : expr).                     (* concrete syntax only *)

Inductive stmt :=
| SSelect (s : expr)                                             (* an ESelect *)
| SBalances (summary : option str) (from : option (fromc expr)) (where_ : option expr)
| SJournal (account : option str) (summary : option str) (from : option (fromc expr))
| SPrint (from : option (fromc expr)).

(* ---------------------------------------------------------------------- *)
(* generic helpers over the containers that occur in the AST *)

Definition omap {A B} (f : A -> B) (o : option A) : option B :=
  match o with Some a => Some (f a) | None => None end.
Definition oall {A} (f : A -> bool) (o : option A) : bool :=
  match o with Some a => f a | None => true end.
Definition osize {A} (f : A -> nat) (o : option A) : nat :=
  match o with Some a => f a | None => 0 end.
Definition lsize {A} (f : A -> nat) (l : list A) : nat := fold_right (fun a n => f a + n) 0 l.
Definition ssize {A B} (f : B -> nat) (s : A + B) : nat := match s with inl _ => 0 | inr b => f b end.
Definition smap {A B C} (f : B -> C) (s : A + B) : A + C := match s with inl a => inl a | inr b => inr (f b) end.
Definition sall {A B} (f : B -> bool) (s : A + B) : bool := match s with inl _ => true | inr b => f b end.

Definition from_map {E F} (f : E -> F) (fc : fromc E) : fromc F :=
  match fc with
  | FTable n => FTable n
  | FSub s => FSub (f s)
  | FFrom e o c cl => FFrom (omap f e) o c cl
  end.
Definition from_size {E} (f : E -> nat) (fc : fromc E) : nat :=
  match fc with FTable _ => 0 | FSub s => f s | FFrom e _ _ _ => osize f e end.

(* number of nodes *)
Fixpoint esize (e : expr) : nat :=
  match e with
  | EConst _ | EList _ | EColumn _ | EFuncStar _ | EPlace _ => 1
  | EFunc _ args => S (lsize esize args)
  | EAttr a _ | ESubscript a _ | ENeg a | EIsNull a | EIsNotNull a | ENot a | EParen a | EUPlus a => S (esize a)
  | EArith _ a b | ECmp _ a b => S (esize a + esize b)
  | EBetween a b c => S (esize a + esize b + esize c)
  | EAnd l | EOr l => S (lsize esize l)
  | ESelect _ t f w g o _ _ =>
      S (osize (lsize (fun p => esize (fst p))) t + osize (from_size esize) f + osize esize w
         + osize (fun p => lsize (ssize esize) (fst p) + osize esize (snd p)) g
         + lsize (fun p => ssize esize (fst p)) o)
  end.

(* what the parser returns for a concrete-syntax tree: drop EParen / EUPlus *)
Fixpoint erase (e : expr) : expr :=
  match e with
  | EConst _ | EList _ | EColumn _ | EFuncStar _ | EPlace _ => e
  | EFunc n args => EFunc n (map erase args)
  | EAttr a n => EAttr (erase a) n
  | ESubscript a k => ESubscript (erase a) k
  | ENeg a => ENeg (erase a)
  | EArith op a b => EArith op (erase a) (erase b)
  | ECmp op a b => ECmp op (erase a) (erase b)
  | EIsNull a => EIsNull (erase a)
  | EIsNotNull a => EIsNotNull (erase a)
  | EBetween a b c => EBetween (erase a) (erase b) (erase c)
  | ENot a => ENot (erase a)
  | EAnd l => EAnd (map erase l)
  | EOr l => EOr (map erase l)
  | ESelect d t f w g o p l =>
      ESelect d (omap (map (fun x => (erase (fst x), snd x))) t) (omap (from_map erase) f) (omap erase w)
              (omap (fun x => (map (smap erase) (fst x), omap erase (snd x))) g)
              (map (fun x => (smap erase (fst x), snd x)) o) p l
  | EParen a => erase a
  | EUPlus a => erase a
  end.

(* no concrete-syntax-only constructor: these are exactly the trees of ast.py *)
Fixpoint pure (e : expr) : bool :=
  match e with
  | EConst _ | EList _ | EColumn _ | EFuncStar _ | EPlace _ => true
  | EFunc _ args => forallb pure args
  | EAttr a _ | ESubscript a _ | ENeg a | EIsNull a | EIsNotNull a | ENot a => pure a
  | EArith _ a b | ECmp _ a b => pure a && pure b
  | EBetween a b c => pure a && pure b && pure c
  | EAnd l | EOr l => forallb pure l
  | ESelect _ t f w g o _ _ =>
      oall (forallb (fun x => pure (fst x))) t
      && oall (fun fc => match fc with FTable _ => true | FSub s => pure s | FFrom e _ _ _ => oall pure e end) f
      && oall pure w
      && oall (fun x => forallb (sall pure) (fst x) && oall pure (snd x)) g
      && forallb (fun x => sall pure (fst x)) o
  | EParen _ | EUPlus _ => false
  end.

Definition from_erase (f : fromc expr) : fromc expr := from_map erase f.
Definition stmt_erase (s : stmt) : stmt :=
  match s with
  | SSelect e => SSelect (erase e)
  | SBalances sf f w => SBalances sf (omap from_erase f) (omap erase w)
  | SJournal a sf f => SJournal a sf (omap from_erase f)
  | SPrint f => SPrint (omap from_erase f)
  end.

(* Binding strength of the node = the grammar rule that produces it:
   0 select (always parenthesised by the printer: it would swallow what follows),
   1 or, 2 and, 3 not, 4 comparison / IN / IS NULL / BETWEEN, 5 + -, 6 * / %,
   7 unary minus, ( e ), + atom, 8 attribute / subscript, 9 atom. *)
Definition lvl (e : expr) : nat :=
  match e with
  | ESelect _ _ _ _ _ _ _ _ => 0
  | EOr _ => 1
  | EAnd _ => 2
  | ENot _ => 3
  | ECmp _ _ _ | EIsNull _ | EIsNotNull _ | EBetween _ _ _ => 4
  | EArith Add _ _ | EArith Sub _ _ => 5
  | EArith _ _ _ => 6
  | ENeg _ | EParen _ | EUPlus _ => 7
  | EAttr _ _ | ESubscript _ _ => 8
  | _ => 9
  end.
