(* Model of subqueries (query_compile.SubqueryTable, EvalConstantSubquery1D):
   FROM (subquery) = a table whose rows are the subquery's visible result rows,
   columns addressed positionally; x IN (subquery) = membership in its single column,
   NULL when the subquery returns no row. *)
From Coq Require Import ZArith List Bool.
Import ListNotations.
From Verif Require Import Base.Out Base.PyValue Model.Eval Model.Order Model.Exec.
Open Scope Z_scope.

Inductive source :=
| STable (rows : list row)
| SSub (q : query) (s : source).      (* FROM ( q over s ) *)

Fixpoint rows_of (s : source) : list row :=
  match s with
  | STable rows => rows
  | SSub q s' => exec q (rows_of s')  (* SubqueryTable.__iter__: execute_query(subquery) *)
  end.

(* EvalConstantSubquery1D: [row[0] for row in rows] or None when empty *)
Definition items_of (rows : list row) : option (list value) :=
  match rows with [] => None | _ => Some (map (cell 0) rows) end.

(* SELECT * over a subquery table with n (distinctly named) columns *)
Definition star (n : nat) : query :=
  {| q_where := None; q_targets := map ECol (seq 0 n); q_group := None; q_aggs := []; q_having := None;
     q_order := None; q_vis := seq 0 n; q_distinct := false; q_limit := None |}.

Definition exec_src_out (q : query) (s : source) : out :=
  let t := rows_of s in
  if has_err (exec_rows q t) then OL [ON 1] else OL [ON 0; o_rows (exec q t)].
