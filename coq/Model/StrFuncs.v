(* C18 -- model of the string, account, numeric and cast functions of beanquery/query_env.py
   (and of the str / decimal.Decimal / beancount.core.account operations they call).
   Strings are lists of code points; the models of upper/lower/strip/split()/int()/Decimal()/strptime
   are the ASCII restrictions of the Python operations (see ASSUMPTIONS in harness/vf/c18.py).
   Errors: see Model/Dates.v. *)
From Coq Require Import String Ascii ZArith List Bool.
Import ListNotations.
From Verif Require Import Base.Out Base.PyValue Model.Dates.
Open Scope Z_scope.
Open Scope list_scope.

(* ================= Python sequence primitives ================= *)
Definition clamp_idx (len i : Z) : Z := if i <? 0 then Z.max 0 (i + len) else Z.min i len.

(* l[start:stop] *)
Definition py_slice {A} (l : list A) (start stop : Z) : list A :=
  let n := Z.of_nat (length l) in
  let a := clamp_idx n start in
  let b := clamp_idx n stop in
  firstn (Z.to_nat (b - a)) (skipn (Z.to_nat a) l).

(* l[i] : None = IndexError *)
Definition py_index {A} (l : list A) (i : Z) : option A :=
  let n := Z.of_nat (length l) in
  let j := if i <? 0 then i + n else i in
  if (0 <=? j) && (j <? n) then nth_error l (Z.to_nat j) else None.

Fixpoint prefix_of (p s : list Z) : bool :=
  match p, s with
  | [], _ => true
  | x :: p', y :: s' => (x =? y) && prefix_of p' s'
  | _ :: _, [] => false
  end.

Fixpoint find_sub (p s : list Z) : bool :=
  prefix_of p s || match s with [] => false | _ :: t => find_sub p t end.

(* s.split(sep) for a non-empty sep *)
Fixpoint split_go (sep s : list Z) (skip : nat) (cur : list Z) : list (list Z) :=
  match s with
  | [] => [rev cur]
  | c :: t =>
    match skip with
    | S k => split_go sep t k cur
    | O => if prefix_of sep s then rev cur :: split_go sep t (length sep - 1) []
           else split_go sep t O (c :: cur)
    end
  end.
Definition split (sep s : list Z) : list (list Z) := split_go sep s O [].

(* sep.join(parts) *)
Fixpoint join (sep : list Z) (parts : list (list Z)) : list Z :=
  match parts with
  | [] => []
  | [p] => p
  | p :: t => p ++ sep ++ join sep t
  end.

(* s.split(): runs of non-whitespace *)
Fixpoint split_ws_go (s cur : list Z) : list (list Z) :=
  match s with
  | [] => match cur with [] => [] | _ => [rev cur] end
  | c :: t => if is_space c
              then match cur with [] => split_ws_go t [] | _ => rev cur :: split_ws_go t [] end
              else split_ws_go t (c :: cur)
  end.
Definition split_ws (s : list Z) : list (list Z) := split_ws_go s [].

Fixpoint dropwhile (p : Z -> bool) (l : list Z) : list Z :=
  match l with [] => [] | c :: t => if p c then dropwhile p t else l end.
Definition strip (s : list Z) : list Z := rev (dropwhile is_space (rev (dropwhile is_space s))).

Definition up_c (c : Z) : Z := if (97 <=? c) && (c <=? 122) then c - 32 else c.
Definition low_c (c : Z) : Z := if (65 <=? c) && (c <=? 90) then c + 32 else c.

(* ================= string functions ================= *)
Definition f_upper (s : list Z) : value := VStr (map up_c s).
Definition f_lower (s : list Z) : value := VStr (map low_c s).
Definition f_length (s : list Z) : value := VInt (Z.of_nat (length s)).
Definition f_substr (s : list Z) (a b : Z) : value := VStr (py_slice s a b).

(* string.split(delim)[index] *)
Definition f_splitcomp (s delim : list Z) (i : Z) : value :=
  match delim with
  | [] => VErr 1                       (* ValueError: empty separator *)
  | _ => match py_index (split delim s) i with Some c => VStr c | None => VErr 3 end
  end.

(* ','.join(values), [vs] in the iteration order of the set *)
Definition f_joinstr (vs : list (list Z)) : value := VStr (join [44] vs).

(* regular-expression functions restricted to literal patterns (no metacharacters) *)
Definition f_grep_lit (p s : list Z) : value := if find_sub p s then VStr p else VNull.
Definition f_grepn_lit (p s : list Z) (n : Z) : value :=
  if find_sub p s then (if n =? 0 then VStr p else VErr 3) else VNull.
Fixpoint subst_go (p r s : list Z) (skip : nat) : list Z :=
  match s with
  | [] => []
  | c :: t =>
    match skip with
    | S k => subst_go p r t k
    | O => if prefix_of p s then r ++ subst_go p r t (length p - 1) else c :: subst_go p r t O
    end
  end.
Definition f_subst_lit (p r s : list Z) : value := VStr (subst_go p r s O).
Definition str_lt (a b : list Z) : bool := negb (list_le b a).
Definition f_findfirst_lit (p : list Z) (vs : list (list Z)) : value :=
  match fold_left (fun (best : option (list Z)) v =>
                     if prefix_of p v then
                       match best with
                       | None => Some v
                       | Some b => if str_lt v b then Some v else best
                       end
                     else best) vs None with
  | Some v => VStr v
  | None => VNull
  end.

(* textwrap.shorten(x, width=n) for text made of letters and whitespace (no hyphens):
   TextWrapper(width=n, max_lines=1, placeholder=' [...]').fill(' '.join(x.strip().split())) *)
Definition blank (c : list Z) : bool := forallb is_space c.
Definition sumlen (l : list (list Z)) : Z := fold_left (fun a c => a + Z.of_nat (length c)) l 0.
Fixpoint intersperse (sep : list Z) (ws : list (list Z)) : list (list Z) :=
  match ws with
  | [] => []
  | [w] => [w]
  | w :: t => w :: sep :: intersperse sep t
  end.
(* greedy: while chunks and cur_len + len(chunks[-1]) <= width *)
Fixpoint take_fit (width cur_len : Z) (chunks : list (list Z)) : list (list Z) * list (list Z) :=
  match chunks with
  | [] => ([], [])
  | c :: t => let l := Z.of_nat (length c) in
              if cur_len + l <=? width
              then let '(a, b) := take_fit width (cur_len + l) t in (c :: a, b)
              else ([], chunks)
  end.
(* the placeholder loop, on the reversed current line *)
Fixpoint place_holder (width : Z) (rcur : list (list Z)) : list Z :=
  match rcur with
  | [] => s2z "[...]"
  | c :: t => if negb (blank c) && (sumlen rcur + 6 <=? width)
              then concat (rev rcur) ++ s2z " [...]"
              else place_holder width t
  end.
Definition f_maxwidth (s : list Z) (width : Z) : value :=
  let words := split_ws s in
  if width <? 5 then VErr 1 else                    (* invalid width / placeholder too large for max width *)
  match words with
  | [] => VStr []                                   (* no chunks, no lines *)
  | _ =>
    let chunks := intersperse [32] words in
    let '(cur, rest) := take_fit width 0 chunks in
    let '(cur, rest) :=
      match rest with
      | c :: t => if width <? Z.of_nat (length c)
                  then let sl := Z.to_nat (width - sumlen cur) in
                       (cur ++ [firstn sl c], skipn sl c :: t)
                  else (cur, rest)
      | [] => (cur, rest)
      end in
    let rcur := rev cur in
    let rcur := match rcur with c :: t => if blank c then t else rcur | [] => [] end in
    match rcur with
    | [] => VStr []
    | _ =>
      if (match rest with [] => true | [c] => blank c | _ => false end) && (sumlen rcur <=? width)
      then VStr (concat (rev rcur))
      else VStr (place_holder width rcur)
    end
  end.

(* ================= account functions (beancount.core.account, sep = ':') ================= *)
Definition acc_split (a : list Z) : list (list Z) := split [58] a.
Definition acc_join (l : list (list Z)) : list Z := join [58] l.

(* account.root(n, acc) = join of split(acc)[:n] *)
Definition f_root (a : list Z) (n : Z) : value := VStr (acc_join (py_slice (acc_split a) 0 n)).
(* account.parent *)
Definition f_parent (a : list Z) : value :=
  match a with [] => VNull | _ => VStr (acc_join (removelast (acc_split a))) end.
(* account.leaf *)
Definition f_leaf (a : list Z) : value :=
  match a with [] => VNull | _ => VStr (last (acc_split a) []) end.

Definition acc_type (a : list Z) : list Z := hd [] (acc_split a).

Fixpoint index_of (x : list Z) (l : list (list Z)) (i : Z) : option Z :=
  match l with
  | [] => None
  | y :: t => if zeqb x y then Some i else index_of x t (i + 1)
  end.

(* [types] = (assets, liabilities, equity, income, expenses) of the ledger options *)
Definition f_account_sortkey (types : list (list Z)) (a : list Z) : value :=
  match index_of (acc_type a) types 0 with
  | Some i => VStr (str_of_int i ++ [45] ++ a)
  | None => VErr 1                                  (* tuple.index: ValueError *)
  end.

Definition account_sign (types : list (list Z)) (a : list Z) : Z :=
  let t := acc_type a in
  if zeqb t (nth 0 types []) || zeqb t (nth 4 types []) then 1 else -1.

(* ================= decimal arithmetic (context prec = 28, ROUND_HALF_EVEN) ================= *)
Definition PREC := 28.
Definition ndigits (c : Z) : Z := Z.of_nat (length (nat_digits c)).

(* c / 10^p rounded half-even (p > 0, c >= 0) *)
Definition div_half_even (c p : Z) : Z :=
  let q := c / p in
  let r := c mod p in
  if (p <? 2 * r) || ((2 * r =? p) && Z.odd q) then q + 1 else q.

(* Decimal._fix: round the coefficient to PREC digits (exponent limits not modelled) *)
Definition dec_fix (d : dec) : dec :=
  let n := ndigits (dcoef d) in
  if n <=? PREC then d else
  let p := n - PREC in
  let c := div_half_even (dcoef d) (10 ^ p) in
  if c =? 10 ^ PREC then mkdec (dneg d) (10 ^ (PREC - 1)) (dexp d + p + 1)
  else mkdec (dneg d) c (dexp d + p).

Definition dec_is_zero (d : dec) : bool := dcoef d =? 0.
(* Decimal.__neg__: -0 is +0 (rounding is not ROUND_FLOOR) *)
Definition dec_neg (d : dec) : dec :=
  dec_fix (if dec_is_zero d then mkdec false 0 (dexp d) else mkdec (negb (dneg d)) (dcoef d) (dexp d)).
(* Decimal.__abs__ *)
Definition dec_abs (d : dec) : dec := dec_fix (mkdec false (dcoef d) (dexp d)).

Definition f_neg (d : dec) : value := VDec (dec_neg d).
Definition f_abs (d : dec) : value := VDec (dec_abs d).
Definition f_neg_int (z : Z) : value := VInt (- z).

(* possign(x, account) = x if sign >= 0 else -x *)
Definition f_possign (types : list (list Z)) (d : dec) (a : list Z) : value :=
  if 0 <=? account_sign types a then VDec d else VDec (dec_neg d).

(* Decimal.quantize(Decimal((0, (1,), e))) *)
Definition dec_quantize (d : dec) (e : Z) : value :=
  let r := if e <=? dexp d then mkdec (dneg d) (dcoef d * 10 ^ (dexp d - e)) e
           else mkdec (dneg d) (div_half_even (dcoef d) (10 ^ (e - dexp d))) e in
  if PREC <? ndigits (dcoef r) then VErr 6 else VDec r.

(* round(Decimal, n) = Decimal.__round__(n); round(Decimal) calls round(num, 0) *)
Definition f_round_dec (d : dec) (n : Z) : value := dec_quantize d (- n).
(* int.__round__(n): n >= 0 -> self, else nearest multiple of 10^-n, ties to even *)
Definition f_round_int (z n : Z) : value :=
  if 0 <=? n then VInt z else let p := 10 ^ (- n) in VInt (div_half_even z p * p).

Fixpoint strip_zeros (fuel : nat) (coeff exp ideal : Z) : Z * Z :=
  match fuel with
  | O => (coeff, exp)
  | S f => if (exp <? ideal) && (coeff mod 10 =? 0) then strip_zeros f (coeff / 10) (exp + 1) ideal
           else (coeff, exp)
  end.

(* Decimal.__truediv__ for finite operands, y != 0 *)
Definition dec_div (x y : dec) : dec :=
  let sign := xorb (dneg x) (dneg y) in
  if dec_is_zero x then dec_fix (mkdec sign 0 (dexp x - dexp y)) else
  let shift := ndigits (dcoef y) - ndigits (dcoef x) + PREC + 1 in
  let exp := dexp x - dexp y - shift in
  let num := if 0 <=? shift then dcoef x * 10 ^ shift else dcoef x in
  let den := if 0 <=? shift then dcoef y else dcoef y * 10 ^ (- shift) in
  let coeff := num / den in
  let rem := num mod den in
  let '(coeff, exp) :=
    if rem =? 0 then strip_zeros 64 coeff exp (dexp x - dexp y)
    else ((if coeff mod 5 =? 0 then coeff + 1 else coeff), exp) in
  dec_fix (mkdec sign coeff exp).

Definition dec_of_int (z : Z) : dec := mkdec (z <? 0) (Z.abs z) 0.

(* safediv(x, y): ZERO if y == 0 else x / y *)
Definition f_safediv (x y : dec) : value :=
  if dec_is_zero y then VDec (mkdec false 0 0) else VDec (dec_div x y).
Definition f_safediv_int (x : dec) (y : Z) : value := f_safediv x (dec_of_int y).

(* ================= type casts ================= *)
(* cast inputs / outputs: ordinary values plus the special decimals *)
Inductive xval := XV (v : value) | XSpec (neg : bool) (kind : Z).   (* kind 1 Infinity, 2 NaN, 3 sNaN *)
Definition o_xval (x : xval) : out :=
  match x with XV v => o_value v | XSpec n k => OL [ON 7; o_bool n; ON k] end.

Definition cast_bool (x : xval) : xval :=
  match x with
  | XV VNull => XV VNull
  | XV (VBool b) => XV (VBool b)
  | XV (VInt z) => XV (VBool (negb (z =? 0)))
  | XV (VDec d) => XV (VBool (negb (dec_is_zero d)))
  | XV (VStr s) => XV (VBool (match s with [] => false | _ => true end))
  | XV (VDate _) => XV (VBool true)
  | XV (VErr k) => XV (VErr k)
  | XSpec _ _ => XV (VBool true)
  end.

(* int(str): optional whitespace, sign, digits with single underscores between digits *)
Fixpoint int_body (s : list Z) (acc : Z) (prev_digit : bool) : option Z :=
  match s with
  | [] => if prev_digit then Some acc else None
  | c :: t =>
    if is_digit c then int_body t (acc * 10 + (c - 48)) true
    else if (c =? 95) && prev_digit
         then match t with d :: _ => if is_digit d then int_body t acc false else None | [] => None end
         else None
  end.
Definition parse_int (s : list Z) : option Z :=
  match strip s with
  | 45 :: t => option_map Z.opp (int_body t 0 false)
  | 43 :: t => int_body t 0 false
  | t => int_body t 0 false
  end.

(* int(Decimal): truncation towards zero *)
Definition dec_to_int (d : dec) : Z :=
  let m := if 0 <=? dexp d then dcoef d * 10 ^ dexp d else dcoef d / 10 ^ (- dexp d) in
  if dneg d then - m else m.

(* [catch] = the except clause also lists OverflowError (after the D12 repair) *)
Definition cast_int_gen (catch : bool) (x : xval) : xval :=
  match x with
  | XV VNull => XV VNull
  | XV (VBool b) => XV (VInt (if b then 1 else 0))
  | XV (VInt z) => XV (VInt z)
  | XV (VDec d) => XV (VInt (dec_to_int d))
  | XV (VStr s) => match parse_int s with Some z => XV (VInt z) | None => XV VNull end
  | XV (VDate _) => XV VNull                         (* TypeError, caught *)
  | XV (VErr k) => XV (VErr k)
  | XSpec _ 1 => if catch then XV VNull else XV (VErr 2)   (* OverflowError: cannot convert Infinity *)
  | XSpec _ _ => XV VNull                            (* ValueError: cannot convert NaN, caught *)
  end.
Definition cast_int := cast_int_gen true.

(* Decimal(str): whitespace stripped, underscores removed, then
   sign? (digits [. digits*] | . digits) ([eE] sign? digits)?  |  sign? inf|infinity|nan|snan *)
Definition take_sign (s : list Z) : bool * list Z :=
  match s with 45 :: t => (true, t) | 43 :: t => (false, t) | _ => (false, s) end.
Definition parse_decimal (s : list Z) : option xval :=
  let s := filter (fun c => negb (c =? 95)) (strip s) in
  let '(neg, s) := take_sign s in
  let ls := map low_c s in
  if zeqb ls (s2z "inf") || zeqb ls (s2z "infinity") then Some (XSpec neg 1)
  else if zeqb ls (s2z "nan") then Some (XSpec neg 2)
  else if zeqb ls (s2z "snan") then Some (XSpec neg 3)
  else
    let '(ip, r) := span is_digit s in
    let '(fp, r) := match r with
                    | 46 :: r' => span is_digit r'
                    | _ => ([], r)
                    end in
    match ip ++ fp with
    | [] => None
    | ds =>
      let base := - Z.of_nat (length fp) in
      match r with
      | [] => Some (XV (VDec (mkdec neg (digits_val ds) base)))
      | e :: r' =>
        if (e =? 101) || (e =? 69) then
          let '(eneg, r'') := take_sign r' in
          match r'' with
          | [] => None
          | _ => if forallb is_digit r''
                 then let ev := digits_val r'' in
                      Some (XV (VDec (mkdec neg (digits_val ds) (base + (if eneg then - ev else ev)))))
                 else None
          end
        else None
      end
    end.

Definition cast_decimal (x : xval) : xval :=
  match x with
  | XV VNull => XV VNull
  | XV (VBool b) => XV (VDec (mkdec false (if b then 1 else 0) 0))
  | XV (VInt z) => XV (VDec (dec_of_int z))
  | XV (VDec d) => XV (VDec d)
  | XV (VStr s) => match parse_decimal s with Some v => v | None => XV VNull end
  | XV (VDate _) => XV VNull
  | XV (VErr k) => XV (VErr k)
  | XSpec n k => XSpec n k
  end.

(* Decimal.__str__ (scientific string, capitals = 1) *)
Definition dec_str (d : dec) : list Z :=
  let ds := nat_digits (dcoef d) in
  let n := Z.of_nat (length ds) in
  let leftdigits := dexp d + n in
  let dotplace := if (dexp d <=? 0) && (-6 <? leftdigits) then leftdigits else 1 in
  let ip := if dotplace <=? 0 then [48]
            else if n <=? dotplace then ds ++ zeros (Z.to_nat (dotplace - n))
            else firstn (Z.to_nat dotplace) ds in
  let fp := if dotplace <=? 0 then 46 :: zeros (Z.to_nat (- dotplace)) ++ ds
            else if n <=? dotplace then []
            else 46 :: skipn (Z.to_nat dotplace) ds in
  let e := if leftdigits =? dotplace then []
           else 69 :: (if dotplace <? leftdigits then 43 :: nat_digits (leftdigits - dotplace)
                       else 45 :: nat_digits (dotplace - leftdigits)) in
  (if dneg d then [45] else []) ++ ip ++ fp ++ e.

(* date.isoformat() *)
Definition date_str (o : Z) : list Z :=
  let '(y, m, d) := ord2ymd o in pad0 4 y ++ [45] ++ pad0 2 m ++ [45] ++ pad0 2 d.

Definition cast_str (x : xval) : xval :=
  match x with
  | XV VNull => XV VNull
  | XV (VBool b) => XV (VStr (s2z (if b then "TRUE" else "FALSE")))
  | XV (VInt z) => XV (VStr (str_of_int z))
  | XV (VDec d) => XV (VStr (dec_str d))
  | XV (VStr s) => XV (VStr s)
  | XV (VDate o) => XV (VStr (date_str o))
  | XV (VErr k) => XV (VErr k)
  | XSpec n k => XV (VStr ((if n then [45] else []) ++
                           s2z (if k =? 1 then "Infinity" else if k =? 2 then "NaN" else "sNaN")))
  end.

(* datetime.strptime(x, '%Y-%m-%d'): (\d\d\d\d)-(1[0-2]|0[1-9]|[1-9])-(3[01]|[12]\d|0[1-9]|[1-9]| [1-9]) *)
Definition m_month (s : list Z) : bool :=
  match s with
  | [49; c] => (48 <=? c) && (c <=? 50)
  | [48; c] => (49 <=? c) && (c <=? 57)
  | [c] => (49 <=? c) && (c <=? 57)
  | _ => false
  end.
Definition m_day (s : list Z) : bool :=
  match s with
  | [51; c] => (48 <=? c) && (c <=? 49)
  | [49; c] | [50; c] => is_digit c
  | [48; c] | [32; c] => (49 <=? c) && (c <=? 57)
  | [c] => (49 <=? c) && (c <=? 57)
  | _ => false
  end.
Definition parse_date (s : list Z) : value :=
  match split [45] s with
  | [y; m; d] =>
    if (length y =? 4)%nat && forallb is_digit y && m_month m && m_day d
    then match mk_date (digits_val y) (digits_val m) (digits_val (filter is_digit d)) with
         | VDate o => VDate o
         | _ => VNull                                (* ValueError, caught *)
         end
    else VNull
  | _ => VNull
  end.

Definition cast_date (x : xval) : xval :=
  match x with
  | XV (VDate o) => XV (VDate o)
  | XV (VStr s) => XV (parse_date s)
  | XV (VErr k) => XV (VErr k)
  | _ => XV VNull
  end.

(* date(year, month, day): ValueError is caught; OverflowError (an argument that does not fit
   a C int) is caught only after the repair *)
Definition C_INT_MAX := 2147483647.
Definition fits_int (z : Z) : bool := (- C_INT_MAX - 1 <=? z) && (z <=? C_INT_MAX).
Definition cast_date3_gen (catch : bool) (y m d : Z) : value :=
  if fits_int y && fits_int m && fits_int d then
    match mk_date y m d with VDate o => VDate o | _ => VNull end
  else if catch then VNull else VErr 2.
Definition cast_date3 := cast_date3_gen true.

(* result-type predicates used by the totality theorem *)
Definition is_null (x : xval) : bool := match x with XV VNull => true | _ => false end.
Definition is_bool_x (x : xval) : bool := match x with XV (VBool _) => true | _ => false end.
Definition is_int_x (x : xval) : bool := match x with XV (VInt _) => true | _ => false end.
Definition is_dec_x (x : xval) : bool := match x with XV (VDec _) | XSpec _ _ => true | _ => false end.
Definition is_str_x (x : xval) : bool := match x with XV (VStr _) => true | _ => false end.
Definition is_date_x (x : xval) : bool := match x with XV (VDate _) => true | _ => false end.
Definition no_err (x : xval) : bool := match x with XV (VErr _) => false | _ => true end.
