(* C12 - model of beancount.core.inventory.Inventory (add_amount / add_position /
   add_inventory / reduce), of the reducers of beancount.core.convert used by
   beanquery (get_units, get_cost, get_value, convert_position) and of the
   beanquery aggregators SumAmount / SumPosition / SumInventory and the BQL
   functions units() / cost() / value() / convert() on inventories
   (query_env.py).  No proofs here (Proofs/InventoryProofs.v).

   NUMBERS.  Numbers are exact scaled integers (fixed point): the harness picks
   decimal scales per ledger (units 10^-a, per-unit cost numbers 10^-b, rates
   10^-c) and sends every Decimal as the integer  value * 10^scale .  Sums keep
   the scale, products add scales, so "return the units unchanged" in a reducer
   whose other branch multiplies by a rate is  n * one  with [one] the
   fixed-point representation of 1 at the rate's scale.  The harness compares
   the model's integers with the implementation's Decimals by NUMERIC VALUE
   (Fraction(n, 10^scale) == Fraction(Decimal)); the Decimal exponent
   (1.0 vs 1.00) is not modelled.  Python's 28-digit context rounding is not
   modelled either: the generated ledgers stay far below 28 digits and only use
   rates whose inverses terminate, so every Decimal operation is exact there.

   Currencies and lot labels are interned to integers by the harness.
   Dict keys compare with Python ==, i.e. Decimals by numeric value: a scaled
   integer at a fixed scale is equal iff the values are equal. *)
From Coq Require Import ZArith List Bool.
From Verif Require Import Base.Out.
Import ListNotations.
Open Scope Z_scope.

Definition currency := Z.

(* beancount.core.position.Cost(number, currency, date, label) *)
Record cost := mkcost { cnum : Z; ccur : currency; cdate : Z; clabel : option Z }.

(* Inventory key: (units.currency, cost) *)
Definition key := (currency * option cost)%type.

(* Amount(number, currency) *)
Definition amount := (Z * currency)%type.

(* Position(units, cost) *)
Record position := mkpos { pnum : Z; pcur : currency; pcost : option cost }.

Definition pkey (p : position) : key := (pcur p, pcost p).
Definition punits (p : position) : amount := (pnum p, pcur p).

Definition optZ_eqb (a b : option Z) : bool :=
  match a, b with
  | None, None => true
  | Some x, Some y => x =? y
  | _, _ => false
  end.

Definition cost_eqb (a b : cost) : bool :=
  (cnum a =? cnum b) && (ccur a =? ccur b) && (cdate a =? cdate b) && optZ_eqb (clabel a) (clabel b).

Definition ocost_eqb (a b : option cost) : bool :=
  match a, b with
  | None, None => true
  | Some x, Some y => cost_eqb x y
  | _, _ => false
  end.

Definition key_eqb (a b : key) : bool := (fst a =? fst b) && ocost_eqb (snd a) (snd b).

(* An Inventory is a dict key -> Position; the position's currency and cost are
   those of the key, so an entry is (key, number).  The list is the dict's
   iteration order (insertion order; assignment to an existing key keeps its
   place; a deleted key that comes back is appended). *)
Definition entry := (key * Z)%type.
Definition inventory := list entry.

Definition epos (e : entry) : position := mkpos (snd e) (fst (fst e)) (snd (fst e)).

Fixpoint find (k : key) (inv : inventory) : option Z :=
  match inv with
  | [] => None
  | (k', n) :: t => if key_eqb k' k then Some n else find k t
  end.

(* self[key] = Position(Amount(number, currency), cost)  on an existing key *)
Fixpoint replace (k : key) (n : Z) (inv : inventory) : inventory :=
  match inv with
  | [] => []
  | (k', m) :: t => if key_eqb k' k then (k', n) :: replace k n t else (k', m) :: replace k n t
  end.

(* del self[key] *)
Fixpoint remove (k : key) (inv : inventory) : inventory :=
  match inv with
  | [] => []
  | (k', m) :: t => if key_eqb k' k then remove k t else (k', m) :: remove k t
  end.

Inductive match_result := CREATED | REDUCED | AUGMENTED | IGNORED.

(* beancount.core.number.same_sign *)
Definition same_sign (a b : Z) : bool := Bool.eqb (0 <=? a) (0 <=? b).

(* Inventory.add_amount(units, cost): new inventory, (position before, booking).
   The aggregators and the balance column ignore the returned pair. *)
Definition add_amount_full (inv : inventory) (a : amount) (c : option cost)
  : inventory * (option Z * match_result) :=
  let k : key := (snd a, c) in
  match find k inv with
  | Some m =>
      let booking := if same_sign m (fst a) then AUGMENTED else REDUCED in
      let n := m + fst a in
      ((if n =? 0 then remove k inv else replace k n inv), (Some m, booking))
  | None =>
      if fst a =? 0 then (inv, (None, IGNORED))
      else (inv ++ [(k, fst a)], (None, CREATED))
  end.

Definition add_amount (inv : inventory) (a : amount) (c : option cost) : inventory :=
  fst (add_amount_full inv a c).

(* Inventory.add_position(position) *)
Definition add_position (inv : inventory) (p : position) : inventory :=
  add_amount inv (punits p) (pcost p).

Definition add_entry (inv : inventory) (e : entry) : inventory := add_position inv (epos e).

(* Inventory.add_inventory(other): update() into an empty dict, else add each position *)
Definition add_inventory (inv other : inventory) : inventory :=
  match inv with
  | [] => other
  | _ => fold_left add_entry other inv
  end.

(* Inventory.reduce(reducer, *args) *)
Definition reduce (f : position -> amount) (inv : inventory) : inventory :=
  fold_left (fun acc e => add_amount acc (f (epos e)) None) inv [].

(* ---- beanquery aggregators (query_env.py): initialize = Inventory(), update
   skips NULL, finalize = the store ---- *)
Definition sum_position (vals : list (option position)) : inventory :=
  fold_left (fun acc v => match v with Some p => add_position acc p | None => acc end) vals [].

Definition sum_amount (vals : list (option amount)) : inventory :=
  fold_left (fun acc v => match v with Some a => add_amount acc a None | None => acc end) vals [].

Definition sum_inventory (vals : list (option inventory)) : inventory :=
  fold_left (fun acc v => match v with Some i => add_inventory acc i | None => acc end) vals [].

(* the NULL-free forms used in statements *)
Definition sum_pos (l : list position) : inventory := fold_left add_position l [].
Definition sum_amt (l : list amount) : inventory := fold_left (fun acc a => add_amount acc a None) l [].
Definition sum_inv (l : list inventory) : inventory := fold_left add_inventory l [].

(* ---- reducers (beancount.core.convert) ---- *)
Definition get_units (p : position) : amount := punits p.

(* get_cost: Amount(cost.number * units.number, cost.currency) or the units *)
Definition get_cost (one : Z) (p : position) : amount :=
  match pcost p with
  | Some c => (cnum c * pnum p, ccur c)
  | None => (pnum p * one, pcur p)
  end.

Section Prices.
  (* prices.get_price(price_map, (base, quote), date) -> rate or None; Beancount's,
     abstract.  [one] is rate 1 in the rates' fixed-point scale. *)
  Variable price : currency -> currency -> option Z -> option Z.
  Variable one : Z.

  (* get_value on a Position (no .price attribute): value currency = cost currency *)
  Definition get_value (date : option Z) (p : position) : amount :=
    match pcost p with
    | Some c =>
        match price (pcur p) (ccur c) date with
        | Some r => (pnum p * r, ccur c)
        | None => (pnum p * one, pcur p)
        end
    | None => (pnum p * one, pcur p)
    end.

  (* convert_amount(amt, target, price_map, date, via): results at scale a+2c *)
  Definition convert_amount (via : option currency) (target : currency) (date : option Z) (a : amount) : amount :=
    match price (snd a) target date with
    | Some r => (fst a * r * one, target)
    | None =>
        match via with
        | Some v =>
            if v =? target then (fst a * one * one, snd a)
            else match price (snd a) v date with
                 | Some r1 =>
                     match price v target date with
                     | Some r2 => (fst a * r1 * r2, target)
                     | None => (fst a * one * one, snd a)
                     end
                 | None => (fst a * one * one, snd a)
                 end
        | None => (fst a * one * one, snd a)
        end
    end.

  (* convert_position(pos, target, price_map, date): via = cost currency *)
  Definition convert_position (target : currency) (date : option Z) (p : position) : amount :=
    convert_amount (match pcost p with Some c => Some (ccur c) | None => None end) target date (punits p).
End Prices.

(* ---- BQL functions on inventories (query_env.py) ---- *)
Definition inventory_units (inv : inventory) : inventory := reduce get_units inv.
Definition inventory_cost (one : Z) (inv : inventory) : inventory := reduce (get_cost one) inv.
Definition inventory_value price one date (inv : inventory) : inventory := reduce (get_value price one date) inv.
Definition inventory_convert price one target date (inv : inventory) : inventory :=
  reduce (convert_position price one target date) inv.

(* a price function from a finite table ((base, quote, date), rate) *)
Definition price_of_table (tbl : list ((currency * currency * option Z) * Z)) : currency -> currency -> option Z -> option Z :=
  fun b q d =>
    (fix go (l : list ((currency * currency * option Z) * Z)) : option Z :=
       match l with
       | [] => None
       | ((b', q', d'), r) :: t =>
           if (b' =? b) && (q' =? q) && optZ_eqb d' d then Some r else go t
       end) tbl.

(* ---- serialisation ---- *)
Definition o_cost (c : cost) : out :=
  OL [ON (cnum c); ON (ccur c); ON (cdate c); o_option ON (clabel c)].
Definition o_entry (e : entry) : out :=
  OL [ON (snd e); ON (fst (fst e)); o_option o_cost (snd (fst e))].
Definition o_inv (inv : inventory) : out := OL (map o_entry inv).
Definition o_booking (b : match_result) : out :=
  ON (match b with CREATED => 1 | REDUCED => 2 | AUGMENTED => 3 | IGNORED => 4 end).

(* trace of add_position calls: per step (position before or none, booking), final inventory *)
Definition add_trace (l : list position) : out :=
  let r := fold_left (fun st p =>
                        let '(inv, acc) := st in
                        let '(inv', (before, bk)) := add_amount_full inv (punits p) (pcost p) in
                        (inv', OL [o_option ON before; o_booking bk] :: acc)) l ([], []) in
  OL [OL (rev (snd r)); o_inv (fst r)].

(* ---- (bld-inv, additive) the remaining Inventory methods beanquery's function library calls, and the BQL functions
   only() / empty() / filter_currency() on inventories (query_env.py only_inventory, empty_inventory,
   filter_currency_inventory).  Specification lemmas in Proofs/SrcInvFuncs.v. ---- *)
(* Inventory.get_currency_units(currency): the total of the numbers held in that currency, at whatever cost,
   accumulated in dict iteration order from ZERO; an Amount in that currency even when nothing is held *)
Definition get_currency_units (inv : inventory) (c : currency) : amount :=
  (fold_left (fun tot (e : entry) => if fst (fst e) =? c then tot + snd e else tot) inv 0, c).

(* Inventory.is_empty(): the dict has no key *)
Definition is_empty (inv : inventory) : bool := match inv with [] => true | _ :: _ => false end.

(* Inventory(positions) on an iterable of positions (here: positions that came out of an inventory, i.e. entries):
   add_position one by one into an empty inventory *)
Definition from_entries (l : list entry) : inventory := fold_left add_entry l [].

Definition inventory_only (c : currency) (inv : inventory) : amount := get_currency_units inv c.
Definition inventory_empty (inv : inventory) : bool := is_empty inv.
(* Inventory(pos for pos in inv if pos.units.currency == currency) *)
Definition inventory_filter_currency (inv : inventory) (c : currency) : inventory :=
  from_entries (filter (fun e : entry => fst (fst e) =? c) inv).
