(* C06 model, part 3: the parser of beanquery/parser/bql.ebnf over tokens.

   One function per grammar rule, mirroring the PEG that TatSu 5.7.4 executes:
   ordered choice (first alternative that succeeds wins, no re-entry after a
   later failure), the left-recursive rules sum / term / primary as iteration
   (TatSu grows the seed; a failure after the cut `~` inside the growth loop
   only stops the growth), gathers `','.{ x }` with TatSu's implicit cut after
   the separator, and the explicit cuts of the `from` rule.  A result [None]
   means "this rule application, and therefore the whole parse, fails": where
   the PEG would merely skip an optional clause whose introducing keyword
   matched but whose body failed, the keyword (reserved, or unusable for
   anything else at that place) can never be consumed later, so the parse fails
   in both; the model returns [None] at once.

   All functions take a fuel argument that decreases at every call
   (structural recursion); [parse_tokens] supplies enough fuel. *)
From Coq Require Import ZArith NArith List Bool.
Import ListNotations.
From Verif Require Import Model.Ast Model.Lexer.

Definition res (A : Type) := option (A * list token).

(* literal = date | decimal | integer | string | null | boolean *)
Definition lit_of_tok (t : token) : option lit :=
  match t with
  | TDate y m d => Some (LDate y m d)
  | TDec _ m s => Some (LDec m s)
  | TInt n => Some (LInt n)
  | TStr s => Some (LStr s)
  | TId s => if str_eqb s w_null then Some LNull else None
  | TKw KTRUE => Some (LBool true)
  | TKw KFALSE => Some (LBool false)
  | _ => None
  end.

(* the elements of list = '(' &( literal ',') ','.{ (literal | ()) }+ ')':
   [literal]? (',' [literal]?)*  -- an empty element contributes nothing *)
Fixpoint p_lits (acc : list lit) (ts : list token) : list lit * list token :=
  match ts with
  | t :: r =>
    match lit_of_tok t with
    | Some l => match r with
                | TComma :: r' => p_lits (l :: acc) r'
                | _ => (rev (l :: acc), r)
                end
    | None => match t with
              | TComma => p_lits acc r
              | _ => (rev acc, ts)
              end
    end
  | [] => (rev acc, [])
  end.

(* the postfix part of primary = attribute | subscript | atom (left recursive) *)
Fixpoint primary_loop (a : expr) (ts : list token) : expr * list token :=
  match ts with
  | TDot :: TId n :: r => primary_loop (EAttr a n) r
  | TLB :: TStr k :: TRB :: r => primary_loop (ESubscript a k) r
  | _ => (a, ts)
  end.

Definition cmp_of_tokens (ts : list token) : option (cmp * list token) :=
  match ts with
  | TLt :: r => Some (Lt, r)
  | TLe :: r => Some (Le, r)
  | TGt :: r => Some (Gt, r)
  | TGe :: r => Some (Ge, r)
  | TEq :: r => Some (Eq, r)
  | TNe :: r => Some (Ne, r)
  | TKw KIN :: r => Some (In, r)
  | TKw KNOT :: TKw KIN :: r => Some (NotIn, r)
  | TTilde :: r => Some (Match, r)
  | TNotTilde :: r => Some (NotMatch, r)
  | _ => None
  end.

Definition mk_bool (C : list expr -> expr) (a : expr) (acc : list expr) : expr :=
  match acc with [] => a | _ => C (a :: rev acc) end.

(* ['CLOSE' ('ON' close:date | {} close:`True`)] *)
Definition p_close_opt (ts : list token) : option (option date) * list token :=
  match ts with
  | TId c :: r =>
    if str_eqb c w_close then
      match r with
      | TId o :: TDate y m d :: r' => if str_eqb o w_on then (Some (Some (y, m, d)), r') else (Some None, r)
      | _ => (Some None, r)
      end
    else (None, ts)
  | _ => (None, ts)
  end.
(* ['CLEAR' clear:`True`] *)
Definition p_clear_opt (ts : list token) : bool * list token :=
  match ts with
  | TId c :: r => if str_eqb c w_clear then (true, r) else (false, ts)
  | _ => (false, ts)
  end.
(* ['OPEN' 'ON' open:date] *)
Definition p_open_opt (ts : list token) : option date * list token :=
  match ts with
  | TId o :: TId n :: TDate y m d :: r =>
    if str_eqb o w_open && str_eqb n w_on then (Some (y, m, d), r) else (None, ts)
  | _ => (None, ts)
  end.
(* which of the cut alternatives of `from` the text commits to *)
Definition from_kw (ts : list token) : nat :=
  match ts with
  | TId w :: _ => if str_eqb w w_open then 1 else if str_eqb w w_close then 2
                  else if str_eqb w w_clear then 3 else 0
  | _ => 0
  end%nat.
(* (integer | column) of pivotby *)
Definition p_pcol (ts : list token) : res (N + str) :=
  match ts with
  | TInt n :: r => Some (inl n, r)
  | TId s :: r => Some (inr s, r)
  | _ => None
  end.
(* ['AT' summary_func:identifier] *)
Definition p_at_opt (ts : list token) : option str * list token :=
  match ts with
  | TId a :: TId n :: r => if str_eqb a w_at then (Some n, r) else (None, ts)
  | _ => (None, ts)
  end.

(* The statement-level rules, parameterised by the expression parser [pe] and the
   select parser [ps] they call (both at the caller's remaining fuel); the loops of
   the gathers carry their own iteration bound [k]. *)
Section Clauses.
Variable pe : list token -> res expr.
Variable ps : list token -> res expr.

(* target = expression:expression ['AS' name:identifier] *)
Definition p_target (ts : list token) : res (expr * option str) :=
  match pe ts with
  | Some (e, TKw KAS :: TId n :: r) => Some ((e, Some n), r)
  | Some (e, r) => Some ((e, None), r)
  | None => None
  end.

Fixpoint targets_loop (k : nat) (acc : list (expr * option str)) (ts : list token)
  : res (list (expr * option str)) :=
  match k with O => None | S k' =>
    match ts with
    | TComma :: r =>
      match p_target r with
      | Some (t, r') => targets_loop k' (t :: acc) r'
      | None => None
      end
    | _ => Some (rev acc, ts)
    end
  end.

(* from = 'OPEN' ~ 'ON' open:date [CLOSE ...] [CLEAR] | 'CLOSE' ~ (...) [CLEAR] | 'CLEAR' ~ clear:`True`
        | expression:expression [OPEN ON date] [CLOSE ...] [CLEAR] *)
Definition p_from (ts : list token) : res (fromc expr) :=
  match from_kw ts with
  | 1%nat =>
    match ts with
    | _ :: TId o :: TDate y m d :: r1 =>
      if str_eqb o w_on then
        let '(c, r2) := p_close_opt r1 in
        let '(cl, r3) := p_clear_opt r2 in
        Some (FFrom None (Some (y, m, d)) c cl, r3)
      else None
    | _ => None
    end
  | 2%nat =>
    let '(c, r1) := p_close_opt ts in
    let '(cl, r2) := p_clear_opt r1 in
    Some (FFrom None None c cl, r2)
  | 3%nat => Some (FFrom None None None true, tl ts)
  | _ =>
    match pe ts with
    | Some (e, r) =>
      let '(o, r1) := p_open_opt r in
      let '(c, r2) := p_close_opt r1 in
      let '(cl, r3) := p_clear_opt r2 in
      Some (FFrom (Some e) o c cl, r3)
    | None => None
    end
  end.

(* (table | subselect | from);  subselect = '(' @:select ')' *)
Definition p_from_clause (ts : list token) : res (fromc expr) :=
  match ts with
  | TTable n :: r => Some (FTable n, r)
  | TLP :: r =>
    match (match r with TKw KSELECT :: _ => ps r | _ => None end) with
    | Some (s, TRP :: r') => Some (FSub s, r')
    | _ => p_from ts
    end
  | _ => p_from ts
  end.

(* (integer | expression): /\d+/ is a prefix match, so a date or a decimal written with an
   integer part is committed to `integer` and what is left of it cannot be consumed *)
Definition p_gcol (ts : list token) : res (N + expr) :=
  match ts with
  | TInt n :: r => Some (inl n, r)
  | TDec true _ _ :: _ => None
  | TDate _ _ _ :: _ => None
  | _ => match pe ts with
         | Some (e, r) => Some (inr e, r)
         | None => None
         end
  end.

Fixpoint gcols_loop (k : nat) (acc : list (N + expr)) (ts : list token) : res (list (N + expr)) :=
  match k with O => None | S k' =>
    match ts with
    | TComma :: r =>
      match p_gcol r with
      | Some (g, r') => gcols_loop k' (g :: acc) r'
      | None => None
      end
    | _ => Some (rev acc, ts)
    end
  end.

(* order = column:(integer | expression) ordering:['DESC' | 'ASC'] *)
Definition p_order (ts : list token) : res ((N + expr) * bool) :=
  match p_gcol ts with
  | Some (g, TKw KDESC :: r) => Some ((g, true), r)
  | Some (g, TKw KASC :: r) => Some ((g, false), r)
  | Some (g, r) => Some ((g, false), r)
  | None => None
  end.

Fixpoint orders_loop (k : nat) (acc : list ((N + expr) * bool)) (ts : list token)
  : res (list ((N + expr) * bool)) :=
  match k with O => None | S k' =>
    match ts with
    | TComma :: r =>
      match p_order r with
      | Some (o, r') => orders_loop k' (o :: acc) r'
      | None => None
      end
    | _ => Some (rev acc, ts)
    end
  end.

(* targets:(','.{ target }+ | asterisk) *)
Definition p_targets (k : nat) (ts : list token) : res (option (list (expr * option str))) :=
  match p_target ts with
  | Some (t, r) => match targets_loop k [t] r with
                   | Some (tl, r2) => Some (Some tl, r2)
                   | None => None
                   end
  | None => match ts with TStar :: r2 => Some (None, r2) | _ => None end
  end.
(* ['FROM' from_clause:(table | subselect | from)] *)
Definition p_from_clause_opt (ts : list token) : res (option (fromc expr)) :=
  match ts with
  | TKw KFROM :: r => match p_from_clause r with
                      | Some (fc, r') => Some (Some fc, r')
                      | None => None
                      end
  | _ => Some (None, ts)
  end.
(* ['WHERE' where_clause:expression] *)
Definition p_where_opt (ts : list token) : res (option expr) :=
  match ts with
  | TKw KWHERE :: r => match pe r with
                       | Some (e, r') => Some (Some e, r')
                       | None => None
                       end
  | _ => Some (None, ts)
  end.
(* ['GROUP' 'BY' group_by:groupby];
   groupby = columns:','.{ (integer | expression) }+ ['HAVING' having:expression] *)
Definition p_group_opt (k : nat) (ts : list token) : res (option (list (N + expr) * option expr)) :=
  match ts with
  | TKw KGROUP :: r =>
    match r with
    | TKw KBY :: r' =>
      match p_gcol r' with
      | Some (g, r'') =>
        match gcols_loop k [g] r'' with
        | Some (gl, TKw KHAVING :: rh) =>
          match pe rh with
          | Some (h, rh') => Some (Some (gl, Some h), rh')
          | None => None
          end
        | Some (gl, rg) => Some (Some (gl, None), rg)
        | None => None
        end
      | None => None
      end
    | _ => None
    end
  | _ => Some (None, ts)
  end.
(* ['ORDER' 'BY' order_by:','.{order}+] *)
Definition p_order_opt (k : nat) (ts : list token) : res (list ((N + expr) * bool)) :=
  match ts with
  | TKw KORDER :: r =>
    match r with
    | TKw KBY :: r' =>
      match p_order r' with
      | Some (o, r'') => orders_loop k [o] r''
      | None => None
      end
    | _ => None
    end
  | _ => Some ([], ts)
  end.
(* ['PIVOT' 'BY' pivot_by:pivotby];  pivotby = (integer | column) ',' (integer | column) *)
Definition p_pivot_opt (ts : list token) : res (option ((N + str) * (N + str))) :=
  match ts with
  | TKw KPIVOT :: r =>
    match r with
    | TKw KBY :: r' =>
      match p_pcol r' with
      | Some (c1, TComma :: r'') =>
        match p_pcol r'' with
        | Some (c2, r3) => Some (Some (c1, c2), r3)
        | None => None
        end
      | _ => None
      end
    | _ => None
    end
  | _ => Some (None, ts)
  end.
(* ['LIMIT' limit:integer] *)
Definition p_limit_opt (ts : list token) : res (option N) :=
  match ts with
  | TKw KLIMIT :: r =>
    match r with
    | TInt n :: r' => Some (Some n, r')
    | _ => None
    end
  | _ => Some (None, ts)
  end.

(* select = 'SELECT' ['DISTINCT'] targets [FROM] [WHERE] [GROUP BY] [ORDER BY] [PIVOT BY] [LIMIT] *)
Definition select_body (k : nat) (ts : list token) : res expr :=
  match ts with
  | TKw KSELECT :: r0 =>
    let '(dist, r1) := match r0 with TKw KDISTINCT :: r => (true, r) | _ => (false, r0) end in
    match p_targets k r1 with
    | None => None
    | Some (targets, r2) =>
    match p_from_clause_opt r2 with
    | None => None
    | Some (from, r3) =>
    match p_where_opt r3 with
    | None => None
    | Some (where_, r4) =>
    match p_group_opt k r4 with
    | None => None
    | Some (group, r5) =>
    match p_order_opt k r5 with
    | None => None
    | Some (order, r6) =>
    match p_pivot_opt r6 with
    | None => None
    | Some (pivot, r7) =>
    match p_limit_opt r7 with
    | None => None
    | Some (limit, r8) => Some (ESelect dist targets from where_ group order pivot limit, r8)
    end end end end end end end
  | _ => None
  end.
End Clauses.

Fixpoint p_expression (fuel : nat) (ts : list token) : res expr :=
  match fuel with O => None | S f =>
    (* expression = disjunction | conjunction *)
    match p_disjunction f ts with
    | Some x => Some x
    | None => p_conjunction f ts
    end
  end
with p_disjunction (fuel : nat) (ts : list token) : res expr :=
  match fuel with O => None | S f =>
    (* disjunction = or | conjunction;  or = args+:conjunction { 'OR' args+:conjunction }+ *)
    match p_conjunction f ts with
    | Some (a, r) => or_loop f a [] r
    | None => None
    end
  end
with or_loop (fuel : nat) (a : expr) (acc : list expr) (ts : list token) : res expr :=
  match fuel with O => None | S f =>
    match ts with
    | TKw KOR :: r =>
      match p_conjunction f r with
      | Some (b, r') => or_loop f a (b :: acc) r'
      | None => Some (mk_bool EOr a acc, ts)
      end
    | _ => Some (mk_bool EOr a acc, ts)
    end
  end
with p_conjunction (fuel : nat) (ts : list token) : res expr :=
  match fuel with O => None | S f =>
    match p_inversion f ts with
    | Some (a, r) => and_loop f a [] r
    | None => None
    end
  end
with and_loop (fuel : nat) (a : expr) (acc : list expr) (ts : list token) : res expr :=
  match fuel with O => None | S f =>
    match ts with
    | TKw KAND :: r =>
      match p_inversion f r with
      | Some (b, r') => and_loop f a (b :: acc) r'
      | None => Some (mk_bool EAnd a acc, ts)
      end
    | _ => Some (mk_bool EAnd a acc, ts)
    end
  end
with p_inversion (fuel : nat) (ts : list token) : res expr :=
  match fuel with O => None | S f =>
    (* inversion = not | comparison;  not = 'NOT' operand:inversion *)
    match ts with
    | TKw KNOT :: r =>
      match p_inversion f r with
      | Some (a, r') => Some (ENot a, r')
      | None => None
      end
    | _ => p_comparison f ts
    end
  end
with p_comparison (fuel : nat) (ts : list token) : res expr :=
  match fuel with O => None | S f =>
    (* lt | lte | gt | gte | eq | neq | in | notin | match | notmatch | isnull | isnotnull | between | sum:
       every alternative starts with the same (memoised) sum; when the operator matches but the
       rest of the alternative fails, the last alternative (the bare sum) is what remains *)
    match p_sum f ts with
    | None => None
    | Some (a, r0) =>
      match cmp_of_tokens r0 with
      | Some (op, r1) =>
        match p_sum f r1 with
        | Some (b, r2) => Some (ECmp op a b, r2)
        | None => Some (a, r0)
        end
      | None =>
        match r0 with
        | TKw KIS :: TId n :: r1 => if str_eqb n w_null then Some (EIsNull a, r1) else Some (a, r0)
        | TKw KIS :: TKw KNOT :: TId n :: r1 => if str_eqb n w_null then Some (EIsNotNull a, r1) else Some (a, r0)
        | TId n :: r1 =>
          if str_eqb n w_between then
            match p_sum f r1 with
            | Some (lo, TKw KAND :: r2) =>
              match p_sum f r2 with
              | Some (hi, r3) => Some (EBetween a lo hi, r3)
              | None => Some (a, r0)
              end
            | _ => Some (a, r0)
            end
          else Some (a, r0)
        | _ => Some (a, r0)
        end
      end
    end
  end
with p_sum (fuel : nat) (ts : list token) : res expr :=
  match fuel with O => None | S f =>
    match p_term f ts with
    | Some (a, r) => sum_loop f a r
    | None => None
    end
  end
with sum_loop (fuel : nat) (a : expr) (ts : list token) : res expr :=
  match fuel with O => None | S f =>
    (* add = left:sum '+' ~ right:term;  sub = left:sum '-' ~ right:term *)
    match ts with
    | TPlus :: r =>
      match p_term f r with
      | Some (b, r') => sum_loop f (EArith Add a b) r'
      | None => Some (a, ts)
      end
    | TMinus :: r =>
      match p_term f r with
      | Some (b, r') => sum_loop f (EArith Sub a b) r'
      | None => Some (a, ts)
      end
    | _ => Some (a, ts)
    end
  end
with p_term (fuel : nat) (ts : list token) : res expr :=
  match fuel with O => None | S f =>
    match p_factor f ts with
    | Some (a, r) => term_loop f a r
    | None => None
    end
  end
with term_loop (fuel : nat) (a : expr) (ts : list token) : res expr :=
  match fuel with O => None | S f =>
    match ts with
    | TStar :: r =>
      match p_factor f r with
      | Some (b, r') => term_loop f (EArith Mul a b) r'
      | None => Some (a, ts)
      end
    | TSlash :: r =>
      match p_factor f r with
      | Some (b, r') => term_loop f (EArith Div a b) r'
      | None => Some (a, ts)
      end
    | TPercent :: r =>
      match p_factor f r with
      | Some (b, r') => term_loop f (EArith Mod a b) r'
      | None => Some (a, ts)
      end
    | TPlaceS :: r =>
      (* scannerless: after an operand, `%s` is the operator % followed by the name s *)
      match p_factor f (TId w_s :: r) with
      | Some (b, r') => term_loop f (EArith Mod a b) r'
      | None => Some (a, ts)
      end
    | _ => Some (a, ts)
    end
  end
with p_factor (fuel : nat) (ts : list token) : res expr :=
  match fuel with O => None | S f =>
    (* factor = unary | '(' @:expression ')' *)
    match p_unary f ts with
    | Some x => Some x
    | None =>
      match ts with
      | TLP :: r =>
        match p_expression f r with
        | Some (e, TRP :: r') => Some (e, r')
        | _ => None
        end
      | _ => None
      end
    end
  end
with p_unary (fuel : nat) (ts : list token) : res expr :=
  match fuel with O => None | S f =>
    (* unary = uplus | uminus | primary;  uplus = '+' @:atom;  uminus = '-' operand:factor *)
    match ts with
    | TPlus :: r => p_atom f r
    | TMinus :: r =>
      match p_factor f r with
      | Some (a, r') => Some (ENeg a, r')
      | None => None
      end
    | _ => p_primary f ts
    end
  end
with p_primary (fuel : nat) (ts : list token) : res expr :=
  match fuel with O => None | S f =>
    match p_atom f ts with
    | Some (a, r) => Some (primary_loop a r)
    | None => None
    end
  end
with p_atom (fuel : nat) (ts : list token) : res expr :=
  match fuel with O => None | S f =>
    (* atom = select | function | constant | column | placeholder *)
    match ts with
    | TKw KSELECT :: _ => p_select f ts
    | TId n :: r =>
      let plain := if str_eqb n w_null then Some (EConst LNull, r) else Some (EColumn n, r) in
      match r with
      | TLP :: r1 =>
        (* function = fname '(' ','.{ expression } ')' | fname '(' asterisk ')' *)
        match p_args f r1 with
        | None => None
        | Some (args, TRP :: r2) => Some (EFunc n args, r2)
        | Some _ =>
          match r1 with
          | TStar :: TRP :: r2 => Some (EFuncStar n, r2)
          | _ => plain
          end
        end
      | _ => plain
      end
    | TLP :: r =>
      (* constant = value:(literal | list);  list = '(' &( literal ',') ... ')' *)
      match r with
      | t :: TComma :: _ =>
        match lit_of_tok t with
        | Some _ => match p_lits [] r with
                    | (ls, TRP :: r') => Some (EList ls, r')
                    | _ => None
                    end
        | None => None
        end
      | _ => None
      end
    | TPlaceS :: r => Some (EPlace [], r)
    | TPlaceN n :: r => Some (EPlace n, r)
    | t :: r => match lit_of_tok t with Some l => Some (EConst l, r) | None => None end
    | [] => None
    end
  end
with p_args (fuel : nat) (ts : list token) : res (list expr) :=
  match fuel with O => None | S f =>
    (* ','.{ expression }: optional first element, then (',' ~ expression)* *)
    match p_expression f ts with
    | Some (e, r) => args_loop f [e] r
    | None => args_loop f [] ts
    end
  end
with args_loop (fuel : nat) (acc : list expr) (ts : list token) : res (list expr) :=
  match fuel with O => None | S f =>
    match ts with
    | TComma :: r =>
      match p_expression f r with
      | Some (e, r') => args_loop f (e :: acc) r'
      | None => None
      end
    | _ => Some (rev acc, ts)
    end
  end
with p_select (fuel : nat) (ts : list token) : res expr :=
  match fuel with O => None | S f => select_body (p_expression f) (p_select f) f ts end.

(* ['FROM' from_clause:from] of balances / journal / print *)
Definition p_from_opt (fuel : nat) (ts : list token) : option (option (fromc expr) * list token) :=
  match ts with
  | TKw KFROM :: r => match p_from (p_expression fuel) r with
                      | Some (fc, r') => Some (Some fc, r')
                      | None => None
                      end
  | _ => Some (None, ts)
  end.

(* bql = @:statement [';'] $   (a ';' always starts an eol comment, so the lexer never sees it) *)
Definition p_statement (fuel : nat) (ts : list token) : option stmt :=
  match ts with
  | TKw KSELECT :: _ =>
    match p_select fuel ts with
    | Some (s, []) => Some (SSelect s)
    | _ => None
    end
  | TKw KBALANCES :: r =>
    let '(sf, r1) := p_at_opt r in
    match p_from_opt fuel r1 with
    | Some (fc, TKw KWHERE :: r2) =>
      match p_expression fuel r2 with
      | Some (w, []) => Some (SBalances sf fc (Some w))
      | _ => None
      end
    | Some (fc, []) => Some (SBalances sf fc None)
    | _ => None
    end
  | TKw KJOURNAL :: r =>
    let '(acc, r0) := match r with TStr s :: r' => (Some s, r') | _ => (None, r) end in
    let '(sf, r1) := p_at_opt r0 in
    match p_from_opt fuel r1 with
    | Some (fc, []) => Some (SJournal acc sf fc)
    | _ => None
    end
  | TKw KPRINT :: r =>
    match p_from_opt fuel r with
    | Some (fc, []) => Some (SPrint fc)
    | _ => None
    end
  | _ => None
  end.

Definition fuel_for (ts : list token) : nat := (40 * length ts + 40)%nat.

Definition parse_expr (ts : list token) : option expr :=
  match p_expression (fuel_for ts) ts with
  | Some (e, []) => Some e
  | _ => None
  end.

Definition parse_tokens (ts : list token) : option stmt := p_statement (fuel_for ts) ts.

(* beanquery.parser.parse(text) *)
Definition parse_text (cs : str) : option stmt :=
  match lex cs with
  | Some ts => parse_tokens ts
  | None => None
  end.
