(* C14 -- has_account(context, pattern) of beanquery/query_env.py: the model and the semantics of the primitives the translated
   function calls (group `hasaccount`: harness/vf/src_hasaccount.py -> Gen/SrcHasAccount.v, Proofs/SrcHasAccount.v; bld-env2).

   The C14 model of PRINT (Model/Statements.v print_selection ..) is generic in the filter `w : E -> value`; this file gives
   the filter that FROM has_account('p') denotes:  [has_account_filter p] : entry -> value.

   ABSTRACT (parameters of the section, so every theorem holds for ANY regular-expression engine and any ledger):
   * [re_valid p]     - re.compile(p, re.IGNORECASE) succeeds (otherwise it raises re.error, kind [ReError]);
   * [re_search p a]  - re.compile(p, re.IGNORECASE).search(a) is a Match (truthy) and not None;
   * [accounts_of e]  - the items of getters.get_entry_accounts(e) (a set of strings; any() does not depend on the order).
   TRUSTED encodings: a compiled pattern is [p_pattern p flags], its attribute `search` the bound method [p_search p flags]
   (only flags = 2 = re.IGNORECASE is given a meaning: any other flag is Stuck), a Match is a non-empty tagged tuple, the
   row context is [p_context e] whose attribute `entry` is e; builtins.any(l) is "some item is truthy". *)
From Coq Require Import String ZArith List Bool.
Import ListNotations.
From Verif Require Import Base.PyValue Model.PyMini Model.PrimsEnv.
Open Scope string_scope.
Open Scope list_scope.
Open Scope Z_scope.

Definition ReError : Z := 20.     (* re.error *)

Section HasAccount.
Variable re_valid : list Z -> bool.
Variable re_search : list Z -> list Z -> bool.
Variable accounts_of : pv -> list (list Z).

(* ---- the model: any(search(account) for account in get_entry_accounts(entry)) *)
Definition has_account (e : pv) (pattern : list Z) : value :=
  if re_valid pattern then VBool (existsb (re_search pattern) (accounts_of e)) else VErr ReError.
Definition has_account_filter (pattern : list Z) : pv -> value := fun e => has_account e pattern.

(* a model result as the outcome of the Python call *)
Definition ha_result (v : value) : res pv := match v with VErr k => Exc k | _ => Ok (PV v) end.

(* ---- encodings *)
Definition p_context (e : pv) : pv := tagged "context" [e].
Definition p_pattern (p : list Z) (flags : Z) : pv := tagged "re.Pattern" [pstr p; PInt flags].
Definition p_search (p : list Z) (flags : Z) : pv := tagged "re.Pattern.search" [pstr p; PInt flags].
Definition p_amatch : pv := tagged "match" [].

Definition truthy_item (v : pv) : bool := match pv_truthy v with Ok true => true | _ => false end.

Definition prim_has_account (name : string) (args : list pv) : res pv :=
  if String.eqb name "re.compile" then
    match args with
    | [PV (VStr p); PV (VInt flags)] => if re_valid p then Ok (p_pattern p flags) else Exc ReError
    | _ => Stuck
    end
  else if String.eqb name "attr:search" then
    match args with
    | [PTuple [PV (VStr t); PV (VStr p); PV (VInt flags)]] =>
        if is_tag "re.Pattern" t then Ok (p_search p flags) else Stuck
    | _ => Stuck
    end
  else if String.eqb name "apply" then
    match args with
    | [PTuple [PV (VStr t); PV (VStr p); PV (VInt flags)]; PV (VStr a)] =>
        if is_tag "re.Pattern.search" t && (flags =? 2)
        then Ok (if re_search p a then p_amatch else PNone) else Stuck
    | _ => Stuck
    end
  else if String.eqb name "attr:entry" then
    match args with
    | [PTuple [PV (VStr t); e]] => if is_tag "context" t then Ok e else Stuck
    | _ => Stuck
    end
  else if String.eqb name "beancount.core.getters.get_entry_accounts" then
    match args with [e] => Ok (PList (pstrs (accounts_of e))) | _ => Stuck end
  else if String.eqb name "builtins.any" then
    match args with [PList l] => Ok (PBool (existsb truthy_item l)) | _ => Stuck end
  else Stuck.
End HasAccount.
