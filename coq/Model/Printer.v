(* C06 model, part 4: the printer (AST -> tokens) and the well-formedness
   predicate [wf] saying which trees are expressible in BQL at all.

   [body e] prints [e] with the parentheses its shape requires: a child whose
   binding strength [lvl] is below what its position needs is wrapped in
   `( )`.  Redundant concrete syntax is part of the tree ([EParen], [EUPlus]),
   so "any print with minimal or redundant parentheses" is [body c] for some
   [c] with [erase c = e]. *)
From Coq Require Import ZArith NArith List Bool.
Import ListNotations.
From Verif Require Import Model.Ast Model.Lexer.

Definition paren (ts : list token) : list token := TLP :: ts ++ [TRP].

Definition lit_tok (l : lit) : token :=
  match l with
  | LNull => TId w_null
  | LBool true => TKw KTRUE
  | LBool false => TKw KFALSE
  | LInt n => TInt n
  | LDec m s => TDec true m s
  | LDate y m d => TDate y m d
  | LStr s => TStr s
  end.
Definition str_tok (s : str) : token := TStr s.

Fixpoint lits_tail (ls : list lit) : list token :=
  match ls with
  | [] => []
  | [l] => [lit_tok l]
  | l :: r => lit_tok l :: TComma :: lits_tail r
  end.
(* (1,)   (1, 2)   (1, 2, 3) *)
Definition lits_toks (ls : list lit) : list token :=
  match ls with
  | [] => []
  | [l] => [lit_tok l; TComma]
  | l :: r => lit_tok l :: TComma :: lits_tail r
  end.

Definition arith_tok (op : arith) : token :=
  match op with Add => TPlus | Sub => TMinus | Mul => TStar | Div => TSlash | Mod => TPercent end.
Definition arith_lvl (op : arith) : nat := match op with Add | Sub => 5 | _ => 6 end.
Definition cmp_toks (op : cmp) : list token :=
  match op with
  | Lt => [TLt] | Le => [TLe] | Gt => [TGt] | Ge => [TGe] | Eq => [TEq] | Ne => [TNe]
  | In => [TKw KIN] | NotIn => [TKw KNOT; TKw KIN] | Match => [TTilde] | NotMatch => [TNotTilde]
  end.

(* a GROUP BY / ORDER BY expression must not start with digits: /\d+/ would win *)
Definition num_guard (ts : list token) : list token :=
  match ts with
  | TInt _ :: _ | TDec true _ _ :: _ | TDate _ _ _ :: _ => paren ts
  | _ => ts
  end.
(* a FROM expression must not start with OPEN / CLOSE / CLEAR (cut alternatives) nor look like a subselect *)
Definition from_guard (ts : list token) : list token :=
  match ts with
  | TId w :: _ => if str_eqb w w_open || str_eqb w w_close || str_eqb w w_clear then paren ts else ts
  | TLP :: TKw KSELECT :: _ => paren ts
  | _ => ts
  end.

Definition date_tok (d : date) : token := let '(y, m, dd) := d in TDate y m dd.
Definition open_toks (o : option date) : list token :=
  match o with Some d => [TId w_open; TId w_on; date_tok d] | None => [] end.
Definition close_toks (c : option (option date)) : list token :=
  match c with
  | Some (Some d) => [TId w_close; TId w_on; date_tok d]
  | Some None => [TId w_close]
  | None => []
  end.
Definition clear_toks (cl : bool) : list token := if cl then [TId w_clear] else [].
Definition pcol_tok (c : N + str) : token := match c with inl n => TInt n | inr s => TId s end.

Fixpoint body (e : expr) : list token :=
  let pp (L : nat) (x : expr) := if lvl x <? L then paren (body x) else body x in
  match e with
  | EConst l => [lit_tok l]
  | EList ls => TLP :: lits_toks ls ++ [TRP]
  | EColumn n => [TId n]
  | EFunc n args =>
      TId n :: TLP ::
      match args with
      | [] => []
      | a :: r => pp 1 a ++ concat (map (fun x => TComma :: pp 1 x) r)
      end ++ [TRP]
  | EFuncStar n => [TId n; TLP; TStar; TRP]
  | EPlace n => match n with [] => [TPlaceS] | _ => [TPlaceN n] end
  | EAttr a n => body a ++ [TDot; TId n]
  | ESubscript a k => body a ++ [TLB; str_tok k; TRB]
  | ENeg a => TMinus :: pp 7 a
  | EArith op a b => pp (arith_lvl op) a ++ arith_tok op :: pp (S (arith_lvl op)) b
  | ECmp op a b => pp 5 a ++ cmp_toks op ++ pp 5 b
  | EIsNull a => pp 5 a ++ [TKw KIS; TId w_null]
  | EIsNotNull a => pp 5 a ++ [TKw KIS; TKw KNOT; TId w_null]
  | EBetween a lo hi => pp 5 a ++ TId w_between :: pp 5 lo ++ TKw KAND :: pp 5 hi
  | ENot a => TKw KNOT :: pp 3 a
  | EAnd l =>
      match l with
      | [] => []
      | a :: r => pp 3 a ++ concat (map (fun x => TKw KAND :: pp 3 x) r)
      end
  | EOr l =>
      match l with
      | [] => []
      | a :: r => pp 2 a ++ concat (map (fun x => TKw KOR :: pp 2 x) r)
      end
  | ESelect d t f w g o p lim =>
      let target (x : expr * option str) :=
        pp 1 (fst x) ++ match snd x with Some n => [TKw KAS; TId n] | None => [] end in
      let gcol (c : N + expr) := match c with inl n => [TInt n] | inr x => num_guard (pp 1 x) end in
      let ord (x : (N + expr) * bool) := gcol (fst x) ++ (if snd x then [TKw KDESC] else []) in
      TKw KSELECT :: (if d then [TKw KDISTINCT] else [])
      ++ match t with
         | None => [TStar]
         | Some [] => []
         | Some (a :: r) => target a ++ concat (map (fun x => TComma :: target x) r)
         end
      ++ match f with
         | None => []
         | Some (FTable n) => [TKw KFROM; TTable n]
         | Some (FSub s) => TKw KFROM :: paren (body s)
         | Some (FFrom x op c cl) =>
             TKw KFROM :: match x with Some x => from_guard (pp 1 x) | None => [] end
             ++ open_toks op ++ close_toks c ++ clear_toks cl
         end
      ++ match w with Some x => TKw KWHERE :: pp 1 x | None => [] end
      ++ match g with
         | None => []
         | Some ([], _) => []
         | Some (a :: r, h) =>
             TKw KGROUP :: TKw KBY :: gcol a ++ concat (map (fun x => TComma :: gcol x) r)
             ++ match h with Some x => TKw KHAVING :: pp 1 x | None => [] end
         end
      ++ match o with
         | [] => []
         | a :: r => TKw KORDER :: TKw KBY :: ord a ++ concat (map (fun x => TComma :: ord x) r)
         end
      ++ match p with
         | Some (c1, c2) => [TKw KPIVOT; TKw KBY; pcol_tok c1; TComma; pcol_tok c2]
         | None => []
         end
      ++ match lim with Some n => [TKw KLIMIT; TInt n] | None => [] end
  | EParen a => paren (pp 1 a)
  | EUPlus a => TPlus :: body a
  end.

Definition pp (L : nat) (x : expr) : list token := if lvl x <? L then paren (body x) else body x.

(* the `from` rule (BALANCES / JOURNAL / PRINT accept only this form) *)
Definition from_toks (fc : fromc expr) : list token :=
  match fc with
  | FTable n => [TTable n]
  | FSub s => paren (body s)
  | FFrom x op c cl =>
      match x with Some x => from_guard (pp 1 x) | None => [] end
      ++ open_toks op ++ close_toks c ++ clear_toks cl
  end.

Definition print_stmt (s : stmt) : list token :=
  match s with
  | SSelect e => body e
  | SBalances sf f w =>
      TKw KBALANCES :: match sf with Some n => [TId w_at; TId n] | None => [] end
      ++ match f with Some fc => TKw KFROM :: from_toks fc | None => [] end
      ++ match w with Some x => TKw KWHERE :: pp 1 x | None => [] end
  | SJournal a sf f =>
      TKw KJOURNAL :: match a with Some s => [str_tok s] | None => [] end
      ++ match sf with Some n => [TId w_at; TId n] | None => [] end
      ++ match f with Some fc => TKw KFROM :: from_toks fc | None => [] end
  | SPrint f =>
      TKw KPRINT :: match f with Some fc => TKw KFROM :: from_toks fc | None => [] end
  end.

(* ---------------------------------------------------------------------- *)
(* Which trees are expressible. *)

Definition is_select (e : expr) : bool := match e with ESelect _ _ _ _ _ _ _ _ => true | _ => false end.

Definition wf_from (wf : expr -> bool) (fc : fromc expr) : bool :=
  match fc with
  | FTable _ => true
  | FSub s => is_select s && wf s
  | FFrom x o c cl =>
      oall wf x
      && match x, o, c, cl with None, None, None, false => false | _, _, _, _ => true end
  end.

Fixpoint wf (e : expr) : bool :=
  match e with
  | EConst _ => true
  | EList ls => match ls with [] => false | _ => true end      (* `( literal ,` is required *)
  | EColumn n => negb (str_eqb n w_null)                       (* NULL is the constant *)
  | EFunc _ args => forallb wf args
  | EFuncStar _ => true
  | EPlace _ => true
  | EAttr a _ | ESubscript a _ => (8 <=? lvl a) && wf a        (* operand is a primary: no ( ) possible *)
  | ENeg a | EIsNull a | EIsNotNull a | ENot a | EParen a => wf a
  | EArith _ a b | ECmp _ a b => wf a && wf b
  | EBetween a b c => wf a && wf b && wf c
  | EAnd l | EOr l => (2 <=? length l) && forallb wf l         (* { 'AND' inversion }+ *)
  | ESelect _ t f w g o _ _ =>
      match t with Some [] => false | Some tl => forallb (fun x => wf (fst x)) tl | None => true end
      && oall (wf_from wf) f
      && oall wf w
      && match g with
         | Some ([], _) => false
         | Some (gl, h) => forallb (sall wf) gl && oall wf h
         | None => true
         end
      && forallb (fun x => sall wf (fst x)) o
  | EUPlus a => (9 <=? lvl a) && negb (is_select a) && wf a    (* '+' atom *)
  end.

Definition wf_from_only (fc : fromc expr) : bool :=
  match fc with FFrom _ _ _ _ => wf_from wf fc | _ => false end.

Definition wf_stmt (s : stmt) : bool :=
  match s with
  | SSelect e => is_select e && wf e
  | SBalances _ f w => oall wf_from_only f && oall wf w
  | SJournal _ _ f => oall wf_from_only f
  | SPrint f => oall wf_from_only f
  end.

(* Lexical side conditions: every token of the print is one the lexer can produce. *)
Definition lex_ok (ts : list token) : bool := forallb tok_ok ts.
