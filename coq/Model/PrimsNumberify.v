(* Primitive semantics for the translated numberify.py (group `numberify`, Gen/SrcNumberify.v): how the values of
   Model/Numberify.v are laid out as PyMini values, and what the library calls / attribute reads / object calls the
   translated statements make are ASSUMED to do.  Part of the trusted base of the C17 `*_source_*` theorems.

   Encoding (objects are tagged tuples; the first component is the class tag):
     Decimal d                PV (VDec d)                 str s            PV (VStr s)
     Amount(number, currency) PTuple [1; number; currency]
     Cost                     PTuple [4; number; currency; date]  (None: no cost)
     Position(units, cost)    PTuple [2; units; cost]
     Inventory                PTuple [3; PList positions]         (the dict's values in iteration order)
     Column(name, datatype)   PTuple [10; name; datatype]
     a converter object       PTuple [11; class; name; dtype; index; currency]
                              class 0 = IdentityConverter, 1/2/3 = Amount/Position/InventoryConverter
     DisplayFormatter         PTuple [20]                         (seen only through .quantize)
     a datatype               PTuple [30; k] (a plain type, 1 = Decimal), [31] Amount, [32] Position, [33] Inventory
     defaultdict(int) / .items()   PList of PTuple [key; value] in insertion order

   Primitives, from the definitions of Model/Numberify.v:
     truth x                       operator.truth: Amount -> number != 0 (Amount.__bool__), Inventory (a dict) -> not
                                   empty, everything else PyMini's truth value (a Position is a 2-tuple: true)
     x.currency x.number x.units   the fields; AttributeError on anything that is not such an object (e.g. None)
     inv.get_currency_units(c)     Amount(Numberify.inv_units c inv, c)
     inv.currencies()              the distinct unit currencies (a Python set: iteration order is hash dependent;
                                   the model's order is used, C17_census_order_irrelevant shows the order is immaterial)
     dformat.quantize(d, c)        the formatter function of the model (Section variable)
     collections.defaultdict(int), m[k] (default 0), m[k] = v, m.items()
     '{} ({})'.format(a, b)        Numberify.fmt_name (this template only)
     enumerate, tuple              the list functions
     CONVERTING_TYPES.get(t)       lookup in the generated table (Gen/SrcNumberify.converting_types)
     sorted(l, key=f, reverse=d)   the key function (a translated lambda, by number) is interpreted on every item; keys
                                   must be (int, str) tuples, compared lexicographically; Base/StableSort.py_sort
     apply [f; args]               calling a converter object = interpreting the translated __call__ of its class on
                                   the object's fields; calling a census function = interpreting its translation. *)
From Coq Require Import String ZArith List Bool.
Import ListNotations.
From Verif Require Import Base.StableSort Base.PyValue Model.Eval Model.PyMini Model.Numberify.
Open Scope string_scope.
Open Scope list_scope.
Open Scope Z_scope.

(* ------------------------------------------------------------------ encoding *)
Definition enc_dec (d : dec) : pv := PV (VDec d).
Definition enc_str (s : list Z) : pv := PV (VStr s).
Definition enc_amount (a : amount) : pv := PTuple [PInt 1; enc_dec (anum a); enc_str (acur a)].
Definition enc_cost (c : option cost) : pv :=
  match c with
  | None => PNone
  | Some c => PTuple [PInt 4; enc_dec (cnum c); enc_str (ccur c); PInt (cdate c)]
  end.
Definition enc_position (p : position) : pv := PTuple [PInt 2; enc_amount (punits p); enc_cost (pcost p)].
Definition enc_inventory (i : inventory) : pv := PTuple [PInt 3; PList (map enc_position i)].
Definition enc_cell (c : cellv) : pv :=
  match c with
  | CPlain v => PV v
  | CAmount a => enc_amount a
  | CPosition p => enc_position p
  | CInventory i => enc_inventory i
  end.
Definition enc_row (r : crow) : pv := PList (map enc_cell r).
Definition enc_rows (rows : list crow) : pv := PList (map enc_row rows).
Definition enc_dtype (dt : dtype) : pv :=
  match dt with
  | DPlain k => PTuple [PInt 30; PInt k]
  | DAmount => PTuple [PInt 31]
  | DPosition => PTuple [PInt 32]
  | DInventory => PTuple [PInt 33]
  end.
Definition enc_column (c : column) : pv := PTuple [PInt 10; enc_str (fst c); enc_dtype (snd c)].
Definition enc_columns (cols : list column) : pv := PList (map enc_column cols).
Definition cls_of (dt : dtype) : Z :=
  match dt with DAmount => 1 | DPosition => 2 | DInventory => 3 | DPlain _ => 4 (* no such class *) end.
Definition enc_idx (i : nat) : pv := PInt (Z.of_nat i).
Definition enc_conv (k : conv) : pv :=
  match k with
  | KId n dt i => PTuple [PInt 11; PInt 0; enc_str n; enc_dtype dt; enc_idx i; PNone]
  | KConv n dt i c => PTuple [PInt 11; PInt (cls_of dt); enc_str n; enc_dtype DDecimal; enc_idx i; enc_str c]
  end.
Definition formatter_obj : pv := PTuple [PInt 20].
Definition enc_dformat (f : option (dec -> currency -> dec)) : pv :=
  match f with None => PNone | Some _ => formatter_obj end.
Definition enc_entry (e : currency * Z) : pv := PTuple [enc_str (fst e); PInt (snd e)].
Definition enc_map (m : list (currency * Z)) : pv := PList (map enc_entry m).

(* ------------------------------------------------------------------ decoding *)
Fixpoint n_map_opt {A B} (f : A -> option B) (l : list A) : option (list B) :=
  match l with
  | [] => Some []
  | a :: t => match f a, n_map_opt f t with Some b, Some bs => Some (b :: bs) | _, _ => None end
  end.
Fixpoint n_mapM {A B} (f : A -> res B) (l : list A) : res (list B) :=
  match l with
  | [] => Ok []
  | a :: t => bind (f a) (fun b => bind (n_mapM f t) (fun bs => Ok (b :: bs)))
  end.

Definition dec_amount (v : pv) : option amount :=
  match v with
  | PTuple [PV (VInt 1); PV (VDec d); PV (VStr c)] => Some (mkamt d c)
  | _ => None
  end.
Definition dec_cost (v : pv) : option (option cost) :=
  match v with
  | PV VNull => Some None
  | PTuple [PV (VInt 4); PV (VDec d); PV (VStr c); PV (VInt t)] => Some (Some (mkcost d c t))
  | _ => None
  end.
Definition dec_position (v : pv) : option position :=
  match v with
  | PTuple [PV (VInt 2); a; c] =>
      match dec_amount a, dec_cost c with Some a', Some c' => Some (mkpos a' c') | _, _ => None end
  | _ => None
  end.
Definition dec_inventory (v : pv) : option inventory :=
  match v with
  | PTuple [PV (VInt 3); PList l] => n_map_opt dec_position l
  | _ => None
  end.

(* ------------------------------------------------------------------ association lists *)
Fixpoint assoc_get (k : pv) (m : list pv) : option pv :=
  match m with
  | [] => None
  | PTuple [k'; v] :: t => if pv_eqb k' k then Some v else assoc_get k t
  | _ :: t => assoc_get k t
  end.
Fixpoint assoc_set (k v : pv) (m : list pv) : list pv :=
  match m with
  | [] => [PTuple [k; v]]
  | PTuple [k'; v'] :: t => if pv_eqb k' k then PTuple [k'; v] :: t else PTuple [k'; v'] :: assoc_set k v t
  | x :: t => x :: assoc_set k v t
  end.

Fixpoint enum_from (i : nat) (l : list pv) : list pv :=
  match l with
  | [] => []
  | x :: t => PTuple [PInt (Z.of_nat i); x] :: enum_from (S i) t
  end.

Definition fmt_template : list Z := [123; 125; 32; 40; 123; 125; 41].        (* '{} ({})' *)

(* ------------------------------------------------------------------ first-order primitives *)
Section Base.
Variable dformat : option (dec -> currency -> dec).
Variable ctypes : list (pv * nat).                  (* Gen/SrcNumberify.converting_types *)

Definition obj_truth (v : pv) : res bool :=
  match dec_amount v with
  | Some a => Ok (negb (dec_is_zero (anum a)))
  | None =>
      match v with
      | PTuple [PV (VInt 3); PList l] => Ok (match l with [] => false | _ => true end)
      | _ => pv_truthy v
      end
  end.

Definition prims_base (name : string) (args : list pv) : res pv :=
  if String.eqb name "truth" then
    match args with [v] => bind (obj_truth v) (fun b => Ok (PBool b)) | _ => Stuck end
  else if String.eqb name "attr:currency" then
    match args with
    | [v] => match dec_amount v with Some a => Ok (enc_str (acur a)) | None => Exc AttributeError end
    | _ => Stuck
    end
  else if String.eqb name "attr:number" then
    match args with
    | [v] => match dec_amount v with Some a => Ok (enc_dec (anum a)) | None => Exc AttributeError end
    | _ => Stuck
    end
  else if String.eqb name "attr:units" then
    match args with
    | [PTuple [PV (VInt 2); a; _]] => Ok a
    | [_] => Exc AttributeError
    | _ => Stuck
    end
  else if String.eqb name "attr:name" then
    match args with
    | [PTuple [PV (VInt 10); n; _]] => Ok n
    | [PTuple [PV (VInt 11); _; n; _; _; _]] => Ok n
    | _ => Stuck
    end
  else if String.eqb name "attr:datatype" then
    match args with [PTuple [PV (VInt 10); _; d]] => Ok d | _ => Stuck end
  else if String.eqb name "attr:dtype" then
    match args with [PTuple [PV (VInt 11); _; _; d; _; _]] => Ok d | _ => Stuck end
  else if String.eqb name "call:get_currency_units" then
    match args with
    | [v; PV (VStr c)] =>
        match dec_inventory v with Some i => Ok (enc_amount (mkamt (inv_units c i) c)) | None => Stuck end
    | _ => Stuck
    end
  else if String.eqb name "call:currencies" then
    match args with
    | [v] => match dec_inventory v with Some i => Ok (PList (map enc_str (dedup (map pcur i)))) | None => Stuck end
    | _ => Stuck
    end
  else if String.eqb name "call:quantize" then
    match args, dformat with
    | [PTuple [PV (VInt 20)]; PV (VDec d); PV (VStr c)], Some q => Ok (enc_dec (q d c))
    | _, _ => Stuck
    end
  else if String.eqb name "collections.defaultdict(int)" then
    match args with [] => Ok (PList []) | _ => Stuck end
  else if String.eqb name "dd:getitem" then
    match args with
    | [PList m; k] => Ok (match assoc_get k m with Some v => v | None => PInt 0 end)
    | _ => Stuck
    end
  else if String.eqb name "stmt:setitem" then
    match args with [PList m; k; v] => Ok (PList (assoc_set k v m)) | _ => Stuck end
  else if String.eqb name "call:items" then
    match args with [PList m] => Ok (PList m) | _ => Stuck end
  else if String.eqb name "call:format" then
    match args with
    | [PV (VStr t); PV (VStr a); PV (VStr b)] => if str_eqb t fmt_template then Ok (enc_str (fmt_name a b)) else Stuck
    | _ => Stuck
    end
  else if String.eqb name "builtins.enumerate" then
    match args with [PList l] | [PTuple l] => Ok (PList (enum_from 0 l)) | _ => Stuck end
  else if String.eqb name "builtins.tuple" then
    match args with [PList l] | [PTuple l] => Ok (PTuple l) | _ => Stuck end
  else if String.eqb name "global:CONVERTING_TYPES.get" then
    match args with
    | [k] => Ok (match find (fun p => pv_eqb (fst p) k) ctypes with Some p => PRef (snd p) | None => PNone end)
    | _ => Stuck
    end
  else Stuck.

(* ------------------------------------------------------------------ calling objects, sorting with a key function *)
Section Hi.
Variable call_ref : nat -> list pv -> pv.
Variable lambdas : list (nat * fdef).               (* Gen/SrcNumberify.lambdas *)
Variables id_call amt_call pos_call inv_call : fdef.   (* the translated __call__ of the four converter classes *)

Definition find_fn (tbl : list (nat * fdef)) (k : nat) : option fdef :=
  option_map snd (find (fun p => Nat.eqb (fst p) k) tbl).

Definition apply_lambda (f x : pv) : res pv :=
  match f with
  | PRef k => match find_fn lambdas k with Some fd => call_function call_ref prims_base fd [x] | None => Stuck end
  | _ => Stuck
  end.

Definition sort_key (k : pv) : option (Z * list Z) :=
  match k with PTuple [PV (VInt n); PV (VStr s)] => Some (n, s) | _ => None end.
Definition key_le : Z * list Z -> Z * list Z -> bool := lex (on fst Z.leb) (on snd list_le).

Definition sorted_prim (l : list pv) (f : pv) (d : bool) : res pv :=
  bind (n_mapM (apply_lambda f) l) (fun keys =>
  match n_map_opt sort_key keys with
  | None => Stuck
  | Some ks => Ok (PList (map snd (py_sort (on fst key_le) d (combine ks l))))
  end).

Definition conv_fields (cls : Z) (n d i c : pv) : env :=
  if cls =? 0 then [("name", n); ("dtype", d); ("index", i)] else [("name", n); ("index", i); ("currency", c)].

Definition conv_class (cls : Z) : option fdef :=
  if cls =? 0 then Some id_call else if cls =? 1 then Some amt_call else if cls =? 2 then Some pos_call
  else if cls =? 3 then Some inv_call else None.

Definition apply_conv_obj (v : pv) (args : list pv) : res pv :=
  match v with
  | PTuple [PV (VInt 11); PV (VInt cls); n; d; i; c] =>
      match conv_class cls with
      | Some fd => bind (call_method call_ref prims_base fd (conv_fields cls n d i c) args) (fun r => Ok (snd r))
      | None => Stuck
      end
  | _ => Stuck
  end.

Definition prims1 (name : string) (args : list pv) : res pv :=
  if String.eqb name "builtins.sorted:key,reverse" then
    match args with [PList l; f; PV (VBool d)] => sorted_prim l f d | _ => Stuck end
  else if String.eqb name "apply" then
    match args with v :: rest => apply_conv_obj v rest | [] => Stuck end
  else prims_base name args.

Variable functions : list (nat * fdef).             (* Gen/SrcNumberify.functions: the census functions by number *)

Definition prims2 (name : string) (args : list pv) : res pv :=
  if String.eqb name "apply" then
    match args with
    | PRef k :: rest => match find_fn functions k with Some fd => call_function call_ref prims1 fd rest | None => Stuck end
    | v :: rest => apply_conv_obj v rest
    | [] => Stuck
    end
  else prims1 name args.
End Hi.
End Base.
