(* C12 (bld-inv2) -- what `first(x)` / `last(x)` compute over the values of a group, for operands that are Amounts,
   Positions or Inventories (PrimsAggInv.operand; NULL is None).  Definitions only; the tie to the translated
   query_env.First / Last is in Proofs/SrcAggFirstLast.v.

     First.update   keeps the slot once it is not None, otherwise stores the operand's value (which may again be None):
                    the first non-NULL value of the group, NULL when there is none
     Last.update    always stores the operand's value: the value of the last row, NULL included *)
From Coq Require Import List.
Import ListNotations.
From Verif Require Import Model.PrimsAggInv.
From Verif Require Model.Inventory.

Definition first_step (cur v : option operand) : option operand :=
  match cur with None => v | Some _ => cur end.
Definition last_step (cur v : option operand) : option operand := v.

Definition first_value (vals : list (option operand)) : option operand := fold_left first_step vals None.
Definition last_value (vals : list (option operand)) : option operand := fold_left last_step vals None.

(* declarative reading: the first non-NULL value / the last value *)
Fixpoint first_some (vals : list (option operand)) : option operand :=
  match vals with
  | [] => None
  | Some o :: _ => Some o
  | None :: t => first_some t
  end.
