(* C17. Executable model of beanquery/numberify.py (numberify_results and the
   three converter families), of the beancount values it takes apart
   (Amount, Position, Inventory) and of the Decimal operations involved
   (exact addition on (sign, coefficient, exponent) triples, quantize).

   What the code does, mirrored here:
   - numberify_results walks the columns with their index; a column whose
     datatype is exactly Amount / Position / Inventory is replaced by one
     converter per currency found in that column (the convert_col functions), every other
     column by an IdentityConverter; output description = (name, dtype) of the
     converters, output rows = every converter applied to every input row.
   - convert_col functions: currency census in a dict (first-occurrence order), one
     count per row and currency; converters in the order
     sorted(items, key=(count, currency), reverse=True).
   - AmountConverter: `vamount and vamount.currency == cur` (Amount is falsy
     when its number is zero) -> number, quantized when a formatter is given; else None.
   - PositionConverter: `pos and ...` (a Position is a 2-tuple: always truthy).
   - InventoryConverter: Inventory.get_currency_units(cur).number (ZERO + every
     lot of that currency, Decimal addition); zero -> None; otherwise the number,
     quantized when a formatter is given (like the other two converters, a non-zero
     number that quantizes to 0.00 stays 0.00; before the fix recorded in
     known-findings.txt the Inventory converter alone turned it into None).
   A NULL cell in an amount-like column is modelled as "nothing there" for all
   three datatypes (Amount/Position: `if vamount and`, Inventory: see D9).
   Ill-typed tables (a cell that is neither NULL nor of the column's datatype, a row
   whose length differs from the description) raise in Python: the model answers None. *)
From Coq Require Import ZArith List Bool.
Import ListNotations.
From Verif Require Import Base.Out Base.StableSort Base.PyValue.
Open Scope Z_scope.

Definition str := list Z.          (* code points *)
Definition currency := list Z.

Fixpoint str_eqb (a b : list Z) : bool :=
  match a, b with
  | [], [] => true
  | x :: a', y :: b' => (x =? y) && str_eqb a' b'
  | _, _ => false
  end.

Definition str_nonempty (s : list Z) : bool := match s with [] => false | _ => true end.

(* ---- decimal.Decimal: exact addition (context precision 28 never reached on the
   stated domain), truth value, quantize with ROUND_HALF_EVEN ---- *)
Definition dzero : dec := mkdec false 0 0.                 (* beancount.core.number.ZERO = Decimal() *)
Definition dec_is_zero (d : dec) : bool := dcoef d =? 0.   (* not bool(d) *)

Definition dec_add (a b : dec) : dec :=
  let e := Z.min (dexp a) (dexp b) in
  let s := dec_signed a * 10 ^ (dexp a - e) + dec_signed b * 10 ^ (dexp b - e) in
  if s =? 0 then mkdec (dneg a && dneg b) 0 e     (* exact zero: negative only for (-0) + (-0) *)
  else mkdec (s <? 0) (Z.abs s) e.

Definition quantize_exp (d : dec) (e : Z) : dec :=
  if e <=? dexp d then mkdec (dneg d) (dcoef d * 10 ^ (dexp d - e)) e
  else
    let p := 10 ^ (e - dexp d) in
    let q := dcoef d / p in
    let r := dcoef d mod p in
    let q' := if 2 * r <? p then q else if p <? 2 * r then q + 1 else if Z.odd q then q + 1 else q in
    mkdec (dneg d) q' e.

(* ---- beancount values ---- *)
Record amount := mkamt { anum : dec; acur : currency }.
Record cost := mkcost { cnum : dec; ccur : currency; cdate : Z }.
Record position := mkpos { punits : amount; pcost : option cost }.
Definition inventory := list position.     (* the dict's values, in iteration order *)

Inductive cellv :=
| CPlain (v : value)            (* None, bool, int, Decimal, str, date *)
| CAmount (a : amount)
| CPosition (p : position)
| CInventory (i : inventory).

Inductive dtype :=
| DPlain (k : Z)                (* any datatype that is not a key of CONVERTING_TYPES; 1 = Decimal *)
| DAmount | DPosition | DInventory.
Definition DDecimal : dtype := DPlain 1.
Definition column := (str * dtype)%type.
Definition crow := list cellv.
Definition cnull : cellv := CPlain VNull.
Definition cellat (idx : nat) (r : crow) : cellv := nth idx r cnull.

Definition pcur (p : position) : currency := acur (punits p).
Definition pnum (p : position) : dec := anum (punits p).

(* Inventory.get_currency_units(cur).number *)
Definition inv_units (cur : currency) (i : inventory) : dec :=
  fold_left (fun acc p => if str_eqb (pcur p) cur then dec_add acc (pnum p) else acc) i dzero.

(* set(currency for currency, _ in self.keys()) -- order irrelevant after the sort *)
Fixpoint dedup (l : list currency) : list currency :=
  match l with
  | [] => []
  | x :: t => if existsb (str_eqb x) t then dedup t else x :: dedup t
  end.

(* The currencies one cell contributes to the census of its column (each adds 1). *)
Definition cell_census (dt : dtype) (c : cellv) : list currency :=
  match dt, c with
  | DAmount, CAmount a =>
      if negb (dec_is_zero (anum a)) && str_nonempty (acur a) then [acur a] else []
  | DPosition, CPosition p => if str_nonempty (pcur p) then [pcur p] else []
  | DInventory, CInventory i => dedup (map pcur i)
  | _, _ => []
  end.

(* currency_map[cur] += 1 on a defaultdict(int), insertion order kept *)
Fixpoint incr (cur : currency) (m : list (currency * Z)) : list (currency * Z) :=
  match m with
  | [] => [(cur, 1)]
  | (c, n) :: t => if str_eqb c cur then (c, n + 1) :: t else (c, n) :: incr cur t
  end.

Definition census (dt : dtype) (rows : list crow) (idx : nat) : list (currency * Z) :=
  fold_left (fun m r => fold_left (fun m c => incr c m) (cell_census dt (cellat idx r)) m) rows [].

(* key=lambda item: (item[1], item[0]) : tuple comparison = count, then name *)
Definition census_le : currency * Z -> currency * Z -> bool :=
  lex (on snd Z.leb) (on fst list_le).

Definition col_currencies (dt : dtype) (rows : list crow) (idx : nat) : list currency :=
  map fst (py_sort census_le true (census dt rows idx)).

(* '{} ({})'.format(name, currency) *)
Definition fmt_name (name : str) (cur : currency) : str := name ++ [32; 40] ++ cur ++ [41].

Inductive conv :=
| KId (name : str) (dt : dtype) (idx : nat)
| KConv (name : str) (dt : dtype) (idx : nat) (cur : currency).  (* dt in Amount/Position/Inventory *)

Definition conv_name (k : conv) : str := match k with KId n _ _ => n | KConv n _ _ _ => n end.
Definition conv_dtype (k : conv) : dtype := match k with KId _ dt _ => dt | KConv _ _ _ _ => DDecimal end.

Definition convert_col (name : str) (dt : dtype) (rows : list crow) (idx : nat) : list conv :=
  match dt with
  | DPlain _ => [KId name dt idx]
  | _ => map (fun cur => KConv (fmt_name name cur) dt idx cur) (col_currencies dt rows idx)
  end.

Fixpoint build_convs (idx : nat) (cols : list column) (rows : list crow) : list conv :=
  match cols with
  | [] => []
  | (name, dt) :: t => convert_col name dt rows idx ++ build_convs (S idx) t rows
  end.

Definition cell_ok (dt : dtype) (c : cellv) : bool :=
  match dt, c with
  | DPlain _, CPlain _ => true
  | DAmount, CAmount _ | DPosition, CPosition _ | DInventory, CInventory _ => true
  | _, CPlain VNull => true
  | _, _ => false
  end.

Fixpoint row_ok (cols : list column) (r : crow) : bool :=
  match cols, r with
  | [], [] => true
  | (_, dt) :: cols', c :: r' => cell_ok dt c && row_ok cols' r'
  | _, _ => false
  end.

Definition well_typed (cols : list column) (rows : list crow) : bool := forallb (row_ok cols) rows.

Section Fmt.
(* dformat: None, or a DisplayFormatter seen only through quantize(number, currency) *)
Variable dformat : option (dec -> currency -> dec).

Definition quant (d : dec) (cur : currency) : dec :=
  match dformat with Some q => q d cur | None => d end.

(* the __call__ of the three converters on the cell drow[index] *)
Definition conv_cell (dt : dtype) (cur : currency) (c : cellv) : cellv :=
  match dt, c with
  | DAmount, CAmount a =>
      if negb (dec_is_zero (anum a)) && str_eqb (acur a) cur
      then CPlain (VDec (quant (anum a) cur)) else cnull
  | DPosition, CPosition p =>
      if str_eqb (pcur p) cur then CPlain (VDec (quant (pnum p) cur)) else cnull
  | DInventory, CInventory i =>
      let n := inv_units cur i in
      if dec_is_zero n then cnull else CPlain (VDec (quant n cur))
  | _, _ => cnull
  end.

Definition apply_conv (k : conv) (r : crow) : cellv :=
  match k with
  | KId _ _ idx => cellat idx r
  | KConv _ dt idx cur => conv_cell dt cur (cellat idx r)
  end.

Definition convert_row (convs : list conv) (r : crow) : crow := map (fun k => apply_conv k r) convs.

Definition numberify_core (cols : list column) (rows : list crow) : list column * list crow :=
  let convs := build_convs 0 cols rows in
  (map (fun k => (conv_name k, conv_dtype k)) convs, map (convert_row convs) rows).

Definition numberify_results (cols : list column) (rows : list crow) : option (list column * list crow) :=
  if well_typed cols rows then Some (numberify_core cols rows) else None.
End Fmt.

(* ---- the formatter obtained from a beancount DisplayContext: per currency an
   optional number of fractional digits; Decimal.quantize(10**-digits) ---- *)
Fixpoint lookup_digits (cur : currency) (t : list (currency * Z)) : option Z :=
  match t with
  | [] => None
  | (c, n) :: t' => if str_eqb c cur then Some n else lookup_digits cur t'
  end.

Definition dc_quantize (t : list (currency * Z)) (d : dec) (cur : currency) : dec :=
  match lookup_digits cur t with Some n => quantize_exp d (- n) | None => d end.

(* ---- serialisation ---- *)
Definition o_dtype (dt : dtype) : out :=
  match dt with DPlain k => ON k | DAmount => ON 100 | DPosition => ON 101 | DInventory => ON 102 end.
Definition o_cell (c : cellv) : out :=
  match c with
  | CPlain v => o_value v
  | CAmount _ => OL [ON 100] | CPosition _ => OL [ON 101] | CInventory _ => OL [ON 102]
  end.
Definition o_column (c : column) : out := OL [o_str (fst c); o_dtype (snd c)].

Definition numberify_out (fmt : option (list (currency * Z))) (cols : list column) (rows : list crow) : out :=
  o_option (fun p : list column * list crow =>
              OL [o_list o_column (fst p); o_list (o_list o_cell) (snd p)])
           (numberify_results (option_map dc_quantize fmt) cols rows).
