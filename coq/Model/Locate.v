(* The location a CompilationError carries: compiler.py raises `CompilationError(message, node)` with the AST node the
   error is about (-> exc.parseinfo = node.parseinfo), or without a node (no location).  The model AST has no text
   positions; a location is the PATH of that node in the statement AST, which the harness resolves in the parser's AST to
   the (pos, endpos) span and compares with the implementation's.  [locate e tbl] is defined for [comp e tbl = Err _]:
   Some path = the node handed to CompilationError, None = raised without a node (or with a synthesised node that has no
   parseinfo).
   Paths: operands of a function / AND / OR by index; operand of a unary, attribute, subscript: 0; binary: 0 1; BETWEEN:
   0 1 2; SELECT: [0; i] target i, [1] the FROM clause node (Table / From / subselect), [1; 0] the expression of a From
   node, [2] WHERE, [3; i] GROUP BY key i, [4] HAVING, [5; i] ORDER BY key i. *)
From Coq Require Import String ZArith List Bool.
Import ListNotations.
From Verif Require Import Base.Out Base.PyValue Model.Compile.
Open Scope nat_scope.
Open Scope string_scope.
Open Scope list_scope.

Definition path := list nat.
Definition under (i : nat) (o : option path) : option path := match o with Some p => Some (i :: p) | None => None end.
Definition under2 (i j : nat) (o : option path) : option path := under i (under j o).

Definition is_err {A E} (r : result A E) : bool := match r with Err _ => true | Ok _ => false end.
Definition is_ok {A E} (r : result A E) : bool := negb (is_err r).

(* location of an error raised by Compiler._function itself (operands compiled) *)
Definition function_loc (tbl : table) (fname : string) (ops : list cnode) : option path :=
  if fname =? "coalesce" then Some []
  else match function_lookup R.functions fname (map dtype ops) with
       | None => Some []
       | Some _ =>
           (* the rewrites compile synthesised nodes: Column('meta' / 'entry', parseinfo=node.parseinfo) carries the
              function's location, the synthesised Attribute / getitem Function nodes carry none *)
           if fname =? "meta" then (if is_err (compile_column tbl "meta") then Some [] else None)
           else if fname =? "entry_meta" then (if is_err (compile_column tbl "entry") then Some [] else None)
           else if fname =? "any_meta" then
             (if is_err (compile_column tbl "meta") then Some []
              else if is_err (compile_column tbl "entry") then Some [] else None)
           else None
       end.

Section Locate.
Variable sch : schema.
Variable pv : pvals.
Notation comp := (comp sch pv).
Definition node_of (tbl : table) (x : expr) : rnode := bind (comp x tbl) as_node.
Definition key_of (tb : table) (c : Z + expr) : kref :=
  match c with inl z => inl z | inr x => inr (key_name x, node_of tb x) end.
Definition consulted (nm : list (string * nat)) (c : Z + expr) : bool :=
  match c with
  | inl _ => false
  | inr x => match match key_name x with Some n => assoc_last n nm | None => None end with Some _ => false | None => true end
  end.

Fixpoint locate (e : expr) (tbl : table) {struct e} : option path :=
  let first_fail := fix ff (i : nat) (l : list expr) : option path :=
                      match l with
                      | [] => None
                      | x :: t => if is_err (node_of tbl x) then under i (locate x tbl) else ff (S i) t
                      end in
  let nodes := fix nodes (l : list expr) : result (list cnode) cerr :=
                 match l with
                 | [] => Ok []
                 | x :: t => do n <- node_of tbl x; do ns <- nodes t; Ok (n :: ns)
                 end in
  match e with
  | EColumn _ => Some []
  | EAnd args | EOr args => first_fail 0 args
  | EFunction f args =>
      match nodes args with
      | Err _ => first_fail 0 args
      | Ok ops => function_loc tbl f ops
      end
  | ESubscript x _ | EAttribute x _ | EUnary _ x =>
      if is_err (node_of tbl x) then under 0 (locate x tbl) else Some []
  | EBetween a lo hi =>
      if is_err (node_of tbl a) then under 0 (locate a tbl)
      else if is_err (node_of tbl lo) then under 1 (locate lo tbl)
      else if is_err (node_of tbl hi) then under 2 (locate hi tbl)
      else Some []
  | EBinary op l r =>
      if is_err (node_of tbl l) then under 0 (locate l tbl)
      else if is_in_op op then
        (if is_err (comp r tbl) then under 1 (locate r tbl) else Some [1])     (* 'subquery ...' errors: node.right *)
      else if is_err (node_of tbl r) then under 1 (locate r tbl) else Some []
  | ESelect targets fk fe wh grp ord piv lim dist =>
      match compile_from sch tbl fk (match fe with Some x => Some (comp x tbl) | None => None end) with
      | Err _ =>
          match fk, fe with
          | FKTable _, _ => Some [1]
          | FKSelect, Some sub => if is_err (comp sub tbl) then under 1 (locate sub tbl) else Some [1]
          | FKExpr _ _ _, Some x =>
              if is_err (node_of tbl x) then under2 1 0 (locate x tbl)
              else match node_of tbl x with
                   | Ok n => if has_agg n then None
                             else if negb (t_updatable tbl) then
                                    (* the OPEN/CLOSE order is checked first and carries no node *)
                                    match fk with
                                    | FKExpr (Some o) (Some (Some c)) _ => if (c <? o)%Z then None else Some [1]
                                    | _ => Some [1]
                                    end
                                  else None
                   | Err _ => None
                   end
          | FKExpr op cl _, None =>
              if match op, cl with Some o, Some (Some c) => (c <? o)%Z | _, _ => false end then None else Some [1]
          | _, _ => None
          end
      | Ok (tb, c_from) =>
          let tres :=
            match targets with
            | None => (wildcard_targets tb, None)
            | Some tlist =>
                ((fix go (l : list (expr * option string * string)) : result (list ctarget) cerr :=
                    match l with
                    | [] => Ok []
                    | (x, alias, text) :: t =>
                        do c <- compile_target x alias text (node_of tb x); do rest <- go t; Ok (c :: rest)
                    end) tlist,
                 (fix ff (i : nat) (l : list (expr * option string * string)) : option path :=
                    match l with
                    | [] => None
                    | (x, alias, text) :: t =>
                        if is_err (node_of tb x) then under2 0 i (locate x tb)
                        else if is_err (compile_target x alias text (node_of tb x)) then None
                        else ff (S i) t
                    end) 0 tlist)
            end in
          match fst tres with
          | Err _ => snd tres
          | Ok c_targets =>
              let wloc := match wh with
                          | Some x => if is_err (node_of tb x) then Some (under 2 (locate x tb)) else None
                          | None => None
                          end in
              match wloc with
              | Some l => l
              | None =>
                  if match wh with Some x => match node_of tb x with Ok n => has_agg n | Err _ => false end | None => false end
                  then None
                  else
                    (* GROUP BY: key i is compiled when the keys before it went through and it is not a target name *)
                    let nm := names_of c_targets in
                    let gloc :=
                      match grp with
                      | None => None
                      | Some (gkeys, _) =>
                      (fix ff (i : nat) (done todo : list (Z + expr)) {struct todo} : option (option path) :=
                         match todo with
                         | [] => None
                         | c :: t =>
                             if is_ok (group_loop (length c_targets) nm (map (key_of tb) done) c_targets [])
                                && consulted nm c
                                && match c with inr x => is_err (node_of tb x) | inl _ => false end
                             then Some (match c with inr x => under2 3 i (locate x tb) | inl _ => None end)
                             else ff (S i) (done ++ [c]) t
                         end) 0 [] gkeys
                      end in
                    match gloc with
                    | Some l => l
                    | None =>
                        match compile_group_by c_targets
                                (match grp with
                                 | Some (cols, hv) => Some (map (key_of tb) cols,
                                                            match hv with Some h => Some (node_of tb h) | None => None end)
                                 | None => None
                                 end) with
                        | Err _ =>
                            (* the keys went through or failed without a node; HAVING is compiled after them *)
                            match grp with
                            | Some (cols, Some h) =>
                                if is_ok (group_loop (length c_targets) nm (map (key_of tb) cols) c_targets [])
                                   && is_err (node_of tb h)
                                then under 4 (locate h tb) else None
                            | _ => None
                            end
                        | Ok (ts1, _, _) =>
                            let nm1 := names_of ts1 in
                            let b1 := length (visible ts1) in
                            (fix ff (i : nat) (done todo : list ((Z + expr) * bool)) {struct todo} : option path :=
                               match todo with
                               | [] => None
                               | (c, d) :: t =>
                                   if is_ok (order_loop b1 nm1 (map (fun cd => (key_of tb (fst cd), snd cd)) done) ts1 [])
                                      && consulted nm1 c
                                      && match c with inr x => is_err (node_of tb x) | inl _ => false end
                                   then match c with inr x => under2 5 i (locate x tb) | inl _ => None end
                                   else ff (S i) (done ++ [(c, d)]) t
                               end) 0 [] ord
                        end
                    end
              end
          end
      end
  | _ => None
  end.
End Locate.

(* compiler.check_subqueries: the first SELECT found in an unsupported position, in the order of ast.walk (children
   before their parent, fields in declaration order) *)
Definition is_select (e : expr) : bool := match e with ESelect _ _ _ _ _ _ _ _ _ => true | _ => false end.
Definition first_some_path (l : list (option path)) : option path :=
  fold_right (fun o acc => match o with Some p => Some p | None => acc end) None l.

Fixpoint viol (e : expr) {struct e} : option path :=
  let deep := fix deep (i : nat) (l : list expr) : option path :=
                match l with [] => None | x :: t => match viol x with Some p => Some (i :: p) | None => deep (S i) t end end in
  let own := fix own (i : nat) (l : list expr) : option path :=
               match l with [] => None | x :: t => if is_select x then Some [i] else own (S i) t end in
  match e with
  | EFunction _ args | EAnd args | EOr args =>
      match deep 0 args with Some p => Some p | None => own 0 args end
  | EAttribute x _ | ESubscript x _ | EUnary _ x =>
      match viol x with Some p => Some (0 :: p) | None => if is_select x then Some [0] else None end
  | EBinary op l r =>
      first_some_path [under 0 (viol l); under 1 (viol r);
                       (if is_select l then Some [0] else None);
                       (if is_select r && negb (is_in_op op) then Some [1] else None)]
  | EBetween a lo hi =>
      first_some_path [under 0 (viol a); under 1 (viol lo); under 2 (viol hi);
                       (if is_select a then Some [0] else None); (if is_select lo then Some [1] else None);
                       (if is_select hi then Some [2] else None)]
  | ESelect targets fk fe wh grp ord piv lim dist =>
      first_some_path
        [match targets with
         | Some l => (fix tl (i : nat) (l : list (expr * option string * string)) : option path :=
                        match l with
                        | [] => None
                        | (x, _, _) :: t =>
                            match viol x with
                            | Some p => Some (0 :: i :: p)
                            | None => if is_select x then Some [0; i] else tl (S i) t
                            end
                        end) 0 l
         | None => None
         end;
         match fe with
         | Some x => match fk with
                     | FKSelect => under 1 (viol x)
                     | _ => match viol x with
                            | Some p => Some (1 :: 0 :: p)
                            | None => if is_select x then Some [1; 0] else None
                            end
                     end
         | None => None
         end;
         match wh with Some x => under 2 (viol x) | None => None end;
         match grp with
         | Some (cols, hv) =>
             first_some_path
               [(fix gl (i : nat) (l : list (Z + expr)) : option path :=
                   match l with
                   | [] => None
                   | inl _ :: t => gl (S i) t
                   | inr x :: t => match viol x with Some p => Some (3 :: i :: p) | None => gl (S i) t end
                   end) 0 cols;
                match hv with Some h => under 4 (viol h) | None => None end;
                (fix gl (i : nat) (l : list (Z + expr)) : option path :=
                   match l with
                   | [] => None
                   | inl _ :: t => gl (S i) t
                   | inr x :: t => if is_select x then Some [3; i] else gl (S i) t
                   end) 0 cols;
                match hv with Some h => if is_select h then Some [4] else None | None => None end]
         | None => None
         end;
         (fix ol (i : nat) (l : list ((Z + expr) * bool)) : option path :=
            match l with
            | [] => None
            | (inl _, _) :: t => ol (S i) t
            | (inr x, _) :: t =>
                match viol x with
                | Some p => Some (5 :: i :: p)
                | None => if is_select x then Some [5; i] else ol (S i) t
                end
            end) 0 ord;
         match wh with Some x => if is_select x then Some [2] else None | None => None end]
  | _ => None
  end.

(* a path that denotes a node of the statement AST (the parser gives every such node a span of the statement text) *)
Fixpoint valid_path (e : expr) (p : path) {struct e} : bool :=
  let nth := fix nth (l : list expr) (i : nat) (q : path) : bool :=
               match l, i with
               | x :: _, O => valid_path x q
               | _ :: t, S j => nth t j q
               | [], _ => false
               end in
  match p with
  | [] => true
  | i :: q =>
      match e with
      | EFunction _ args | EAnd args | EOr args => nth args i q
      | EAttribute x _ | ESubscript x _ | EUnary _ x => match i with O => valid_path x q | _ => false end
      | EBinary _ l r => match i with O => valid_path l q | S O => valid_path r q | _ => false end
      | EBetween a lo hi =>
          match i with O => valid_path a q | S O => valid_path lo q | S (S O) => valid_path hi q | _ => false end
      | ESelect targets fk fe wh grp ord piv lim dist =>
          match i, q with
          | 0, j :: q' =>
              match targets with
              | Some l => (fix tn (l : list (expr * option string * string)) (j : nat) : bool :=
                             match l, j with
                             | (x, _, _) :: _, O => valid_path x q'
                             | _ :: t, S k => tn t k
                             | [], _ => false
                             end) l j
              | None => false
              end
          | 1, _ =>
              match fk, fe with
              | FKSelect, Some sub => valid_path sub q
              | FKTable _, _ => match q with [] => true | _ => false end
              | FKExpr _ _ _, Some x => match q with [] => true | O :: q' => valid_path x q' | _ => false end
              | FKExpr _ _ _, None => match q with [] => true | _ => false end
              | _, _ => false
              end
          | 2, _ => match wh with Some x => valid_path x q | None => false end
          | 3, j :: q' =>
              match grp with
              | Some (cols, _) => (fix gn (l : list (Z + expr)) (j : nat) : bool :=
                                     match l, j with
                                     | inr x :: _, O => valid_path x q'
                                     | _ :: t, S k => gn t k
                                     | _, _ => false
                                     end) cols j
              | None => false
              end
          | 4, _ => match grp with Some (_, Some h) => valid_path h q | _ => false end
          | 5, j :: q' => (fix on (l : list ((Z + expr) * bool)) (j : nat) : bool :=
                             match l, j with
                             | (inr x, _) :: _, O => valid_path x q'
                             | _ :: t, S k => on t k
                             | _, _ => false
                             end) ord j
          | _, _ => false
          end
      | _ => false
      end
  end.

(* the location of the rejection of a SELECT statement: Some (Some path) = CompilationError with that node;
   Some None = an error without location; None = the statement is accepted *)
Definition locate_stmt (sch : schema) (p : params) (e : expr) : option (option path) :=
  match compile sch p (SSelect e) with
  | Ok _ => None
  | Err _ =>
      match bind_params p (stmt_placeholders (SSelect e)) with
      | Err _ => Some None                                   (* ProgrammingError: no parseinfo *)
      | Ok pv =>
          let raw := if negb (subqueries_ok true e) then viol e
                     else locate sch pv e (default_table sch "postings") in
          (* only a path that denotes a node of the statement is a location (checked, see C05_location_valid) *)
          match raw with
          | Some pth => if valid_path e pth then Some (Some pth) else Some None
          | None => Some None
          end
      end
  end.

Definition o_path (p : path) : out := OL (map o_nat p).
Definition locate_out (user : schema) (p : params) (s : stmt) : out :=
  match s with
  | SSelect e => match locate_stmt (user ++ snapshot_schema) p e with
                 | None => OL [ON 0%Z]
                 | Some None => OL [ON 1%Z]
                 | Some (Some pth) => OL [ON 2%Z; o_path pth]
                 end
  | _ => OL [ON 3%Z]                                         (* BALANCES / JOURNAL / PRINT: locations refer to the cooked text *)
  end.

