(* Model of the PIVOT BY branch of query_execute.execute_query (lines 138-166):
   key set of the second pivot column (sorted), header (first/second column,
   then one block of the remaining columns per key), rows sorted by the first
   pivot column, grouped (itertools.groupby) and assembled by slice assignment. *)
From Coq Require Import ZArith List Bool.
Import ListNotations.
From Verif Require Import Base.Out Base.StableSort Base.PyValue Model.Order.
Open Scope Z_scope.

(* {row[col2] for row in rows}: first representative of every == class *)
Fixpoint nub_vals (seen : list value) (l : list value) : list value :=
  match l with
  | [] => []
  | v :: t => if existsb (val_eq v) seen then nub_vals seen t else v :: nub_vals (seen ++ [v]) t
  end.

Definition pivot_keys (col2 : nat) (rows : list row) : list value :=
  isort val_le (nub_vals [] (map (cell col2) rows)).

Definition other_cols (ncols col1 col2 : nat) : list nat :=
  filter (fun i => negb (Nat.eqb i col1) && negb (Nat.eqb i col2)) (seq 0 ncols).

Definition other (oc : list nat) (r : row) : list value := map (fun i => cell i r) oc.

(* keys.index(v): position of the first key equal (==) to v; ValueError cannot
   happen because every row's value is in the key set *)
Fixpoint index_of (v : value) (keys : list value) : nat :=
  match keys with
  | [] => 0
  | k :: t => if val_eq k v then 0 else S (index_of v t)
  end.

(* outrow[idx:idx+n] = vals  (len vals = n) *)
Definition set_block (out : list value) (idx n : nat) (vals : list value) : list value :=
  firstn idx out ++ vals ++ skipn (idx + n) out.

Definition build_row (keys : list value) (oc : list nat) (col2 : nat) (width : nat) (field1 : value)
           (group : list row) : list value :=
  fold_left (fun out r => set_block out (index_of (cell col2 r) keys * length oc + 1) (length oc) (other oc r))
            group (field1 :: repeat VNull (width - 1)).

(* itertools.groupby(rows, key=itemgetter(col1)): consecutive rows whose key equals the group's first key *)
Fixpoint groupby (col1 : nat) (cur : option (value * list row)) (rows : list row) : list (value * list row) :=
  match rows with
  | [] => match cur with None => [] | Some (k, g) => [(k, g)] end
  | r :: t =>
      match cur with
      | None => groupby col1 (Some (cell col1 r, [r])) t
      | Some (k, g) =>
          if val_eq (cell col1 r) k then groupby col1 (Some (k, g ++ [r])) t
          else (k, g) :: groupby col1 (Some (cell col1 r, [r])) t
      end
  end.

(* header entries: None = the leading first/second column; Some (key, column index) *)
Definition pivot_header (keys : list value) (oc : list nat) : list (option (value * nat)) :=
  match oc with
  | [] => [None]           (* zip() truncates: names has 1 + |keys| entries but datatypes only 1 *)
  | _ => None :: flat_map (fun k => map (fun c => Some (k, c)) oc) keys
  end.

Definition pivot (ncols col1 col2 : nat) (rows : list row) : list (option (value * nat)) * list row :=
  let oc := other_cols ncols col1 col2 in
  let keys := pivot_keys col2 rows in
  let header := pivot_header keys oc in
  let sorted := isort (on (cell col1) val_le) rows in
  (header, map (fun kg => build_row keys oc col2 (length header) (fst kg) (snd kg)) (groupby col1 None sorted)).

Definition o_header (h : list (option (value * nat))) : out :=
  OL (map (fun x => match x with None => OL [] | Some (k, c) => OL [o_value k; o_nat c] end) h).
Definition pivot_out ncols col1 col2 rows : out :=
  let '(h, rs) := pivot ncols col1 col2 rows in OL [o_header h; o_rows rs].
